#!/bin/bash
# Regenerate coq/gen/ParSites.v (what the *ParallelWithPoolSize methods of modeling.Mesh, their sequential
# counterparts and their wrappers say: partition arithmetic, loop bounds, callback / read / write indices; property
# C10) from the Go source ($VERIF_REPO or /repo) with tools/par2coq.  The file is rewritten only when its content
# changes; when the source cannot be translated the file is removed and the script exits 1 (the check reports it).
set -e
VERIF="$(cd "$(dirname "$0")/.." && pwd)"
REPO="${VERIF_REPO:-/repo}"
export GOFLAGS=-mod=mod GOPROXY=off GOSUMDB=off GOTOOLCHAIN=local
mkdir -p "$VERIF/build/tools" "${VERIF_COQ:-$VERIF/coq}/gen"
BIN="$VERIF/build/tools/par2coq"
newest=$(ls -t "$VERIF"/tools/par2coq/*.go "$VERIF"/tools/par2coq/go.mod | head -1)
if [ ! -x "$BIN" ] || [ "$newest" -nt "$BIN" ]; then
  ( cd "$VERIF/tools/par2coq" && go build -o "$BIN.tmp.$$" . ) && mv -f "$BIN.tmp.$$" "$BIN"
fi
exec "$BIN" -repo "$REPO" -o "${VERIF_COQ:-$VERIF/coq}/gen/ParSites.v"
