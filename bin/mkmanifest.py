#!/usr/bin/env python3
"""Regenerate MANIFEST.json from checks/*.py (CFG dicts) and properties.jsonl."""
import importlib.util, json, os, sys
VERIF = os.path.dirname(os.path.dirname(os.path.abspath(__file__)))
sys.path.insert(0, os.path.join(VERIF, "lib"))
props = [json.loads(l) for l in open(os.path.join(VERIF, "properties.jsonl")) if l.strip()]
checks, na = [], []
NA_REASONS = {}
nap = os.path.join(VERIF, "not_applicable.json")
if os.path.exists(nap):
    NA_REASONS = json.load(open(nap))
READY = set()
rp = os.path.join(VERIF, "checks", "ready.txt")
if os.path.exists(rp):
    READY = {l.strip() for l in open(rp) if l.strip() and not l.startswith("#")}
for p in props:
    pid = p["id"]
    path = os.path.join(VERIF, "checks", pid.lower() + ".py")
    if not os.path.exists(path) or pid not in READY:
        na.append({"property_id": pid, "reason": NA_REASONS.get(pid, "no check built yet for this property (work in progress); nothing is claimed for it")})
        continue
    spec = importlib.util.spec_from_file_location("c_" + pid, path)
    mod = importlib.util.module_from_spec(spec)
    spec.loader.exec_module(mod)
    cfg = mod.CFG
    checks.append({
        "property_id": pid,
        "quick_cmd": "bin/check %s quick" % pid,
        "thorough_cmd": "bin/check %s thorough" % pid,
        "evidence_file": "evidence/%s.json" % pid,
        "replay_cmd_template": "bin/check %s --replay {path}" % pid,
        "engine": "coq-proof+correspondence",
        "level_claimed": {"category": "proof", "text": cfg["level_text"], "design_ref": cfg.get("design_ref", "DESIGN.md §4 " + pid)},
        "level_note": cfg["level_note"],
        "technique": cfg["technique"],
    })
hooks_commits = []
hp = os.path.join(VERIF, "hooks.json")
if os.path.exists(hp):
    hooks_commits = json.load(open(hp)).get("source_commits", [])
man = {
    "version": 1,
    "setup_cmd": "bin/setup.sh",
    "hooks": {
        "guard": "verif",
        "enable": "go build -tags verif (harnesses are always built with the tag; hook files are add-only *_verif.go)",
        "baseline_off_cmd": "cd /repo && GOFLAGS=-mod=mod go test -json -vet=off -count=1 -timeout 25m ./...",
        "source_commits": hooks_commits,
        "add_only": True,
    },
    "engines": [{
        "name": "coq-proof+correspondence", "path": "bin/check",
        "serves_properties": [c["property_id"] for c in checks],
        "kind_free_text": "Coq 8.16.1 theorems about executable Gallina models (coq/theories), models tied to /repo on every run by "
                          "vm_compute evaluation of harness-produced cases (Go harness runs the implementation) and, for "
                          "translated files, by regeneration from the Go source on every run (tools/go2coq: C17, C19; tools/tab2coq: C09 tables, C18 cube table; tools/lockfacts: C13 lock and handler facts; tools/par2coq: C10 work-partition call sites)",
    }],
    "checks": checks,
    "not_applicable": na,
    "notes": "See DESIGN.md (approach, trusted base, findings) and FRAMEWORK.md (how checks are wired). known_findings.json lists recorded/fixed defects.",
}
json.dump(man, open(os.path.join(VERIF, "MANIFEST.json"), "w"), indent=1)
print("claimed:", [c["property_id"] for c in checks], "unclaimed:", len(na))
