#!/bin/bash
# Regenerate coq/gen/MarchTable.v from the marching-cubes tables of the Go source
# ($VERIF_REPO or /repo).  The file is rewritten only when its content changes.
set -e
VERIF="$(cd "$(dirname "$0")/.." && pwd)"
REPO="${VERIF_REPO:-/repo}"
export GOFLAGS=-mod=mod GOPROXY=off GOSUMDB=off GOTOOLCHAIN=local
mkdir -p "$VERIF/build/tools" "${VERIF_COQ:-$VERIF/coq}/gen"
( cd "$VERIF/tools/tab2coq" && go build -o "$VERIF/build/tools/tab2coq" . )
M="$REPO/modeling/marching"
"$VERIF/build/tools/tab2coq" -o "${VERIF_COQ:-$VERIF/coq}/gen/MarchTable.v" \
  -header "marching-cubes tables of modeling/marching/table.go and canvas.go" \
  "$M/table.go:edges" \
  "$M/table.go:triangulation" \
  "$M/table.go:cornerIndexAFromEdge" \
  "$M/table.go:cornerIndexBFromEdge" \
  "$M/canvas.go:cubeDataIndexIncrements" \
  "$M/canvas.go:cubeDataBlockPositions::sel" \
  "$M/canvas.go:marchingSectionSize"
