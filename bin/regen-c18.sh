#!/bin/bash
# Regenerate coq/gen/CubeTable.v (the triangle table cubeVertIndices of modeling/primitives/cube.go, property C18)
# from the Go source ($VERIF_REPO or /repo) with tools/tab2coq.  The file is rewritten only when its content changes.
set -e
VERIF="$(cd "$(dirname "$0")/.." && pwd)"
REPO="${VERIF_REPO:-/repo}"
export GOFLAGS=-mod=mod GOPROXY=off GOSUMDB=off GOTOOLCHAIN=local
mkdir -p "$VERIF/build/tools" "${VERIF_COQ:-$VERIF/coq}/gen"
( cd "$VERIF/tools/tab2coq" && go build -o "$VERIF/build/tools/tab2coq-c18.$$" . && mv -f "$VERIF/build/tools/tab2coq-c18.$$" "$VERIF/build/tools/tab2coq-c18" )
"$VERIF/build/tools/tab2coq-c18" -o "${VERIF_COQ:-$VERIF/coq}/gen/CubeTable.v" \
  -header "triangle table of primitives.Cube.Welded (modeling/primitives/cube.go)" \
  "$REPO/modeling/primitives/cube.go:cubeVertIndices"
