#!/bin/bash
# Build everything from files on disk only (offline): Coq development, Go harnesses, translator.
set -e
cd "$(dirname "$0")/.."
export GOFLAGS=-mod=mod GOPROXY=off GOSUMDB=off GOTOOLCHAIN=local
mkdir -p build/harness evidence
# translator (T properties) regenerates coq/gen from /repo
if [ -d tools/go2coq ]; then
  (cd tools/go2coq && go build -o ../../build/go2coq . )
  [ -x bin/regen.sh ] && bin/regen.sh || true
fi
bin/mkcoq.sh
(cd coq && timeout 3000 make -j16 -k) || echo "setup: some Coq targets failed (the per-property checks report which)"
cp /repo/go.sum harness/go.sum
for d in harness/cmd/*/; do
  n=$(basename "$d")
  (cd harness && go build -tags verif -o ../build/harness/$n ./cmd/$n) || echo "setup: harness $n failed to build"
done
echo setup done
