#!/bin/bash
# Build everything from files on disk only (offline): Coq development, Go harnesses, translator.
set -e
cd "$(dirname "$0")/.."
export GOFLAGS=-mod=mod GOPROXY=off GOSUMDB=off GOTOOLCHAIN=local
mkdir -p build/harness evidence
# translators (T properties) regenerate coq/gen from /repo; each regen script builds its own tool
mkdir -p coq/gen
for r in bin/regen*.sh; do
  [ -x "$r" ] && { "$r" || echo "setup: $r failed (the affected checks will report it)"; }
done
bin/mkcoq.sh
(cd coq && timeout 2400 make -j16 -k COQC="timeout 600 coqc") || echo "setup: some Coq targets failed (the per-property checks report which)"
cp /repo/go.sum harness/go.sum
for d in harness/cmd/*/; do
  n=$(basename "$d")
  (cd harness && go build -trimpath -tags verif -o ../build/harness/$n ./cmd/$n) || echo "setup: harness $n failed to build"
done
echo setup done
