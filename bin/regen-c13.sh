#!/bin/bash
# Regenerate coq/gen/LockFacts.v (lock facts of graph.Instance's methods, property C13) from the Go
# source ($VERIF_REPO or /repo).  The file is rewritten only when its content changes.
set -e
VERIF="$(cd "$(dirname "$0")/.." && pwd)"
REPO="${VERIF_REPO:-/repo}"
export GOFLAGS=-mod=mod GOPROXY=off GOSUMDB=off GOTOOLCHAIN=local
mkdir -p "$VERIF/build/tools" "${VERIF_COQ:-$VERIF/coq}/gen"
( cd "$VERIF/tools/lockfacts" && go build -o "$VERIF/build/tools/lockfacts" . )
"$VERIF/build/tools/lockfacts" -repo "$REPO" -o "${VERIF_COQ:-$VERIF/coq}/gen/LockFacts.v"
