#!/bin/bash
# Regenerate coq/_CoqProject and coq/Makefile from the files present (idempotent).
set -e
cd "${VERIF_COQ:-$(dirname "$0")/../coq}"
mkdir -p gen
{
  echo "-R theories PF"
  echo "-R gen PFGen"
  echo "-arg -w -arg -notation-overridden,-deprecated-hint-without-locality,-deprecated-instance-without-locality,-ambiguous-paths,-deprecated-syntactic-definition"
  find theories gen -name '*.v' | LC_ALL=C sort
} > _CoqProject.new
if ! cmp -s _CoqProject.new _CoqProject || [ ! -f Makefile ]; then
  mv _CoqProject.new _CoqProject
  coq_makefile -f _CoqProject -o Makefile >/dev/null
else
  rm -f _CoqProject.new
fi
