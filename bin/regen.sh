#!/bin/bash
# Binding T: regenerate coq/gen/*.v from the Go sources of $VERIF_REPO (default /repo) with tools/go2coq.
# A file is rewritten only when its content changed (make stays a no-op); a module that cannot be
# translated has its output removed and the script exits 1 (the checks report the broken obligation).
#   bin/regen.sh [spec files...]      default: tools/go2coq/specs/*.spec
set -e
cd "$(dirname "$0")/.."
export GOFLAGS=-mod=mod GOPROXY=off GOSUMDB=off GOTOOLCHAIN=local
REPO="${VERIF_REPO:-/repo}"
GEN="${VERIF_COQ:-coq}/gen"
mkdir -p build "$GEN"
BIN=build/go2coq
newest=$(ls -t tools/go2coq/*.go tools/go2coq/go.mod | head -1)
if [ ! -x "$BIN" ] || [ "$newest" -nt "$BIN" ]; then
  (cd tools/go2coq && go build -o "../../$BIN.tmp.$$" . ) && mv -f "$BIN.tmp.$$" "$BIN"
fi
if [ $# -eq 0 ]; then set -- tools/go2coq/specs/*.spec; fi
exec "$BIN" -repo "$REPO" -out "$GEN" "$@"
