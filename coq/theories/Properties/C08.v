(* C08 — PLY files written by other tools load to what the specification says.
   Statements only; proofs live in Formats/PlyReadProofs.v, vocabulary in Formats/PlyReadSpec.v,
   the model of formats/ply/reader*.go in Formats/PlyRead.v (tied to the Go code by Check/C08.v on every run).

   Reading guide.  A vertex element declares properties [ps : list (type * name)] in header order; a record
   assigns one word per property ([vals]); [encode_record] / [encode_vertices_*] / [enc_face_*] are the reference
   encoder of the specification's grammar (ascii tokens, little- and big-endian bytes).  The reader model is
   [read_vertices_bin/ascii] with the built readers [bs], [faces_bin], [parse_header]. *)
From PF Require Import Base.Bytes Formats.PlyRead Formats.PlyReadSpec Formats.PlyReadProofs Formats.PlyReadMesh Formats.PlyReadMore Formats.PlyText Formats.PlyTextProofs.
From Coq Require Import String Lia.
Open Scope list_scope.
Open Scope N_scope.

(* ===================================================================================================================
   THE PROPERTY, stated once.  "Any PLY file that follows the format specification using the supported scalar types -
   whatever the order of properties, type aliases, extra unrecognised properties, comment and obj_info lines, CRLF
   header line endings, list count and index types, and triangle or quad faces - loads without error to the mesh the
   file describes."

   a    : the abstract file (format ascii / little / big endian; vertex properties with one word per record; optional
          face element with, per face, one word list per list property);
   hl   : ANY header text another tool may write for it ([header_variant]): the canonical lines with type names
          replaced by aliases ([alias_line]: uchar/uint8, float/float32, ... in scalar and list properties) and with
          comment / obj_info / blank lines inserted anywhere after the format line; CRLF line ends never reach the
          parser ([crlf_ignored]: [header_lines (crlf text) = header_lines text]);
   b'   : the body of the reference encoder, or (ascii) that body with blank lines anywhere ([body_variant]);
   [vertex_element_ok]: non-empty list of distinctly named uchar / int / float / double properties IN ANY ORDER, values
          that fit; [face_element_ok]: no face element, or list properties with uchar/int/uint counts among which
          (anywhere) the int/uint index list, faces of 3 or 4 existing vertices, optionally a float/double texcoord
          list with two coordinates per corner;
   [known_finding_excluded]: THE EXPLICIT EXCLUSION - in an ascii file no uchar property is read through a Vector1
          reader (known finding ply:ascii-uchar-scalar-raw: such a property loads raw 0..255, see
          [unclaimed_become_scalars_ascii]); nothing is excluded for binary files.
   Conclusion: the model of ply.ReadMesh returns, without error, exactly [describe a]: vertex i carries the values of
   record i, every recognised group is its attribute, every other property a scalar attribute, every quad the fan
   (0,1,2),(0,2,3), per-corner texture coordinates the unwelded mesh.
   Two remarks.  (1) For a uchar (s, t) pair the Go code multiplies by 1/255 (vector2.DivByConstant) where model and
   [describe] divide by 255: one unit in the last place for 24 byte values; the check judges such files through
   Formats/PlyReadV2.v.  (2) Files that declare further elements after the face element (and carry their records after
   the face records): [ply_files_with_trailing_elements_load] below (round 4).
   =================================================================================================================== *)
Theorem ply_files_written_by_other_tools_load : forall a hl b',
  vertex_element_ok a -> face_element_ok a -> known_finding_excluded a ->
  header_variant (header_of a) hl -> body_variant (enc_body a) b' ->
  exists m, describe a = Ok m /\ read_mesh {| pf_header := hl; pf_body := b' |} = Ok m.
Proof. exact property_proof. Qed.
Print Assumptions ply_files_written_by_other_tools_load.

(* ROUND 4.  The same for files with further elements: [others] are elements another tool declares after vertex and
   face (edge, material, camera, ... - any names but vertex / face, any scalar and list properties, any counts), [x] is
   whatever it writes after the face records (their records).  Any header variant of the extended header and any body
   variant of the extended body load, without error, to the mesh the vertex and face elements describe. *)
Theorem ply_files_with_trailing_elements_load : forall a others x hl b',
  vertex_element_ok a -> face_element_ok a -> known_finding_excluded a ->
  Forall elem_good others -> Forall other_elem others ->
  header_variant (with_more_elems (header_of a) others) hl -> body_variant (body_app (enc_body a) x) b' ->
  exists m, describe a = Ok m /\ read_mesh {| pf_header := hl; pf_body := b' |} = Ok m.
Proof. exact property_with_trailing_elements_proof. Qed.
Print Assumptions ply_files_with_trailing_elements_load.

(* the step behind it, for EVERY reader configuration, header and body (no hypothesis on the file but that it loads):
   a successful load is not changed by elements declared after the ones the header has, nor by data after the body -
   the vertex loop, the face loops and the list readers never look past what the header promised *)
Theorem trailing_data_and_elements_ignored : forall gs u h others b x m,
  Forall other_elem others ->
  read_body gs u h b = Ok m -> read_body gs u (with_more_elems h others) (body_app b x) = Ok m.
Proof. exact trailing_ignored_proof. Qed.
Print Assumptions trailing_data_and_elements_ignored.

(* the pieces of the packaging: blank lines inside an ascii body are skipped by vertex and face loops alike, for every
   header and every line list; alias spellings give the same header *)
Theorem body_blanks_ignored : forall gs u h lines,
  read_body gs u h (BodyAscii lines) = read_body gs u h (BodyAscii (drop_blanks lines)).
Proof. exact body_blanks_ignored_proof. Qed.
Print Assumptions body_blanks_ignored.

Theorem header_aliases_ignored : forall magic fl ls ls', Forall2 alias_line ls ls' ->
  parse_header (magic :: fl :: ls') = parse_header (magic :: fl :: ls).
Proof. exact parse_header_alias. Qed.
Print Assumptions header_aliases_ignored.

Theorem whole_file_variants : forall a hl b',
  header_variant (header_of a) hl -> body_variant (enc_body a) b' ->
  read_mesh {| pf_header := hl; pf_body := b' |} = read_mesh (encode a).
Proof. exact whole_file_variants_proof. Qed.
Print Assumptions whole_file_variants.

(* =================================== the theorems the property is composed of =================================== *)

(* ---- "vertex i carries exactly the values of record i" ---- *)

(* Field level.  For every list of declared properties (any order, any mix of the eight scalar types), every record
   whose values fit their types, each of the three encodings and every declared property: the layout function (byte
   offset / column computed from header order and type sizes, as the Go builders do: [find_v1_is_offsets]) finds
   the property, and reading a field of the declared type at that offset of the encoded record returns exactly
   the value the record assigns to the property. *)
Theorem layout_reads_record : forall (f : fmt) (ps : vprops) (vals : list N) (name : string),
  record_ok ps vals -> In name (names ps) ->
  exists off t, offsets (is_bin f) ps name = Some (off, t) /\
                value_of f ps vals name <> None /\
                read_field f off t (encode_record f ps vals) = value_of f ps vals name.
Proof. exact layout_reads_record_proof. Qed.
Print Assumptions layout_reads_record.

(* the layout function IS what Vector1PropertyReader.build{Ascii,Binary} computes *)
Theorem find_v1_is_offsets : forall bin name (ps : vprops),
  find_v1 bin name (scalars ps) 0 = Ok (offsets bin ps name).
Proof. intros. apply find_v1_offsets. Qed.
Print Assumptions find_v1_is_offsets.

(* Record level, binary (both byte orders).  For ANY set of built readers: reading n records from the encoded
   vertex block yields, as row i, what the readers return on the encoding of record i, and leaves exactly the
   bytes that follow the block (so the face element starts where it should). *)
Theorem vertex_i_is_record_i : forall e (ps : vprops) (recs : list (list N)) bs rest rows,
  Forall (record_ok ps) recs ->
  mapR (fun rec => row_bin e bs (enc_record_bin e (map fst ps) rec)) recs = Ok rows ->
  read_vertices_bin e bs (record_size (scalars ps)) (List.length recs) (encode_vertices_bin e ps recs ++ rest) = Ok (rows, rest) /\
  forall i rec, nth_error recs i = Some rec ->
    exists row, nth_error rows i = Some row /\ row_bin e bs (enc_record_bin e (map fst ps) rec) = Ok row.
Proof. exact vertex_i_is_record_i_bin_proof. Qed.
Print Assumptions vertex_i_is_record_i.

(* Record level, ascii. *)
Theorem vertex_i_is_record_i_ascii : forall (ps : vprops) (recs : list (list N)) bs rest rows,
  ps <> [] -> Forall (fun rec => List.length rec = List.length ps) recs ->
  mapR (fun rec => row_ascii bs (enc_record_ascii (map fst ps) rec)) recs = Ok rows ->
  read_vertices_ascii bs (List.length ps) (encode_vertices_ascii ps recs ++ rest) (List.length recs) = Ok (rows, rest) /\
  forall i rec, nth_error recs i = Some rec ->
    exists row, nth_error rows i = Some row /\ row_ascii bs (enc_record_ascii (map fst ps) rec) = Ok row.
Proof. exact vertex_i_is_record_i_ascii_proof. Qed.
Print Assumptions vertex_i_is_record_i_ascii.

(* ---- extra unrecognised properties become scalar attributes with the record's value ---- *)

(* LoadUnspecifiedProperties: after the group readers bs, exactly the properties none of them claims get a scalar
   reader named after the property, in header order (properties with distinct names) *)
Theorem unclaimed_become_scalars : forall bin (all todo : vprops) bs,
  NoDup (names todo) ->
  add_unclaimed bin (scalars all) (scalars todo) bs = Ok (bs ++ unclaimed_readers bin all bs todo).
Proof. intros. apply add_unclaimed_spec. assumption. Qed.
Print Assumptions unclaimed_become_scalars.

(* binary: the reader LoadUnspecifiedProperties builds for a declared property exists, carries the property's own
   name as attribute, and on the encoded record returns the float64 image of the record's word (uchar -> b/255,
   int -> float64(int32), float -> widened, double -> as stored); the four other scalar types are reported as
   unimplemented by the Go code. *)
Theorem unclaimed_become_scalars_bin : forall e attr name (ps : vprops) vals,
  record_ok ps vals -> In name (names ps) ->
  exists b t w, build_v1 true attr name (scalars ps) = Ok (Some b) /\ b_attr b = attr /\
    field_word ps vals name = Some (t, w) /\
    read_bin_row e b (enc_record_bin e (map fst ps) vals) =
      (if vertex_ty_ok t then dor v <- mesh_value t w; Ok [v] else Err EDeclared).
Proof. exact scalar_reader_bin. Qed.
Print Assumptions unclaimed_become_scalars_bin.

(* ascii: the same reader returns the float64 the token denotes; for int, float and double that is the value
   the binary reader computes ([ascii_value_agrees]); for uchar it is the RAW byte value, not b/255 — the pinned
   behaviour recorded as known finding ply:ascii-uchar-scalar-raw. *)
Theorem unclaimed_become_scalars_ascii : forall attr name (ps : vprops) vals,
  List.length vals = List.length ps -> In name (names ps) ->
  exists b t w, build_v1 false attr name (scalars ps) = Ok (Some b) /\ b_attr b = attr /\
    field_word ps vals name = Some (t, w) /\
    read_ascii_row b (enc_record_ascii (map fst ps) vals) =
      of_opt EDeclared (option_map (fun v => [v]) (tok_f64 (tok_of_word t w))).
Proof. exact scalar_reader_ascii. Qed.
Print Assumptions unclaimed_become_scalars_ascii.

Theorem ascii_value_agrees : forall t w, t = Int \/ t = Float \/ t = Double ->
  mesh_value t w = of_opt EDeclared (tok_f64 (tok_of_word t w)).
Proof. exact tok_value_agrees. Qed.
Print Assumptions ascii_value_agrees.

(* ---- recognised property groups become the corresponding attributes ---- *)

(* Under distinct property names, wherever the members stand in the header and whatever stands between them: the
   vector reader of a group (x y z / nx ny nz / red green blue alpha / s t / ...) is built EXACTLY when every member
   is declared and all have one type (the type of the first declared member); its offsets are the members' layout
   offsets ([offsets], the function of [layout_reads_record]), its scalar type that common type.  Both for byte
   offsets (binary) and columns (ascii). *)
Theorem groups_become_attributes : forall bin attr ms (ps : vprops),
  NoDup (names ps) ->
  build_vec bin attr ms (scalars ps) = Ok (vec_reader bin attr ms ps).
Proof. exact groups_become_attributes_proof. Qed.
Print Assumptions groups_become_attributes.

(* ... and the attribute row of vertex i holds exactly the members' values of record i.  binary: *)
Theorem group_values_are_record_values : forall e attr ms (ps : vprops) vals b,
  vec_reader true attr ms ps = Some b -> record_ok ps vals ->
  read_bin_row e b (enc_record_bin e (map fst ps) vals) =
  (if vertex_ty_ok (b_ty b) then mapR (member_value ps vals (b_ty b)) ms else Err EDeclared).
Proof. exact group_reads_members_bin_proof. Qed.
Print Assumptions group_values_are_record_values.

(* ascii: the same values for uchar (divided by 255 as in binary files), int, float and double groups *)
Theorem group_values_are_record_values_ascii : forall attr ms (ps : vprops) vals b,
  vec_reader false attr ms ps = Some b -> record_ok ps vals -> vertex_ty_ok (b_ty b) = true ->
  read_ascii_row b (enc_record_ascii (map fst ps) vals) = mapR (member_value ps vals (b_ty b)) ms.
Proof. exact group_reads_members_ascii_proof. Qed.
Print Assumptions group_values_are_record_values_ascii.

(* colour groups: the four-member reader when red, green, blue and alpha share one type, otherwise the RGB reader
   alone - independent of where alpha is declared (the behaviour after fixes 04b414a and 473a5bb) *)
Theorem colour_group_fallback : forall bin g r gn b a (ps : vprops),
  g_members g = [r; gn; b; a] -> g_ignorable_w g = true -> NoDup (names ps) ->
  build_group bin g (scalars ps) =
  Ok (match vec_reader bin (g_attr g) [r; gn; b; a] ps with
      | Some x => Some x
      | None => vec_reader bin (g_attr g) [r; gn; b] ps
      end).
Proof. exact colour_fallback_proof. Qed.
Print Assumptions colour_group_fallback.

(* ---- list count and index types ---- *)

(* uchar, int and uint counts, both byte orders: the count is read back as written and exactly its bytes are consumed *)
Theorem count_types_ok : forall e ct n rest,
  count_ty_ok ct = true -> word_fits ct n -> n < 2 ^ 31 ->
  read_count e ct (enc_word e ct n ++ rest) = Ok (Z.of_N n, rest).
Proof. exact read_count_enc_proof. Qed.
Print Assumptions count_types_ok.

(* any list property (supported count type; items of ANY of the eight types) is consumed exactly, and changes the
   reader state as [face_step] says: index buffer for int/uint items of the index property, texture buffer for
   float/double items of the texcoord property, nothing for every other list property *)
Theorem list_property_consumed : forall e ip tp rs f k st rest,
  Forall2 list_ok rs f ->
  face_bin e rs k ip tp (enc_face_bin e rs f ++ rest) st = Ok (face_fold rs f k ip tp st, rest).
Proof. intros. apply face_bin_enc. assumption. Qed.
Print Assumptions list_property_consumed.

(* ---- "each quad contributes the two fan triangles over its listed vertices" ---- *)

(* binary files (both byte orders), face element made of any list properties (none called texcoord), the index
   property at position ip with int or uint items, every face listing three or four vertices: the index buffer of
   the mesh is the concatenation, in face order, of the triangle itself or of the fan (0,1,2),(0,2,3).
   (named _partial because it is the no-texcoord case; [quad_fan_texcoord_bin] / [quad_fan_texcoord_ascii] add the
   texcoord list, [read_mesh_triangles] / [read_mesh_textured] the whole file including the unweld step) *)
Theorem quad_fan_partial : forall e rs ip ct lt (fs : list (list (list N))) rest st,
  nth_error rs ip = Some (ct, lt) -> index_ty_ok lt = true ->
  Forall (face_ok rs ip) fs ->
  faces_bin e rs ip None (flat_map (enc_face_bin e rs) fs ++ rest) (List.length fs) st =
  Ok (flat_map (fun f => fan_tris (map signed32 (nth ip f []))) fs, []).
Proof. exact quad_fan_bin_proof. Qed.
Print Assumptions quad_fan_partial.

(* binary files whose face element also has a texcoord list (float or double items, anywhere among the list
   properties): the reader returns the fan of the corner indices AND the fan of the per-corner texture coordinates
   (quad: corners 0,1,2 and 0,2,3), from which MeshReader.Read builds the unwelded mesh *)
Theorem quad_fan_texcoord_bin : forall e rs ip tk ct lt ctt ltt (fs : list (list (list N))) rest st,
  nth_error rs ip = Some (ct, lt) -> index_ty_ok lt = true ->
  nth_error rs tk = Some (ctt, ltt) -> (ltt = Float \/ ltt = Double) ->
  List.length (fs_ibuf st) = 4%nat -> List.length (fs_tbuf st) = 8%nat ->
  Forall (tex_face_ok rs ip tk) fs ->
  faces_bin e rs ip (Some tk) (flat_map (enc_face_bin e rs) fs ++ rest) (List.length fs) st =
  Ok (flat_map (fun f => fan_tris (map signed32 (nth ip f []))) fs,
      flat_map (fun f => fan (pairs (map (tex_value ltt) (nth tk f []))) []) fs).
Proof. exact quad_fan_tex_bin_proof. Qed.
Print Assumptions quad_fan_texcoord_bin.

(* ascii files with a texcoord list, one face per line, vertex numbers below 2^31 *)
Theorem quad_fan_texcoord_ascii : forall rs ip tk ct lt ctt ltt (fs : list (list (list N))) st,
  rs <> [] -> nth_error rs ip = Some (ct, lt) -> index_ty_ok lt = true ->
  nth_error rs tk = Some (ctt, ltt) -> (ltt = Float \/ ltt = Double) ->
  List.length (fs_ibuf st) = 4%nat -> List.length (fs_tbuf st) = 8%nat ->
  Forall (fun f => List.length f = List.length rs /\
                   ((List.length (nth ip f []) = 3%nat /\ List.length (nth tk f []) = 6%nat) \/
                    (List.length (nth ip f []) = 4%nat /\ List.length (nth tk f []) = 8%nat)) /\
                   Forall (fun w => w < 2 ^ 31) (nth ip f [])) fs ->
  faces_ascii rs ip (Some tk) (map (enc_face_ascii rs) fs) (List.length fs) st =
  Ok (flat_map (fun f => fan_tris (map signed32 (nth ip f []))) fs,
      flat_map (fun f => fan (pairs (map (tex_value ltt) (nth tk f []))) []) fs).
Proof. exact quad_fan_tex_ascii_proof. Qed.
Print Assumptions quad_fan_texcoord_ascii.

(* the same for ascii files, one face per line (int items read signed, uint items unsigned) *)
Theorem quad_fan_ascii_partial : forall rs ip ct lt (fs : list (list (list N))) st,
  rs <> [] -> nth_error rs ip = Some (ct, lt) -> index_ty_ok lt = true ->
  Forall (fun f => List.length f = List.length rs /\
                   (List.length (nth ip f []) = 3%nat \/ List.length (nth ip f []) = 4%nat)) fs ->
  faces_ascii rs ip None (map (enc_face_ascii rs) fs) (List.length fs) st =
  Ok (flat_map (fun f => fan_tris (map (idx_ascii lt) (nth ip f []))) fs, []).
Proof. exact quad_fan_ascii_proof. Qed.
Print Assumptions quad_fan_ascii_partial.

(* ROUND 4: "each quad contributes the two fan triangles over its listed vertices", in full.  One statement for face
   elements with and without a texcoord list ([tp] = position of the texcoord list, if any; [faces_ok]: 3 or 4 corners,
   with a texcoord list twice as many float / double coordinates), any other list properties around them, index list
   anywhere with int / uint items, whatever follows the face block ([rest]), from the state MeshReader.Read starts in:
   the index buffer is the concatenation of triangle / fan (0,1,2),(0,2,3) in face order, the per-corner texture
   coordinates the same fan of the coordinate pairs.  Binary (both byte orders): *)
Theorem quad_fan : forall e rs ip tp ct lt (fs : list (list (list N))) rest,
  nth_error rs ip = Some (ct, lt) -> index_ty_ok lt = true -> faces_ok rs ip tp fs ->
  faces_bin e rs ip tp (flat_map (enc_face_bin e rs) fs ++ rest) (List.length fs) fstate0 =
  Ok (idx_fans ip fs, uv_fans rs tp fs).
Proof. exact quad_fan_proof. Qed.
Print Assumptions quad_fan.

(* ... and ascii, one face per line, vertex numbers below 2^31, any lines after the faces: the same mesh data *)
Theorem quad_fan_ascii : forall rs ip tp ct lt (fs : list (list (list N))) rest,
  nth_error rs ip = Some (ct, lt) -> index_ty_ok lt = true -> faces_ok rs ip tp fs ->
  Forall (fun f => Forall (fun w => w < 2 ^ 31) (nth ip f [])) fs ->
  faces_ascii rs ip tp (map (enc_face_ascii rs) fs ++ rest) (List.length fs) fstate0 =
  Ok (idx_fans ip fs, uv_fans rs tp fs).
Proof. exact quad_fan_ascii_full_proof. Qed.
Print Assumptions quad_fan_ascii.

(* non-vacuity: a quad and a triangle with an extra list before, texture coordinates after the indices; bytes follow *)
Example quad_fan_example :
  let rs := [(UChar, UChar); (UChar, Int); (UChar, Float)] in
  let fs := [[[7]; [0; 1; 2; 3]; [0; 0; 1065353216; 0; 1065353216; 1065353216; 0; 1065353216]];
             [[]; [3; 1; 0]; [0; 1065353216; 1065353216; 0; 0; 0]]] in
  faces_ok rs 1 (Some 2%nat) fs /\
  faces_bin BEnd rs 1 (Some 2%nat) (flat_map (enc_face_bin BEnd rs) fs ++ [1; 2; 3]) 2 fstate0 =
  Ok ([0; 1; 2; 0; 2; 3; 3; 1; 0]%Z, uv_fans rs (Some 2%nat) fs).
Proof.
  cbv zeta. split; [|vm_compute; reflexivity].
  split; [eexists _, _; split; [reflexivity|left; reflexivity]|].
  assert (L : forall r ws, count_ty_ok (fst r) = true -> N.of_nat (List.length ws) < 256 ->
                Forall (word_fits (snd r)) ws -> list_ok r ws).
  { intros r ws C Ln F. unfold list_ok. repeat split; try assumption; [|lia].
    destruct r as [[] ?]; try discriminate C; unfold word_fits; cbn; lia. }
  apply Forall_cons; [split; [|right; split; reflexivity]|apply Forall_cons; [split; [|left; split; reflexivity]|constructor]];
    (apply Forall2_cons; [|apply Forall2_cons; [|apply Forall2_cons; [|apply Forall2_nil]]]); apply L; cbn; try reflexivity; try lia;
    repeat constructor; unfold word_fits; cbn; lia.
Qed.

(* ---- comment and obj_info lines, blank lines, aliases ---- *)

(* noise lines inserted anywhere between the format line and end_header change neither the format nor the
   declared elements and properties (only the comment list); for CRLF see [crlf_ignored] *)
Theorem header_noise_ignored : forall magic fl body noisy,
  fl <> [] -> with_noise body noisy ->
  strip_comments (parse_header (magic :: fl :: noisy)) = strip_comments (parse_header (magic :: fl :: body)).
Proof. exact header_noise_ignored_proof. Qed.
Print Assumptions header_noise_ignored.

(* CRLF header line endings, inside the model: [header_lines] is readLine (split at '\n', every '\r' dropped) followed
   by strings.Fields; a header text with CRLF line ends gives the parser exactly the lines of the LF text ... *)
Theorem crlf_ignored : forall text, header_lines (crlf text) = header_lines text.
Proof. exact crlf_ignored_proof. Qed.
Print Assumptions crlf_ignored.

(* ... and, more generally, two header texts that differ only in carriage returns, wherever they stand *)
Theorem cr_ignored : forall t1 t2, strip_cr t1 = strip_cr t2 -> header_lines t1 = header_lines t2.
Proof. exact cr_ignored_proof. Qed.
Print Assumptions cr_ignored.

(* char/int8, uchar/uint8, short/int16, ushort/uint16, int/int32, uint/uint32, float/float32, double/float64 *)
Theorem aliases_same_type : Forall (fun p => same_type (fst p) (snd p)) alias_pairs.
Proof. exact aliases_same_type_proof. Qed.
Print Assumptions aliases_same_type.

(* a scalar or list property line spelled with either name of a type is the same declaration *)
Theorem alias_lines_agree : Forall (fun p => forall name st,
    hstep ["property"; fst p; name] st = hstep ["property"; snd p; name] st /\
    (forall lt, hstep ["property"; "list"; fst p; lt; name] st = hstep ["property"; "list"; snd p; lt; name] st) /\
    (forall ct, hstep ["property"; "list"; ct; fst p; name] st = hstep ["property"; "list"; ct; snd p; name] st))%string alias_pairs.
Proof. exact alias_lines_agree_proof. Qed.
Print Assumptions alias_lines_agree.

(* ---- whole files ---- *)

(* the reader's group construction and describe's formulation accept the same groups with the same type:
   [vec_reader] (every member declared with the type of the first DECLARED member — what build_vec computes, see
   [groups_become_attributes]) against [group_cols] (every member present with the type of the first MEMBER — what
   [describe] uses) *)
Theorem groups_equal_describe : forall bin attr ms (ps : vprops), NoDup (names ps) -> ms <> [] ->
  (forall b, vec_reader bin attr ms ps = Some b -> exists cols, group_cols ms ps = Some (cols, b_ty b)) /\
  (forall cols t, group_cols ms ps = Some (cols, t) -> exists b, vec_reader bin attr ms ps = Some b /\ b_ty b = t).
Proof. exact vec_reader_iff_group_cols. Qed.
Print Assumptions groups_equal_describe.

(* every reader MeshReader.Read builds (group readers, colour fallback, LoadUnspecifiedProperties) stands, in order,
   against one entry of describe's attribute list: same attribute name, same dimension, same claimed properties, and
   on the encoding of every record the reader returns exactly the values describe assigns.  [raw_free] excludes, for
   ascii files only, uchar properties read through a Vector1 reader (known finding ply:ascii-uchar-scalar-raw). *)
Theorem readers_agree_with_describe : forall f gs (ps : vprops),
  NoDup (names ps) -> supported ps -> wf_groups gs -> Forall (raw_free f) (spec_entries gs ps) ->
  exists bs, build_readers (is_bin f) gs true (scalars ps) = Ok bs /\ Forall2 (agrees f ps) bs (spec_entries gs ps).
Proof. exact build_readers_agree. Qed.
Print Assumptions readers_agree_with_describe.

(* the header parser recovers exactly the declared format, elements and properties (any number, any order, any
   types, scalar and list) from the canonical header text *)
Theorem parse_render_header : forall h, Forall elem_good (h_elems h) -> h_comments h = [] ->
  parse_header (render_header h) = Ok h.
Proof. exact parse_render_header_proof. Qed.
Print Assumptions parse_render_header.

(* END TO END, point clouds.  For every abstract file without a face element — any non-empty list of distinctly named
   uchar/int/float/double properties in any order, any number of records whose values fit their types, ascii /
   little-endian / big-endian (ascii: no raw uchar scalar, the known finding) — ply.ReadMesh's model applied to the
   reference encoding returns, without error, exactly the mesh the file describes: point topology, identity indices,
   every recognised group as its attribute and every other property as a scalar attribute, with the values of record i
   at vertex i. *)
Theorem read_mesh_points : forall a, pointcloud_ok a ->
  read_mesh (encode a) = describe a /\ exists m, describe a = Ok m.
Proof. exact read_mesh_points_proof. Qed.
Print Assumptions read_mesh_points.

(* ... and the same with comment, obj_info and blank lines inserted anywhere after the format line *)
Theorem read_mesh_points_noisy : forall a noisy, pointcloud_ok a ->
  with_noise (header_body (header_of a)) noisy ->
  read_mesh {| pf_header := ["ply"%string] :: ["format"%string; fmt_name (a_fmt a); "1.0"%string] :: noisy;
               pf_body := enc_body a |} = describe a.
Proof. exact read_mesh_points_noisy_proof. Qed.
Print Assumptions read_mesh_points_noisy.

(* END TO END, triangle meshes.  The same for every abstract file WITH a face element: list properties with
   lower-case names and uchar/int/uint counts, among them (anywhere) the index property vertex_index / vertex_indices
   with int or uint items, no texcoord list, every face with three or four vertex numbers (< 2^31): the model of
   ply.ReadMesh returns triangle topology, each triangle / the fan (0,1,2),(0,2,3) of each quad in face order, and the
   vertex attributes as above — for ascii, little-endian and big-endian files.
   Files whose face element also has a texcoord list: [read_mesh_textured] below. *)
Theorem read_mesh_triangles : forall a fps ip ct lt, trimesh_ok a fps ip ct lt ->
  read_mesh (encode a) = describe a /\ exists m, describe a = Ok m.
Proof. exact read_mesh_tris_proof. Qed.
Print Assumptions read_mesh_triangles.

Theorem read_mesh_triangles_noisy : forall a fps ip ct lt noisy, trimesh_ok a fps ip ct lt ->
  with_noise (header_body (header_of a)) noisy ->
  read_mesh {| pf_header := ["ply"%string] :: ["format"%string; fmt_name (a_fmt a); "1.0"%string] :: noisy;
               pf_body := enc_body a |} = describe a.
Proof. exact read_mesh_tris_noisy_proof. Qed.
Print Assumptions read_mesh_triangles_noisy.

(* ---- non-vacuity: a big-endian file with a double before the position, colour bytes, a quad and a triangle ---- *)
Example c08_example :
  let ps : vprops := [(Double, "time"); (Float, "x"); (UChar, "red"); (Float, "y"); (Float, "z"); (Int, "id")]%string in
  let rec := [4591870180066957722; 1065353216; 255; 1073741824; 1077936128; 16777217] in
  let a := {| a_fmt := BinBE; a_vprops := ps; a_verts := [rec; rec; rec; rec];
              a_fprops := Some [(UChar, Int, "vertex_indices"%string)]; a_faces := [[[0; 1; 2; 3]]; [[3; 1; 0]]] |} in
  offsets true ps "id" = Some (21%nat, Int) /\
  read_field BinBE 21 Int (encode_record BinBE ps rec) = Some (FWord 16777217) /\
  option_map m_idx (match read_mesh (encode a) with Ok m => Some m | Err _ => None end) = Some [0; 1; 2; 0; 2; 3; 3; 1; 0]%Z /\
  (match read_mesh (encode a), describe a with Ok m, Ok m' => mesh_eqb m m' | _, _ => false end) = true.
Proof. vm_compute. repeat split; reflexivity. Qed.

Ltac fits := unfold record_ok; repeat (apply Forall2_cons || apply Forall2_nil); unfold word_fits; cbn; lia.

(* non-vacuity of the end-to-end hypotheses: an ascii point cloud with the position split around a colour group and an
   int scalar, and a big-endian mesh with a double before the position, a quad and a triangle *)
Example pointcloud_ok_example :
  let ps : vprops := [(Float, "y"); (UChar, "red"); (UChar, "green"); (Float, "x"); (UChar, "blue"); (Int, "id"); (Float, "z")]%string in
  pointcloud_ok {| a_fmt := ASCII; a_vprops := ps;
                   a_verts := [[1073741824; 255; 128; 1065353216; 0; 16777217; 1077936128]; [0; 1; 2; 3; 4; 5; 6]];
                   a_fprops := None; a_faces := [] |}.
Proof.
  cbv zeta. unfold pointcloud_ok. cbn [a_fmt a_vprops a_verts a_fprops a_faces].
  split; [reflexivity|]. split; [reflexivity|]. split; [discriminate|].
  split; [repeat constructor; cbn; intuition discriminate|].
  split; [repeat constructor|].
  split; [repeat constructor; fits|].
  vm_compute spec_entries. repeat constructor; intros _; discriminate.
Qed.

Example trimesh_ok_example :
  let ps : vprops := [(Double, "time"); (Float, "x"); (UChar, "red"); (Float, "y"); (Float, "z"); (Int, "id")]%string in
  let rec := [4591870180066957722; 1065353216; 255; 1073741824; 1077936128; 16777217] in
  let fps := [(UChar, UChar, "flags"); (UChar, Int, "vertex_indices")]%string in
  trimesh_ok {| a_fmt := BinBE; a_vprops := ps; a_verts := [rec; rec; rec; rec];
                a_fprops := Some fps; a_faces := [[[7]; [0; 1; 2; 3]]; [[]; [3; 1; 0]]] |} fps 1 UChar Int.
Proof.
  cbv zeta. unfold trimesh_ok. cbn [a_fmt a_vprops a_verts a_fprops a_faces].
  split; [reflexivity|]. split; [discriminate|].
  split; [repeat constructor; cbn; intuition discriminate|].
  split; [repeat constructor|].
  split; [repeat constructor; fits|].
  split; [apply Forall_forall; intros x _ H; discriminate H|].
  split; [repeat constructor|].
  split; [reflexivity|]. split; [reflexivity|]. split; [reflexivity|]. split; [reflexivity|].
  split.
  - assert (L : forall r ws, count_ty_ok (fst r) = true -> N.of_nat (List.length ws) < 256 ->
                Forall (word_fits (snd r)) ws -> list_ok r ws).
    { intros r ws C Ln F. unfold list_ok. repeat split; try assumption; [|lia].
      destruct r as [[] ?]; try discriminate C; unfold word_fits; cbn; lia. }
    apply Forall_cons; [split; [|right; reflexivity]|apply Forall_cons; [split; [|left; reflexivity]|constructor]];
      (apply Forall2_cons; [|apply Forall2_cons; [|apply Forall2_nil]]); apply L; cbn; try reflexivity; try lia;
      repeat constructor; unfold word_fits; cbn; lia.
  - repeat constructor; lia.
Qed.

Example texmesh_ok_example :
  let ps : vprops := [(Float, "z"); (Float, "x"); (Int, "id"); (Float, "y")]%string in
  let rec := [1065353216; 1073741824; 7; 1077936128] in
  let fps := [(UChar, Float, "texcoord"); (Int, UInt, "vertex_index")]%string in
  let a := {| a_fmt := ASCII; a_vprops := ps; a_verts := [rec; rec; rec; rec]; a_fprops := Some fps;
              a_faces := [[[0; 0; 1065353216; 0; 1065353216; 1065353216; 0; 1065353216]; [0; 1; 2; 3]];
                          [[0; 0; 1065353216; 0; 0; 1065353216]; [3; 1; 0]]] |} in
  texmesh_ok a fps 1 0 Int UInt UChar Float /\
  Forall (fun f => Forall (fun w => w < N.of_nat (List.length (a_verts a))) (nth 1 f [])) (a_faces a) /\
  option_map m_idx (match read_mesh (encode a) with Ok m => Some m | Err _ => None end) = Some [0; 1; 2; 3; 4; 5; 6; 7; 8]%Z.
Proof.
  cbv zeta. split; [|split; [repeat constructor; cbn; lia|vm_compute; reflexivity]].
  unfold texmesh_ok. cbn [a_fmt a_vprops a_verts a_fprops a_faces].
  split; [reflexivity|]. split; [discriminate|].
  split; [repeat constructor; cbn; intuition discriminate|].
  split; [repeat constructor|].
  split; [repeat constructor; fits|].
  split; [vm_compute spec_entries; repeat constructor; intros _; discriminate|].
  split; [repeat constructor|].
  split; [reflexivity|]. split; [reflexivity|]. split; [reflexivity|]. split; [reflexivity|].
  split; [reflexivity|]. split; [left; reflexivity|].
  split.
  - assert (L : forall r ws, count_ty_ok (fst r) = true -> N.of_nat (List.length ws) < 256 ->
                Forall (word_fits (snd r)) ws -> list_ok r ws).
    { intros r ws C Ln F. unfold list_ok. repeat split; try assumption; [|lia].
      destruct r as [[] ?]; try discriminate C; unfold word_fits; cbn; lia. }
    apply Forall_cons; [split; [|right; split; reflexivity]|apply Forall_cons; [split; [|left; split; reflexivity]|constructor]];
      (apply Forall2_cons; [|apply Forall2_cons; [|apply Forall2_nil]]); apply L; cbn; try reflexivity; try lia;
      repeat constructor; unfold word_fits; cbn; lia.
  - repeat constructor; lia.
Qed.

(* non-vacuity of the packaging: a header with aliases, comment / obj_info / blank lines and a body with blank lines *)
Example variants_example :
  let ps : vprops := [(Float, "z"); (UChar, "green"); (Float, "x"); (UChar, "red"); (Int, "id"); (UChar, "blue"); (Float, "y")]%string in
  let a := {| a_fmt := ASCII; a_vprops := ps; a_verts := [[1065353216; 128; 1073741824; 255; 7; 0; 1077936128]];
              a_fprops := None; a_faces := [] |} in
  let hl := [["ply"]; ["format"; "ascii"; "1.0"]; ["comment"; "made"; "by"; "another"; "tool"];
             ["element"; "vertex"; "1"]; ["property"; "float32"; "z"]; ["property"; "uint8"; "green"]; [];
             ["property"; "float"; "x"]; ["obj_info"; "element"; "face"; "3"]; ["property"; "uchar"; "red"];
             ["property"; "int32"; "id"]; ["property"; "uint8"; "blue"]; ["property"; "float32"; "y"];
             ["comment"]; ["end_header"]]%string in
  let b' := BodyAscii ([] :: match enc_body a with BodyAscii l => l | _ => [] end ++ [[]; []]) in
  header_variant (header_of a) hl /\ body_variant (enc_body a) b' /\
  known_finding_excluded a /\ vertex_element_ok a /\ face_element_ok a.
Proof.
  cbv zeta. split; [|split; [|split; [|split]]].
  - exists [["element"; "vertex"; "1"]; ["property"; "float32"; "z"]; ["property"; "uint8"; "green"];
             ["property"; "float"; "x"]; ["property"; "uchar"; "red"];
             ["property"; "int32"; "id"]; ["property"; "uint8"; "blue"]; ["property"; "float32"; "y"]; ["end_header"]]%string.
    eexists. split; [|split; [|reflexivity]].
    + vm_compute header_body.
      repeat (apply Forall2_cons; [first [apply al_same | apply al_scalar; eexists; split; reflexivity]|]).
      apply Forall2_nil.
    + repeat first [apply wn_nil | apply wn_keep | apply wn_ins; [first [exact I | left; reflexivity | right; reflexivity]|]].
  - right. eexists _, _. split; [reflexivity|]. split; [reflexivity|]. vm_compute. reflexivity.
  - unfold known_finding_excluded. cbn [a_fmt a_vprops]. vm_compute spec_entries. repeat constructor; intros _; discriminate.
  - unfold vertex_element_ok. cbn [a_vprops a_verts]. split; [discriminate|].
    split; [repeat constructor; cbn; intuition discriminate|]. split; [repeat constructor|].
    repeat constructor; unfold word_fits; cbn; lia.
  - left. split; reflexivity.
Qed.

(* ---- round 4: per-corner texture coordinates and CRLF at file level ---- *)

(* meshops.Unweld as MeshReader.Read applies it for a texcoord list: in the unwelded mesh, corner k (position k of the
   index buffer the faces gave) holds, for EVERY attribute, exactly the row of the vertex that corner referenced - in
   whatever order the faces list the vertices, and also when the number of corners happens to equal the number of
   vertex records (a reader that skips the unweld then attaches the texture coordinates to the wrong vertices) *)
Theorem corner_carries_referenced_vertex : forall (l : list attr) idx ua,
  unweld_attrs l idx = Ok ua ->
  forall j d n data, nth_error l j = Some (d, n, data) ->
    exists g, nth_error ua j = Some (d, n, g) /\ List.length g = List.length idx /\
              forall k i, nth_error idx k = Some i -> nth_error g k = nth_error data (Z.to_nat i) /\ nth_error g k <> None.
Proof. exact corner_carries_vertex_proof. Qed.
Print Assumptions corner_carries_referenced_vertex.

(* "CRLF header line endings", at file level: the header text with CRLF line ends and the same text with LF line ends
   are the same file to the reader, whatever the body *)
Theorem crlf_file_loads_alike : forall text b,
  read_mesh {| pf_header := header_lines (crlf text); pf_body := b |} = read_mesh {| pf_header := header_lines text; pf_body := b |}.
Proof. exact crlf_file_loads_alike_proof. Qed.
Print Assumptions crlf_file_loads_alike.

(* non-vacuity of [corner_carries_referenced_vertex]: six vertices, two triangles listed as (3,4,5),(0,1,2) *)
Example corner_example :
  exists ua, unweld_attrs [(1%nat, "id"%string, [[10]; [11]; [12]; [13]; [14]; [15]])] [3; 4; 5; 0; 1; 2]%Z = Ok ua /\
             ua = [(1%nat, "id"%string, [[13]; [14]; [15]; [10]; [11]; [12]])].
Proof. eexists. split; vm_compute; reflexivity. Qed.

(* ---- round 4: what the property excludes, as witnesses ---- *)

(* the known finding ply:ascii-uchar-scalar-raw is a genuine exclusion: the ascii file "x y z float, quality uchar" with
   the record (1, 2, 3, 128) loads, but not to the mesh it describes (quality = 128 instead of 128/255); the same
   abstract file in binary_little_endian loads to exactly what it describes; and the ascii file is precisely what
   [known_finding_excluded] rules out *)
Theorem ascii_uchar_scalar_refuted :
  (exists m m', read_mesh (encode (raw_uchar_file ASCII)) = Ok m /\ describe (raw_uchar_file ASCII) = Ok m' /\ mesh_eqb m m' = false) /\
  (exists m, read_mesh (encode (raw_uchar_file BinLE)) = Ok m /\ describe (raw_uchar_file BinLE) = Ok m) /\
  ~ known_finding_excluded (raw_uchar_file ASCII).
Proof. exact ascii_uchar_scalar_refuted_proof. Qed.
Print Assumptions ascii_uchar_scalar_refuted.

(* elements are NOT read in header order (outside the quantifier, which ranges over vertex and face elements only): a
   conformant file whose header declares an edge element with one record before the vertex element loads without
   error, with the edge record (7, 8, 9) as the position of vertex 0 *)
Theorem element_order_refuted :
  exists m, read_mesh misplaced_file = Ok m /\
            get_attr 3 "Position" (m_attrs m) = Some [[4619567317775286272; 4620693217682128896; 4621256167635550208]].
Proof. exact misplaced_element_refuted_proof. Qed.
Print Assumptions element_order_refuted.

(* non-vacuity of [ply_files_with_trailing_elements_load]: the file of [variants_example] followed by an edge element
   (scalar and list property) and a material element, with their records after the vertex records *)
Example trailing_example :
  let others := [{| e_name := "edge"; e_count := 2; e_props := [PScalar Int "vertex1"; PList UChar Int "faces"] |};
                 {| e_name := "material"; e_count := 0; e_props := [PScalar UChar "red"] |}]%string in
  Forall elem_good others /\ Forall other_elem others /\
  let a := {| a_fmt := BinLE; a_vprops := [(Float, "x"); (Float, "y"); (Float, "z")]%string;
              a_verts := [[1065353216; 1073741824; 1077936128]]; a_fprops := None; a_faces := [] |} in
  option_map m_idx (match read_body default_groups true (with_more_elems (header_of a) others)
                            (body_app (enc_body a) (BodyBin [5; 0; 0; 0; 2; 1; 0; 0; 0; 2; 0; 0; 0]))
                    with Ok m => Some m | Err _ => None end) = Some [0%Z].
Proof.
  cbv zeta. split; [|split; [|vm_compute; reflexivity]].
  - repeat constructor; cbn; lia.
  - repeat constructor.
Qed.
