(* C08 — PLY files written by other tools load to what the specification says.
   Statements only; proofs live in Formats/PlyReadProofs.v, vocabulary in Formats/PlyReadSpec.v,
   the model of formats/ply/reader*.go in Formats/PlyRead.v. *)
From PF Require Import Base.Bytes Formats.PlyRead Formats.PlyReadSpec Formats.PlyReadProofs.
From Coq Require Import String.
Open Scope list_scope.
Open Scope N_scope.

(* "vertex i carries exactly the values of record i", field level.  For every list of declared properties
   (any order, any mix of the eight scalar types), every record whose values fit their types, each of the three
   encodings and every declared property: the layout function (byte offset / column computed from header order
   and type sizes, as the Go builders do) finds the property, and reading a field of the declared type at that
   offset of the encoded record returns exactly the value the record assigns to the property. *)
Theorem layout_reads_record : forall (f : fmt) (ps : vprops) (vals : list N) (name : string),
  record_ok ps vals -> In name (names ps) ->
  exists off t, offsets (is_bin f) ps name = Some (off, t) /\
                value_of f ps vals name <> None /\
                read_field f off t (encode_record f ps vals) = value_of f ps vals name.
Proof. exact layout_reads_record_proof. Qed.
Print Assumptions layout_reads_record.
