(* C14 -- truncated model files are rejected; no hang, no fabricated geometry.  Statements only.

   Property text: "Decoding a strict prefix of a valid PLY (any encoding), binary STL, SPZ, PTS or .splat file either
   reports an error or returns only data wholly present in the prefix - the complete mesh when nothing but trailing
   framing was cut, or, for the record-streamed .splat format, exactly the splats fully contained.  The call
   terminates in time proportional to the input and never returns placeholder vertices or faces."

   One theorem per format, for every file and every cut (no size bound), about the executable models of the
   decoders (Formats/Stl.v, Pts.v, Splat.v, Spz.v, PlyRead.v); the models are tied to the Go code on every check run
   by decoding every strict prefix of generated files with the real decoders (Check/C14.v).
   Termination of the models is by structural recursion (Coq accepts no other); the cost theorems bound the number of
   record reads by the input present.  Wall-clock time of the Go runtime is observed (deadline), not proved. *)
From Coq Require Import String.
From PF Require Import Base.Bytes.
From PF Require Formats.Stl Formats.StlProofs Formats.Splat Formats.Spz Formats.Pts Formats.PtsProofs.
From PF Require Import Formats.PlyRead Formats.PrefixProofs Formats.PrefixCost Formats.PrefixSurplus Formats.PrefixAll
  Formats.PrefixChunked.
Open Scope list_scope.

(* ---------------------------------------------------------------- binary STL *)
(* every strict prefix of a written file is rejected (there is no trailing framing in an STL file) *)
Theorem prefix_stl : forall hdr ts k,
  length hdr = 80%nat -> bytes_ok hdr -> (N.of_nat (length ts) < 4294967296)%N ->
  (k < length (Stl.write hdr ts))%nat -> Stl.read (firstn k (Stl.write hdr ts)) = None.
Proof. exact StlProofs.read_prefix_rejected. Qed.
Print Assumptions prefix_stl.

(* stl.Read as it is since /repo 6d82ee8 reads the announced records in chunks of 4096: for EVERY chunk size >= 1 the
   chunked reader is the one-pass reader (C07's StlProofs) ... *)
Theorem stl_read_chunk_independent : forall k bytes, (1 <= k)%N -> Stl.read_chunked k bytes = Stl.read bytes.
Proof. exact StlProofs.read_chunked_eq_read. Qed.
Print Assumptions stl_read_chunk_independent.
(* ... so the prefix theorem holds for the reader as it is now *)
Theorem prefix_stl_chunked : forall hdr ts k,
  length hdr = 80%nat -> bytes_ok hdr -> (N.of_nat (length ts) < 4294967296)%N ->
  (k < length (Stl.write hdr ts))%nat -> Stl.read_chunked Stl.stl_chunk (firstn k (Stl.write hdr ts)) = None.
Proof. exact StlProofs.big_file_cut_model. Qed.
Print Assumptions prefix_stl_chunked.

(* ---------------------------------------------------------------- .splat (record streamed) *)
(* the first k bytes of a written file decode to exactly the k/32 splats wholly contained, in order, and the reader
   reports an error exactly when a record was cut (second component: true = no error) *)
Theorem prefix_splat : forall rs k,
  Forall Splat.raw_ok rs -> (k <= length (Splat.write_raw rs))%nat ->
  Splat.read (firstn k (Splat.write_raw rs)) = (map Splat.dequantise (firstn (k / 32) rs), (k mod 32 =? 0)%nat).
Proof. exact splat_prefix. Qed.
Print Assumptions prefix_splat.

(* ---------------------------------------------------------------- SPZ *)
(* after gunzip: every strict prefix of the stream of a well-formed file (header + planar arrays of exactly the
   announced lengths, any version / SH degree) is rejected -- the header or one of the array length checks fails *)
Theorem prefix_spz_plain : forall h ps k,
  Spz.header_ok h -> Spz.lengths_match h ps -> (k < length (Spz.encode_ref h ps))%nat ->
  Spz.decode (firstn k (Spz.encode_ref h ps)) = None.
Proof. exact spz_plain_prefix_rejected. Qed.
Print Assumptions prefix_spz_plain.

(* with the gzip layer: [inflate] is what compress/gzip delivers before it reports the end of input or an error;
   the only assumption about it: a prefix of the compressed file inflates to a prefix of the plaintext (trusted, Go's
   compress/gzip).  A cut file is rejected, or nothing of the plaintext is missing (only gzip's trailing framing was
   cut) and the result is that of the complete file. *)
Theorem prefix_spz : forall (inflate : list N -> list N),
  (forall z k, exists j, inflate (firstn k z) = firstn j (inflate z)) ->
  forall z h ps k,
  inflate z = Spz.encode_ref h ps -> Spz.header_ok h -> Spz.lengths_match h ps ->
  spz_read inflate (firstn k z) = None \/
  (inflate (firstn k z) = inflate z /\ spz_read inflate (firstn k z) = spz_read inflate z).
Proof. exact spz_prefix. Qed.
Print Assumptions prefix_spz.

(* ---------------------------------------------------------------- PLY, binary encodings *)
(* For every header and every body on which ply.ReadMesh succeeds there is a threshold c -- the end of the data the
   header promises (vertex records, then face lists) -- such that EVERY cut below c is reported as end of input and
   every cut at or after c (only trailing bytes removed) yields the identical mesh.  A short body is an error, never
   zero filled; this covers both byte orders, every property mix, list properties, quads and texture coordinates. *)
Theorem prefix_ply_bin : forall hdr bytes m,
  read_mesh {| pf_header := hdr; pf_body := BodyBin bytes |} = Ok m ->
  exists c, (c <= length bytes)%nat /\
    (forall k, (k < c)%nat -> read_mesh {| pf_header := hdr; pf_body := BodyBin (firstn k bytes) |} = Err EEof) /\
    (forall k, (c <= k)%nat -> read_mesh {| pf_header := hdr; pf_body := BodyBin (firstn k bytes) |} = Ok m).
Proof. exact ply_bin_prefix. Qed.
Print Assumptions prefix_ply_bin.

(* the vertex block: the threshold is exactly (number of vertices) * (record size) *)
Theorem prefix_ply_bin_vertices : forall e bs size n bytes rows rest k,
  read_vertices_bin e bs size n bytes = Ok (rows, rest) -> (k < n * size)%nat ->
  read_vertices_bin e bs size n (firstn k bytes) = Err EEof.
Proof. exact ply_bin_vertices_prefix. Qed.
Print Assumptions prefix_ply_bin_vertices.

(* ---------------------------------------------------------------- PLY header (all encodings), cut after j lines *)
Theorem prefix_ply_header : forall hdr h j, parse_header hdr = Ok h ->
  parse_header (firstn j hdr) = Err EEof \/ parse_header (firstn j hdr) = Ok h.
Proof. exact ply_header_prefix. Qed.
Print Assumptions prefix_ply_header.

(* the header cut at ANY byte.  readLine returns a line only when it ends in '\n' ([lines_of]: the terminated lines of
   a byte string); [fields] = strings.Fields with '\r' removed, outside the model (any function). *)
Theorem prefix_ply_header_bytes : forall (fields : list N -> list string) ls h k,
  Forall no_nl ls -> parse_header (map fields ls) = Ok h ->
  parse_header (map fields (lines_of (firstn k (join_lines ls)) [])) = Err EEof \/
  parse_header (map fields (lines_of (firstn k (join_lines ls)) [])) = Ok h.
Proof. exact ply_header_bytes_prefix. Qed.
Print Assumptions prefix_ply_header_bytes.

(* ---------------------------------------------------------------- PLY, ASCII (token level) *)
(* cut after k complete body lines: the same threshold statement, c = lines the header promises (blank lines included) *)
Theorem prefix_ply_ascii_lines : forall hdr lines m,
  read_mesh {| pf_header := hdr; pf_body := BodyAscii lines |} = Ok m ->
  exists c, (c <= length lines)%nat /\
    (forall k, (k < c)%nat -> read_mesh {| pf_header := hdr; pf_body := BodyAscii (firstn k lines) |} = Err EEof) /\
    (forall k, (c <= k)%nat -> read_mesh {| pf_header := hdr; pf_body := BodyAscii (firstn k lines) |} = Ok m).
Proof. exact ply_ascii_lines_prefix. Qed.
Print Assumptions prefix_ply_ascii_lines.

(* cut at a token boundary inside line j of the vertex block (the tokens p present: at least one, fewer than the
   element has properties): reported, never loaded as zeros *)
Theorem prefix_ply_ascii_vertex_token : forall hdr lines m h ve bs rows rest j p,
  read_mesh {| pf_header := hdr; pf_body := BodyAscii lines |} = Ok m ->
  parse_header hdr = Ok h ->
  find_last_elem "vertex"%string (h_elems h) None = Some ve ->
  build_readers false default_groups true (e_props ve) = Ok bs ->
  read_vertices_ascii bs (length (e_props ve)) lines (Z.to_nat (e_count ve)) = Ok (rows, rest) ->
  (j < length lines - length rest)%nat -> p <> [] -> (length p < length (e_props ve))%nat ->
  read_mesh {| pf_header := hdr; pf_body := BodyAscii (firstn j lines ++ [p]) |} = Err EEof.
Proof. exact ply_ascii_vertex_line_cut. Qed.
Print Assumptions prefix_ply_ascii_vertex_token.

(* cut at a token boundary inside line j of the face block, after 0 < m tokens, fewer than the lists of that line
   announce ([face_used]: 1 + count tokens per list property); [rest] = the lines after the vertex block,
   [face_lines] = how many of them the face block reads.  Reported (a short list is an error, not a panic, not a
   stale or zero index). *)
Theorem prefix_ply_ascii_face_token : forall hdr lines mesh h ve fe bs rows rest rs ip tp j m,
  read_mesh {| pf_header := hdr; pf_body := BodyAscii lines |} = Ok mesh ->
  parse_header hdr = Ok h ->
  find_last_elem "vertex"%string (h_elems h) None = Some ve ->
  find_last_elem "face"%string (h_elems h) None = Some fe ->
  build_readers false default_groups true (e_props ve) = Ok bs ->
  read_vertices_ascii bs (length (e_props ve)) lines (Z.to_nat (e_count ve)) = Ok (rows, rest) ->
  face_setup fe = Ok (rs, ip, tp) ->
  (j < face_lines rest (Z.to_nat (e_count fe)))%nat ->
  (0 < m)%nat -> (m < face_used rs (nth j rest []))%nat ->
  read_mesh {| pf_header := hdr;
               pf_body := BodyAscii (firstn (length lines - length rest) lines
                                     ++ firstn j rest ++ [firstn m (nth j rest [])]) |} = Err EDeclared.
Proof. exact ply_ascii_face_line_cut. Qed.
Print Assumptions prefix_ply_ascii_face_token.

(* cuts that remove only SURPLUS tokens of the last line present (it keeps m > 0 tokens, at least those the reader
   looks at): the result is the one for the complete line -- which prefix_ply_ascii_lines classifies.
   (V) last line in the vertex block, m >= number of declared properties; rests on build_readers_cols_lt: every built
   ASCII reader only looks at columns below the number of declared properties *)
Theorem prefix_ply_ascii_surplus_vertex : forall hdr pre x m mesh h ve bs rows,
  read_mesh {| pf_header := hdr; pf_body := BodyAscii (pre ++ [x]) |} = Ok mesh ->
  parse_header hdr = Ok h ->
  find_last_elem "vertex"%string (h_elems h) None = Some ve ->
  build_readers false default_groups true (e_props ve) = Ok bs ->
  read_vertices_ascii bs (length (e_props ve)) (pre ++ [x]) (Z.to_nat (e_count ve)) = Ok (rows, []) ->
  (length (e_props ve) <= m)%nat -> (0 < m)%nat ->
  read_mesh {| pf_header := hdr; pf_body := BodyAscii (pre ++ [firstn m x]) |} = Ok mesh.
Proof. exact ply_ascii_surplus_vertex. Qed.
Print Assumptions prefix_ply_ascii_surplus_vertex.
(* (F) last line in the face block, m >= face_used *)
Theorem prefix_ply_ascii_surplus_face : forall hdr pre x m mesh h ve fe bs rows rest rs ip tp,
  read_mesh {| pf_header := hdr; pf_body := BodyAscii (pre ++ [x]) |} = Ok mesh ->
  parse_header hdr = Ok h ->
  find_last_elem "vertex"%string (h_elems h) None = Some ve ->
  find_last_elem "face"%string (h_elems h) None = Some fe ->
  build_readers false default_groups true (e_props ve) = Ok bs ->
  read_vertices_ascii bs (length (e_props ve)) (pre ++ [x]) (Z.to_nat (e_count ve)) = Ok (rows, rest) ->
  rest <> [] -> face_setup fe = Ok (rs, ip, tp) ->
  (face_used rs x <= m)%nat -> (0 < m)%nat ->
  read_mesh {| pf_header := hdr; pf_body := BodyAscii (pre ++ [firstn m x]) |} = Ok mesh.
Proof. exact ply_ascii_surplus_face. Qed.
Print Assumptions prefix_ply_ascii_surplus_face.

(* ---------------------------------------------------------------- PTS (token level) *)
(* a valid file: n lines of w >= 3 fields.  Every token-boundary strict prefix (j complete lines, m tokens of the
   next) is rejected -- except that a ONE-point file cut after >= 3 fields of its only line is itself a valid,
   shorter one-point file (its data are wholly present: see no_placeholder_pts) *)
Theorem prefix_pts : forall n w (ls : list Pts.line) j m,
  PtsProofs.pts_valid n w ls -> (j < n)%nat -> (m < w)%nat ->
  Pts.pts_read (Some (Z.of_nat n)) (Pts.pts_prefix ls j m) = None \/
  (n = 1%nat /\ j = 0%nat /\ (3 <= m)%nat).
Proof. exact PtsProofs.pts_prefix_rejected. Qed.
Print Assumptions prefix_pts.

(* ---------------------------------------------------------------- no placeholders *)
(* PTS: every Ok result has exactly the announced number of points and every position / intensity / colour is the
   image of tokens of its own line, which has enough fields *)
Theorem no_placeholder_pts : forall c ls r,
  Pts.pts_read c ls = Some r -> Pts.no_placeholderb c ls r = true.
Proof. exact PtsProofs.pts_read_no_placeholder. Qed.
Print Assumptions no_placeholder_pts.

(* PLY: whatever a cut file decodes to IS the decode of the complete file -- every vertex, face and attribute value
   of an Ok result is the image of bytes / tokens present in the prefix *)
Theorem no_placeholder_ply_bin : forall hdr bytes m k m',
  read_mesh {| pf_header := hdr; pf_body := BodyBin bytes |} = Ok m ->
  read_mesh {| pf_header := hdr; pf_body := BodyBin (firstn k bytes) |} = Ok m' -> m' = m.
Proof. exact ply_bin_no_placeholder. Qed.
Print Assumptions no_placeholder_ply_bin.
Theorem no_placeholder_ply_ascii : forall hdr lines m k m',
  read_mesh {| pf_header := hdr; pf_body := BodyAscii lines |} = Ok m ->
  read_mesh {| pf_header := hdr; pf_body := BodyAscii (firstn k lines) |} = Ok m' -> m' = m.
Proof. exact ply_ascii_no_placeholder. Qed.
Print Assumptions no_placeholder_ply_ascii.
(* STL, SPZ: prefix_stl / prefix_spz leave no Ok result on a strict prefix other than the complete one;
   .splat: prefix_splat gives the result exactly. *)

(* ---------------------------------------------------------------- cost: work follows the input present *)
(* stl.Read: the number of 50-byte record reads is bounded by the bytes present, whatever triangle count the header
   announces (the loop stops at the first missing record); [read_tris_steps] is [Stl.read_tris] with a counter *)
Theorem decode_cost_stl : forall fuel count l, (50 * read_tris_steps fuel count l <= length l + 50)%nat.
Proof. exact stl_read_cost. Qed.
Print Assumptions decode_cost_stl.
Theorem decode_cost_stl_counts : forall fuel count l ts,
  Stl.read_tris fuel count l = Some ts -> read_tris_steps fuel count l = length ts.
Proof. exact read_tris_steps_ok. Qed.
Print Assumptions decode_cost_stl_counts.
Theorem decode_cost_splat : forall fuel l, (32 * read_raw_steps fuel l <= length l + 32)%nat.
Proof. exact splat_read_cost. Qed.
Print Assumptions decode_cost_splat.

(* stl.Read as it is now: records ALLOCATED by the chunk loop (min(remaining, k) per iteration, before reading them)
   are bounded by the records present plus one chunk, for any announced count *)
Theorem decode_cost_stl_chunked : forall fuel k rem l,
  (50 * read_chunks_alloc fuel k rem l <= N.of_nat (length l) + 50 * k)%N.
Proof. exact stl_chunked_alloc_cost. Qed.
Print Assumptions decode_cost_stl_chunked.

(* PTS: iterations of the line loop and elements appended to the three arrays (after 6d82ee8) are bounded by the lines
   present, for any announced count; the loop counter equals the points of an accepted file *)
Theorem decode_cost_pts : forall count ls,
  (pts_steps count ls <= length ls)%nat /\ (pts_alloc count ls <= 3 * length ls)%nat.
Proof. exact pts_cost. Qed.
Print Assumptions decode_cost_pts.
Theorem decode_cost_pts_counts : forall c ls r, Pts.pts_read c ls = Some r -> pts_steps c ls = Pts.p_n r.
Proof. exact pts_steps_ok. Qed.
Print Assumptions decode_cost_pts_counts.
(* the allocation before 6d82ee8 (three arrays of the announced count) has no such bound *)
Theorem decode_cost_pts_pinned_alloc_refuted : forall c c0 : nat, exists count ls,
  (pts_alloc_pinned count ls > c * length ls + c0)%nat.
Proof. exact pts_alloc_pinned_refuted. Qed.
Print Assumptions decode_cost_pts_pinned_alloc_refuted.

(* binary PLY: record reads of the vertex loop and of the face loop are bounded by the bytes present for any announced
   vertex / face count; so is the allocation under the REPAIRED discipline (arrays grow with the records read) *)
Theorem decode_cost_ply_bin : forall e bs size n rs ip tp nf st bytes,
  (size * rvb_steps e bs size n bytes <= length bytes + size)%nat /\
  (rs <> [] -> faces_bin_steps e rs ip tp bytes nf st <= length bytes + 1)%nat /\
  (size * ply_bin_alloc_repaired e bs size n bytes <= length bs * (length bytes + size))%nat.
Proof.
  intros. split; [apply ply_bin_vertex_steps|]. split; [intros H; apply ply_bin_face_steps; exact H|apply ply_bin_alloc_repaired_cost].
Qed.
Print Assumptions decode_cost_ply_bin.
(* KNOWN FINDING c14:alloc-by-declared-count, visible in Coq: the faithful model of ply.ReadMesh's allocation --
   make([]T, element.Count) in every built property reader before the first record is read -- is bounded by NO
   c * (bytes present) + c0 *)
Theorem decode_cost_ply_bin_alloc_refuted : forall bs, bs <> [] -> forall c c0 : nat, exists n bytes,
  (ply_bin_alloc_faithful bs n bytes > c * length bytes + c0)%nat.
Proof. exact ply_bin_alloc_faithful_refuted. Qed.
Print Assumptions decode_cost_ply_bin_alloc_refuted.

(* ASCII PLY: lines examined by the vertex loop (blank ones included), records stored, lines examined by the face loop,
   and the repaired allocation are bounded by the lines present (a line is at least one byte) *)
Theorem decode_cost_ply_ascii : forall bs np rs ip tp lines n nf st,
  (rva_records bs np lines n <= rva_steps bs np lines n <= length lines)%nat /\
  (faces_ascii_steps rs ip tp lines nf st <= length lines)%nat /\
  (ply_ascii_alloc_repaired bs np lines n <= length bs * length lines)%nat.
Proof.
  intros. split; [apply ply_ascii_vertex_steps|]. split; [apply ply_ascii_face_steps|apply ply_ascii_alloc_repaired_cost].
Qed.
Print Assumptions decode_cost_ply_ascii.
Theorem decode_cost_ply_ascii_alloc_refuted : forall bs, bs <> [] -> forall c c0 : nat, exists n lines,
  (ply_ascii_alloc_faithful bs n lines > c * length lines + c0)%nat.
Proof. exact ply_ascii_alloc_faithful_refuted. Qed.
Print Assumptions decode_cost_ply_ascii_alloc_refuted.

(* SPZ: each array is allocated at its announced size and then filled; a short stream ends the decode at that array.
   Bytes allocated <= decompressed bytes present + 450 000 000 (one SH array at the reader's own limit of 10^7 points):
   the announced count is capped by Header.Validate, so c0 is a constant of the format, not of the file *)
Theorem decode_cost_spz : forall l, (spz_alloc l <= N.of_nat (length l) + 450000000)%N.
Proof. exact spz_alloc_cost. Qed.
Print Assumptions decode_cost_spz.

(* ================================================================ THE PROPERTY, PACKAGED ====================== *)
(* [cut_ok rejected outs full trailing_only] (Formats/PrefixAll.v):
     forall k, rejected (outs k) \/ (trailing_only k /\ outs k = full)
   -- for every cut the decoder reports an error, or only trailing framing was cut and the result is the one of the
   complete file.  One clause per format family, each derived from the per-format theorems above. *)
Theorem prefix_all_formats :
  (* binary STL, the chunked reader as it is now: no trailing framing *)
  (forall hdr ts, length hdr = 80%nat -> bytes_ok hdr -> (N.of_nat (length ts) < 4294967296)%N ->
     let f := Stl.write hdr ts in
     cut_ok is_none (fun k => Stl.read_chunked Stl.stl_chunk (firstn k f)) (Stl.read_chunked Stl.stl_chunk f)
            (fun k => (length f <= k)%nat)) /\
  (* .splat, record streamed: exactly the complete records, error flag iff a record was cut *)
  (forall rs k, Forall Splat.raw_ok rs -> (k <= length (Splat.write_raw rs))%nat ->
     Splat.read (firstn k (Splat.write_raw rs)) = (map Splat.dequantise (firstn (k / 32) rs), (k mod 32 =? 0)%nat)) /\
  (* SPZ behind gzip: trailing framing = the compressed bytes after the last plaintext byte *)
  (forall inflate : list N -> list N, (forall z k, exists j, inflate (firstn k z) = firstn j (inflate z)) ->
     forall z h ps, inflate z = Spz.encode_ref h ps -> Spz.header_ok h -> Spz.lengths_match h ps ->
     cut_ok is_none (fun k => spz_read inflate (firstn k z)) (spz_read inflate z)
            (fun k => inflate (firstn k z) = inflate z)) /\
  (* PLY header, cut after j lines *)
  (forall hdr h, parse_header hdr = Ok h ->
     cut_ok is_eof (fun j => parse_header (firstn j hdr)) (Ok h) (fun _ => True)) /\
  (* PLY binary body: c = end of the data the header promises; below it every cut is end-of-input *)
  (forall hdr bytes m, read_mesh {| pf_header := hdr; pf_body := BodyBin bytes |} = Ok m ->
     exists c, (c <= length bytes)%nat /\
       (forall k, (k < c)%nat -> is_eof (read_mesh {| pf_header := hdr; pf_body := BodyBin (firstn k bytes) |})) /\
       cut_ok is_eof (fun k => read_mesh {| pf_header := hdr; pf_body := BodyBin (firstn k bytes) |}) (Ok m)
              (fun k => (c <= k)%nat)) /\
  (* PLY ASCII body, cut after k lines (token cuts inside a line: prefix_ply_ascii_vertex_token / _face_token /
     _surplus_vertex / _surplus_face) *)
  (forall hdr lines m, read_mesh {| pf_header := hdr; pf_body := BodyAscii lines |} = Ok m ->
     exists c, (c <= length lines)%nat /\
       (forall k, (k < c)%nat -> is_eof (read_mesh {| pf_header := hdr; pf_body := BodyAscii (firstn k lines) |})) /\
       cut_ok is_eof (fun k => read_mesh {| pf_header := hdr; pf_body := BodyAscii (firstn k lines) |}) (Ok m)
              (fun k => (c <= k)%nat)) /\
  (* PTS, token boundary (j lines, m tokens): rejected, or the one-point file cut after >= 3 fields, whose result
     holds only values of tokens present *)
  (forall n w (ls : list Pts.line) j m, PtsProofs.pts_valid n w ls -> (j < n)%nat -> (m < w)%nat ->
     Pts.pts_read (Some (Z.of_nat n)) (Pts.pts_prefix ls j m) = None \/
     (n = 1%nat /\ j = 0%nat /\ (3 <= m)%nat /\
      forall r, Pts.pts_read (Some (Z.of_nat n)) (Pts.pts_prefix ls j m) = Some r ->
                Pts.no_placeholderb (Some (Z.of_nat n)) (Pts.pts_prefix ls j m) r = true)).
Proof. exact all_formats. Qed.
Print Assumptions prefix_all_formats.

(* "never returns placeholder vertices or faces": derived FROM prefix_all_formats (cut_ok_accepts: a cut that is not
   rejected has trailing_only and the complete result).  .splat and PTS: the clauses of prefix_all_formats give the
   result / its provenance directly. *)
Theorem no_placeholder_all_formats :
  (forall hdr ts k x, length hdr = 80%nat -> bytes_ok hdr -> (N.of_nat (length ts) < 4294967296)%N ->
     Stl.read_chunked Stl.stl_chunk (firstn k (Stl.write hdr ts)) = Some x ->
     Some x = Stl.read_chunked Stl.stl_chunk (Stl.write hdr ts)) /\
  (forall inflate : list N -> list N, (forall z k, exists j, inflate (firstn k z) = firstn j (inflate z)) ->
     forall z h ps k x, inflate z = Spz.encode_ref h ps -> Spz.header_ok h -> Spz.lengths_match h ps ->
     spz_read inflate (firstn k z) = Some x -> Some x = spz_read inflate z) /\
  (forall hdr bytes m k m', read_mesh {| pf_header := hdr; pf_body := BodyBin bytes |} = Ok m ->
     read_mesh {| pf_header := hdr; pf_body := BodyBin (firstn k bytes) |} = Ok m' -> m' = m) /\
  (forall hdr lines m k m', read_mesh {| pf_header := hdr; pf_body := BodyAscii lines |} = Ok m ->
     read_mesh {| pf_header := hdr; pf_body := BodyAscii (firstn k lines) |} = Ok m' -> m' = m).
Proof. exact all_formats_no_placeholder. Qed.
Print Assumptions no_placeholder_all_formats.

(* ================================================================ READER INDEPENDENCE ========================= *)
(* Decoders ask their io.Reader only for "exactly n bytes" (io.ReadFull / binary.Read).  [prog]: programs over that
   primitive; [run p l]: on a byte list; [run_chunked p cs]: on any list of chunks cs -- what a reader that returns
   cs one Read call at a time (all at once, byte by byte, halves, empty reads) delivers.  The value and the unread
   bytes depend only on the concatenation. *)
Theorem run_chunked_eq_run : forall (T A : Type) (p : @prog T A) (cs : list (list T)),
  flat (run_chunked p cs) = run p (concat cs).
Proof. exact (@PrefixChunked.run_chunked_eq_run). Qed.
Print Assumptions run_chunked_eq_run.
(* the models ARE such programs: ply.ReadMesh's binary body reader, stl.Read, splat.Read *)
Theorem ply_bin_reader_independent : forall gs u h cs,
  read_body_chunked gs u h cs = read_body gs u h (BodyBin (concat cs)).
Proof. exact PrefixChunked.ply_bin_reader_independent. Qed.
Print Assumptions ply_bin_reader_independent.
Theorem stl_reader_independent : forall cs fuel, (length (concat cs) <= fuel)%nat ->
  rbind (run_chunked (stl_prog fuel) cs) (fun x => Ok (fst x)) = of_optE (Stl.read (concat cs)).
Proof. exact PrefixChunked.stl_reader_independent. Qed.
Print Assumptions stl_reader_independent.
Theorem splat_reader_independent : forall fuel cs,
  rbind (run_chunked (splat_prog fuel) cs) (fun x => Ok (fst x)) = Ok (Splat.read_raw fuel (concat cs)).
Proof. exact PrefixChunked.splat_reader_independent. Qed.
Print Assumptions splat_reader_independent.

(* ---------------------------------------------------------------- non-vacuity *)
Open Scope string_scope.
Definition ex_hdr : list (list string) :=
  [["ply"]; ["format"; "binary_little_endian"; "1.0"]; ["element"; "vertex"; "2"];
   ["property"; "float"; "x"]; ["property"; "float"; "y"]; ["property"; "float"; "z"];
   ["element"; "face"; "1"]; ["property"; "list"; "uchar"; "int"; "vertex_indices"]; ["end_header"]].
Definition ex_body : list N :=
  ([0;0;128;63; 0;0;0;64; 0;0;64;64;   0;0;128;64; 0;0;160;64; 0;0;192;64;   3; 0;0;0;0; 1;0;0;0; 0;0;0;0])%N.
(* the hypotheses of the PLY theorems hold for a concrete file with faces; its threshold is the whole body: every
   strict prefix is rejected *)
Example ex_ply_bin :
  (exists m, read_mesh {| pf_header := ex_hdr; pf_body := BodyBin ex_body |} = Ok m) /\
  forallb (fun k => match read_mesh {| pf_header := ex_hdr; pf_body := BodyBin (firstn k ex_body) |} with
                    | Err EEof => true | _ => false end) (seq 0 (List.length ex_body)) = true.
Proof. split; [eexists; vm_compute; reflexivity|vm_compute; reflexivity]. Qed.
Example ex_stl_splat :
  Stl.read (firstn 133 (Stl.write Stl.zero_hdr [{| Stl.tn := (0,0,0); Stl.ta := (1,2,3); Stl.tb := (4,5,6); Stl.tc := (7,8,9); Stl.tattr := 0 |}]%N)) = None /\
  Forall Splat.raw_ok [{| Splat.r_pos := (1,2,3); Splat.r_scale := (4,5,6); Splat.r_cb := (7,8,9,10); Splat.r_rb := (11,12,13,14) |}]%N.
Proof.
  split; [vm_compute; reflexivity|]. repeat constructor; vm_compute; reflexivity.
Qed.

(* ================================================================ round 4 *)
From PF Require Formats.PrefixBlocks Formats.PrefixText.
Close Scope string_scope.
Open Scope list_scope.

(* ---------------------------------------------------------------- every reader configuration *)
(* ply.MeshReader{AttributeElement "vertex", Properties gs, LoadUnspecifiedProperties u}.Read -- any caller-made
   configuration, not only ply.ReadMesh's default one: the threshold theorem (binary body, every byte cut) *)
Theorem prefix_ply_bin_any_config : forall gs u h bytes m,
  read_body gs u h (BodyBin bytes) = Ok m ->
  exists c, (c <= length bytes)%nat /\
    (forall k, (k < c)%nat -> read_body gs u h (BodyBin (firstn k bytes)) = Err EEof) /\
    (forall k, (c <= k)%nat -> read_body gs u h (BodyBin (firstn k bytes)) = Ok m).
Proof. exact PrefixBlocks.ply_bin_prefix_any_config. Qed.
Print Assumptions prefix_ply_bin_any_config.
(* ... and for ASCII bodies cut after k lines *)
Theorem prefix_ply_ascii_lines_any_config : forall gs u h lines m,
  read_body gs u h (BodyAscii lines) = Ok m ->
  exists c, (c <= length lines)%nat /\
    (forall k, (k < c)%nat -> read_body gs u h (BodyAscii (firstn k lines)) = Err EEof) /\
    (forall k, (c <= k)%nat -> read_body gs u h (BodyAscii (firstn k lines)) = Ok m).
Proof. exact PrefixBlocks.ply_ascii_lines_prefix_any_config. Qed.
Print Assumptions prefix_ply_ascii_lines_any_config.

(* ---------------------------------------------------------------- block-wise decoding of the vertex element *)
(* A reader that fetches the vertex records in blocks of ANY sizes (one read of b * size bytes per block, the records
   decoded from that buffer: chunked readers, worker pools) returns Ok r exactly when the record-by-record loop of
   ply.ReadMesh does: same rows, same unread rest -- for every list of block sizes, every reader list, both byte
   orders, every input.  Sizes past an internal block threshold change nothing. *)
Theorem ply_vertex_blocks_independent : forall e bs size blocks bytes r,
  PrefixBlocks.read_vertices_blocked e bs size blocks bytes = Ok r <->
  read_vertices_bin e bs size (list_sum blocks) bytes = Ok r.
Proof. exact PrefixBlocks.read_vertices_blocked_iff. Qed.
Print Assumptions ply_vertex_blocks_independent.
(* hence every cut inside the vertex data of an accepted file is rejected, whatever the block sizes *)
Theorem prefix_ply_vertex_blocks : forall e bs size blocks bytes rows rest k,
  PrefixBlocks.read_vertices_blocked e bs size blocks bytes = Ok (rows, rest) -> (k < list_sum blocks * size)%nat ->
  exists err, PrefixBlocks.read_vertices_blocked e bs size blocks (firstn k bytes) = Err err.
Proof. exact PrefixBlocks.read_vertices_blocked_prefix_rejected. Qed.
Print Assumptions prefix_ply_vertex_blocks.
(* the excluded behaviour: a block reader that decodes a short block from a zero-padded buffer accepts a strict
   prefix (which the loop rejects) and returns two rows, one of them not in the file *)
Theorem lenient_block_reader_refuted :
  exists bytes k rows rows', (k < length bytes)%nat /\
    read_vertices_bin LEnd PrefixBlocks.xyz_readers 12 2 bytes = Ok (rows, []) /\
    read_vertices_bin LEnd PrefixBlocks.xyz_readers 12 2 (firstn k bytes) = Err EEof /\
    PrefixBlocks.read_vertices_blocked_lenient LEnd PrefixBlocks.xyz_readers 12 [2%nat] (firstn k bytes) = Ok (rows', []) /\
    rows' <> rows /\ length rows' = 2%nat.
Proof. exact PrefixBlocks.lenient_block_reader_refuted. Qed.
Print Assumptions lenient_block_reader_refuted.
Example ex_vertex_blocks :
  PrefixBlocks.read_vertices_blocked LEnd PrefixBlocks.xyz_readers 12 [1;1]%nat PrefixBlocks.two_records
    = read_vertices_bin LEnd PrefixBlocks.xyz_readers 12 2 PrefixBlocks.two_records /\
  PrefixBlocks.read_vertices_blocked LEnd PrefixBlocks.xyz_readers 12 [2]%nat PrefixBlocks.two_records
    = read_vertices_bin LEnd PrefixBlocks.xyz_readers 12 2 PrefixBlocks.two_records /\
  exists rows, read_vertices_bin LEnd PrefixBlocks.xyz_readers 12 2 PrefixBlocks.two_records = Ok (rows, []) /\ length rows = 2%nat.
Proof. exact PrefixBlocks.blocked_example. Qed.

(* ---------------------------------------------------------------- spz.ReadHeader *)
(* the header-only reader (after gunzip): a cut below the 16 header bytes is rejected, every other prefix yields the
   header of the complete file -- data wholly present in the prefix *)
Theorem prefix_spz_header : forall h ps k,
  Spz.header_ok h -> Spz.validate h = true ->
  PrefixBlocks.SpzHeader.read_header (firstn k (Spz.encode_ref h ps)) = if (k <? 16)%nat then None else Some h.
Proof. exact PrefixBlocks.SpzHeader.read_header_prefix. Qed.
Print Assumptions prefix_spz_header.

(* ---------------------------------------------------------------- PTS: a lone number is not a block count *)
(* the excluded behaviour: a reader that takes a line holding one number for the count of a further block accepts the
   valid file "2 / 5 6 7 / 0 8 9" cut right after the "0" with ONE point; pts_read (the reader of /repo) rejects that
   prefix, and the direct oracle no_placeholderb rejects the variant's answer *)
Theorem pts_block_count_variant_refuted :
  exists count lines j m r,
    Pts.pts_read (Some count) lines <> None /\
    Pts.pts_read (Some count) (Pts.pts_prefix lines j m) = None /\
    PrefixBlocks.PtsBlocks.pts_read_blocks (Some count) (Pts.pts_prefix lines j m) = Some r /\
    Pts.no_placeholderb (Some count) (Pts.pts_prefix lines j m) r = false /\ (Pts.p_n r < Z.to_nat count)%nat.
Proof. exact PrefixBlocks.PtsBlocks.block_count_variant_refuted. Qed.
Print Assumptions pts_block_count_variant_refuted.

(* ---------------------------------------------------------------- ASCII bodies at byte level *)
(* [scan] = bufio.Scanner/ScanLines, [fields_of] = strings.Fields, [render] = token lines written with single spaces
   and '\n'.  The bytes up to the token boundary (j lines, m tokens) scan and split into exactly the token prefix: the
   step from a byte cut to the token view (done by the harness' tokenizer for the correspondence) is a theorem. *)
Theorem ascii_text_cut_is_token_prefix : forall ls, Forall (Forall PrefixText.tok_ok) ls -> forall j m,
  (m <= length (nth j ls []))%nat ->
  map PrefixText.fields_of (PrefixText.scan (firstn (PrefixText.boundary ls j m) (PrefixText.render ls)) [])
  = PrefixText.token_prefix ls j m.
Proof. exact PrefixText.text_cut_tokens. Qed.
Print Assumptions ascii_text_cut_is_token_prefix.
(* end to end (bytes -> lines -> tokens -> mesh), for any token parser [tokval] (strconv): if the complete text
   decodes, there is a line count c the header promises; a text cut after fewer lines is reported as end of input, a
   text cut after at least c lines yields the identical mesh *)
Theorem prefix_ply_ascii_text_lines : forall tokval hdr ls mesh, Forall (Forall PrefixText.tok_ok) ls ->
  PrefixText.read_mesh_text tokval hdr (PrefixText.render ls) = Ok mesh ->
  exists c, (c <= length ls)%nat /\
    (forall j, (j < c)%nat ->
       PrefixText.read_mesh_text tokval hdr (firstn (PrefixText.boundary ls j 0) (PrefixText.render ls)) = Err EEof) /\
    (forall j, (c <= j)%nat ->
       PrefixText.read_mesh_text tokval hdr (firstn (PrefixText.boundary ls j 0) (PrefixText.render ls)) = Ok mesh).
Proof. exact PrefixText.ply_ascii_text_lines_prefix. Qed.
Print Assumptions prefix_ply_ascii_text_lines.
(* ... and a text cut at a token boundary inside line j of the vertex block (0 < m tokens, fewer than properties) is
   reported: the byte-level form of prefix_ply_ascii_vertex_token *)
Theorem prefix_ply_ascii_text_vertex_token : forall tokval hdr ls mesh h ve bs rows rest j m,
  Forall (Forall PrefixText.tok_ok) ls ->
  PrefixText.read_mesh_text tokval hdr (PrefixText.render ls) = Ok mesh ->
  parse_header hdr = Ok h ->
  find_last_elem "vertex"%string (h_elems h) None = Some ve ->
  build_readers false default_groups true (e_props ve) = Ok bs ->
  read_vertices_ascii bs (length (e_props ve)) (PrefixText.toklines tokval ls) (Z.to_nat (e_count ve)) = Ok (rows, rest) ->
  (j < length ls - length rest)%nat -> (0 < m)%nat -> (m <= length (nth j ls []))%nat ->
  (m < length (e_props ve))%nat ->
  PrefixText.read_mesh_text tokval hdr (firstn (PrefixText.boundary ls j m) (PrefixText.render ls)) = Err EEof.
Proof. exact PrefixText.ply_ascii_text_vertex_cut. Qed.
Print Assumptions prefix_ply_ascii_text_vertex_token.
Example ex_text_cut :
  let ls := [[[49]; [50]]; [[51]]]%N in
  PrefixText.render ls = [49; 32; 50; 10; 51; 10]%N /\
  PrefixText.boundary ls 0 1 = 1%nat /\ PrefixText.boundary ls 1 0 = 4%nat /\ PrefixText.boundary ls 1 1 = 5%nat /\
  map PrefixText.fields_of (PrefixText.scan (firstn 1 (PrefixText.render ls)) []) = [[[49]]]%N /\
  map PrefixText.fields_of (PrefixText.scan (firstn 5 (PrefixText.render ls)) []) = [[[49]; [50]]; [[51]]]%N.
Proof. exact PrefixText.text_cut_example. Qed.

(* ---------------------------------------------------------------- PTS at byte level *)
(* pts.ReadPointCloud on bytes = first scanned line -> count ([cnt] = strconv.Atoi, any function), every further line
   -> fields -> numbers ([numval], any function) -> pts_read.  The text of a file cut at a token boundary after the
   count line is read as exactly the token prefix ... *)
Theorem pts_text_cut_is_token_prefix : forall cnt numval ct ls j m,
  PrefixText.tok_ok ct -> Forall (Forall PrefixText.tok_ok) ls -> (m <= length (nth j ls []))%nat ->
  PrefixText.pts_read_text cnt numval
    (firstn (PrefixText.boundary (PrefixText.pts_file ct ls) (S j) m) (PrefixText.render (PrefixText.pts_file ct ls)))
  = Pts.pts_read (cnt ct) (Pts.pts_prefix (map (map numval) ls) j m).
Proof. exact PrefixText.pts_text_cut. Qed.
Print Assumptions pts_text_cut_is_token_prefix.
(* ... hence (bytes -> lines -> fields -> numbers -> cloud) every token-boundary cut of a valid PTS text is rejected,
   except the one-point file cut after >= 3 fields *)
Theorem prefix_pts_text : forall cnt numval ct ls n w j m,
  PrefixText.tok_ok ct -> Forall (Forall PrefixText.tok_ok) ls ->
  cnt ct = Some (Z.of_nat n) -> PtsProofs.pts_valid n w (map (map numval) ls) -> (j < n)%nat -> (m < w)%nat ->
  (m <= length (nth j ls []))%nat ->
  PrefixText.pts_read_text cnt numval
    (firstn (PrefixText.boundary (PrefixText.pts_file ct ls) (S j) m) (PrefixText.render (PrefixText.pts_file ct ls))) = None \/
  (n = 1%nat /\ j = 0%nat /\ (3 <= m)%nat).
Proof. exact PrefixText.pts_text_prefix_rejected. Qed.
Print Assumptions prefix_pts_text.
(* a text cut before or right after the count token holds no data line: a positive count is not met *)
Theorem prefix_pts_text_count_line : forall cnt numval ct ls n,
  PrefixText.tok_ok ct -> cnt ct = Some (Z.of_nat (S n)) ->
  PrefixText.pts_read_text cnt numval
    (firstn (PrefixText.boundary (PrefixText.pts_file ct ls) 0 1) (PrefixText.render (PrefixText.pts_file ct ls))) = None /\
  PrefixText.pts_read_text cnt numval
    (firstn (PrefixText.boundary (PrefixText.pts_file ct ls) 0 0) (PrefixText.render (PrefixText.pts_file ct ls))) = None.
Proof. exact PrefixText.pts_text_count_only. Qed.
Print Assumptions prefix_pts_text_count_line.

(* ---------------------------------------------------------------- cuts that are not at the end of a token *)
(* How a byte cut of an ASCII line maps to the token prefixes the theorems above speak about:
   (1) right after a separator -- any run of blanks / tabs after the last complete token: strings.Fields yields the
       same tokens, i.e. the SAME token prefix as the cut before the separator (so prefix_pts, prefix_pts_text,
       prefix_ply_ascii_* apply unchanged: a line that ends in a blank has no empty last column);
   (2) inside a number -- the line splits into the complete tokens and the shorter spelling p that is left; the
       token prefix then holds p as a token of its own.  If p does not read as a number ("-", "1e", "1e-") the
       reader must reject (Check.C14: PBad); if it does, the prefix holds that value (PVal) and may be a complete
       valid file of its own -- the only accepted case, judged by no_placeholderb on the tokens present. *)
Theorem ascii_trailing_separator_same_tokens : forall toks seps,
  Forall PrefixText.tok_ok toks -> Forall (fun b => PrefixText.is_space b = true) seps ->
  PrefixText.fields_of (PrefixText.render_line toks ++ seps) = toks.
Proof. exact PrefixText.fields_trailing_spaces. Qed.
Print Assumptions ascii_trailing_separator_same_tokens.
Theorem ascii_partial_number_is_a_token : forall toks p,
  Forall PrefixText.tok_ok toks -> PrefixText.tok_ok p ->
  PrefixText.fields_of (PrefixText.render_line (toks ++ [p])) = toks ++ [p].
Proof. exact PrefixText.fields_partial_token. Qed.
Print Assumptions ascii_partial_number_is_a_token.
