(* C14 -- truncated model files are rejected; no hang, no fabricated geometry.  Statements only.

   Property text: "Decoding a strict prefix of a valid PLY (any encoding), binary STL, SPZ, PTS or .splat file either
   reports an error or returns only data wholly present in the prefix - the complete mesh when nothing but trailing
   framing was cut, or, for the record-streamed .splat format, exactly the splats fully contained.  The call
   terminates in time proportional to the input and never returns placeholder vertices or faces."

   One theorem per format, for every file and every cut (no size bound), about the executable models of the
   decoders (Formats/Stl.v, Pts.v, Splat.v, Spz.v, PlyRead.v); the models are tied to the Go code on every check run
   by decoding every strict prefix of generated files with the real decoders (Check/C14.v).
   Termination of the models is by structural recursion (Coq accepts no other); the cost theorems bound the number of
   record reads by the input present.  Wall-clock time of the Go runtime is observed (deadline), not proved. *)
From Coq Require Import String.
From PF Require Import Base.Bytes.
From PF Require Formats.Stl Formats.StlProofs Formats.Splat Formats.Spz Formats.Pts Formats.PtsProofs.
From PF Require Import Formats.PlyRead Formats.PrefixProofs.
Open Scope list_scope.

(* ---------------------------------------------------------------- binary STL *)
(* every strict prefix of a written file is rejected (there is no trailing framing in an STL file) *)
Theorem prefix_stl : forall hdr ts k,
  length hdr = 80%nat -> bytes_ok hdr -> (N.of_nat (length ts) < 4294967296)%N ->
  (k < length (Stl.write hdr ts))%nat -> Stl.read (firstn k (Stl.write hdr ts)) = None.
Proof. exact StlProofs.read_prefix_rejected. Qed.
Print Assumptions prefix_stl.

(* ---------------------------------------------------------------- .splat (record streamed) *)
(* the first k bytes of a written file decode to exactly the k/32 splats wholly contained, in order, and the reader
   reports an error exactly when a record was cut (second component: true = no error) *)
Theorem prefix_splat : forall rs k,
  Forall Splat.raw_ok rs -> (k <= length (Splat.write_raw rs))%nat ->
  Splat.read (firstn k (Splat.write_raw rs)) = (map Splat.dequantise (firstn (k / 32) rs), (k mod 32 =? 0)%nat).
Proof. exact splat_prefix. Qed.
Print Assumptions prefix_splat.

(* ---------------------------------------------------------------- SPZ *)
(* after gunzip: every strict prefix of the stream of a well-formed file (header + planar arrays of exactly the
   announced lengths, any version / SH degree) is rejected -- the header or one of the array length checks fails *)
Theorem prefix_spz_plain : forall h ps k,
  Spz.header_ok h -> Spz.lengths_match h ps -> (k < length (Spz.encode_ref h ps))%nat ->
  Spz.decode (firstn k (Spz.encode_ref h ps)) = None.
Proof. exact spz_plain_prefix_rejected. Qed.
Print Assumptions prefix_spz_plain.

(* with the gzip layer: [inflate] is what compress/gzip delivers before it reports the end of input or an error;
   the only assumption about it: a prefix of the compressed file inflates to a prefix of the plaintext (trusted, Go's
   compress/gzip).  A cut file is rejected, or nothing of the plaintext is missing (only gzip's trailing framing was
   cut) and the result is that of the complete file. *)
Theorem prefix_spz : forall (inflate : list N -> list N),
  (forall z k, exists j, inflate (firstn k z) = firstn j (inflate z)) ->
  forall z h ps k,
  inflate z = Spz.encode_ref h ps -> Spz.header_ok h -> Spz.lengths_match h ps ->
  spz_read inflate (firstn k z) = None \/
  (inflate (firstn k z) = inflate z /\ spz_read inflate (firstn k z) = spz_read inflate z).
Proof. exact spz_prefix. Qed.
Print Assumptions prefix_spz.

(* ---------------------------------------------------------------- PLY, binary encodings *)
(* For every header and every body on which ply.ReadMesh succeeds there is a threshold c -- the end of the data the
   header promises (vertex records, then face lists) -- such that EVERY cut below c is reported as end of input and
   every cut at or after c (only trailing bytes removed) yields the identical mesh.  A short body is an error, never
   zero filled; this covers both byte orders, every property mix, list properties, quads and texture coordinates. *)
Theorem prefix_ply_bin : forall hdr bytes m,
  read_mesh {| pf_header := hdr; pf_body := BodyBin bytes |} = Ok m ->
  exists c, (c <= length bytes)%nat /\
    (forall k, (k < c)%nat -> read_mesh {| pf_header := hdr; pf_body := BodyBin (firstn k bytes) |} = Err EEof) /\
    (forall k, (c <= k)%nat -> read_mesh {| pf_header := hdr; pf_body := BodyBin (firstn k bytes) |} = Ok m).
Proof. exact ply_bin_prefix. Qed.
Print Assumptions prefix_ply_bin.

(* the vertex block: the threshold is exactly (number of vertices) * (record size) *)
Theorem prefix_ply_bin_vertices : forall e bs size n bytes rows rest k,
  read_vertices_bin e bs size n bytes = Ok (rows, rest) -> (k < n * size)%nat ->
  read_vertices_bin e bs size n (firstn k bytes) = Err EEof.
Proof. exact ply_bin_vertices_prefix. Qed.
Print Assumptions prefix_ply_bin_vertices.

(* ---------------------------------------------------------------- PLY header (all encodings), cut after j lines *)
Theorem prefix_ply_header : forall hdr h j, parse_header hdr = Ok h ->
  parse_header (firstn j hdr) = Err EEof \/ parse_header (firstn j hdr) = Ok h.
Proof. exact ply_header_prefix. Qed.
Print Assumptions prefix_ply_header.

(* ---------------------------------------------------------------- PLY, ASCII (token level) *)
(* cut after k complete body lines: the same threshold statement, c = lines the header promises (blank lines included) *)
Theorem prefix_ply_ascii_lines : forall hdr lines m,
  read_mesh {| pf_header := hdr; pf_body := BodyAscii lines |} = Ok m ->
  exists c, (c <= length lines)%nat /\
    (forall k, (k < c)%nat -> read_mesh {| pf_header := hdr; pf_body := BodyAscii (firstn k lines) |} = Err EEof) /\
    (forall k, (c <= k)%nat -> read_mesh {| pf_header := hdr; pf_body := BodyAscii (firstn k lines) |} = Ok m).
Proof. exact ply_ascii_lines_prefix. Qed.
Print Assumptions prefix_ply_ascii_lines.

(* cut at a token boundary inside line j of the vertex block (the tokens p present: at least one, fewer than the
   element has properties): reported, never loaded as zeros *)
Theorem prefix_ply_ascii_vertex_token : forall hdr lines m h ve bs rows rest j p,
  read_mesh {| pf_header := hdr; pf_body := BodyAscii lines |} = Ok m ->
  parse_header hdr = Ok h ->
  find_last_elem "vertex"%string (h_elems h) None = Some ve ->
  build_readers false default_groups true (e_props ve) = Ok bs ->
  read_vertices_ascii bs (length (e_props ve)) lines (Z.to_nat (e_count ve)) = Ok (rows, rest) ->
  (j < length lines - length rest)%nat -> p <> [] -> (length p < length (e_props ve))%nat ->
  read_mesh {| pf_header := hdr; pf_body := BodyAscii (firstn j lines ++ [p]) |} = Err EEof.
Proof. exact ply_ascii_vertex_line_cut. Qed.
Print Assumptions prefix_ply_ascii_vertex_token.

(* cut at a token boundary inside line j of the face block, after 0 < m tokens, fewer than the lists of that line
   announce ([face_used]: 1 + count tokens per list property); [rest] = the lines after the vertex block,
   [face_lines] = how many of them the face block reads.  Reported (a short list is an error, not a panic, not a
   stale or zero index). *)
Theorem prefix_ply_ascii_face_token : forall hdr lines mesh h ve fe bs rows rest rs ip tp j m,
  read_mesh {| pf_header := hdr; pf_body := BodyAscii lines |} = Ok mesh ->
  parse_header hdr = Ok h ->
  find_last_elem "vertex"%string (h_elems h) None = Some ve ->
  find_last_elem "face"%string (h_elems h) None = Some fe ->
  build_readers false default_groups true (e_props ve) = Ok bs ->
  read_vertices_ascii bs (length (e_props ve)) lines (Z.to_nat (e_count ve)) = Ok (rows, rest) ->
  face_setup fe = Ok (rs, ip, tp) ->
  (j < face_lines rest (Z.to_nat (e_count fe)))%nat ->
  (0 < m)%nat -> (m < face_used rs (nth j rest []))%nat ->
  read_mesh {| pf_header := hdr;
               pf_body := BodyAscii (firstn (length lines - length rest) lines
                                     ++ firstn j rest ++ [firstn m (nth j rest [])]) |} = Err EDeclared.
Proof. exact ply_ascii_face_line_cut. Qed.
Print Assumptions prefix_ply_ascii_face_token.

(* ---------------------------------------------------------------- PTS (token level) *)
(* a valid file: n lines of w >= 3 fields.  Every token-boundary strict prefix (j complete lines, m tokens of the
   next) is rejected -- except that a ONE-point file cut after >= 3 fields of its only line is itself a valid,
   shorter one-point file (its data are wholly present: see no_placeholder_pts) *)
Theorem prefix_pts : forall n w (ls : list Pts.line) j m,
  PtsProofs.pts_valid n w ls -> (j < n)%nat -> (m < w)%nat ->
  Pts.pts_read (Some (Z.of_nat n)) (Pts.pts_prefix ls j m) = None \/
  (n = 1%nat /\ j = 0%nat /\ (3 <= m)%nat).
Proof. exact PtsProofs.pts_prefix_rejected. Qed.
Print Assumptions prefix_pts.

(* ---------------------------------------------------------------- no placeholders *)
(* PTS: every Ok result has exactly the announced number of points and every position / intensity / colour is the
   image of tokens of its own line, which has enough fields *)
Theorem no_placeholder_pts : forall c ls r,
  Pts.pts_read c ls = Some r -> Pts.no_placeholderb c ls r = true.
Proof. exact PtsProofs.pts_read_no_placeholder. Qed.
Print Assumptions no_placeholder_pts.

(* PLY: whatever a cut file decodes to IS the decode of the complete file -- every vertex, face and attribute value
   of an Ok result is the image of bytes / tokens present in the prefix *)
Theorem no_placeholder_ply_bin : forall hdr bytes m k m',
  read_mesh {| pf_header := hdr; pf_body := BodyBin bytes |} = Ok m ->
  read_mesh {| pf_header := hdr; pf_body := BodyBin (firstn k bytes) |} = Ok m' -> m' = m.
Proof. exact ply_bin_no_placeholder. Qed.
Print Assumptions no_placeholder_ply_bin.
Theorem no_placeholder_ply_ascii : forall hdr lines m k m',
  read_mesh {| pf_header := hdr; pf_body := BodyAscii lines |} = Ok m ->
  read_mesh {| pf_header := hdr; pf_body := BodyAscii (firstn k lines) |} = Ok m' -> m' = m.
Proof. exact ply_ascii_no_placeholder. Qed.
Print Assumptions no_placeholder_ply_ascii.
(* STL, SPZ: prefix_stl / prefix_spz leave no Ok result on a strict prefix other than the complete one;
   .splat: prefix_splat gives the result exactly. *)

(* ---------------------------------------------------------------- cost: work follows the input present *)
(* stl.Read: the number of 50-byte record reads is bounded by the bytes present, whatever triangle count the header
   announces (the loop stops at the first missing record); [read_tris_steps] is [Stl.read_tris] with a counter *)
Theorem decode_cost_stl : forall fuel count l, (50 * read_tris_steps fuel count l <= length l + 50)%nat.
Proof. exact stl_read_cost. Qed.
Print Assumptions decode_cost_stl.
Theorem decode_cost_stl_counts : forall fuel count l ts,
  Stl.read_tris fuel count l = Some ts -> read_tris_steps fuel count l = length ts.
Proof. exact read_tris_steps_ok. Qed.
Print Assumptions decode_cost_stl_counts.
Theorem decode_cost_splat : forall fuel l, (32 * read_raw_steps fuel l <= length l + 32)%nat.
Proof. exact splat_read_cost. Qed.
Print Assumptions decode_cost_splat.

(* ---------------------------------------------------------------- non-vacuity *)
Open Scope string_scope.
Definition ex_hdr : list (list string) :=
  [["ply"]; ["format"; "binary_little_endian"; "1.0"]; ["element"; "vertex"; "2"];
   ["property"; "float"; "x"]; ["property"; "float"; "y"]; ["property"; "float"; "z"];
   ["element"; "face"; "1"]; ["property"; "list"; "uchar"; "int"; "vertex_indices"]; ["end_header"]].
Definition ex_body : list N :=
  ([0;0;128;63; 0;0;0;64; 0;0;64;64;   0;0;128;64; 0;0;160;64; 0;0;192;64;   3; 0;0;0;0; 1;0;0;0; 0;0;0;0])%N.
(* the hypotheses of the PLY theorems hold for a concrete file with faces; its threshold is the whole body: every
   strict prefix is rejected *)
Example ex_ply_bin :
  (exists m, read_mesh {| pf_header := ex_hdr; pf_body := BodyBin ex_body |} = Ok m) /\
  forallb (fun k => match read_mesh {| pf_header := ex_hdr; pf_body := BodyBin (firstn k ex_body) |} with
                    | Err EEof => true | _ => false end) (seq 0 (List.length ex_body)) = true.
Proof. split; [eexists; vm_compute; reflexivity|vm_compute; reflexivity]. Qed.
Example ex_stl_splat :
  Stl.read (firstn 133 (Stl.write Stl.zero_hdr [{| Stl.tn := (0,0,0); Stl.ta := (1,2,3); Stl.tb := (4,5,6); Stl.tc := (7,8,9); Stl.tattr := 0 |}]%N)) = None /\
  Forall Splat.raw_ok [{| Splat.r_pos := (1,2,3); Splat.r_scale := (4,5,6); Splat.r_cb := (7,8,9,10); Splat.r_rb := (11,12,13,14) |}]%N.
Proof.
  split; [vm_compute; reflexivity|]. repeat constructor; vm_compute; reflexivity.
Qed.
