(* C14 — truncated model files are rejected.  Statements only. *)
From PF Require Import Base.Bytes Formats.Stl Formats.StlProofs.
Open Scope N_scope.

(* binary STL: every strict prefix of a written file is rejected *)
Theorem prefix_stl : forall hdr ts k,
  length hdr = 80%nat -> bytes_ok hdr -> N.of_nat (length ts) < 4294967296 ->
  (k < length (write hdr ts))%nat -> read (firstn k (write hdr ts)) = None.
Proof. exact read_prefix_rejected. Qed.
Print Assumptions prefix_stl.
