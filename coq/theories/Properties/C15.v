(* C15 — Gaussian-splat codecs keep every splat's fields within one quantisation step.

   THE PROPERTY, in three clauses (each stated once below as one theorem; the other theorems are their parts):

   (1) .splat   [splat_clause]  Writing a splat cloud to the .splat format and reading it back returns the same
       number of splats in order with exact float32 positions, scales equal up to float32 rounding of exp/log, and
       colour, opacity and rotation within one 8-bit step of the original (colours clamp to the displayable range).
   (2) SPZ      [spz_clause]    Decoding an SPZ stream built to the published layout (versions 1 and 2, any
       fractional-bit count and harmonics degree) returns, for splat i, exactly the dequantised values of record i
       with all attribute arrays of the declared length.
   (3) SplatPly [splatply_roundtrip]  The PLY splat export preserves all splat attributes at float32 precision:
       ply.ReadMesh of the file written by ply.SplatPly returns the same point cloud, every attribute of the 51-writer /
       62-property table under its own name with every component the float64 image of the float32 that was written.

   Round 4 additions (end of the file): the float-only steps over the reals with binary32 rounding instantiated by Flocq
   and numeric side conditions by Interval (module RealFloat), spz.ReadHeader, the empty SplatPly cloud.

   Statements only; proofs live in Formats/SplatProofs.v, SplatReal.v, SplatInterval.v, SpzProofs.v, SpzExtraProofs.v,
   SplatPlyLink.v.
   Models: Formats/Splat.v (splat.Write / splat.Read, SplatPly table), Formats/Spz.v (spz.Read after gunzip,
   reference encoder of the published layout); clause (3) is stated on C04's writer model (Formats/PlyWrite.v) and
   C08's reader model (Formats/PlyRead.v). *)
From PF Require Import Base.Bytes Formats.Splat Formats.SplatProofs Formats.Spz Formats.SpzProofs.
From Coq Require Import QArith Qabs.
From PF Require Formats.SplatReal Formats.SplatInterval Formats.SpzExtra Formats.SpzExtraProofs.
From Flocq Require Core.
From PF Require Formats.PlyRead Formats.PlyWrite Formats.PlyWriteProofs Formats.SplatPlyLink.
From Coq Require Reals Lra.
Open Scope N_scope.

(* ====================== .splat ====================== *)

(* 32 bytes per splat, for every count including 0 and 1 *)
Theorem splat_count : forall cloud : list splat, length (Splat.write cloud) = (32 * length cloud)%nat.
Proof. exact SplatProofs.write_length. Qed.
Print Assumptions splat_count.

(* Writing a cloud and reading it back: no error, the same number of splats in the same order
   (Forall2), position and scale words identical, every colour channel within 1/255 of the clamped
   colour (displayable domain c*SH_C0+1/2 in [0,1]), opacity within 1/255 (sigmoid domain), every
   rotation component within 1/128 of the component clamped to [-1,1].
   [within_step] is spelled out in Formats/SplatProofs.v:
     o_pos o = sp_pos s /\ o_scale o = sp_scale s /\
     |d_k*SH_C0 + 1/2 - clamp (c_k*SH_C0 + 1/2) 0 1| <= 1/255 (k = 0,1,2) /\
     |o_alpha o - sp_alpha s| <= 1/255 /\ |e_k - clamp r_k (-1) 1| <= 1/128 (k = 0..3). *)
Theorem splat_roundtrip_quant : forall cloud : list splat, Forall splat_ok cloud ->
  exists cloud', Splat.read (Splat.write cloud) = (cloud', true) /\ length cloud' = length cloud
                 /\ Forall2 within_step cloud cloud'.
Proof. exact SplatProofs.roundtrip_quant. Qed.
Print Assumptions splat_roundtrip_quant.

(* the three channel bounds on their own, for every rational input *)
Theorem splat_colour_step : forall c : Q,
  (Qabs (deq_col (zb (qcol c)) * SH_C0 + (1 # 2) - clamp (col_pre c) 0 1) <= 1 # 255)%Q.
Proof. exact col_quant_bound. Qed.
Print Assumptions splat_colour_step.

(* the same in FDC units: within (1/255)/SH_C0 of the FDC value clamped to the displayable range *)
Theorem splat_colour_step_fdc : forall c : Q,
  (Qabs (deq_col (zb (qcol c)) - clamp c fdc_lo fdc_hi) <= fdc_step)%Q.
Proof. exact col_quant_bound_fdc. Qed.
Print Assumptions splat_colour_step_fdc.

Theorem splat_opacity_step : forall a : Q, (0 <= a <= 1)%Q ->
  (Qabs (deq_alpha (zb (qalpha a)) - a) <= 1 # 255)%Q.
Proof. exact alpha_quant_bound. Qed.
Print Assumptions splat_opacity_step.

Theorem splat_rotation_step : forall r : Q,
  (Qabs (deq_rot (zb (qrot r)) - clamp r (-1) 1) <= 1 # 128)%Q.
Proof. exact rot_quant_bound. Qed.
Print Assumptions splat_rotation_step.

(* the pinned writer (ea40ecc, no clamp before byte()): the w = 1 of the identity rotation is stored
   as byte 0 and read back as -1, two whole units away *)
Theorem rot_wrap_refuted :
  qrot_pinned 1 = 0%Z /\ (deq_rot (zb (qrot_pinned 1)) == -1)%Q /\
  ~ (Qabs (deq_rot (zb (qrot_pinned 1)) - clamp 1 (-1) 1) <= 1 # 128)%Q.
Proof. exact rot_wrap_pinned. Qed.
Print Assumptions rot_wrap_refuted.

(* scale: the writer stores float32(exp s) and the reader returns the log of the stored float32.
   For ANY operations exp32 / log32 with log32 (exp32 x) close to x the scale comes back close, in
   the same order, together with the quantisation bounds above. *)
Theorem splat_scale_roundtrip :
  forall (R : Type) (exp32 : R -> N) (log32 : N -> R) (close : R -> R -> Prop),
  (forall x, word32 (exp32 x)) -> (forall x, close (log32 (exp32 x)) x) ->
  forall cloud : list (usplat R), Forall (usplat_ok R) cloud ->
  exists cloud', Splat.read (Splat.write (map (usplat_to R exp32) cloud)) = (cloud', true) /\
    Forall2 (fun u o => close3 R close (log3 R log32 (o_scale o)) (fst u)
                        /\ within_step (usplat_to R exp32 u) o) cloud cloud'.
Proof. exact scale_roundtrip. Qed.
Print Assumptions splat_scale_roundtrip.

(* splat.Read on ANY byte string: floor(len/32) splats, error flag exactly when len is not a
   multiple of 32; a written file followed by 1..31 stray bytes still returns its splats *)
Theorem splat_read_count : forall l : list N,
  length (fst (Splat.read l)) = (length l / 32)%nat /\ snd (Splat.read l) = Nat.eqb (length l mod 32) 0.
Proof. exact read_count. Qed.
Print Assumptions splat_read_count.

Theorem splat_read_partial_record : forall (cloud : list splat) (extra : list N),
  Forall splat_ok cloud -> extra <> [] -> (length extra < 32)%nat ->
  Splat.read (Splat.write cloud ++ extra) = (map (fun s => Splat.dequantise (quantise s)) cloud, false).
Proof. exact read_write_partial. Qed.
Print Assumptions splat_read_partial_record.

(* ====================== SPZ ====================== *)

(* 24-bit two's complement: the uint32 OR / int32 conversion of header.go recovers every x *)
Theorem sign_extend_24 : forall x : Z, (- 8388608 <= x < 8388608)%Z ->
  sext24 (Z.to_N (x mod 16777216)) = x.
Proof. exact sext24_of_mod. Qed.
Print Assumptions sign_extend_24.

Theorem sign_extend_24_bytes : forall x : Z, (- 8388608 <= x < 8388608)%Z ->
  let u := Z.to_N (x mod 16777216) in
  sext24 (fixed24 (u mod 256) ((u / 256) mod 256) (u / 65536)) = x.
Proof. exact fixed24_sext. Qed.
Print Assumptions sign_extend_24_bytes.

(* Decoding a stream laid out by the reference encoder (any bytes may follow it): for every valid
   header and records of the sizes the header implies, the result is the header and, attribute by
   attribute, the dequantised field of record i at index i; planar order positions, alphas,
   colours, scales, rotations, SH.  [fields_of h ps] is
     f_X = map (d_X o dequantise h) ps   (X = pos, alpha, col, scale, rot)
     f_sh[d] = map (fun p => nth d (d_sh (dequantise h p))) ps   (d < shDim). *)
Theorem spz_decode_layout : forall (h : header) (ps : list prec) (extra : list N),
  header_ok h -> validate h = true -> lengths_match h ps ->
  decode (encode_ref h ps ++ extra) = Some (h, fields_of h ps).
Proof. exact decode_encode_ref. Qed.
Print Assumptions spz_decode_layout.

(* ... every attribute list has the declared length ... *)
Theorem spz_attribute_lengths : forall (h : header) (ps : list prec),
  let f := fields_of h ps in let n := length ps in
  length (f_pos f) = n /\ length (f_alpha f) = n /\ length (f_col f) = n /\ length (f_scale f) = n /\
  length (f_rot f) = n /\ length (f_sh f) = sh_dim (h_shdeg h) /\ Forall (fun a => length a = n) (f_sh f).
Proof. exact fields_of_lengths. Qed.
Print Assumptions spz_attribute_lengths.

(* ... and field_i = dequantise (record i) for every i *)
Theorem spz_field_i : forall (h : header) (ps : list prec) (i : nat), (i < length ps)%nat ->
  let f := fields_of h ps in let r := Spz.dequantise h (nth i ps dflt_prec) in
  nth i (f_pos f) dflt_x3 = d_pos r /\ nth i (f_alpha f) 0%Q = d_alpha r /\
  nth i (f_col f) Spz.dflt_q3 = d_col r /\ nth i (f_scale f) Spz.dflt_q3 = d_scale r /\
  nth i (f_rot f) dflt_q4 = d_rot r /\
  forall d, (d < sh_dim (h_shdeg h))%nat -> nth i (nth d (f_sh f) []) Spz.dflt_q3 = nth d (d_sh r) Spz.dflt_q3.
Proof. exact fields_of_nth. Qed.
Print Assumptions spz_field_i.

(* clause (2) in one statement *)
Theorem spz_clause : forall (h : header) (ps : list prec) (extra : list N),
  header_ok h -> validate h = true -> lengths_match h ps ->
  exists f, decode (encode_ref h ps ++ extra) = Some (h, f) /\
    (let n := length ps in
     length (f_pos f) = n /\ length (f_alpha f) = n /\ length (f_col f) = n /\ length (f_scale f) = n /\
     length (f_rot f) = n /\ length (f_sh f) = sh_dim (h_shdeg h) /\ Forall (fun a => length a = n) (f_sh f)) /\
    forall i, (i < length ps)%nat ->
      let r := Spz.dequantise h (nth i ps dflt_prec) in
      nth i (f_pos f) dflt_x3 = d_pos r /\ nth i (f_alpha f) 0%Q = d_alpha r /\
      nth i (f_col f) Spz.dflt_q3 = d_col r /\ nth i (f_scale f) Spz.dflt_q3 = d_scale r /\
      nth i (f_rot f) dflt_q4 = d_rot r /\
      forall d, (d < sh_dim (h_shdeg h))%nat -> nth i (nth d (f_sh f) []) Spz.dflt_q3 = nth d (d_sh r) Spz.dflt_q3.
Proof.
  intros h ps extra Hh Hv Hm. exists (fields_of h ps). split; [apply decode_encode_ref; assumption|].
  split; [apply fields_of_lengths|]. intros i Hi. apply fields_of_nth. exact Hi.
Qed.
Print Assumptions spz_clause.

(* a strict prefix of a reference stream is rejected (io.ReadFull fails on the short array), and so
   is any stream whose header fails Validate (magic, version 1..2, <= 10^7 points, degree <= 3) *)
Theorem spz_truncated_rejected : forall (h : header) (ps : list prec) (k : nat),
  header_ok h -> validate h = true -> lengths_match h ps ->
  (k < length (encode_ref h ps))%nat -> decode (firstn k (encode_ref h ps)) = None.
Proof. exact decode_prefix_rejected. Qed.
Print Assumptions spz_truncated_rejected.

Theorem spz_invalid_header_rejected : forall (h : header) (rest : list N),
  header_ok h -> validate h = false -> decode (enc_header h ++ rest) = None.
Proof. exact decode_invalid_header. Qed.
Print Assumptions spz_invalid_header_rejected.

(* (point i, coefficient d, channel c) |-> 3*shDim*i + 3*d + c is a bijection onto [0, 3*shDim*n) *)
Theorem sh_index_bijective : forall dim n : nat,
  (forall i d c, i < n -> d < dim -> c < 3 -> sh_index dim d i + c < 3 * dim * n)%nat /\
  (forall i d c i' d' c', d < dim -> d' < dim -> c < 3 -> c' < 3 ->
     sh_index dim d i + c = sh_index dim d' i' + c' -> i = i' /\ d = d' /\ c = c')%nat /\
  (forall k, k < 3 * dim * n -> exists i d c, i < n /\ d < dim /\ c < 3 /\ k = sh_index dim d i + c)%nat.
Proof. exact SpzProofs.sh_index_bijective. Qed.
Print Assumptions sh_index_bijective.

(* version 1 half floats: halfToFloat's shifts and masks are the IEEE binary16 fields, and the
   value is exact: +-2^(e-15) (1 + m/1024), subnormals +-m 2^-24, inf / NaN for e = 31 *)
Theorem half_decode_exact : forall s e m : N, s < 2 -> e < 32 -> m < 1024 ->
  half_decode (32768 * s + 1024 * e + m) = half_spec (s =? 1) e m.
Proof. exact half_decode_fields. Qed.
Print Assumptions half_decode_exact.

(* ====================== support of the large synthetic cases (Check/C15.v, CBig cases) ====================== *)
(* an input in the middle of quantisation step j is stored as exactly byte j (rotation, colour in the
   displayable domain, opacity in the sigmoid domain): the model's answer on the mid-step clouds *)
Theorem splat_mid_step_exact :
  (forall j, (0 <= j <= 255)%Z -> qrot ((inject_Z j - 128 + (1 # 2)) / 128) = j) /\
  (forall j, (0 <= j <= 255)%Z -> qcol_of ((inject_Z j + (1 # 2)) / 255) = j) /\
  (forall j, (0 <= j <= 254)%Z -> qalpha ((inject_Z j + (1 # 2)) / 255) = j).
Proof. split; [exact qrot_mid|]. split; [exact qcol_of_mid|exact qalpha_mid]. Qed.
Print Assumptions splat_mid_step_exact.

(* the SPZ byte dequantisers are injective: two bytes with the same dequantised value are the same byte,
   so comparing the bytes that returned values dequantise from is comparing the values *)
Theorem spz_dequantisers_injective : forall a b : N,
  ((scale1 a == scale1 b)%Q -> a = b) /\ ((sh1 a == sh1 b)%Q -> a = b) /\ ((rot1 a == rot1 b)%Q -> a = b) /\
  ((col1 a == col1 b)%Q -> a = b) /\ ((bq a / 255 == bq b / 255)%Q -> a = b).
Proof.
  intros a b. split; [apply scale1_inj|]. split; [apply sh1_inj|]. split; [apply rot1_inj|].
  split; [apply col1_inj|apply alpha_inj].
Qed.
Print Assumptions spz_dequantisers_injective.

(* ====================== SplatPly ====================== *)

(* facts about the writer table on their own: 51 entries / 62 float properties; no property name twice, for every
   subset of attributes present; each entry has as many names as components and the default reader attributes the
   j-th name of entry a back to (a, j); the binary body has 4 bytes per property and vertex *)
Theorem splatply_table_facts :
  (length splatply_table = 51%nat /\ length (splatply_props all_attrs) = 62%nat) /\
  (forall present, NoDup (splatply_props present)) /\
  (forall a k ps j p, In (a, k, ps) splatply_table -> nth_error ps j = Some p -> reader_lookup p = (a, j)) /\
  (forall rows k, Forall (fun r => length r = k) rows -> length (ply_body rows) = (4 * k * length rows)%nat).
Proof.
  split; [split; apply splatply_table_ok|]. split; [exact splatply_props_nodup|].
  split; [exact splatply_names_back|exact ply_body_length].
Qed.
Print Assumptions splatply_table_facts.

(* clause (3).  [splat_opts] is the SplatPly writer table as a C04 writer table (51 writers, all float,
   WriteUnspecifiedProperties off); [splat_cloud_ok m]: point topology, at least one vertex, every attribute one row
   of its dimension of float32 words per vertex.  For EVERY such cloud, whatever subset of the 51 attributes it has
   (any SH degree), the binary little-endian file is written, its header parses, ply.ReadMesh builds its readers on
   the written property list, and the result is the same point cloud (identity indices, n vertices) whose attribute
   list holds, for each written group g, exactly [gattr g] = (components, name, rows of the float64 images cvF of
   the float32 words written) -- the named groups in the READER's table order (Position, Normal, FDC, Opacity,
   Scale, Rotation: SplatPly writes Opacity after Rotation), then f_rest_* in file order.  [splat_attrs_same] /
   [splat_attrs_count]: that list has the same elements and the same length as the writer-side view
   [rview splat_opts m] of C04's [expected].  Proof: C04's placed-readers theorem (read_mesh_pointcloud_placed) for the
   readers computed here for all 64 subsets of the named groups and, by induction, any set of f_rest_* scalars.
   (The empty cloud writes nothing but a header with zero vertices; it is covered by the per-case check.) *)
Module SplatPlyVertex.
Import PlyRead PlyWrite PlyWriteProofs SplatPlyLink.
Import Coq.Strings.String.
Open Scope list_scope.
Theorem splatply_roundtrip : forall m : wmesh, splat_cloud_ok m ->
  exists file, PlyWrite.write splat_opts BinLE m = Ok file /\
    read_mesh file = Ok {| m_topo := TPoint; m_idx := iota (w_n m);
                           m_attrs := map gattr (reorder rg_attr (pregs m) ++ tail m) |} /\
    (forall a, In a (map gattr (reorder rg_attr (pregs m) ++ tail m)) <-> In a (map gattr (rview splat_opts m))) /\
    List.length (reorder rg_attr (pregs m) ++ tail m) = List.length (rview splat_opts m).
Proof.
  intros m H. destruct (splatply_whole_file m H) as (file & Hw & Hr). exists file.
  split; [exact Hw|]. split; [exact Hr|]. split; [apply splat_attrs_same|apply splat_attrs_count].
Qed.
Print Assumptions splatply_roundtrip.

(* the vertex block alone: laid out by the C15 body model [ply_body] and read by the reader model's binary vertex
   routine with the laid-out readers; trailing bytes untouched *)
Theorem splatply_vertex_block : forall (n : nat) (data : list adata) (rest : list N),
  data_ok n data ->
  let gs := splat_groups data in
  read_vertices_bin LEnd (layout true gs 0) (record_size (vertex_props gs)) n (ply_body (group_rows gs n) ++ rest)
  = Ok (map (fun i => map (fun g => map cvF (rowi g i)) gs) (seq 0 n), rest).
Proof. exact splatply_cloud_roundtrip. Qed.
Print Assumptions splatply_vertex_block.
(* non-vacuity: a one-splat cloud with a position and an opacity is well formed for the table *)
Example splatply_example :
  data_ok 1 [("Position"%string, [[1065353216; 0; 3212836864]]); ("Opacity"%string, [[1056964608]])] /\
  List.length (splat_groups [("Position"%string, [[1065353216; 0; 3212836864]]); ("Opacity"%string, [[1056964608]])]) = 2%nat.
Proof.
  split; [|vm_compute; reflexivity]. unfold data_ok. vm_compute splat_groups.
  repeat constructor; unfold word32; cbn; lia.
Qed.
(* non-vacuity of [splat_cloud_ok]: a one-splat degree-0 cloud with two f_rest attributes; the readers come back in
   the reader's order (Opacity before Scale and Rotation) *)
Example splatply_cloud_example :
  let A d n r := {| wa_dim := d; wa_name := n; wa_rows := r |} in
  let m := {| w_topo := TPoint; w_idx := [0%nat]; w_n := 1;
              w_attrs := [A 4%nat "Rotation"%string [[1065353216; 0; 0; 0]]; A 3%nat "FDC"%string [[1; 2; 3]]; A 3%nat "Position"%string [[5; 6; 7]];
                          A 3%nat "Scale"%string [[8; 9; 10]]; A 1%nat "Opacity"%string [[11]]; A 1%nat "f_rest_0"%string [[12]]; A 1%nat "f_rest_1"%string [[13]]] |} in
  splat_cloud_ok m /\
  map rg_attr (rview splat_opts m) = ["Position"%string; "FDC"%string; "Scale"%string; "Rotation"%string; "Opacity"%string; "f_rest_0"%string; "f_rest_1"%string] /\
  map rg_attr (reorder rg_attr (pregs m) ++ tail m) = ["Position"%string; "FDC"%string; "Opacity"%string; "Scale"%string; "Rotation"%string; "f_rest_0"%string; "f_rest_1"%string].
Proof. cbv zeta. split; [repeat split; auto|split; vm_compute; reflexivity]. Qed.
End SplatPlyVertex.

(* ====================== non-vacuity ====================== *)
(* a two-splat cloud (identity rotation; saturated colours) meets the hypotheses, is written to 64
   bytes and read back as two splats; the rotation w = 1 comes back as 127/128 *)
Example splat_example :
  let s1 := {| sp_pos := (1065353216, 0, 3212836864); sp_scale := (1065353216, 1065353216, 1065353216);
               sp_col := (0, 5, -5)%Q; sp_alpha := (1 # 2)%Q; sp_rot := (0, 0, 0, 1)%Q |} in
  let s2 := {| sp_pos := (0, 0, 0); sp_scale := (0, 0, 0);
               sp_col := (1 # 3, -1 # 7, 2)%Q; sp_alpha := 1%Q; sp_rot := (-1, 1 # 2, -3, 1 # 256)%Q |} in
  length (Splat.write [s1; s2]) = 64%nat /\
  map (fun o => let '(_, _, _, w) := o_rot o in Qred w) (fst (Splat.read (Splat.write [s1; s2]))) = [(127 # 128)%Q; 0%Q] /\
  snd (Splat.read (Splat.write [s1; s2])) = true.
Proof. vm_compute. repeat split; reflexivity. Qed.

(* a version-2, degree-1, two-point SPZ stream: position pattern ff ff ff is -1 / 2^fb *)
Example spz_example :
  let h := {| h_magic := magic; h_version := 2; h_npoints := 2; h_shdeg := 1; h_fb := 4; h_flags := 0; h_reserved := 0 |} in
  let p1 := {| p_pos := [255; 255; 255; 0; 0; 128; 16; 0; 0]; p_alpha := 255; p_col := [0; 128; 255];
               p_scale := [160; 0; 255]; p_rot := [0; 128; 255]; p_sh := [1; 2; 3; 4; 5; 6; 7; 8; 9] |} in
  let p2 := {| p_pos := [1; 0; 0; 2; 0; 0; 3; 0; 0]; p_alpha := 0; p_col := [1; 2; 3];
               p_scale := [4; 5; 6]; p_rot := [7; 8; 9]; p_sh := [11; 12; 13; 14; 15; 16; 17; 18; 19] |} in
  validate h = true /\
  option_map (fun r => f_pos (snd r)) (decode (encode_ref h [p1; p2])) =
    Some [(XQ (-1 # 16), XQ (-8388608 # 16), XQ (16 # 16)); (XQ (1 # 16), XQ (2 # 16), XQ (3 # 16))] /\
  option_map (fun r => length (f_sh (snd r))) (decode (encode_ref h [p1; p2])) = Some 3%nat.
Proof. vm_compute. repeat split; reflexivity. Qed.

(* ====================== scale clause over the real numbers ====================== *)
(* The only theorem of this file that depends on the standard library's real-number axioms.
   If rounding to float32 has relative error <= u <= 1/2 on the positive reals it is applied to, the
   log of the stored float32(exp s) is within 2u of s: 2^-23 for float32 (u = 2^-24, normal range). *)
Module RealScale.
Import Reals.
Local Open Scope R_scope.
Theorem splat_scale_real : forall (rnd : R -> R) (u : R) (dom : R -> Prop),
  0 <= u <= / 2 ->
  (forall y, 0 < y -> dom y -> Rabs (rnd y - y) <= u * y) ->
  forall s, dom (exp s) -> Rabs (ln (rnd (exp s)) - s) <= 2 * u.
Proof. exact SplatReal.scale_roundtrip_real. Qed.
Print Assumptions splat_scale_real.

(* clause (1) in one statement: count, order, exact float32 positions, stored scale word kept (and the log of the
   stored float32(exp s) within 2u of s), colour / opacity / rotation within one 8-bit step.  [sp_scale] of a splat
   IS the float32 word of exp(scale) -- the first conjunct keeps it bit for bit ([within_step]: o_scale o = sp_scale s),
   the second bounds what taking its logarithm gives back. *)
Theorem splat_clause :
  (forall cloud : list splat, Forall splat_ok cloud ->
     exists cloud', Splat.read (Splat.write cloud) = (cloud', true) /\ length cloud' = length cloud
                    /\ Forall2 within_step cloud cloud') /\
  (forall (rnd : R -> R) (u : R) (dom : R -> Prop), 0 <= u <= / 2 ->
     (forall y, 0 < y -> dom y -> Rabs (rnd y - y) <= u * y) ->
     forall s, dom (exp s) -> Rabs (ln (rnd (exp s)) - s) <= 2 * u).
Proof. split; [exact SplatProofs.roundtrip_quant|exact SplatReal.scale_roundtrip_real]. Qed.
Print Assumptions splat_clause.
End RealScale.

(* ====================== round 4 ====================== *)

(* spz.ReadHeader (load.go): on the 16 header bytes followed by anything it returns the header as written and reports
   an error exactly when Validate fails; on fewer than 16 bytes there is no header *)
Theorem spz_read_header : forall (h : header) (rest : list N), header_ok h ->
  SpzExtra.read_header (enc_header h ++ rest) = Some (h, validate h).
Proof. exact SpzExtraProofs.read_header_enc. Qed.
Print Assumptions spz_read_header.

Theorem spz_read_header_short : forall l : list N, (length l < 16)%nat -> SpzExtra.read_header l = None.
Proof. exact SpzExtraProofs.read_header_short. Qed.
Print Assumptions spz_read_header_short.

(* decode and ReadHeader agree: whenever decode accepts a stream, ReadHeader returns the same header without error *)
Theorem spz_read_header_decode : forall (l : list N) (h : header) (f : fields),
  decode l = Some (h, f) -> SpzExtra.read_header l = Some (h, true).
Proof. exact SpzExtraProofs.read_header_of_decode. Qed.
Print Assumptions spz_read_header_decode.

(* SPZ rotations: the vector part returned is the three dequantised bytes b/127.5 - 1 whatever its length; nothing
   is renormalised.  Witnesses outside the unit ball: (255,255,255) -> (1,1,1,0), (0,0,0) -> (-1,-1,-1,0) and the
   encoder-rounded axis quaternion (255,127,127) -> (1,-1/255,-1/255,0) with |xyz|^2 = 1 + 2/255^2. *)
Theorem spz_rotation_xyz_raw : forall b0 b1 b2 : N,
  let '(x, y, z, _) := rot_of [b0; b1; b2] 0 in x = rot1 b0 /\ y = rot1 b1 /\ z = rot1 b2.
Proof. exact SpzExtraProofs.rot_of_xyz. Qed.
Print Assumptions spz_rotation_xyz_raw.

Theorem spz_rotation_outside_ball :
  (let '(x, y, z, w2) := rot_of [255; 255; 255] 0 in (x == 1 /\ y == 1 /\ z == 1 /\ w2 == 0)%Q) /\
  (let '(x, y, z, w2) := rot_of [0; 0; 0] 0 in (x == -1 /\ y == -1 /\ z == -1 /\ w2 == 0)%Q) /\
  (let '(x, y, z, w2) := rot_of [255; 127; 127] 0 in (x == 1 /\ y == - (1 # 255) /\ z == - (1 # 255) /\ w2 == 0)%Q).
Proof. exact SpzExtraProofs.rot_of_outside_ball. Qed.
Print Assumptions spz_rotation_outside_ball.

(* clause (3), the case the theorem above leaves out: the empty cloud (no vertex, hence no attribute) is written as a
   header announcing zero vertices and read back as the empty point cloud -- by computation on the two models *)
Module SplatPlyEmpty.
Import PlyRead PlyWrite PlyWriteProofs SplatPlyLink.
Open Scope list_scope.
Example splatply_empty_cloud :
  let m := {| w_topo := TPoint; w_idx := []; w_n := 0; w_attrs := [] |} in
  exists file, PlyWrite.write splat_opts BinLE m = Ok file /\ pf_body file = BodyBin [] /\
    read_mesh file = Ok {| m_topo := TPoint; m_idx := []; m_attrs := [] |}.
Proof. cbv zeta. eexists. split; [vm_compute; reflexivity|]. split; vm_compute; reflexivity. Qed.
End SplatPlyEmpty.

(* The float-only steps over the real numbers (standard-library real-number axioms, as splat_scale_real). *)
Module RealFloat.
Import Reals.
Import Flocq.Core.Core.
Local Open Scope R_scope.

(* Scale, binary32 made concrete.  [round radix2 (FLT_exp (-149) 24) ZnearestE] is Flocq's round-to-nearest-even into
   the binary32 format (24-bit significand, gradual underflow, no upper bound).  For every scale -87 <= s <= 88 the
   value exp s is a normal number (>= 2^-126), the stored value does not exceed the largest finite float32
   (2^24 - 1) * 2^104, so the unbounded format IS float32 there, and the log of the stored value is within 2^-23 of s.
   No hypothesis about the rounding is left (splat_scale_real assumed its relative error). *)
Theorem splat_scale_float32 :
  (forall s : R, -87 <= s <= 88 ->
     / IZR (2 ^ 126) <= exp s /\
     round radix2 (FLT_exp (-149) 24) ZnearestE (exp s) <= IZR ((2 ^ 24 - 1) * 2 ^ 104) /\
     Rabs (ln (round radix2 (FLT_exp (-149) 24) ZnearestE (exp s)) - s) <= / 8388608) /\
  (* ... with an inexact exp / log on top (Go's float64 math.Exp and math.Log): relative error e on exp, absolute
     error e' on log  ==>  within 2^-23 + 2e + e' *)
  (forall (expg logg : R -> R) (e e' : R),
     0 <= e <= / 4 ->
     (forall x, Rabs (expg x - exp x) <= e * exp x) ->
     (forall y, 0 < y -> Rabs (logg y - ln y) <= e') ->
     forall s, -86 <= s <= 87 ->
     Rabs (logg (round radix2 (FLT_exp (-149) 24) ZnearestE (expg s)) - s) <= / 8388608 + 2 * e + e').
Proof. split; [exact SplatInterval.scale_float32|exact SplatInterval.scale_float32_with_libm]. Qed.
Print Assumptions splat_scale_float32.
(* (one statement, one Print Assumptions: each of those walks through Flocq and Interval and takes seconds) *)

(* Opacity.  For EVERY real opacity o: alpha = 1/(1+exp(-o)) is strictly between 0 and 1, the stored byte
   floor(alpha * 255) is in 0..254 and byte/255 lies within one step below alpha. *)
Theorem splat_opacity_byte_real : forall o : R,
  let alpha := / (1 + exp (- o)) in let b := Zfloor (alpha * 255) in
  (0 <= b <= 254)%Z /\ 0 <= alpha - IZR b / 255 < / 255.
Proof. exact SplatInterval.opacity_byte_real. Qed.
Print Assumptions splat_opacity_byte_real.

(* The reader returns -ln(1/a - 1) for a = byte/255; when the byte is not 0 its sigmoid is exactly a, so the opacity
   read back is within one 8-bit step of the original in the sigmoid domain; the byte is not 0 from o = -5.5 on. *)
Theorem splat_opacity_roundtrip_real : forall o : R,
  let sig x := / (1 + exp (- x)) in let b := Zfloor (sig o * 255) in
  (1 <= b)%Z -> Rabs (sig (- ln (1 / (IZR b / 255) - 1)) - sig o) < / 255.
Proof. exact SplatInterval.opacity_roundtrip_real. Qed.
Print Assumptions splat_opacity_roundtrip_real.

(* the model's exact quantiser on the float64 alpha that Go computed, against the real sigmoid: an alpha within eps of
   sigmoid(o) is stored and dequantised within 1/255 + eps of sigmoid(o) *)
Theorem splat_opacity_model_vs_sigmoid : forall (a : Q) (o eps : R),
  (0 <= a <= 1)%Q -> Rabs (Q2R a - / (1 + exp (- o))) <= eps ->
  Rabs (Q2R (deq_alpha (zb (qalpha a))) - / (1 + exp (- o))) <= / 255 + eps.
Proof. exact SplatInterval.opacity_model_vs_sigmoid. Qed.
Print Assumptions splat_opacity_model_vs_sigmoid.

(* two numeric facts closed by the Interval tactic: the stored opacity byte is at least 1 from o = -5.5 on (so the
   value read back is finite and the theorem above applies), and the colour constant of write.go is 1/(2 sqrt pi)
   to 2^-56 *)
Theorem splat_numeric_facts :
  (forall o : R, -11 / 2 <= o -> (1 <= Zfloor (/ (1 + exp (- o)) * 255))%Z) /\
  Rabs (Q2R SH_C0 - / (2 * sqrt PI)) <= / 72057594037927936.
Proof. split; [exact SplatInterval.opacity_byte_positive|exact SplatInterval.SH_C0_value]. Qed.
Print Assumptions splat_numeric_facts.

(* SPZ rotation with the real square root: unit norm when the dequantised vector part is in the unit ball, w = 0
   outside; and the model's fourth component is the square of that w *)
Theorem spz_rotation_unit : forall x y z : R,
  let w := sqrt (Rmax 0 (1 - (x * x + y * y + z * z))) in
  (x * x + y * y + z * z <= 1 -> x * x + y * y + z * z + w * w = 1) /\
  (1 <= x * x + y * y + z * z -> w = 0) /\ 0 <= w.
Proof. exact SplatInterval.spz_rotation_unit. Qed.
Print Assumptions spz_rotation_unit.

Theorem spz_rotation_model_w : forall b0 b1 b2 : N,
  let '(x, y, z, w2) := rot_of [b0; b1; b2] 0 in
  sqrt (Q2R w2) = sqrt (Rmax 0 (1 - (Q2R x * Q2R x + Q2R y * Q2R y + Q2R z * Q2R z))).
Proof. exact SplatInterval.spz_rot_model_w. Qed.
Print Assumptions spz_rotation_model_w.

(* non-vacuity of the range hypotheses *)
Example real_float_example : -87 <= 0 <= 88 /\ -11 / 2 <= 0.
Proof. split; [split|]; Lra.lra. Qed.
End RealFloat.
