(* C13 -- concurrent parameter updates, parameter reads and artifact generation are linearizable.
   Statements only; proofs live in Graph/LockProofs.v (history level) and Graph/LockSemProofs.v (semantics).

   Reading guide (definitions in Graph/Lock.v):
     op / resp / seq_step   the sequential specification: Update p v, BadUpdate p (malformed message: value kept,
                            version bumped), Get p, Artifact f (f = the parameters the producer's text lists)
     step G c t             small-step interleaving semantics: thread t takes one step; every call is
                            Inv; [Acquire;] body split into single shared-memory accesses [; Release]; Resp, the
                            bracket being present exactly when G says the entry point is guarded
     guard_of fs            G computed from the lock facts fs that tools/lockfacts extracts from
                            generator/graph/instance.go of the tree under check (coq/gen/LockFacts.v)
     reach G c0 c tr        c is reachable from c0 by the trace tr (any number of threads, any programs)
     call                   completed call with invocation / response stamps from the one shared clock
     linearizable s cs      some permutation of cs is a legal sequential execution from s and never puts a call
                            before one that had responded before it was invoked
     linb                   the executable checker the recorded histories of the real runs are judged by *)
From Coq Require Import List NArith ZArith Arith Bool String Lia Sorting.Permutation.
From PF Require Import Graph.Lock Graph.LockProofs Graph.LockSemProofs Graph.LockNodes Graph.LockAlias
  Graph.LockExt Graph.LockExtProofs.
From PFGen Require LockFacts.
Import ListNotations.

(* (T) The lock facts of the tree under check satisfy the discipline: Lock() first (after local computation that
   touches no field written in a critical section), `defer Unlock()` next, no other mention of the mutex, no
   goroutine / closure, callees do not touch the mutex.  Re-established by computation on every run. *)
Theorem lock_facts_hold : lock_facts_ok LockFacts.facts = true.
Proof. vm_compute. reflexivity. Qed.
Print Assumptions lock_facts_hold.

(* ==================================================================================================== *)
(* THE PROPERTY, packaged.  "Parameter updates, parameter reads and artifact generation issued concurrently behave
   as if executed one at a time in an order consistent with real time: every artifact reflects one consistent
   snapshot of all parameter values -- never a mixture of two states and never a value older than an update that
   had completed before the read began -- and no interleaving produces a data race or a crash."

   For the lock facts extracted from the tree under check (coq/gen/LockFacts.v, regenerated on every run), every
   number of client threads, all their programs and every interleaving of the small-step semantics:
     (1) at every moment at most one thread is inside a critical section;
     (2) when all calls have returned, the completed calls have ONE sequential order that is a legal execution of
         the sequential specification and never orders a call before one that had responded before it was invoked;
     (3) every call x -- every artifact, every parameter read -- returns the specification's answer in ONE state:
         the state after a legal sequential execution [before] of other calls of the run (for an artifact: the
         values of all parameters it shows, read from that single state; "panicked" exactly when that state has a
         value its producer panics on), and every call ordered [after] x was still running or not yet invoked when
         x was invoked: no update that had completed before the read began is missing from [before].
   _partial: the last clause of the sentence is about the Go runtime (data races, crashes) and is NOT a theorem --
   (1) is its model-level counterpart; the runtime itself is sampled on every run (race detector, recover, child
   processes for cold starts).  Non-quiescent traces: [coarse_lock_linearizable] below (in-flight calls completed). *)
Theorem c13_property_partial :
  (forall s programs c tr,
     reach (guard_of LockFacts.facts) (init_config s programs) c tr ->
     forall t u, in_cs c t -> in_cs c u -> t = u)
  /\
  (forall s programs c tr,
     reach (guard_of LockFacts.facts) (init_config s programs) c tr -> quiescent c ->
     (exists order, Permutation order (calls_of tr) /\ legal s order /\ rt_ok order)
     /\
     (forall x, In x (calls_of tr) ->
        exists before after,
          Permutation (before ++ x :: after) (calls_of tr) /\ legal s before /\
          c_resp x = snd (seq_step (run_calls s before) (c_op x)) /\
          Forall (fun u => c_inv x < c_res u) after)).
Proof.
  pose proof lock_facts_hold as HF.
  split.
  - intros s programs c tr H. exact (mutex _ s programs c tr H).
  - intros s programs c tr H Q.
    assert (HL : linearizable s (calls_of tr)).
    { exact (guarded_linearizable_quiescent (guard_of LockFacts.facts) s programs c tr
               (lock_facts_guard _ HF) H Q). }
    split; [exact HL|]. intros x Hx. apply call_snapshot; assumption.
Qed.
Print Assumptions c13_property_partial.
(* ==================================================================================================== *)


(* Mutual exclusion is an invariant of the semantics, whatever the guards are: a thread is inside a critical
   section (has acquired, not yet released) exactly when it holds the lock, so at most one thread is. *)
Theorem mutex_invariant : forall G s programs c tr,
  reach G (init_config s programs) c tr ->
  (forall t, in_cs c t <-> c_lock c = Some t) /\ (forall t u, in_cs c t -> in_cs c u -> t = u).
Proof.
  intros G s programs c tr H. split.
  - exact (lock_held_iff_in_cs G s programs c tr H).
  - exact (mutex G s programs c tr H).
Qed.
Print Assumptions mutex_invariant.

(* For every number of threads, every program and every interleaving: if the lock facts hold, the completed
   calls of the trace, together with some of the calls still in flight (each completed with the current time as
   its response stamp), have a sequential order that respects real-time precedence and in which every response
   equals the sequential specification's response.  (Linearization point = the Acquire step.) *)
Theorem coarse_lock_linearizable : forall fs s programs c tr,
  lock_facts_ok fs = true ->
  reach (guard_of fs) (init_config s programs) c tr ->
  exists inflight,
    Forall (pending_call c) inflight /\
    exists order,
      Permutation order (calls_of tr ++ inflight) /\ legal s order /\ rt_ok order.
Proof. exact coarse_lock_linearizable_proof. Qed.
Print Assumptions coarse_lock_linearizable.

(* ... in particular for the tree under check, and with nothing in flight: *)
Theorem coarse_lock_linearizable_checked_tree : forall s programs c tr,
  reach (guard_of LockFacts.facts) (init_config s programs) c tr -> quiescent c ->
  linearizable s (calls_of tr).
Proof.
  intros s programs c tr H Q.
  exact (guarded_linearizable_quiescent (guard_of LockFacts.facts) s programs c tr
           (lock_facts_guard _ lock_facts_hold) H Q).
Qed.
Print Assumptions coarse_lock_linearizable_checked_tree.

(* Consequence for artifacts: every artifact read returns the from-scratch evaluation of ONE parameter state --
   the state after a legal sequential execution [before] of other calls of the run (no mixture of two states) --
   and every call that had responded before the read was invoked is part of [before] (it cannot be in [after]):
   the artifact is never older than an update completed before the read began. *)
Theorem artifact_one_snapshot_not_stale : forall fs s programs c tr x f,
  lock_facts_ok fs = true ->
  reach (guard_of fs) (init_config s programs) c tr -> quiescent c ->
  In x (calls_of tr) -> c_op x = Artifact f ->
  exists before after,
    Permutation (before ++ x :: after) (calls_of tr) /\ legal s before /\
    c_resp x = RArt (map (st_vals (run_calls s before)) f) /\
    Forall (fun u => c_inv x < c_res u) after.
Proof.
  intros fs s programs c tr x f HF HR HQ Hin Hop.
  eapply artifact_snapshot; eauto. eapply guarded_linearizable_quiescent; eauto.
  apply lock_facts_guard. exact HF.
Qed.
Print Assumptions artifact_one_snapshot_not_stale.

(* the same for ParameterData *)
Theorem parameter_read_one_snapshot_not_stale : forall fs s programs c tr x p,
  lock_facts_ok fs = true ->
  reach (guard_of fs) (init_config s programs) c tr -> quiescent c ->
  In x (calls_of tr) -> c_op x = Get p ->
  exists before after,
    Permutation (before ++ x :: after) (calls_of tr) /\ legal s before /\
    c_resp x = RGet (st_vals (run_calls s before) p) /\
    Forall (fun u => c_inv x < c_res u) after.
Proof.
  intros fs s programs c tr x p HF HR HQ Hin Hop.
  eapply get_snapshot; eauto. eapply guarded_linearizable_quiescent; eauto.
  apply lock_facts_guard. exact HF.
Qed.
Print Assumptions parameter_read_one_snapshot_not_stale.

(* Producers whose evaluation PANICS for some parameter values (the client recovers, as the edit server does): the
   call answers "panicked" exactly when the ONE state it is linearized at has such a value, and otherwise returns
   the evaluation of that state -- in particular an artifact read after a completed update never shows the
   pre-update state because an earlier call panicked. *)
Theorem panicking_artifact_one_snapshot : forall fs s programs c tr x f bad,
  lock_facts_ok fs = true ->
  reach (guard_of fs) (init_config s programs) c tr -> quiescent c ->
  In x (calls_of tr) -> c_op x = ArtifactP f bad ->
  exists before after,
    Permutation (before ++ x :: after) (calls_of tr) /\ legal s before /\
    c_resp x = (if panics (map (fun p => (p, st_vals (run_calls s before) p)) f) bad then RPanic
                else RArt (map (st_vals (run_calls s before)) f)) /\
    Forall (fun u => c_inv x < c_res u) after.
Proof.
  intros fs s programs c tr x f bad HF HR HQ Hin Hop.
  destruct (call_snapshot s (calls_of tr) x) as [before [after [HP [HL [HResp HA]]]]]; [|exact Hin|].
  - eapply guarded_linearizable_quiescent; eauto. apply lock_facts_guard. exact HF.
  - exists before, after. rewrite Hop in HResp. simpl in HResp. auto.
Qed.
Print Assumptions panicking_artifact_one_snapshot.

(* THE REAL EVALUATOR INSIDE THE CRITICAL SECTION (C11's model, imported read-only: Graph/Nodes.v).  What
   [Artifact] runs under the lock is [producer.Value()]: C11's cache-bearing evaluator on a node table with cached
   values, versions, recorded dependency versions -- a critical section with hidden state.  For every quiescent
   run there is a linearization [order] such that executing the critical sections in that order on ANY node
   table [s0] reachable in C11's model (any wiring built by any history [h], any enumeration oracle that returns
   permutations) whose parameter nodes [pid p] hold the initial abstract state: every artifact value [v]
   obtained for call x on producer node [tag x] is the FROM-SCRATCH evaluation [eval_scratch] of the node graph
   [g] at ONE parameter state -- g's parameter nodes hold exactly [run_calls s before], all other nodes are those
   of the initial graph -- the same state the abstract response is computed from, and nothing that had responded
   before x was invoked is ordered after it. *)
Theorem artifact_from_scratch_at_one_state : forall fs s programs c tr,
  lock_facts_ok fs = true ->
  reach (guard_of fs) (init_config s programs) c tr -> quiescent c ->
  exists order,
    Permutation order (calls_of tr) /\ legal s order /\ rt_ok order /\
    forall orc pid tag np ds h s0 s' arts,
      NodesProofs.oracle_ok orc ->
      (forall p q, p < np -> q < np -> pid p = pid q -> p = q) ->
      Nodes.run orc (Nodes.init ds) h = Some s0 ->
      params_hold pid np (Nodes.graph_of (Nodes.nodes s0)) s ->
      updates_in_range np order ->
      replay_cs orc pid tag s0 order = Some (s', arts) ->
      forall x v, In (x, v) arts ->
        exists before after,
          order = before ++ x :: after /\
          let g := graph_after pid (Nodes.graph_of (Nodes.nodes s0)) before in
          Nodes.eval_scratch (S (List.length g)) g (tag x) = Some v /\
          params_hold pid np g (run_calls s before) /\
          (forall k, (forall p, p < np -> pid p <> k) ->
                     nth_error g k = nth_error (Nodes.graph_of (Nodes.nodes s0)) k) /\
          c_resp x = snd (seq_step (run_calls s before) (c_op x)) /\
          Forall (fun u => c_inv x < c_res u) after.
Proof.
  intros fs s programs c tr HF. apply artifact_real_evaluator. apply lock_facts_guard. exact HF.
Qed.
Print Assumptions artifact_from_scratch_at_one_state.

(* non-vacuity of the hypotheses above: a C11 graph with two parameters and one node summing them (wired by a
   history), an update and an artifact call replayed with the cache-bearing evaluator *)
Example real_evaluator_example :
  let ds := [Nodes.DParam 0%Z; Nodes.DParam 7%Z;
             Nodes.DStruct [("A"%string, false); ("B"%string, false)]
                           (fun xs => fold_left Z.add (List.concat xs) 0%Z)] in
  let h := [Nodes.Connect 2 "A" 0; Nodes.Connect 2 "B" 1] in
  let x0 := mkcall 0 (Artifact [0; 1]) (RArt [0; 7]%N) 0 1 in
  let x1 := mkcall 1 (Update 0 5%N) (RUpd true) 2 3 in
  let x2 := mkcall 0 (Artifact [0; 1]) (RArt [5; 7]%N) 4 5 in
  exists s0 s',
    Nodes.run Nodes.sorted_oracle (Nodes.init ds) h = Some s0 /\
    params_hold (fun p => p) 2 (Nodes.graph_of (Nodes.nodes s0)) (state_of [0; 7]%N 0%N) /\
    legal (state_of [0; 7]%N 0%N) [x0; x1; x2] /\
    replay_cs Nodes.sorted_oracle (fun p => p) (fun _ => 2) s0 [x0; x1; x2] = Some (s', [(x0, 7%Z); (x2, 12%Z)]).
Proof.
  eexists. eexists. split; [vm_compute; reflexivity|]. split.
  - intros [|[|p]] Hp; try reflexivity. exfalso. apply (Nat.lt_irrefl 2). eapply Nat.le_lt_trans; [|exact Hp].
    repeat apply le_n_S. apply Nat.le_0_l.
  - split; [vm_compute; tauto | vm_compute; reflexivity].
Qed.

(* The node caches are an invariant-preserving HIDDEN state: responses never depend on them.  Two node tables
   reachable in C11's model -- through different histories, with different caches, versions and execution counts,
   even under different enumeration oracles -- that have the same erased graph (wiring, processors, parameter
   values) answer a read of any node with the same value; in particular an earlier read changes no later answer.
   (From C11's freshness theorem read_fresh_any_order.) *)
Theorem node_caches_are_hidden_state :
  (forall orc1 orc2 ds1 ds2 h1 h2 s1 s2 n s1' s2' v1 v2,
     NodesProofs.oracle_ok orc1 -> NodesProofs.oracle_ok orc2 ->
     Nodes.run orc1 (Nodes.init ds1) h1 = Some s1 -> Nodes.run orc2 (Nodes.init ds2) h2 = Some s2 ->
     Nodes.graph_of (Nodes.nodes s1) = Nodes.graph_of (Nodes.nodes s2) ->
     Nodes.read orc1 s1 n = Some (s1', v1) -> Nodes.read orc2 s2 n = Some (s2', v2) -> v1 = v2)
  /\
  (forall orc ds h s m sm vm n s1 v1 s2 v2,
     NodesProofs.oracle_ok orc -> Nodes.run orc (Nodes.init ds) h = Some s ->
     Nodes.read orc s m = Some (sm, vm) ->
     Nodes.read orc sm n = Some (s1, v1) -> Nodes.read orc s n = Some (s2, v2) -> v1 = v2).
Proof. split; [exact same_graph_same_artifact | exact earlier_reads_do_not_matter]. Qed.
Print Assumptions node_caches_are_hidden_state.

(* Responses are VALUES: a response, once given, stays in the history unchanged however the run continues (later
   updates included), and it equals the specification's response at its linearization point -- in one state of
   a sequential execution of the whole extended run.  (In the model this is immediate because a response is a Coq
   value; for the implementation it is an obligation on what is returned -- artifact objects and ParameterData
   slices must not alias buffers that later updates write -- checked on every run by re-reading every retained
   response later, see Check/C13.v [values_ok].) *)
Theorem responses_are_values : forall fs s programs c tr ext c' x,
  lock_facts_ok fs = true ->
  reach (guard_of fs) (init_config s programs) c tr -> In x (calls_of tr) ->
  reach (guard_of fs) (init_config s programs) c' (ext ++ tr) -> quiescent c' ->
  In x (calls_of (ext ++ tr)) /\
  exists before after,
    Permutation (before ++ x :: after) (calls_of (ext ++ tr)) /\ legal s before /\
    c_resp x = snd (seq_step (run_calls s before) (c_op x)) /\
    Forall (fun u => c_inv x < c_res u) after.
Proof.
  intros fs s programs c tr ext c' x HF. apply LockSemProofs.responses_are_values.
  apply lock_facts_guard. exact HF.
Qed.
Print Assumptions responses_are_values.

(* ... also when the response ALIASES parameter storage (the []byte of a parameter.File returned by
   ParameterData or kept by a basics.Binary artifact).  Model (Graph/LockAlias.v): a heap of buffers, a response is
   a slice header (address, length), a client that retained it sees [deref] of the LATER heap.  With HEAD's
   ApplyMessage (the parameter adopts the uploaded slice, a fresh buffer nobody writes again) a response obtained
   after any operations [l1] shows, after ANY further operations [l2], exactly the specification's value at the
   time of the read (the last payload uploaded before it). *)
Theorem slice_responses_are_values : forall s0 v0 l1 l2,
  wf s0 v0 ->
  let s1 := arun step_adopt s0 l1 in
  forall r, snd (step_adopt s1 ARead) = Some r ->
    deref (a_heap s1) r = spec_value v0 l1 /\
    deref (a_heap (arun step_adopt s1 l2)) r = spec_value v0 l1.
Proof. exact adopt_responses_are_values. Qed.
Print Assumptions slice_responses_are_values.

(* The in-place variant (`append(buf[:0], msg...)`, seeded change C13-B) refutes it: a retained response shows the
   NEW value after an upload of the same size, and a MIXTURE [2;2;1;1] after a shorter one. *)
Theorem slice_responses_in_place_refuted :
  let s0 := mkast [[1; 1; 1; 1]%N] 0 4 in
  (exists r, snd (step_inplace s0 ARead) = Some r /\
     deref (a_heap s0) r = [1; 1; 1; 1]%N /\
     deref (a_heap (arun step_inplace s0 [AUpload [2; 2; 2; 2]%N])) r = [2; 2; 2; 2]%N) /\
  (exists r, snd (step_inplace s0 ARead) = Some r /\
     deref (a_heap (arun step_inplace s0 [AUpload [2; 2]%N])) r = [2; 2; 1; 1]%N).
Proof. exact inplace_responses_refuted. Qed.
Print Assumptions slice_responses_in_place_refuted.

(* What the lock buys (not about the checked tree): if the lock fact of Artifact were false while UpdateParameter
   is guarded, two threads suffice for an artifact that is the evaluation of none of the states that ever
   existed, and the run is not linearizable. *)
Theorem unlocked_artifact_refuted : forall fs,
  entry_ok fs "Artifact" = false -> entry_ok fs "UpdateParameter" = true ->
  exists c tr x,
    reach (guard_of fs) (init_config mix_init mix_programs) c tr /\ quiescent c /\
    List.length mix_programs = 2 /\
    In x (calls_of tr) /\ c_op x = Artifact [0; 1] /\
    Forall (fun st => c_resp x <> RArt (map (st_vals st) [0; 1])) mix_states /\
    ~ linearizable mix_init (calls_of tr).
Proof.
  intros fs HA HU.
  destruct (unlocked_artifact_mixed_snapshot (guard_of fs)) as [c [tr [x H]]].
  - intro f. exact HA.
  - intros p v. exact HU.
  - exists c, tr, x. intuition.
Qed.
Print Assumptions unlocked_artifact_refuted.

(* ... and if the lock fact of UpdateParameter were false, two concurrent updates both succeed but the model
   version is bumped once instead of twice. *)
Theorem unlocked_update_refuted : forall fs,
  entry_ok fs "UpdateParameter" = false ->
  exists c tr,
    reach (guard_of fs) (init_config mix_init lost_programs) c tr /\ quiescent c /\
    List.length (calls_of tr) = 2 /\ Forall (fun x => c_resp x = RUpd true) (calls_of tr) /\
    c_ver c = 1%N /\ st_ver (run_calls mix_init (calls_of tr)) = 2%N.
Proof.
  intros fs HU. apply (unlocked_update_loses_version (guard_of fs)). intros p v. exact HU.
Qed.
Print Assumptions unlocked_update_refuted.

(* The finite history checker used on the real runs decides linearizability. *)
Theorem lin_checker_sound_complete : forall s cs, linb s cs = true <-> linearizable s cs.
Proof. exact linb_iff. Qed.
Print Assumptions lin_checker_sound_complete.

(* ==================================================================================================== *)
(* Round 4: THE HTTP LAYER (generator/app_server.go, generator/app_server_parameter.go).  The edit server's clients do
   not call graph.Instance: they send requests that handlers turn into calls.  Definitions in Graph/LockExt.v:
     hfacts / LockFacts.handlers   handler facts extracted by tools/lockfacts from the tree under check: every function
                                   (and function literal) of the two files, and of the package functions they call,
                                   that reaches UpdateParameter / ParameterData / Artifact
     http_facts_ok                 each entry point is served, and every such function reaches ONE call site of ONE
                                   entry point, reaches parameter state in no other way (ApplyMessage / ToMessage),
                                   starts no goroutine, uses no channel / sync primitive, and changes no state that
                                   outlives the request (receiver fields, package variables, captured locals)
     http_obs H all x y            y is what the client of the request that performed Instance call x observes: the
                                   same operation, an interval that CONTAINS x's, and -- when the handler is plain
                                   (H) -- the response of its OWN call; otherwise possibly the response of another
                                   request's call of the same operation (response cache, request coalescing). *)

(* (T) the handler facts of the tree under check; re-established by computation on every run *)
Theorem handler_facts_hold : http_facts_ok LockFacts.handlers = true.
Proof. vm_compute. reflexivity. Qed.
Print Assumptions handler_facts_hold.

(* For the lock facts AND handler facts of the checked tree, every number of clients, all programs, every
   interleaving: what the HTTP clients observe (request sent ... response fully received, any delay before and after
   the Instance call, e.g. a slow download) is linearizable w.r.t. the same sequential specification. *)
Theorem http_clients_linearizable : forall s programs c tr obs,
  reach (guard_of LockFacts.facts) (init_config s programs) c tr -> quiescent c ->
  Forall2 (http_obs (plain_of LockFacts.handlers) (calls_of tr)) (calls_of tr) obs ->
  linearizable s obs.
Proof.
  intros s programs c tr obs HR HQ HF.
  eapply http_plain_linearizable; [|exact HF|].
  - apply http_facts_plain. exact handler_facts_hold.
  - exact (guarded_linearizable_quiescent (guard_of LockFacts.facts) s programs c tr
             (lock_facts_guard _ lock_facts_hold) HR HQ).
Qed.
Print Assumptions http_clients_linearizable.

(* ... for any facts: *)
Theorem http_plain_handlers_linearizable : forall fs hs s programs c tr obs,
  lock_facts_ok fs = true -> http_facts_ok hs = true ->
  reach (guard_of fs) (init_config s programs) c tr -> quiescent c ->
  Forall2 (http_obs (plain_of hs) (calls_of tr)) (calls_of tr) obs ->
  linearizable s obs.
Proof.
  intros fs hs s programs c tr obs HL HH HR HQ HF.
  eapply http_plain_linearizable; [|exact HF|].
  - apply http_facts_plain. exact HH.
  - eapply guarded_linearizable_quiescent; eauto. apply lock_facts_guard. exact HL.
Qed.
Print Assumptions http_plain_handlers_linearizable.

(* What the handler facts buy: a handler that may answer a request with the response of ANOTHER request's call
   (seeded change C13-J: in-flight artifact requests are coalesced until the serialisation has finished) -- a slow
   artifact request evaluated in the initial state, an update acknowledged while it is still being downloaded, a
   NEW artifact request served the old bytes: the Instance-level history is linearizable, every observation is
   the response of some Instance call of the same operation, and the observed history is NOT linearizable. *)
Theorem http_shared_response_refuted :
  linearizable coal_init coal_calls /\
  Forall2 (http_obs (fun o => negb (readonly o)) coal_calls) coal_calls coal_obs /\
  ~ linearizable coal_init coal_obs.
Proof. exact LockExtProofs.http_shared_response_refuted. Qed.
Print Assumptions http_shared_response_refuted.

(* Sequential scripts (one client; the harness's sweep scripts, Check/C13.v CSweep): on a history whose calls follow
   each other the linear replay in program order decides linearizability -- the oracle neither accepts a
   non-linearizable script nor rejects a linearizable one. *)
Theorem sequential_script_oracle : forall s i l,
  legalb s (number i l) = true <-> linearizable s (number i l).
Proof. exact sweep_oracle_iff. Qed.
Print Assumptions sequential_script_oracle.

(* Dependency-version bookkeeping of nodes.Struct (struct_node.go Outdated / updateUsedDependencyVersions): comparing
   the recorded versions element by element notices EVERY change; folding them into one stamp `s<<sh ^ v` (seeded
   change C13-I) does not, whatever the shift sh and the seed s0: one dependency re-evaluated once (from an even
   version) and the next one 2^sh times leaves the stamp unchanged -- for sh = 5, s0 = 2: [0;0] and [1;32]. *)
Theorem dependency_versions_exact : forall recorded current,
  stale_by_list recorded current = false <-> recorded = current.
Proof. exact stale_by_list_exact. Qed.
Print Assumptions dependency_versions_exact.

(* /repo HEAD (fix 6677351) skips the dependencies the last run of Process() did not read: the comparison is exact
   on the dependencies that WERE read, and coincides with the plain one when every dependency was read (all nodes of
   the harness read all their inputs; parameters are always Processed). *)
Theorem dependency_versions_exact_on_read_inputs :
  (forall unread recorded current,
     stale_masked unread recorded current = false <->
     Forall (fun x => fst x = true \/ fst (snd x) = snd (snd x)) (combine unread (combine recorded current))) /\
  (forall recorded current, List.length recorded = List.length current ->
     stale_masked (repeat false (List.length recorded)) recorded current = stale_by_list recorded current).
Proof. split; [exact stale_masked_exact | exact stale_masked_all_read]. Qed.
Print Assumptions dependency_versions_exact_on_read_inputs.

Theorem folded_dependency_stamp_refuted :
  (forall sh s0 a b, N.testbit b sh = false ->
     fold_stamp sh s0 [N.succ (2 * a); (b + 2 ^ sh)%N] = fold_stamp sh s0 [(2 * a)%N; b]) /\
  stale_by_list [0; 0]%N [1; 32]%N = true /\ stale_by_stamp 5 2 [0; 0]%N [1; 32]%N = false.
Proof. split; [exact fold_stamp_collides | exact folded_stamp_refuted]. Qed.
Print Assumptions folded_dependency_stamp_refuted.

(* non-vacuity of [http_clients_linearizable]: the run of [guarded_run_example] observed through HTTP with every
   request taking two ticks longer on each side *)
Example http_observation_example :
  let sched := [0; 0; 0; 1; 0; 0; 0] ++ repeat 1 6 ++ repeat 1 7 in
  exists c tr obs,
    run (guard_of LockFacts.facts) mix_init mix_programs sched = Some (c, tr) /\
    Forall2 (http_obs (plain_of LockFacts.handlers) (calls_of tr)) (calls_of tr) obs /\
    obs = map (fun x => mkcall (c_tid x) (c_op x) (c_resp x) (c_inv x - 2) (c_res x + 2)) (calls_of tr) /\
    linb mix_init obs = true.
Proof.
  eexists. eexists. eexists. split; [vm_compute; reflexivity|]. split; [|split; [reflexivity|vm_compute; reflexivity]].
  cbv [map]. repeat constructor; cbn; try lia; rewrite (http_facts_plain _ handler_facts_hold); reflexivity.
Qed.

(* Non-vacuity: under the extracted facts of the checked tree a reader (one artifact listing p0, p1) and a
   writer (two updates) interleave -- the writer's invocation falls inside the reader's critical section -- the
   run reaches quiescence, the artifact is the initial snapshot [0;0] and the verified checker accepts it. *)
Example guarded_run_example :
  let sched := [0; 0; 0; 1; 0; 0; 0] ++ repeat 1 6 ++ repeat 1 7 in
  exists c tr,
    run (guard_of LockFacts.facts) mix_init mix_programs sched = Some (c, tr) /\
    (forall t, ts_cur (c_thr c t) = Idle) /\
    map c_resp (calls_of tr) = [RUpd true; RUpd true; RArt [0%N; 0%N]] /\
    linb mix_init (calls_of tr) = true.
Proof.
  eexists. eexists. split; [vm_compute; reflexivity|].
  split; [intros [|[|t]]; vm_compute; reflexivity|]. split; vm_compute; reflexivity.
Qed.
