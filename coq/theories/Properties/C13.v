(* C13 -- concurrent parameter updates / parameter reads / artifact generation are linearizable.
   Statements only; proofs live in Graph/LockProofs.v.  (work in progress: the semantic theorems follow) *)
From Coq Require Import List NArith Arith Bool String.
From PF Require Import Graph.Lock Graph.LockProofs.
From PFGen Require LockFacts.
Import ListNotations.

(* the lock facts extracted from generator/graph/instance.go of the tree under check satisfy the discipline
   the semantics is parametrised by: this is re-established by computation on every run *)
Theorem lock_facts_hold : lock_facts_ok LockFacts.facts = true.
Proof. vm_compute. reflexivity. Qed.
Print Assumptions lock_facts_hold.

(* the finite history checker used on the real runs decides linearizability *)
Theorem lin_checker_sound_complete : forall s cs, linb s cs = true <-> linearizable s cs.
Proof. exact linb_iff. Qed.
Print Assumptions lin_checker_sound_complete.
