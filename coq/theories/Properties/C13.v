(* C13 -- concurrent parameter updates, parameter reads and artifact generation are linearizable.
   Statements only; proofs live in Graph/LockProofs.v (history level) and Graph/LockSemProofs.v (semantics).

   Reading guide (definitions in Graph/Lock.v):
     op / resp / seq_step   the sequential specification: Update p v, BadUpdate p (malformed message: value kept,
                            version bumped), Get p, Artifact f (f = the parameters the producer's text lists)
     step G c t             small-step interleaving semantics: thread t takes one step; every call is
                            Inv; [Acquire;] body split into single shared-memory accesses [; Release]; Resp, the
                            bracket being present exactly when G says the entry point is guarded
     guard_of fs            G computed from the lock facts fs that tools/lockfacts extracts from
                            generator/graph/instance.go of the tree under check (coq/gen/LockFacts.v)
     reach G c0 c tr        c is reachable from c0 by the trace tr (any number of threads, any programs)
     call                   completed call with invocation / response stamps from the one shared clock
     linearizable s cs      some permutation of cs is a legal sequential execution from s and never puts a call
                            before one that had responded before it was invoked
     linb                   the executable checker the recorded histories of the real runs are judged by *)
From Coq Require Import List NArith Arith Bool String Sorting.Permutation.
From PF Require Import Graph.Lock Graph.LockProofs Graph.LockSemProofs.
From PFGen Require LockFacts.
Import ListNotations.

(* (T) The lock facts of the tree under check satisfy the discipline: Lock() first (after local computation that
   touches no field written in a critical section), `defer Unlock()` next, no other mention of the mutex, no
   goroutine / closure, callees do not touch the mutex.  Re-established by computation on every run. *)
Theorem lock_facts_hold : lock_facts_ok LockFacts.facts = true.
Proof. vm_compute. reflexivity. Qed.
Print Assumptions lock_facts_hold.

(* Mutual exclusion is an invariant of the semantics, whatever the guards are: a thread is inside a critical
   section (has acquired, not yet released) exactly when it holds the lock, so at most one thread is. *)
Theorem mutex_invariant : forall G s programs c tr,
  reach G (init_config s programs) c tr ->
  (forall t, in_cs c t <-> c_lock c = Some t) /\ (forall t u, in_cs c t -> in_cs c u -> t = u).
Proof.
  intros G s programs c tr H. split.
  - exact (lock_held_iff_in_cs G s programs c tr H).
  - exact (mutex G s programs c tr H).
Qed.
Print Assumptions mutex_invariant.

(* For every number of threads, every program and every interleaving: if the lock facts hold, the completed
   calls of the trace, together with some of the calls still in flight (each completed with the current time as
   its response stamp), have a sequential order that respects real-time precedence and in which every response
   equals the sequential specification's response.  (Linearization point = the Acquire step.) *)
Theorem coarse_lock_linearizable : forall fs s programs c tr,
  lock_facts_ok fs = true ->
  reach (guard_of fs) (init_config s programs) c tr ->
  exists inflight,
    Forall (pending_call c) inflight /\
    exists order,
      Permutation order (calls_of tr ++ inflight) /\ legal s order /\ rt_ok order.
Proof. exact coarse_lock_linearizable_proof. Qed.
Print Assumptions coarse_lock_linearizable.

(* ... in particular for the tree under check, and with nothing in flight: *)
Theorem coarse_lock_linearizable_checked_tree : forall s programs c tr,
  reach (guard_of LockFacts.facts) (init_config s programs) c tr -> quiescent c ->
  linearizable s (calls_of tr).
Proof.
  intros s programs c tr H Q. eapply guarded_linearizable_quiescent; eauto.
  apply lock_facts_guard. exact lock_facts_hold.
Qed.
Print Assumptions coarse_lock_linearizable_checked_tree.

(* Consequence for artifacts: every artifact read returns the from-scratch evaluation of ONE parameter state --
   the state after a legal sequential execution [before] of other calls of the run (no mixture of two states) --
   and every call that had responded before the read was invoked is part of [before] (it cannot be in [after]):
   the artifact is never older than an update completed before the read began. *)
Theorem artifact_one_snapshot_not_stale : forall fs s programs c tr x f,
  lock_facts_ok fs = true ->
  reach (guard_of fs) (init_config s programs) c tr -> quiescent c ->
  In x (calls_of tr) -> c_op x = Artifact f ->
  exists before after,
    Permutation (before ++ x :: after) (calls_of tr) /\ legal s before /\
    c_resp x = RArt (map (st_vals (run_calls s before)) f) /\
    Forall (fun u => c_inv x < c_res u) after.
Proof.
  intros fs s programs c tr x f HF HR HQ Hin Hop.
  eapply artifact_snapshot; eauto. eapply guarded_linearizable_quiescent; eauto.
  apply lock_facts_guard. exact HF.
Qed.
Print Assumptions artifact_one_snapshot_not_stale.

(* the same for ParameterData *)
Theorem parameter_read_one_snapshot_not_stale : forall fs s programs c tr x p,
  lock_facts_ok fs = true ->
  reach (guard_of fs) (init_config s programs) c tr -> quiescent c ->
  In x (calls_of tr) -> c_op x = Get p ->
  exists before after,
    Permutation (before ++ x :: after) (calls_of tr) /\ legal s before /\
    c_resp x = RGet (st_vals (run_calls s before) p) /\
    Forall (fun u => c_inv x < c_res u) after.
Proof.
  intros fs s programs c tr x p HF HR HQ Hin Hop.
  eapply get_snapshot; eauto. eapply guarded_linearizable_quiescent; eauto.
  apply lock_facts_guard. exact HF.
Qed.
Print Assumptions parameter_read_one_snapshot_not_stale.

(* Producers whose evaluation PANICS for some parameter values (the client recovers, as the edit server does): the
   call answers "panicked" exactly when the ONE state it is linearized at has such a value, and otherwise returns
   the evaluation of that state -- in particular an artifact read after a completed update never shows the
   pre-update state because an earlier call panicked. *)
Theorem panicking_artifact_one_snapshot : forall fs s programs c tr x f bad,
  lock_facts_ok fs = true ->
  reach (guard_of fs) (init_config s programs) c tr -> quiescent c ->
  In x (calls_of tr) -> c_op x = ArtifactP f bad ->
  exists before after,
    Permutation (before ++ x :: after) (calls_of tr) /\ legal s before /\
    c_resp x = (if panics (map (fun p => (p, st_vals (run_calls s before) p)) f) bad then RPanic
                else RArt (map (st_vals (run_calls s before)) f)) /\
    Forall (fun u => c_inv x < c_res u) after.
Proof.
  intros fs s programs c tr x f bad HF HR HQ Hin Hop.
  destruct (call_snapshot s (calls_of tr) x) as [before [after [HP [HL [HResp HA]]]]]; [|exact Hin|].
  - eapply guarded_linearizable_quiescent; eauto. apply lock_facts_guard. exact HF.
  - exists before, after. rewrite Hop in HResp. simpl in HResp. auto.
Qed.
Print Assumptions panicking_artifact_one_snapshot.

(* Responses are VALUES: a response, once given, stays in the history unchanged however the run continues (later
   updates included), and it equals the specification's response at its linearization point -- in one state of
   a sequential execution of the whole extended run.  (In the model this is immediate because a response is a Coq
   value; for the implementation it is an obligation on what is returned -- artifact objects and ParameterData
   slices must not alias buffers that later updates write -- checked on every run by re-reading every retained
   response later, see Check/C13.v [values_ok].) *)
Theorem responses_are_values : forall fs s programs c tr ext c' x,
  lock_facts_ok fs = true ->
  reach (guard_of fs) (init_config s programs) c tr -> In x (calls_of tr) ->
  reach (guard_of fs) (init_config s programs) c' (ext ++ tr) -> quiescent c' ->
  In x (calls_of (ext ++ tr)) /\
  exists before after,
    Permutation (before ++ x :: after) (calls_of (ext ++ tr)) /\ legal s before /\
    c_resp x = snd (seq_step (run_calls s before) (c_op x)) /\
    Forall (fun u => c_inv x < c_res u) after.
Proof.
  intros fs s programs c tr ext c' x HF. apply LockSemProofs.responses_are_values.
  apply lock_facts_guard. exact HF.
Qed.
Print Assumptions responses_are_values.

(* What the lock buys (not about the checked tree): if the lock fact of Artifact were false while UpdateParameter
   is guarded, two threads suffice for an artifact that is the evaluation of none of the states that ever
   existed, and the run is not linearizable. *)
Theorem unlocked_artifact_refuted : forall fs,
  entry_ok fs "Artifact" = false -> entry_ok fs "UpdateParameter" = true ->
  exists c tr x,
    reach (guard_of fs) (init_config mix_init mix_programs) c tr /\ quiescent c /\
    List.length mix_programs = 2 /\
    In x (calls_of tr) /\ c_op x = Artifact [0; 1] /\
    Forall (fun st => c_resp x <> RArt (map (st_vals st) [0; 1])) mix_states /\
    ~ linearizable mix_init (calls_of tr).
Proof.
  intros fs HA HU.
  destruct (unlocked_artifact_mixed_snapshot (guard_of fs)) as [c [tr [x H]]].
  - intro f. exact HA.
  - intros p v. exact HU.
  - exists c, tr, x. intuition.
Qed.
Print Assumptions unlocked_artifact_refuted.

(* ... and if the lock fact of UpdateParameter were false, two concurrent updates both succeed but the model
   version is bumped once instead of twice. *)
Theorem unlocked_update_refuted : forall fs,
  entry_ok fs "UpdateParameter" = false ->
  exists c tr,
    reach (guard_of fs) (init_config mix_init lost_programs) c tr /\ quiescent c /\
    List.length (calls_of tr) = 2 /\ Forall (fun x => c_resp x = RUpd true) (calls_of tr) /\
    c_ver c = 1%N /\ st_ver (run_calls mix_init (calls_of tr)) = 2%N.
Proof.
  intros fs HU. apply (unlocked_update_loses_version (guard_of fs)). intros p v. exact HU.
Qed.
Print Assumptions unlocked_update_refuted.

(* The finite history checker used on the real runs decides linearizability. *)
Theorem lin_checker_sound_complete : forall s cs, linb s cs = true <-> linearizable s cs.
Proof. exact linb_iff. Qed.
Print Assumptions lin_checker_sound_complete.

(* Non-vacuity: under the extracted facts of the checked tree a reader (one artifact listing p0, p1) and a
   writer (two updates) interleave -- the writer's invocation falls inside the reader's critical section -- the
   run reaches quiescence, the artifact is the initial snapshot [0;0] and the verified checker accepts it. *)
Example guarded_run_example :
  let sched := [0; 0; 0; 1; 0; 0; 0] ++ repeat 1 6 ++ repeat 1 7 in
  exists c tr,
    run (guard_of LockFacts.facts) mix_init mix_programs sched = Some (c, tr) /\
    (forall t, ts_cur (c_thr c t) = Idle) /\
    map c_resp (calls_of tr) = [RUpd true; RUpd true; RArt [0%N; 0%N]] /\
    linb mix_init (calls_of tr) = true.
Proof.
  eexists. eexists. split; [vm_compute; reflexivity|].
  split; [intros [|[|t]]; vm_compute; reflexivity|]. split; vm_compute; reflexivity.
Qed.
