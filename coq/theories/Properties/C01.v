(* C01 — mesh values are immutable: derivations never disturb an existing mesh.
   Statements only; the model is Mesh/Heap.v (Go slices into an append-only table of backing arrays, every mesh
   operation modelled by which arrays it reads, allocates, shares and writes), proofs are in Mesh/HeapProofs.v.
   [run grow true ops t] is the state after the first t operations of the history [ops] on the repaired tree
   (false: the pinned Append); [observe_member st k] is everything pool member k reports: topology, indices,
   materials, attribute names and all attribute values, read through its slices. *)
From Coq Require Import List NArith ZArith Arith Lia.
From PF Require Import Mesh.Heap Mesh.HeapProofs Mesh.HeapCommute Mesh.HeapRefine Mesh.HeapRefineAppend.
From PF Require Mesh.Pure.
Import ListNotations.

(* For EVERY growth policy of append (no hypothesis on grow is needed, so in particular for every grow with
   grow c n >= n), every history, every pool member k that exists at time t, and every later time t':
   k reports at t' exactly what it reported at t. *)
Theorem immutable_history : forall (grow : nat -> nat -> nat) (ops : list op) (k t t' : nat),
  t <= t' -> k < length (pool (run grow true ops t)) ->
  observe_member (run grow true ops t') k = observe_member (run grow true ops t) k.
Proof. exact immutable_history_proof. Qed.
Print Assumptions immutable_history.

(* the version with the hypothesis of DESIGN.md, for reference: a special case of the above *)
Theorem immutable_history_growing : forall (grow : nat -> nat -> nat) (Hg : forall c n, grow c n >= n) ops k t t',
  k < length (pool (run grow true ops t)) -> t <= t' ->
  observe_member (run grow true ops t') k = observe_member (run grow true ops t) k.
Proof. intros grow _ ops k t t' Hk Ht. apply immutable_history_proof; assumption. Qed.
Print Assumptions immutable_history_growing.

(* pool members are never dropped or renumbered *)
Theorem pool_only_grows : forall grow ops t t', t <= t' ->
  length (pool (run grow true ops t)) <= length (pool (run grow true ops t')).
Proof. exact pool_monotone. Qed.
Print Assumptions pool_only_grows.

(* Two derivations o1, o2 made from a reachable state (typically two derivations of one base), in either order:
   the mesh made first is not changed by making the second one, and no older member is changed by either. *)
Theorem siblings_independent : forall grow ops t o1 o2,
  let st := run grow true ops t in
  let n := length (pool st) in
  let s1 := fst (step grow true st o1) in
  let s2 := fst (step grow true st o2) in
  (n < length (pool s1) -> observe_member (fst (step grow true s1 o2)) n = observe_member s1 n) /\
  (n < length (pool s2) -> observe_member (fst (step grow true s2 o1)) n = observe_member s2 n) /\
  (forall k, k < n ->
     observe_member (fst (step grow true s1 o2)) k = observe_member st k /\
     observe_member (fst (step grow true s2 o1)) k = observe_member st k).
Proof. exact siblings_independent_proof. Qed.
Print Assumptions siblings_independent.

(* The model sees the defect of the pinned tree: with Append as it was before fix 8f84317
   (finalData[atr] = data; append(m.indices, ...); append(m.materials, ...)) and a doubling growth policy the
   statement of immutable_history is false. *)
Theorem append_inplace_refuted :
  exists ops k t t', t <= t' /\ k < length (pool (run grow_double false ops t)) /\
    observe_member (run grow_double false ops t') k <> observe_member (run grow_double false ops t) k.
Proof. exact append_inplace_refuted_proof. Qed.
Print Assumptions append_inplace_refuted.

(* Go maps are heap objects in the model: a pool member names its four attribute maps by ids into a table of maps, and
   what it reports is read THROUGH those ids.  Along every history of the repaired tree the table only grows at its
   end: no operation stores into a map that already exists (so immutable_history above covers "an operation writes a
   map another mesh shares": such a write would have to change an existing entry of the table). *)
Theorem maps_append_only : forall grow ops t t', t <= t' ->
  exists ml, maps_of (run grow true ops t') = maps_of (run grow true ops t) ++ ml.
Proof. exact maps_append_only_proof. Qed.
Print Assumptions maps_append_only.

(* ... and the model can express that defect: an Append that aligns the attribute sets of its operands by storing
   zero-filled arrays into the operands' OWN maps (step_pad) changes what the receiver and everything sharing its maps
   report. *)
Theorem map_write_refuted :
  exists ops k t t', t <= t' /\ k < length (pool (run_pad grow_double ops t)) /\
    observe_member (run_pad grow_double ops t') k <> observe_member (run_pad grow_double ops t) k.
Proof. exact map_write_refuted_proof. Qed.
Print Assumptions map_write_refuted.

(* A third defect class the model expresses and refutes: an operation that tidies up, IN PLACE, a slice it was handed —
   when that slice is what another mesh's accessor handed out.  [step_tidy]: SetMaterials dropping the ranges without
   primitives with the in-place filter idiom; in x.SetMaterials(y.Materials()) it rewrites what y reports. *)
Theorem accessor_write_refuted :
  exists ops k t t', t <= t' /\ k < length (pool (run_tidy grow_double ops t)) /\
    observe_member (run_tidy grow_double ops t') k <> observe_member (run_tidy grow_double ops t) k.
Proof. exact accessor_write_refuted_proof. Qed.
Print Assumptions accessor_write_refuted.

(* Order independence of CONTENT.  [added grow st o] = the error class o shows in state st and the observations of the
   meshes it creates.  For two derivations o1, o2 of a reachable state (every pool index they mention exists in it):
   what o1 adds is the same whether o2 ran first or not, and vice versa — the two results are the same in either
   order, up to the renaming of heap addresses and map ids that observations do not see.  (Together with
   siblings_independent: the final pools of o1;o2 and o2;o1 report the same meshes.) *)
Theorem derivations_commute : forall grow ops t o1 o2,
  let st := run grow true ops t in
  refs_below (length (pool st)) o1 -> refs_below (length (pool st)) o2 ->
  added grow (fst (step grow true st o2)) o1 = added grow st o1 /\
  added grow (fst (step grow true st o1)) o2 = added grow st o2.
Proof.
  intros grow ops t o1 o2 st R1 R2. split; apply added_after_step; auto; apply run_inv.
Qed.
Print Assumptions derivations_commute.

(* the symmetry behind it: inserting arrays into the heap and shifting the addresses above the insertion point
   commutes with every operation, for both Append variants and every growth policy *)
Theorem operations_are_address_independent : forall e n grow fixed H p o, 1 < n -> n <= length H ->
  exec grow fixed (ins e n H) (map (shm e n) p) o = shr e n (exec grow fixed H p o).
Proof. intros. apply exec_ins; auto. Qed.
Print Assumptions operations_are_address_independent.

(* ---- heap_refines_pure (DESIGN §3.3), partial: the link between C01 and C02/C03 ------------------------------------
   [abs h m] reads the heap mesh m through its slices (what [observe] reports) and packs it as a mesh VALUE of the pure
   model Mesh/Pure.v (the model C02/C03 prove their theorems about).  For the operations in [covered] — NewMesh,
   EmptyMesh, SetIndices, SetMaterial, SetMaterials (a caller's slice, or another mesh's Materials()), ToPointCloud,
   FlipTriangleWinding, ClearAttributeData, identity results — the mesh the heap operation creates, read back through
   [abs], is the mesh the pure operation (Pure.step on the same operands read back through [abs]) computes; declared
   errors coincide.  [mesh_wf]: every slice of an operand lies within its backing array (len <= |array|).
   FULL statement (not proved): the same for EVERY operation of the heap model.  Missing: the operations that rebuild
   attribute arrays (Append's attributes, Unweld, RemovedUnreferencedVertices, Weld, the filters, Crop, Slice/Split,
   repeat), SetFloatNAttribute/SetFloatNData/CopyFloatNAttribute (sorted insertion into Pure's single attribute list)
   and the arithmetic transformers; and that [mesh_wf] holds in every reachable state (needs grow c n >= n). *)
Theorem heap_refines_pure_partial : forall (grow : nat -> nat -> nat) ops t o,
  let st := run grow true ops t in
  let p := map (load (maps_of st)) (pool st) in
  Forall (mesh_wf (heap_of st)) p -> covered o = true ->
  agrees (exec grow true (heap_of st) p o) (pure_exec o (map (abs (heap_of st)) p)).
Proof. exact heap_refines_pure_history_proof. Qed.
Print Assumptions heap_refines_pure_partial.

(* the same for an arbitrary heap and pool (not only reachable ones) whose slices point at existing arrays *)
Theorem heap_refines_pure_exec_partial : forall (grow : nat -> nat -> nat) h p o,
  pool_ok (length h) p -> Forall (mesh_wf h) p -> covered o = true ->
  agrees (exec grow true h p o) (pure_exec o (map (abs h) p)).
Proof. exact heap_refines_pure_partial_proof. Qed.
Print Assumptions heap_refines_pure_exec_partial.

(* Append, partial (attributes missing): topology, indices — the renumbering of the appended part by the receiver's
   vertex count included, which is the one in-place write of the repaired Append — and materials of the mesh the heap
   operation creates are those of Pure.append on the operands' values.  [idx_nonneg]: the appended mesh's indices are
   not negative (Go ints; the pure model keeps them as nat).
   FULL statement: abs h' r = pm.  Missing: appendData (zero padding, sorted insertion) against Pure.append_attrs. *)
Theorem append_refines_pure_partial : forall (grow : nat -> nat -> nat) h p i j m o,
  0 < length h -> pool_ok (length h) p -> Forall (mesh_wf h) p ->
  nth_error p i = Some m -> nth_error p j = Some o -> idx_nonneg h (idx o) ->
  match exec grow true h p (OAppend i j), Pure.step Pure.OAppend [abs h m; abs h o] with
  | RNew h' r, Pure.Ok [pm] =>
      Pure.topology (abs h' r) = Pure.topology pm /\ Pure.indices (abs h' r) = Pure.indices pm /\
      Pure.materials (abs h' r) = Pure.materials pm
  | RErr Declared, Pure.Declared => True
  | _, _ => False
  end.
Proof. exact append_refines_pure_partial_proof. Qed.
Print Assumptions append_refines_pure_partial.

Example c01_example_append_refine :
  let st := run grow_double true refine_ops 4 in
  let p := map (load (maps_of st)) (pool st) in
  (exists m, nth_error p 3 = Some m /\ idx_nonneg (heap_of st) (idx m)) /\
  match Pure.step Pure.OAppend (map (abs (heap_of st)) [nth 3 p (load [] nilg); nth 3 p (load [] nilg)]) with
  | Pure.Ok [pm] => Pure.indices pm = [0; 1; 2; 2; 1; 3; 4; 5; 6; 6; 5; 7] /\
                    Pure.materials pm = [(1, 7%N); (1, 8%N); (1, 7%N); (1, 8%N)]
  | _ => False
  end /\
  match exec grow_double true (heap_of st) p (OAppend 3 3) with
  | RNew h' r => Pure.indices (abs h' r) = [0; 1; 2; 2; 1; 3; 4; 5; 6; 6; 5; 7]
  | _ => False
  end.
Proof. exact append_refine_example. Qed.

(* Every pool member has ONE value in the pure model, for ever: [pure_value st k] = the abstraction of what member k
   reports in state st does not depend on the time at which it is read.  (This is what makes "the pure model's mesh
   value of a Go variable" well defined although the Go value is a bundle of pointers into shared arrays.) *)
Theorem pure_value_stable : forall (grow : nat -> nat -> nat) ops k t t',
  t <= t' -> k < length (pool (run grow true ops t)) ->
  pure_value (run grow true ops t') k = pure_value (run grow true ops t) k.
Proof. exact pure_value_stable_proof. Qed.
Print Assumptions pure_value_stable.

(* non-vacuity: after four operations (two of them uncovered attribute setters) every loaded member satisfies
   mesh_wf; FlipTriangleWinding on member 3 gives, in the pure model, the flipped triangles over the same materials
   and attributes; the heap operations Flip, ToPointCloud and SetMaterials(other.Materials()) agree with it *)
Example c01_example_refine :
  let st := run grow_double true refine_ops 4 in
  let p := map (load (maps_of st)) (pool st) in
  forallb (mesh_wfb (heap_of st)) p = true /\
  length p = 4 /\
  pure_exec (OFlip 3) (map (abs (heap_of st)) p) =
    Pure.Ok [Pure.Mesh Pure.Triangle [1; 0; 2; 1; 2; 3] [(1, 7%N); (1, 8%N)]
               [((3%N, 6%N), [[0;0;0]; [4;0;0]; [0;4;0]; [4;4;0]]%Z); ((2%N, 8%N), [[0;0]; [1;0]; [0;1]; [1;1]]%Z)]] /\
  agrees (exec grow_double true (heap_of st) p (OFlip 3)) (pure_exec (OFlip 3) (map (abs (heap_of st)) p)) /\
  agrees (exec grow_double true (heap_of st) p (OToPoints 3)) (pure_exec (OToPoints 3) (map (abs (heap_of st)) p)) /\
  agrees (exec grow_double true (heap_of st) p (OShareMats 1 3)) (pure_exec (OShareMats 1 3) (map (abs (heap_of st)) p)).
Proof. exact refine_example. Qed.

(* the direct oracle used on the implementation's snapshots means what it says *)
Theorem immutableb_sound : forall (segs : list (list (nat * obs))),
  immutableb segs = true <-> forall sg, In sg segs -> exists x, sg = [x].
Proof. exact (@immutableb_spec (nat * obs)). Qed.
Print Assumptions immutableb_sound.

(* non-vacuity: a 3-branch history over a 2-attribute mesh with spare capacity on the shared arrays (the base is the
   result of two Appends); all three siblings and the base report after the last step what they reported when made;
   on the pinned Append the first sibling is changed by the derivation of the third *)
Definition c01_example_ops : list op :=
  [ONew Triangle [[0]; [1]; [2]]%Z 0; OSetAttr K3 0 2%N [[0;0;0]; [1;0;0]; [2;0;0]]%Z 0;
   OSetAttr K2 1 3%N [[0;0]; [1;0]; [0;1]]%Z 0;         (* 2: t, Position + TexCoord *)
   OAppend 2 2; OAppend 3 2;                              (* 4: base = (t+t)+t *)
   OAppend 4 2; OAppend 4 1; OAppend 4 0;                 (* 5,6,7: three siblings *)
   OMap K3 4 2%N 2%N [] false (FAdd [5;5;5]%Z); OUnweld 5; OExport 0 6].

Example c01_example :
  let ops := c01_example_ops in
  length (pool (run grow_double true ops 11)) = 10 /\
  observe_member (run grow_double true ops 11) 4 = observe_member (run grow_double true ops 5) 4 /\
  observe_member (run grow_double true ops 11) 5 = observe_member (run grow_double true ops 6) 5 /\
  observe_member (run grow_double true ops 11) 6 = observe_member (run grow_double true ops 7) 6 /\
  observe_member (run grow_double true ops 11) 7 = observe_member (run grow_double true ops 8) 7 /\
  option_map (fun o => length (o_idx o)) (observe_member (run grow_double true ops 11) 5) = Some 12 /\
  observe_member (run grow_double false ops 8) 5 <> observe_member (run grow_double false ops 6) 5.
Proof.
  cbv zeta.
  do 6 (split; [vm_compute; reflexivity|]).
  vm_compute. discriminate.
Qed.

(* non-vacuity for the operations that return several meshes or rebuild through RemovedUnreferencedVertices:
   SetFloat3Data, FilterFloat3 (whole triangles), SliceByPlane (two results), SplitOnUniqueMaterials (one result per
   material), ToPointCloud + CropFloat3Attribute; the sliced mesh (member 2) and the first slice (member 4) report at
   the end what they reported when made *)
Definition c01_example_multi_ops : list op :=
  [ONew Triangle [[0]; [1]; [2]; [2]; [1]; [3]]%Z 2;
   OSetData K3 0 [(5%N, [[0;0;1]; [0;0;1]; [0;0;1]; [0;0;1]]%Z); (6%N, [[0;0;0]; [4;0;0]; [0;4;0]; [4;4;0]]%Z)];
   OSetMaterials 1 [[1; 7]; [1; 8]]%Z 1;                                      (* 2 *)
   OFilter K3 2 6%N [] [[2]; [1]; [3]]%Z;                                     (* 3 *)
   OMulti 2 (Some 6%N) [] [([[0]; [1]; [2]]%Z, None); ([], None)];             (* 4, 5 *)
   OMulti 2 None [Triangle] [([[0]; [1]; [2]]%Z, Some 7%Z); ([[2]; [1]; [3]]%Z, Some 8%Z)];   (* 6, 7 *)
   OToPoints 2; OCrop 8 6%N [0; 3]; OAppend 4 7; OAppend 4 6].                (* 8, 9, 10, 11 *)

Example c01_example_multi :
  let ops := c01_example_multi_ops in
  length (pool (run grow_double true ops 10)) = 12 /\
  observe_member (run grow_double true ops 10) 2 = observe_member (run grow_double true ops 3) 2 /\
  observe_member (run grow_double true ops 10) 4 = observe_member (run grow_double true ops 5) 4 /\
  option_map (fun o => (length (o_idx o), o_mats o)) (observe_member (run grow_double true ops 10) 7) = Some (3, [[1; 8]]%Z) /\
  option_map (fun o => length (o_idx o)) (observe_member (run grow_double true ops 10) 9) = Some 2.
Proof.
  cbv zeta.
  do 4 (split; [vm_compute; reflexivity|]).
  vm_compute; reflexivity.
Qed.

(* non-vacuity for operands that are empty in one component: a receiver with vertices but no indices (nil index
   slice), the same operand appended twice to it and once to another receiver, a material list with an empty range
   before a non-empty one read by SplitOnUniqueMaterials on a derivation that shares the list; the operand (member 3),
   the first result (4) and the base of the material list (7) report at the end what they reported when made *)
Definition c01_example_hollow_ops : list op :=
  [ONew Triangle [] 0; OSetAttr K3 0 6%N [[0;0;0]; [1;0;0]; [0;1;0]; [1;1;0]]%Z 0;          (* 1: four vertices, no triangle *)
   ONew Triangle [[0]; [1]; [2]]%Z 3; OSetAttr K3 2 6%N [[5;0;0]; [6;0;0]; [5;1;0]]%Z 0;    (* 3: the operand *)
   OAppend 1 3; OAppend 1 3; OAppend 3 1;                                                  (* 4, 5, 6 *)
   OSetMaterials 5 [[1; 1]; [0; 2]; [0; 3]]%Z 2;                                           (* 7: ranges 1, 0, 0 *)
   OMap K3 7 6%N 6%N [] false (FAdd [1;2;3]%Z);                                            (* 8 shares the list *)
   OMulti 8 None [Triangle] [([[4]; [5]; [6]]%Z, Some 1%Z)];                               (* 9 *)
   OSetIndices 4 [] 0; OAppend 10 3].                                                      (* 10, 11 *)

Example c01_example_hollow :
  let ops := c01_example_hollow_ops in
  length (pool (run grow_double true ops 12)) = 12 /\
  observe_member (run grow_double true ops 12) 3 = observe_member (run grow_double true ops 4) 3 /\
  observe_member (run grow_double true ops 12) 4 = observe_member (run grow_double true ops 5) 4 /\
  observe_member (run grow_double true ops 12) 7 = observe_member (run grow_double true ops 8) 7 /\
  option_map o_idx (observe_member (run grow_double true ops 12) 4) = Some [[4]; [5]; [6]]%Z /\
  option_map o_idx (observe_member (run grow_double true ops 12) 11) = Some [[7]; [8]; [9]]%Z.
Proof.
  cbv zeta.
  do 5 (split; [vm_compute; reflexivity|]).
  vm_compute; reflexivity.
Qed.

(* non-vacuity for the round-4 operations: a point cloud assembled by NewPointCloud (OBuild), a quad primitive, a mesh
   that adopts another mesh's material slice through Materials() (OShareMats) and an Append onto it; the donor of the
   material slice (member 2) and the adopter (3) report at the end what they reported when made *)
Definition c01_example_build_ops : list op :=
  [OBuild Point [[0]; [1]; [2]]%Z [[3; 4]]%Z [] [] [(6%N, [[0;0;0]; [1;0;0]; [0;1;0]]%Z)] [(2%N, [[1;1;1;1]; [2;2;2;2]; [3;3;3;3]]%Z)];
   OBuild Triangle [[0]; [1]; [2]; [2]; [3]; [0]]%Z [] [] [] [(5%N, [[0;1;0]; [0;1;0]; [0;1;0]; [0;1;0]]%Z); (6%N, [[-1;0;-1]; [-1;0;1]; [1;0;1]; [1;0;-1]]%Z)] [];
   OSetMaterials 1 [[1; 7]; [0; 8]; [1; 9]]%Z 2;        (* 2 *)
   OShareMats 1 2;                                        (* 3: shares 2's material array *)
   OAppend 3 2; OAppend 3 1; OToPoints 3; OAppend 0 0].   (* 4, 5, 6, 7 *)

Example c01_example_build :
  let ops := c01_example_build_ops in
  length (pool (run grow_double true ops 8)) = 8 /\
  observe_member (run grow_double true ops 8) 2 = observe_member (run grow_double true ops 3) 2 /\
  observe_member (run grow_double true ops 8) 3 = observe_member (run grow_double true ops 4) 3 /\
  option_map o_mats (observe_member (run grow_double true ops 8) 3) = Some [[1; 7]; [0; 8]; [1; 9]]%Z /\
  option_map (fun o => length (o_mats o)) (observe_member (run grow_double true ops 8) 4) = Some 6 /\
  option_map (fun o => length (o_idx o)) (observe_member (run grow_double true ops 8) 7) = Some 6.
Proof.
  cbv zeta.
  do 5 (split; [vm_compute; reflexivity|]).
  vm_compute; reflexivity.
Qed.
