(* C17 — transform types obey their algebra.  Statements only; proofs live in Geom/Algebra*Proofs.v.

   Every definition named Mat.* / Quat.* / Trs.* / Aabb.* below is GENERATED from the Go sources
   (math/mat, math/quaternion, math/trs, math/geometry) by tools/go2coq on every run of the check, one
   Gallina definition per Go function, generic in the scalar type [F] with operations [FO : Carrier F]
   (notations + - * / in scope %C).  [get], [sum4], [delta], [hamilton], [rotate_spec], [det_spec],
   [adj_spec], [in_box] ... are the hand-written specifications of Geom/AlgebraSpec.v.

   The polynomial laws hold over EVERY commutative ring ([ring_carrier FO]: + * - obey the ring laws and
   integer literals denote themselves) resp. every field ([field_carrier FO]) and are axiom-free; R is such
   a field (R_field_carrier), Z such a ring (Z_ring_carrier, axiom-free).  Theorems that need order, sqrt,
   sin/cos are over Coq's R and depend on the standard library's real-number axioms only. *)
From Coq Require Import ZArith Reals Lra List Bool.
From PF Require Import Geom.Vec Geom.AlgebraSpec Geom.AlgebraInst Geom.AlgebraMatProofs Geom.AlgebraMatInvProofs
  Geom.AlgebraQuatProofs Geom.AlgebraQuatRProofs Geom.AlgebraTrsProofs Geom.AlgebraArrayProofs Geom.AlgebraAabbProofs
  Geom.AlgebraMoreProofs.
From PFGen Require Mat Quat Trs Aabb.
Local Open Scope nat_scope.

(* ======================================================================== 4x4 matrices *)
(* addition is entry-wise *)
Theorem add_entrywise : forall F (FO : Carrier F), ring_carrier FO ->
  forall (a b : Mat.Matrix4x4 F) i j, i < 4 -> j < 4 ->
  get (Mat.Matrix4x4_Add a b) i j = (get a i j + get b i j)%C.
Proof. exact @AlgebraMatProofs.add_entrywise. Qed.
Print Assumptions add_entrywise.

(* multiplication is row-by-column: (a b)_ij = sum_k a_ik b_kj *)
Theorem mul_row_col : forall F (FO : Carrier F), ring_carrier FO ->
  forall (a b : Mat.Matrix4x4 F) i j, i < 4 -> j < 4 ->
  get (Mat.Matrix4x4_Multiply a b) i j = sum4 (fun k => get a i k * get b k j)%C.
Proof. exact @AlgebraMatProofs.mul_row_col. Qed.
Print Assumptions mul_row_col.

Theorem mul_assoc : forall F (FO : Carrier F), ring_carrier FO -> forall a b c : Mat.Matrix4x4 F,
  Mat.Matrix4x4_Multiply (Mat.Matrix4x4_Multiply a b) c = Mat.Matrix4x4_Multiply a (Mat.Matrix4x4_Multiply b c).
Proof. exact @AlgebraMatProofs.mul_assoc. Qed.
Print Assumptions mul_assoc.

(* identity laws; Identity has entries delta_ij *)
Theorem identity_entries : forall F (FO : Carrier F), ring_carrier FO ->
  forall i j, i < 4 -> j < 4 -> get (F := F) Mat.Identity i j = delta i j.
Proof. exact @AlgebraMatProofs.identity_entries. Qed.
Print Assumptions identity_entries.

Theorem mul_id_l : forall F (FO : Carrier F), ring_carrier FO -> forall a : Mat.Matrix4x4 F,
  Mat.Matrix4x4_Multiply Mat.Identity a = a.
Proof. exact @AlgebraMatProofs.mul_id_l. Qed.
Print Assumptions mul_id_l.

Theorem mul_id_r : forall F (FO : Carrier F), ring_carrier FO -> forall a : Mat.Matrix4x4 F,
  Mat.Matrix4x4_Multiply a Mat.Identity = a.
Proof. exact @AlgebraMatProofs.mul_id_r. Qed.
Print Assumptions mul_id_r.

(* inverse laws, for every matrix whose (translated) Determinant is non-zero, over every field *)
Theorem inverse_l : forall F (FO : Carrier F), field_carrier FO -> forall a : Mat.Matrix4x4 F,
  Mat.Matrix4x4_Determinant a <> c0 -> Mat.Matrix4x4_Multiply (Mat.Matrix4x4_Inverse a) a = Mat.Identity.
Proof. exact @AlgebraMatInvProofs.inverse_l. Qed.
Print Assumptions inverse_l.

Theorem inverse_r : forall F (FO : Carrier F), field_carrier FO -> forall a : Mat.Matrix4x4 F,
  Mat.Matrix4x4_Determinant a <> c0 -> Mat.Matrix4x4_Multiply a (Mat.Matrix4x4_Inverse a) = Mat.Identity.
Proof. exact @AlgebraMatInvProofs.inverse_r. Qed.
Print Assumptions inverse_r.

(* Inverse is the adjugate (cofactors from 3x3 minors, transposed) times 1/Determinant *)
Theorem inverse_adjugate : forall F (FO : Carrier F), ring_carrier FO ->
  forall (a : Mat.Matrix4x4 F) i j, i < 4 -> j < 4 ->
  get (Mat.Matrix4x4_Inverse a) i j = (get (adj_spec a) i j * (cofZ 1 / Mat.Matrix4x4_Determinant a))%C.
Proof. exact @AlgebraMatInvProofs.inverse_adjugate. Qed.
Print Assumptions inverse_adjugate.

(* the 24-term Determinant is the Laplace expansion; it is multiplicative *)
Theorem determinant_laplace : forall F (FO : Carrier F), ring_carrier FO -> forall a : Mat.Matrix4x4 F,
  Mat.Matrix4x4_Determinant a = det_spec a.
Proof. exact @AlgebraMatProofs.determinant_laplace. Qed.
Print Assumptions determinant_laplace.

Theorem determinant_mul : forall F (FO : Carrier F), ring_carrier FO -> forall a b : Mat.Matrix4x4 F,
  Mat.Matrix4x4_Determinant (Mat.Matrix4x4_Multiply a b) = (Mat.Matrix4x4_Determinant a * Mat.Matrix4x4_Determinant b)%C.
Proof. exact @AlgebraMatProofs.determinant_mul. Qed.
Print Assumptions determinant_mul.

(* MulPosition = rows 0..2 of M (x,y,z,1)^T; products of affine matrices act as compositions *)
Theorem mulposition_affine : forall F (FO : Carrier F), ring_carrier FO -> forall (a : Mat.Matrix4x4 F) v,
  Mat.Matrix4x4_MulPosition a v = mulpos_spec a v.
Proof. exact @AlgebraMatProofs.mulposition_affine. Qed.
Print Assumptions mulposition_affine.

Theorem mulposition_compose : forall F (FO : Carrier F), ring_carrier FO -> forall (a b : Mat.Matrix4x4 F) v,
  affine b ->
  Mat.Matrix4x4_MulPosition (Mat.Matrix4x4_Multiply a b) v = Mat.Matrix4x4_MulPosition a (Mat.Matrix4x4_MulPosition b v).
Proof. exact @AlgebraMatProofs.mulposition_compose. Qed.
Print Assumptions mulposition_compose.

(* ======================================================================== quaternions *)
(* Multiply is the Hamilton product, Rotate the sandwich product q (0,v) q* *)
Theorem multiply_hamilton : forall F (FO : Carrier F), ring_carrier FO -> forall p q : Quat.Quaternion F,
  Quat.Quaternion_Multiply p q = hamilton p q.
Proof. exact @AlgebraQuatProofs.multiply_hamilton. Qed.
Print Assumptions multiply_hamilton.

Theorem rotate_sandwich : forall F (FO : Carrier F), ring_carrier FO -> forall (q : Quat.Quaternion F) v,
  Quat.Quaternion_Rotate q v = rotate_spec q v.
Proof. exact @AlgebraQuatProofs.rotate_sandwich. Qed.
Print Assumptions rotate_sandwich.

(* |Rotate q v|^2 = (|q|^2)^2 |v|^2 — rotation by a unit quaternion preserves length *)
Theorem rot_norm : forall F (FO : Carrier F), ring_carrier FO -> forall (q : Quat.Quaternion F) v,
  v3_length_squared (Quat.Quaternion_Rotate q v) = ((qnorm2 q * qnorm2 q) * v3_length_squared v)%C.
Proof. exact @AlgebraQuatProofs.rot_norm. Qed.
Print Assumptions rot_norm.

Theorem rot_length : forall (q : Quat.Quaternion R) (v : vec3 R), qnorm2 q = 1%R ->
  v3_length (Quat.Quaternion_Rotate q v) = v3_length v.
Proof. exact AlgebraQuatRProofs.rot_length. Qed.
Print Assumptions rot_length.

(* the product q1*q2 rotates like q2 followed by q1 (every q1 q2, unit or not) *)
Theorem rot_compose : forall F (FO : Carrier F), ring_carrier FO -> forall (q1 q2 : Quat.Quaternion F) v,
  Quat.Quaternion_Rotate (Quat.Quaternion_Multiply q1 q2) v = Quat.Quaternion_Rotate q1 (Quat.Quaternion_Rotate q2 v).
Proof. exact @AlgebraQuatProofs.rot_compose. Qed.
Print Assumptions rot_compose.

Theorem rot_linear : forall F (FO : Carrier F), ring_carrier FO -> forall (q : Quat.Quaternion F) u v (s : F),
  Quat.Quaternion_Rotate q (v3_add (v3_scale u s) v) =
  v3_add (v3_scale (Quat.Quaternion_Rotate q u) s) (Quat.Quaternion_Rotate q v).
Proof. exact @AlgebraQuatProofs.rot_linear. Qed.
Print Assumptions rot_linear.

(* FromTheta: any angle and any non-zero (unit or non-unit) axis give a unit quaternion fixing the axis *)
Theorem from_theta_unit : forall (theta : R) (v : vec3 R), (0 < v3_dot v v)%R ->
  qnorm2 (Quat.FromTheta theta v) = 1%R.
Proof. exact AlgebraQuatRProofs.from_theta_unit. Qed.
Print Assumptions from_theta_unit.

Theorem from_theta_fixes_axis : forall (theta : R) (v : vec3 R), (0 < v3_dot v v)%R ->
  Quat.Quaternion_Rotate (Quat.FromTheta theta v) v = v.
Proof. exact AlgebraQuatRProofs.from_theta_fixes_axis. Qed.
Print Assumptions from_theta_fixes_axis.

(* RotationTo maps the first direction onto the second: generic branch, exactly *)
Theorem rotation_to_maps : forall a b : vec3 R,
  v3_dot a a = 1%R -> v3_dot b b = 1%R -> (-0.999999 <= v3_dot a b <= 0.999999)%R ->
  Quat.Quaternion_Rotate (Quat.RotationTo a b) a = b.
Proof. exact AlgebraQuatRProofs.rotation_to_maps. Qed.
Print Assumptions rotation_to_maps.

(* (nearly) opposite directions: a half turn, a |-> -a, for EVERY unit a including the x axis
   (b is within 1.5e-3 of -a then; for b = -a the result is b exactly) *)
Theorem rotation_to_antiparallel : forall a b : vec3 R,
  v3_dot a a = 1%R -> (v3_dot a b < -0.999999)%R ->
  Quat.Quaternion_Rotate (Quat.RotationTo a b) a = v3_neg a.
Proof. exact AlgebraQuatRProofs.rotation_to_antiparallel. Qed.
Print Assumptions rotation_to_antiparallel.

(* (nearly) equal directions: the identity rotation *)
Theorem rotation_to_parallel : forall a b : vec3 R, (0.999999 < v3_dot a b)%R ->
  Quat.Quaternion_Rotate (Quat.RotationTo a b) a = a.
Proof. exact AlgebraQuatRProofs.rotation_to_parallel. Qed.
Print Assumptions rotation_to_parallel.

(* ======================================================================== TRS *)
(* scale, then rotation, then translation *)
Theorem trs_order : forall F (FO : Carrier F), ring_carrier FO -> forall p (r : Quat.Quaternion F) s v,
  Trs.TRS_Transform (Trs.New p r s) v = v3_add (Quat.Quaternion_Rotate r (v3_mult_by_vector s v)) p.
Proof. exact @AlgebraTrsProofs.trs_order. Qed.
Print Assumptions trs_order.

Theorem trs_order_spec : forall F (FO : Carrier F), ring_carrier FO -> forall p (r : Quat.Quaternion F) s v,
  Trs.TRS_Transform (Trs.New p r s) v = trs_spec p s r v.
Proof. exact @AlgebraTrsProofs.trs_order_spec. Qed.
Print Assumptions trs_order_spec.

Theorem trs_translate : forall F (FO : Carrier F), ring_carrier FO -> forall (t : Trs.TRS F) d v,
  Trs.TRS_Transform (Trs.TRS_Translate t d) v = v3_add (Trs.TRS_Transform t v) d.
Proof. exact @AlgebraTrsProofs.trs_translate. Qed.
Print Assumptions trs_translate.

(* the single-purpose constructors: Position(p) translates, Scale(s) scales, Rotation(r) rotates *)
Theorem trs_constructors : forall F (FO : Carrier F), ring_carrier FO -> forall p s (r : Quat.Quaternion F) v,
  Trs.TRS_Transform (Trs.Position p) v = v3_add v p /\
  Trs.TRS_Transform (Trs.Scale s) v = v3_mult_by_vector s v /\
  Trs.TRS_Transform (Trs.Rotation r) v = Quat.Quaternion_Rotate r v.
Proof.
  intros F FO RC p s r v.
  exact (conj (AlgebraTrsProofs.trs_position_only RC p v)
        (conj (AlgebraTrsProofs.trs_scale_only RC s v) (AlgebraTrsProofs.trs_rotation_only RC r v))).
Qed.
Print Assumptions trs_constructors.

(* ======================================================================== array / mesh level
   TRS.TransformArray, TRS.TransformInPlace and Quaternion.RotateArray are GENERATED too (go2coq translates
   element-wise loops to List.map and rejects every other loop shape): they apply the scalar entry point to every
   element, in order, nothing added or dropped — for lists of every length *)
Theorem transform_array_pointwise : forall F (FO : Carrier F), ring_carrier FO ->
  forall (t : Trs.TRS F) (xs : list (vec3 F)), Trs.TRS_TransformArray t xs = map (Trs.TRS_Transform t) xs.
Proof. exact @AlgebraArrayProofs.transform_array_pointwise. Qed.
Print Assumptions transform_array_pointwise.

Theorem transform_in_place_pointwise : forall F (FO : Carrier F), ring_carrier FO ->
  forall (t : Trs.TRS F) (xs : list (vec3 F)), Trs.TRS_TransformInPlace t xs = map (Trs.TRS_Transform t) xs.
Proof. exact @AlgebraArrayProofs.transform_in_place_pointwise. Qed.
Print Assumptions transform_in_place_pointwise.

Theorem rotate_array_pointwise : forall F (FO : Carrier F), ring_carrier FO ->
  forall (q : Quat.Quaternion F) (xs : list (vec3 F)), Quat.Quaternion_RotateArray q xs = map (Quat.Quaternion_Rotate q) xs.
Proof. exact @AlgebraArrayProofs.rotate_array_pointwise. Qed.
Print Assumptions rotate_array_pointwise.

(* mesh level: Mesh.ApplyTRS replaces the Position array by TransformArray of it (generated); Mesh.Rotate /
   Translate / Scale rebuild it with their own loops in modeling/mesh.go (Mesh carries maps and closures: outside the
   translator's subset), modelled by the hand-written [mesh_map] and tied by the correspondence check.  Either way the
   i-th position of the result is the transform of the i-th position and the vertex count is unchanged *)
Theorem mesh_ops_pointwise : forall F (FO : Carrier F), ring_carrier FO ->
  forall (t : Trs.TRS F) (q : Quat.Quaternion F) (f : vec3 F -> vec3 F) (ps : list (vec3 F)) d i,
  (* ApplyTRS *)
  (length (Trs.TRS_TransformArray t ps) = length ps /\
   nth i (Trs.TRS_TransformArray t ps) (Trs.TRS_Transform t d) = Trs.TRS_Transform t (nth i ps d)) /\
  (* Rotate, as RotateArray and as the hand-written model: the same array *)
  (Quat.Quaternion_RotateArray q ps = mesh_map (Quat.Quaternion_Rotate q) ps) /\
  (* the hand-written model in general *)
  (length (mesh_map f ps) = length ps /\ nth i (mesh_map f ps) (f d) = f (nth i ps d)).
Proof.
  intros F FO RC t q f ps d i. split; [exact (AlgebraArrayProofs.transform_array_nth RC t ps d i)|].
  split; [exact (AlgebraArrayProofs.rotate_array_pointwise RC q ps)|].
  unfold mesh_map. split; [apply map_length | apply map_nth].
Qed.
Print Assumptions mesh_ops_pointwise.

(* ======================================================================== boxes *)
Theorem contains_iff : forall (b : Aabb.AABB R) (p : vec3 R),
  Aabb.AABB_Contains b p = true <-> in_box (box_lo b) (box_hi b) p.
Proof. exact AlgebraAabbProofs.contains_iff. Qed.
Print Assumptions contains_iff.

(* a box grown to encapsulate a point contains it, and everything it contained before *)
Theorem encapsulate_contains : forall (b : Aabb.AABB R) (p : vec3 R),
  Aabb.AABB_Contains (Aabb.AABB_EncapsulatePoint b p) p = true /\
  forall q, Aabb.AABB_Contains b q = true -> Aabb.AABB_Contains (Aabb.AABB_EncapsulatePoint b p) q = true.
Proof. exact AlgebraAabbProofs.encapsulate_contains. Qed.
Print Assumptions encapsulate_contains.

(* a box grown to encapsulate a box contains every point of both *)
Theorem encapsulate_bounds_contains : forall (b c : Aabb.AABB R) (q : vec3 R),
  (Aabb.AABB_Contains c q = true -> Aabb.AABB_Contains (Aabb.AABB_EncapsulateBounds b c) q = true) /\
  (Aabb.AABB_Contains b q = true -> Aabb.AABB_Contains (Aabb.AABB_EncapsulateBounds b c) q = true).
Proof. exact AlgebraAabbProofs.encapsulate_bounds_contains. Qed.
Print Assumptions encapsulate_bounds_contains.

(* closest-point results lie in the box (non-negative extents) and no point of the box is nearer *)
Theorem closest_in_box : forall (b : Aabb.AABB R) (v : vec3 R),
  (0 <= v3x (Aabb.AABB_extents b))%R -> (0 <= v3y (Aabb.AABB_extents b))%R -> (0 <= v3z (Aabb.AABB_extents b))%R ->
  Aabb.AABB_Contains b (Aabb.AABB_ClosestPoint b v) = true.
Proof. exact AlgebraAabbProofs.closest_in_box. Qed.
Print Assumptions closest_in_box.

Theorem closest_is_nearest : forall (b : Aabb.AABB R) (v q : vec3 R),
  Aabb.AABB_Contains b q = true -> (dist2 v (Aabb.AABB_ClosestPoint b v) <= dist2 v q)%R.
Proof. exact AlgebraAabbProofs.closest_is_nearest. Qed.
Print Assumptions closest_is_nearest.

(* ======================================================================== round 4: compositions and the remaining methods *)
(* the inverse is unique, involutive and anti-multiplicative; det (Inverse a) * det a = 1 *)
Theorem inverse_unique : forall F (FO : Carrier F), field_carrier FO -> forall a b : Mat.Matrix4x4 F,
  Mat.Matrix4x4_Determinant a <> c0 -> Mat.Matrix4x4_Multiply b a = Mat.Identity -> b = Mat.Matrix4x4_Inverse a.
Proof. exact @AlgebraMatInvProofs.inverse_unique. Qed.
Print Assumptions inverse_unique.

Theorem inverse_involutive : forall F (FO : Carrier F), field_carrier FO -> forall a : Mat.Matrix4x4 F,
  Mat.Matrix4x4_Determinant a <> c0 -> Mat.Matrix4x4_Inverse (Mat.Matrix4x4_Inverse a) = a.
Proof. exact @AlgebraMoreProofs.inverse_involutive. Qed.
Print Assumptions inverse_involutive.

Theorem inverse_mul : forall F (FO : Carrier F), field_carrier FO -> forall a b : Mat.Matrix4x4 F,
  Mat.Matrix4x4_Determinant a <> c0 -> Mat.Matrix4x4_Determinant b <> c0 ->
  Mat.Matrix4x4_Inverse (Mat.Matrix4x4_Multiply a b) = Mat.Matrix4x4_Multiply (Mat.Matrix4x4_Inverse b) (Mat.Matrix4x4_Inverse a).
Proof. exact @AlgebraMoreProofs.inverse_mul. Qed.
Print Assumptions inverse_mul.

Theorem determinant_inverse : forall F (FO : Carrier F), field_carrier FO -> forall a : Mat.Matrix4x4 F,
  Mat.Matrix4x4_Determinant a <> c0 ->
  (Mat.Matrix4x4_Determinant (Mat.Matrix4x4_Inverse a) * Mat.Matrix4x4_Determinant a)%C = c1.
Proof. exact @AlgebraMoreProofs.determinant_inverse. Qed.
Print Assumptions determinant_inverse.

(* end to end: an invertible affine matrix and its Inverse undo each other on points *)
Theorem mulposition_inverse : forall F (FO : Carrier F), field_carrier FO -> forall (a : Mat.Matrix4x4 F) v,
  affine a -> Mat.Matrix4x4_Determinant a <> c0 ->
  Mat.Matrix4x4_MulPosition (Mat.Matrix4x4_Inverse a) (Mat.Matrix4x4_MulPosition a v) = v.
Proof. exact @AlgebraMoreProofs.mulposition_inverse. Qed.
Print Assumptions mulposition_inverse.

(* Multiply is bilinear over Add — which is why the 16 x 16 pairs of basis matrices decide it for all inputs *)
Theorem mul_bilinear : forall F (FO : Carrier F), ring_carrier FO -> forall a b c : Mat.Matrix4x4 F,
  Mat.Matrix4x4_Multiply a (Mat.Matrix4x4_Add b c) =
    Mat.Matrix4x4_Add (Mat.Matrix4x4_Multiply a b) (Mat.Matrix4x4_Multiply a c) /\
  Mat.Matrix4x4_Multiply (Mat.Matrix4x4_Add a b) c =
    Mat.Matrix4x4_Add (Mat.Matrix4x4_Multiply a c) (Mat.Matrix4x4_Multiply b c).
Proof. exact @AlgebraMoreProofs.mul_bilinear. Qed.
Print Assumptions mul_bilinear.

Theorem mul_homogeneous : forall F (FO : Carrier F), ring_carrier FO -> forall (s : F) (a b : Mat.Matrix4x4 F),
  Mat.Matrix4x4_Multiply (mat_scale s a) b = mat_scale s (Mat.Matrix4x4_Multiply a b) /\
  Mat.Matrix4x4_Multiply a (mat_scale s b) = mat_scale s (Mat.Matrix4x4_Multiply a b).
Proof. exact @AlgebraMoreProofs.mul_homogeneous. Qed.
Print Assumptions mul_homogeneous.

(* MatFromDirs: an affine frame with origin [off] and y axis [up] *)
Theorem matfromdirs_frame : forall F (FO : Carrier F), ring_carrier FO -> forall up fwd off : vec3 F,
  let m := Mat.MatFromDirs up fwd off in
  affine m /\ Mat.Matrix4x4_MulPosition m v3_zero = off /\ Mat.Matrix4x4_MulPosition m v3_up = v3_add off up.
Proof. exact @AlgebraMoreProofs.matfromdirs_frame. Qed.
Print Assumptions matfromdirs_frame.

(* quaternions: associative product with unit Identity and multiplicative norm; Identity rotates nothing *)
Theorem quat_monoid : forall F (FO : Carrier F), ring_carrier FO -> forall (p q r : Quat.Quaternion F) v,
  Quat.Quaternion_Multiply (Quat.Quaternion_Multiply p q) r = Quat.Quaternion_Multiply p (Quat.Quaternion_Multiply q r) /\
  Quat.Quaternion_Multiply Quat.Identity q = q /\ Quat.Quaternion_Multiply q Quat.Identity = q /\
  qnorm2 (Quat.Quaternion_Multiply p q) = (qnorm2 p * qnorm2 q)%C /\
  Quat.Quaternion_Rotate Quat.Identity v = v.
Proof. exact @AlgebraMoreProofs.quat_monoid. Qed.
Print Assumptions quat_monoid.

(* the conjugate of a unit quaternion undoes its rotation (in general: up to the factor (|q|^2)^2) *)
Theorem rot_conj_inverse : forall F (FO : Carrier F), ring_carrier FO -> forall (q : Quat.Quaternion F) v,
  Quat.Quaternion_Rotate (qconj q) (Quat.Quaternion_Rotate q v) = v3_scale v (qnorm2 q * qnorm2 q)%C.
Proof. exact @AlgebraMoreProofs.rot_conj_inverse. Qed.
Print Assumptions rot_conj_inverse.

Theorem trs_identity : forall F (FO : Carrier F), ring_carrier FO -> forall v : vec3 F,
  Trs.TRS_Transform (Trs.New v3_zero Quat.Identity v3_one) v = v.
Proof. exact @AlgebraMoreProofs.trs_identity. Qed.
Print Assumptions trs_identity.

(* the array-level entry points distribute over concatenation: processing in chunks of any sizes is the same *)
Theorem array_chunks : forall F (FO : Carrier F), ring_carrier FO ->
  forall (t : Trs.TRS F) (q : Quat.Quaternion F) (xs ys : list (vec3 F)),
  Trs.TRS_TransformArray t (xs ++ ys) = Trs.TRS_TransformArray t xs ++ Trs.TRS_TransformArray t ys /\
  Trs.TRS_TransformInPlace t (xs ++ ys) = Trs.TRS_TransformInPlace t xs ++ Trs.TRS_TransformInPlace t ys /\
  Quat.Quaternion_RotateArray q (xs ++ ys) = Quat.Quaternion_RotateArray q xs ++ Quat.Quaternion_RotateArray q ys.
Proof. exact @AlgebraMoreProofs.array_chunks. Qed.
Print Assumptions array_chunks.

(* Normalize yields unit quaternions; RotationTo returns a unit quaternion in EVERY branch, so the rotation it
   returns preserves the length of every vector (end to end: RotationTo -> Normalize / FromTheta -> Rotate) *)
Theorem normalize_unit : forall q : Quat.Quaternion R, (0 < qnorm2 q)%R -> qnorm2 (Quat.Quaternion_Normalize q) = 1%R.
Proof. exact AlgebraMoreProofs.normalize_unit. Qed.
Print Assumptions normalize_unit.

Theorem rotation_to_unit : forall a b : vec3 R, v3_dot a a = 1%R -> v3_dot b b = 1%R -> qnorm2 (Quat.RotationTo a b) = 1%R.
Proof. exact AlgebraMoreProofs.rotation_to_unit. Qed.
Print Assumptions rotation_to_unit.

Theorem rotation_to_isometry : forall a b v : vec3 R, v3_dot a a = 1%R -> v3_dot b b = 1%R ->
  v3_length (Quat.Quaternion_Rotate (Quat.RotationTo a b) v) = v3_length v.
Proof. exact AlgebraMoreProofs.rotation_to_isometry. Qed.
Print Assumptions rotation_to_isometry.

Theorem from_theta_isometry : forall (theta : R) (axis v : vec3 R), (0 < v3_dot axis axis)%R ->
  v3_length (Quat.Quaternion_Rotate (Quat.FromTheta theta axis) v) = v3_length v.
Proof. exact AlgebraMoreProofs.from_theta_isometry. Qed.
Print Assumptions from_theta_isometry.

(* boxes: the grown box is EXACTLY [min(lo,p), max(hi,p)], and unchanged when the point was already inside *)
Theorem encapsulate_point_bounds : forall (b : Aabb.AABB R) (p : vec3 R),
  box_lo (Aabb.AABB_EncapsulatePoint b p) = v3_min (box_lo b) p /\
  box_hi (Aabb.AABB_EncapsulatePoint b p) = v3_max (box_hi b) p.
Proof. exact AlgebraAabbProofs.encapsulate_point_bounds. Qed.
Print Assumptions encapsulate_point_bounds.

Theorem encapsulate_inside : forall (b : Aabb.AABB R) (p : vec3 R), Aabb.AABB_Contains b p = true ->
  box_lo (Aabb.AABB_EncapsulatePoint b p) = box_lo b /\ box_hi (Aabb.AABB_EncapsulatePoint b p) = box_hi b.
Proof. exact AlgebraMoreProofs.encapsulate_inside. Qed.
Print Assumptions encapsulate_inside.

(* ClosestPoint of a point of the box is the point itself *)
Theorem closest_fixed : forall (b : Aabb.AABB R) (v : vec3 R),
  Aabb.AABB_Contains b v = true -> Aabb.AABB_ClosestPoint b v = v.
Proof. exact AlgebraAabbProofs.closest_fixed. Qed.
Print Assumptions closest_fixed.

(* Intersects <-> the two (non-empty, closed) boxes have a common point *)
Theorem intersects_iff : forall a b : Aabb.AABB R, nonneg_box a -> nonneg_box b ->
  (Aabb.AABB_Intersects a b = true <-> exists p, Aabb.AABB_Contains a p = true /\ Aabb.AABB_Contains b p = true).
Proof. exact AlgebraMoreProofs.intersects_iff. Qed.
Print Assumptions intersects_iff.

Theorem expand_contains : forall (b : Aabb.AABB R) (amount : R) (q : vec3 R), (0 <= amount)%R ->
  Aabb.AABB_center (Aabb.AABB_Expand b amount) = Aabb.AABB_center b /\
  box_hi (Aabb.AABB_Expand b amount) = v3_add (box_hi b) (mkV3 (amount / 2) (amount / 2) (amount / 2))%R /\
  (Aabb.AABB_Contains b q = true -> Aabb.AABB_Contains (Aabb.AABB_Expand b amount) q = true).
Proof. exact AlgebraMoreProofs.expand_contains. Qed.
Print Assumptions expand_contains.

Theorem size_volume : forall b : Aabb.AABB R,
  Aabb.AABB_Size b = v3_sub (Aabb.AABB_Max b) (Aabb.AABB_Min b) /\
  Aabb.AABB_Min b = box_lo b /\ Aabb.AABB_Max b = box_hi b /\ Aabb.AABB_Center b = Aabb.AABB_center b /\
  Aabb.AABB_Volume b = (v3x (Aabb.AABB_Size b) * v3y (Aabb.AABB_Size b) * v3z (Aabb.AABB_Size b))%R.
Proof. exact AlgebraMoreProofs.size_volume. Qed.
Print Assumptions size_volume.

(* NewAABBFromPoints (hand-written model box_from_points of the Go loop, ending in the translated NewAABB; tied to the
   code by the correspondence check): every point is in the box, and every face of the box touches a point *)
Theorem box_from_points_contains : forall (p0 : vec3 R) (pts : list (vec3 R)),
  let b := box_from_points p0 pts in
  (forall p, In p (p0 :: pts) -> Aabb.AABB_Contains b p = true) /\
  (exists p, In p (p0 :: pts) /\ v3x p = v3x (box_lo b)) /\ (exists p, In p (p0 :: pts) /\ v3x p = v3x (box_hi b)) /\
  (exists p, In p (p0 :: pts) /\ v3y p = v3y (box_lo b)) /\ (exists p, In p (p0 :: pts) /\ v3y p = v3y (box_hi b)) /\
  (exists p, In p (p0 :: pts) /\ v3z p = v3z (box_lo b)) /\ (exists p, In p (p0 :: pts) /\ v3z p = v3z (box_hi b)).
Proof. exact AlgebraMoreProofs.box_from_points_contains. Qed.
Print Assumptions box_from_points_contains.

(* ======================================================================== non-vacuity *)
(* the algebraic hypotheses are satisfiable: R is a field carrier, Z a ring carrier (axiom-free);
   the identity matrix has a non-zero determinant; x, y are unit vectors in the generic RotationTo branch
   and x, -x in the antiparallel one *)
Example c17_nonvacuous :
  field_carrier R_carrier /\ ring_carrier Z_carrier /\
  Mat.Matrix4x4_Determinant (F := R) Mat.Identity <> 0%R /\
  (let a := mkV3 1 0 0 in let b := mkV3 0 1 0 in
   v3_dot a a = 1 /\ v3_dot b b = 1 /\ -0.999999 <= v3_dot a b <= 0.999999 /\ v3_dot a (v3_neg a) < -0.999999)%R.
Proof.
  split; [exact R_field_carrier|]. split; [exact Z_ring_carrier|]. split.
  - rewrite (AlgebraMatProofs.determinant_identity R_ring_carrier). exact R1_neq_R0.
  - unfold v3_neg. vec_unfold. carrier_R. repeat split; lra.
Qed.
Print Assumptions Z_ring_carrier.

(* round 4 hypotheses are satisfiable: the unit box is a non-negative box containing the origin; the identity matrix is
   affine with non-zero determinant; the identity quaternion has positive norm *)
Example c17_nonvacuous_round4 :
  nonneg_box (Aabb.NewAABB (F := R) v3_zero v3_one) /\
  Aabb.AABB_Contains (Aabb.NewAABB (F := R) v3_zero v3_one) v3_zero = true /\
  affine (F := R) Mat.Identity /\ (0 < qnorm2 (F := R) Quat.Identity)%R.
Proof.
  split; [|split; [|split]].
  - unfold nonneg_box. gen_full. carrier_R. lra.
  - apply AlgebraAabbProofs.contains_iff. unfold in_box. gen_full. carrier_R. lra.
  - unfold affine. gen_full. carrier_R. repeat split; reflexivity.
  - gen_full. carrier_R. lra.
Qed.
