(* C20 — 2-D Bowyer–Watson triangulation (modeling/triangulation/bowyer_watson.go).
   Statements only; proofs live in Tri/DelaunayProofs.v and Tri/BowyerWatsonProofs.v.

   Vocabulary (Tri/Delaunay.v, Tri/BowyerWatson.v):
     pt = Q*Q, tri = nat*nat*nat (vertex indices), resolve pts t = the three corner points,
     orient a b c   = (b.X-a.X)*(c.Y-a.Y)-(c.X-a.X)*(b.Y-a.Y)      (Go: CounterClockwise is orient > 0)
     incircle a b c p = the determinant of Triangle.InsideCircumcircle (Go answers det < 0)
     bw pts         = the model of bowyerWatson on /repo HEAD (super triangle of fix cb0a07c),
     bw_pinned pts  = the same with the super triangle of the pinned snapshot,
     bw_with_sched sched super pts = the same algorithm where the k-th loop over the Go map sees its
                      content in the order sched k (bw = the identity schedule),
     bw_state super pts k = the triangulation before insertion k; old_at n k j = "j < k or j is a super
                      vertex"; sup_in P n p = p strictly inside the clockwise triangle (n, n+1, n+2) of P;
     edge_closed n T = every directed edge of a triangle of T is an edge of the super triangle
                      (n, n+1, n+2) or its reverse is an edge of a triangle of T.
   Round 4 (Tri/DelaunayChar.v):
     gp_strong P    = any three different entries of P are not collinear and any four are not concyclic,
     is_dt P old t  = the corners of t are old, t is strictly clockwise and no old point lies strictly
                      inside its circumcircle (the algorithm's determinant),
     rot_eq t u     = u is t, rot t or rot (rot t) (a triangle is a cyclic triple). *)
From Coq Require Import List ZArith QArith Bool Arith Permutation Lia.
From PF Require Import Tri.Delaunay Tri.DelaunayProofs Tri.BowyerWatson Tri.BowyerWatsonProofs
  Tri.DelaunayChar Tri.BowyerWatsonComplete.
Import ListNotations.
Open Scope Q_scope.

(* ---- 1. the checker that the binding runs on every output of the Go code decides the statement:
   only input indices /\ all triangles wound the same way with non-zero area /\ open interiors
   pairwise disjoint /\ no input point strictly inside a circle through the corners of a triangle *)
Theorem delaunay_checker_sound_complete : forall pts ts,
  delaunayb pts ts = true <->
  (forall t, In t ts -> idx_ok (length pts) t) /\
  ((forall t, In t ts -> 0 < gorient (resolve pts t)) \/ (forall t, In t ts -> gorient (resolve pts t) < 0)) /\
  (forall i j t u, i <> j -> nth_error ts i = Some t -> nth_error ts j = Some u ->
     forall p, ~ (Inside (resolve pts t) p /\ Inside (resolve pts u) p)) /\
  (forall t p, In t ts -> In p pts -> ~ InCircum (resolve pts t) p).
Proof. exact DelaunayProofs.delaunay_checker_sound_complete. Qed.
Print Assumptions delaunay_checker_sound_complete.

(* ---- 2. vertex identity: every triangle uses three different input indices (no super-triangle
   vertex survives), and vertex i of the mesh is input point i at (x, 0, y) *)
Theorem bw_vertex_identity : forall pts ts,
  bw pts = Some ts ->
  (forall t, In t ts -> idx_ok (length pts) t /\ distinct3 t) /\
  length (positions pts) = length pts /\
  (forall i, (i < length pts)%nat ->
     nth i (positions pts) (0, 0, 0) = (fst (nth i pts pzero), 0, snd (nth i pts pzero))).
Proof. exact bw_vertex_identity_proof. Qed.
Print Assumptions bw_vertex_identity.

(* ---- 3. same winding, positive area: with no three input points on a line every triangle is
   strictly clockwise (orient < 0) — established by fillHole's fix-up and the super triangle *)
Theorem bw_same_winding : forall pts ts,
  general_position pts -> bw pts = Some ts ->
  forall t, In t ts -> gorient (resolve pts t) < 0.
Proof. exact bw_same_winding_proof. Qed.
Print Assumptions bw_same_winding.

(* ---- 4. the Go map's iteration order is irrelevant: under any schedule of the n+1 loops over the
   map the result holds the same triangles, each exactly once (for any super-triangle construction) *)
Theorem bw_order_independent : forall sched super pts ts ts',
  (forall k T, Permutation (sched k T) T) ->
  bw_with_sched sched super pts = Some ts -> bw_with super pts = Some ts' ->
  Permutation ts ts'.
Proof. exact BowyerWatsonProofs.bw_order_independent. Qed.
Print Assumptions bw_order_independent.

(* hence 2 and 3 hold for every schedule *)
Theorem bw_sched_winding_identity : forall sched pts ts,
  (forall k T, Permutation (sched k T) T) -> general_position pts ->
  bw_with_sched sched super_fixed pts = Some ts ->
  forall t, In t ts -> idx_ok (length pts) t /\ distinct3 t /\ gorient (resolve pts t) < 0.
Proof. exact bw_sched_same_winding. Qed.
Print Assumptions bw_sched_winding_identity.

(* ---- 5. the super triangle of /repo HEAD (sized by max(width, height) of the bounding box) is
   clockwise and strictly contains every input point, for every input whose points do not all
   coincide — whatever the scale and offset *)
Theorem super_contains : forall pts,
  (exists a b, In a pts /\ In b pts /\ (~ fst a == fst b \/ ~ snd a == snd b)) ->
  gorient (super_gtri super_fixed pts) < 0 /\
  forall p, In p pts -> Inside (super_gtri super_fixed pts) p.
Proof. exact super_contains_proof. Qed.
Print Assumptions super_contains.

(* the pinned construction (min.Y - 2, apex from the height only) does not: for the unit square
   scaled by 1/100 the apex lies below every point, no point is inside, the triangulation is empty
   (the repaired one returns the two triangles) *)
Theorem super_refuted :
  general_position tiny_square /\ (3 <= length tiny_square)%nat /\
  (forall p, In p tiny_square -> snd (snd (fst (super_gtri super_pinned tiny_square))) < snd p) /\
  (forall p, In p tiny_square -> ~ Inside (super_gtri super_pinned tiny_square) p) /\
  bw_pinned tiny_square = Some [] /\
  (exists ts, bw tiny_square = Some ts /\ length ts = 2%nat).
Proof. exact super_pinned_refuted. Qed.
Print Assumptions super_refuted.

(* ---- 6.0 (round 4) THE STATEMENT OF THE PROPERTY, for the model of /repo HEAD: three or more points,
   point array (input ++ super triangle) in strong general position ==> only input indices, all triangles
   strictly clockwise, open interiors pairwise disjoint, no input point strictly inside a circumcircle.
   No hypothesis about the run is left: edge closure (M1 below) and non-overlap (M2 below) are proved.
   What the hypothesis adds to the statement's "general position": the three super-triangle vertices
   take part (no input point on a line through two of them / on a circle through ...), a measure-zero
   restriction that is decidable (gp_strong_decidable) and evaluated per model-compared input. *)
Theorem bw_delaunay : forall pts ts,
  (3 <= length pts)%nat -> gp_strong (pts ++ super_fixed pts) -> bw pts = Some ts ->
  delaunay_spec pts ts.
Proof. exact bw_delaunay_proof. Qed.
Print Assumptions bw_delaunay.

(* hence the model's output passes the certified checker that judges every output of the Go code: what
   the binding compares the implementation with is itself proved to satisfy the oracle *)
Theorem bw_passes_checker : forall pts ts,
  (3 <= length pts)%nat -> gp_strong (pts ++ super_fixed pts) -> bw pts = Some ts ->
  delaunayb pts ts = true.
Proof. exact bw_passes_checker_proof. Qed.
Print Assumptions bw_passes_checker.

(* ... under every order in which the n+1 loops may walk the Go map *)
Theorem bw_delaunay_any_map_order : forall sched pts ts,
  (forall k T, Permutation (sched k T) T) ->
  (3 <= length pts)%nat -> gp_strong (pts ++ super_fixed pts) ->
  bw_with_sched sched super_fixed pts = Some ts -> delaunay_spec pts ts.
Proof. exact bw_delaunay_sched_proof. Qed.
Print Assumptions bw_delaunay_any_map_order.

(* (M1) closed: the combinatorial hypothesis of bw_delaunay_partial holds at every step *)
Theorem bw_edge_closure : forall pts,
  (3 <= length pts)%nat -> gp_strong (pts ++ super_fixed pts) ->
  forall k, (k < length pts)%nat -> edge_closed (length pts) (bw_state super_fixed pts k).
Proof. exact bw_closed_run_proof. Qed.
Print Assumptions bw_edge_closure.

(* the run, exactly: before insertion k the map holds — up to rotation of a triple, each once, no
   directed edge twice — precisely the Delaunay triangles of the points inserted so far (super vertices
   included) *)
Theorem bw_states_exact : forall pts k,
  (3 <= length pts)%nat -> gp_strong (pts ++ super_fixed pts) -> (k <= length pts)%nat ->
  let P := pts ++ super_fixed pts in
  let T := bw_state super_fixed pts k in
  (forall t, In t T -> is_dt P (old_at (length pts) k) t) /\
  (forall t, is_dt P (old_at (length pts) k) t -> exists t', rot_eq t t' /\ In t' T) /\
  (forall t g e, In t T -> In g T -> In e (edges t) -> In e (edges g) -> t = g) /\ NoDup T.
Proof. exact bw_states_exact_proof. Qed.
Print Assumptions bw_states_exact.

(* the output, exactly: a triangle over input indices is returned (as one of its rotations) iff it is
   strictly clockwise and neither an input point NOR A VERTEX OF THE SUPER TRIANGLE lies strictly inside
   its circumcircle.  This is the precise form of the known finding
   triangulation:finite-super-triangle-drops-hull-triangles: a Delaunay triangle of the input is
   missing from the result iff a super-triangle vertex lies inside its circumcircle. *)
Theorem bw_output_exact : forall pts ts t,
  (3 <= length pts)%nat -> gp_strong (pts ++ super_fixed pts) -> bw pts = Some ts ->
  idx_ok (length pts) t ->
  ((exists t', rot_eq t t' /\ In t' ts) <->
   gorient (resolve pts t) < 0 /\
   forall j, (j < length pts + 3)%nat ->
     0 <= gincircle (resolve pts t) (nth j (pts ++ super_fixed pts) pzero)).
Proof. exact bw_output_exact_proof. Qed.
Print Assumptions bw_output_exact.

Theorem gp_strong_decidable : forall P, gp_strongb P = true -> gp_strong P.
Proof. exact gp_strongb_ok. Qed.
Print Assumptions gp_strong_decidable.

(* two different clockwise triangles whose circumcircles are empty of each other's corners have
   disjoint interiors (radical-axis argument as one polynomial identity, incircle_bary) — stated for the
   states of the run *)
Theorem bw_states_disjoint : forall pts k t u,
  (3 <= length pts)%nat -> gp_strong (pts ++ super_fixed pts) -> (k <= length pts)%nat ->
  In t (bw_state super_fixed pts k) -> In u (bw_state super_fixed pts k) -> t <> u ->
  forall x, ~ (Inside (resolve (pts ++ super_fixed pts) t) x /\ Inside (resolve (pts ++ super_fixed pts) u) x).
Proof. exact bw_states_disjoint_proof. Qed.
Print Assumptions bw_states_disjoint.

(* ---- 6. Delaunay, the layer lemmas and the earlier conditional forms (rounds 1-3).  Then-open statement:

     Theorem bw_delaunay : forall pts ts,
       (3 <= length pts)%nat -> general_position pts -> bw pts = Some ts ->
       delaunay_spec pts ts.

   Proved, for every input whose points do not all coincide (no size bound):
   (6a) bw_insert_keeps_empty — one insertion preserves "no inserted point strictly inside a
        circumcircle" given a strictly star-shaped cavity behind whose boundary the triangulation
        continues;
   (6b) cavity_contains_triangle — a point strictly inside a clockwise triangle is strictly inside its
        circumcircle: the triangle around the new point is bad;
   (6c) cavity_star_shaped — every boundary edge of the cavity sees the new point strictly on its
        inner side (in-circle monotonicity along the pencil of circles through the edge: otherwise the
        neighbour behind the edge would be bad too) and cavity_continues — behind a boundary edge
        beyond which an old point lies there is a triangle; both from the COMBINATORIAL invariant
        edge_closed (every directed edge of a triangle is a super-triangle edge or its reverse is an
        edge of a triangle), clockwise triangles, empty circumcircles and the super triangle
        containing the points — the latter three are themselves established along the run;
   (6d) bw_delaunay_partial — hence the whole run returns strictly clockwise triangles over input
        indices with empty circumcircles (in the sense of the specification: no centre/radius with
        the corners on and an input point strictly inside the circle), GIVEN ONLY closed_run: edge
        closure at every step.
   ROUND 4: bw_delaunay above proves the full statement under gp_strong; (M1) and (M2) below are closed
   by bw_edge_closure and the non-overlap conjunct of bw_delaunay (proof: Tri/BowyerWatsonComplete.v —
   the state is characterised as THE Delaunay triangulation of the inserted points; the neighbour
   behind an edge is the extremal point of the pencil of circles through the edge).  The _partial
   theorems below are kept under their names; they hold for every super-triangle construction and
   without general position, which bw_delaunay does not.
   What was missing before round 4 (named precisely):
   (M1) closed_run itself, i.e. that an insertion preserves edge closure.  insert_keeps_closed_partial
        below proves the preservation GIVEN edge_unique (no directed edge belongs to two triangles)
        and boundary_chains (for every boundary edge (u,v) of the cavity some boundary edge starts
        at v and some ends at u).  Still open: boundary_chains (combinatorial: from edge closure and
        edge_unique by walking around v) and the preservation of edge_unique (no vertex has two
        incoming boundary edges, i.e. no pinched cavity — geometric, from non-overlap and (6c));
   (M2) the non-overlap conjunct of delaunay_spec for the algorithm's output.
   The binding closes both gaps per input: closed_runb — a decision procedure for closed_run,
   closed_run_decidable — is evaluated on every model-compared case (so on those inputs the model's
   output is PROVED clockwise with empty circumcircles), and the certified delaunayb, which includes
   non-overlap, on every output of the Go code. *)
Theorem bw_insert_keeps_empty : forall P T i (old : nat -> Prop),
  (forall t, In t T -> gorient (resolve P t) < 0) ->
  (forall t j, In t T -> old j -> in_circb P t (nth j P pzero) = false) ->
  (forall e, In e (polygon (bad_of P T i)) ->
     orient (nth (fst e) P pzero) (nth (snd e) P pzero) (nth i P pzero) < 0) ->
  (forall e j, In e (polygon (bad_of P T i)) -> old j ->
     0 < orient (nth (fst e) P pzero) (nth (snd e) P pzero) (nth j P pzero) ->
     exists g, In g T /\ In (snd e, fst e) (edges g)) ->
  forall t j, In t (insert P T i) -> old j \/ j = i -> in_circb P t (nth j P pzero) = false.
Proof. exact insert_keeps_empty. Qed.
Print Assumptions bw_insert_keeps_empty.

Theorem cavity_contains_triangle : forall P t p,
  gorient (resolve P t) < 0 -> Inside (resolve P t) p -> in_circb P t p = true.
Proof. exact containing_triangle_bad. Qed.
Print Assumptions cavity_contains_triangle.

Theorem cavity_star_shaped : forall P n T i (old : nat -> Prop),
  (forall t, In t T -> gorient (resolve P t) < 0) ->
  (forall t j, In t T -> old j -> in_circb P t (nth j P pzero) = false) ->
  (forall t a, In t T -> In a (tri_verts t) -> old a) ->
  edge_closed n T ->
  sup_in P n (nth i P pzero) ->      (* the new point strictly inside the clockwise super triangle *)
  forall e, In e (polygon (bad_of P T i)) ->
    orient (nth (fst e) P pzero) (nth (snd e) P pzero) (nth i P pzero) < 0.
Proof. exact star_from_closed. Qed.
Print Assumptions cavity_star_shaped.

Theorem cavity_continues : forall P n T i (old : nat -> Prop),
  edge_closed n T ->
  gorient (resolve P (super_tri n)) < 0 ->
  (forall j, old j -> (j < n)%nat -> sup_in P n (nth j P pzero)) ->
  (forall j, old j -> (j < n + 3)%nat) ->
  forall e j, In e (polygon (bad_of P T i)) -> old j ->
    0 < orient (nth (fst e) P pzero) (nth (snd e) P pzero) (nth j P pzero) ->
    exists g, In g T /\ In (snd e, fst e) (edges g).
Proof. exact continues_from_closed. Qed.
Print Assumptions cavity_continues.

(* the run, given only the combinatorial invariant at every step *)
Theorem bw_delaunay_partial : forall pts ts,
  (exists a b, In a pts /\ In b pts /\ (~ fst a == fst b \/ ~ snd a == snd b)) ->
  (forall k, (k < length pts)%nat -> edge_closed (length pts) (bw_state super_fixed pts k)) ->
  bw pts = Some ts ->
  (forall t, In t ts -> idx_ok (length pts) t /\ gorient (resolve pts t) < 0) /\
  (forall t p, In t ts -> In p pts -> ~ InCircum (resolve pts t) p).
Proof. exact bw_delaunay_closed. Qed.
Print Assumptions bw_delaunay_partial.

Theorem closed_run_decidable : forall super pts, closed_runb super pts = true -> closed_run super pts.
Proof. exact closed_runb_ok. Qed.
Print Assumptions closed_run_decidable.

(* the two cavity facts at every step follow from the combinatorial invariant (any super triangle
   that is clockwise and strictly contains the input) *)
Theorem cavities_from_edge_closure : forall super pts,
  inside_super super pts -> closed_run super pts -> cavities_ok super pts.
Proof. exact cavities_from_closed. Qed.
Print Assumptions cavities_from_edge_closure.

(* (M1) reduced: edge closure survives an insertion given edge_unique and boundary_chains *)
Theorem insert_keeps_closed_partial : forall P n T i,
  (forall t, In t T -> gorient (resolve P t) < 0) ->
  edge_closed n T ->
  (forall t g e, In t T -> In g T -> In e (edges t) -> In e (edges g) -> t = g) ->
  (forall t, In t T -> ~ In i (tri_verts t)) ->
  (forall e, In e (polygon (bad_of P T i)) ->
     orient (nth (fst e) P pzero) (nth (snd e) P pzero) (nth i P pzero) < 0) ->
  (forall u v, In (u, v) (polygon (bad_of P T i)) ->
     (exists x, In (v, x) (polygon (bad_of P T i))) /\ (exists y, In (y, u) (polygon (bad_of P T i)))) ->
  edge_closed n (insert P T i).
Proof. exact insert_keeps_closed. Qed.
Print Assumptions insert_keeps_closed_partial.

(* the earlier, weaker form: the run given the two cavity facts at every step *)
Theorem bw_delaunay_from_cavities_partial : forall super pts ts,
  gorient (super_gtri super pts) < 0 ->
  cavities_ok super pts ->
  bw_with super pts = Some ts ->
  (forall t, In t ts -> idx_ok (length pts) t /\ gorient (resolve pts t) < 0) /\
  (forall t p, In t ts -> In p pts -> ~ InCircum (resolve pts t) p).
Proof. exact bw_delaunay_conditional. Qed.
Print Assumptions bw_delaunay_from_cavities_partial.

Theorem cavities_decidable : forall super pts, cavities_okb super pts = true -> cavities_ok super pts.
Proof. exact cavities_okb_ok. Qed.
Print Assumptions cavities_decidable.

(* a repeated input point (excluded by the statement's "distinct points") cannot produce a degenerate
   triangle: while the invariant holds its cavity is empty and the insertion is a no-op *)
Theorem bw_duplicate_ignored : forall P T i j (old : nat -> Prop),
  (forall t k, In t T -> old k -> in_circb P t (nth k P pzero) = false) -> old j ->
  fst (nth i P pzero) == fst (nth j P pzero) -> snd (nth i P pzero) == snd (nth j P pzero) ->
  insert P T i = T.
Proof. exact duplicate_ignored. Qed.
Print Assumptions bw_duplicate_ignored.

(* ---- 7. "triangulation OF THE INPUT" is not always met (known finding
   triangulation:finite-super-triangle-drops-hull-triangles): on these six points in general position
   the run meets every hypothesis above and its six triangles satisfy the four conjuncts, but the
   hull triangle (1,0,2) — whose circumcircle contains a super-triangle vertex — is missing:
   adding it keeps the four conjuncts true and only then do the areas add up to the hull area *)
Definition six_points : list pt := [(88, 21); (11, 80); (43, 55); (41, 53); (31, 17); (31, 18)].
Theorem bw_coverage_refuted :
  general_position six_points /\ cavities_ok super_fixed six_points /\
  exists ts, bw six_points = Some ts /\ length ts = 6%nat /\
    delaunayb six_points ts = true /\ coverb six_points ts = false /\
    ~ In (1, 0, 2)%nat ts /\
    delaunayb six_points ((1, 0, 2)%nat :: ts) = true /\ coverb six_points ((1, 0, 2)%nat :: ts) = true.
Proof.
  split; [apply general_positionb_ok; vm_compute; reflexivity|].
  split; [apply cavities_okb_ok; vm_compute; reflexivity|].
  eexists. split; [vm_compute; reflexivity|].
  split; [reflexivity|]. split; [vm_compute; reflexivity|]. split; [vm_compute; reflexivity|].
  split; [|split; vm_compute; reflexivity].
  simpl. intros H. repeat (destruct H as [H|H]; [discriminate H|]). exact H.
Qed.
Print Assumptions bw_coverage_refuted.

(* ---- non-vacuity: the hypotheses of 3, 5 and 6 (incl. closed_run) are met by a concrete input and the conclusions
   are what the checker sees *)
Example c20_example :
  (3 <= length six_points)%nat /\ general_position six_points /\
  gorient (super_gtri super_fixed six_points) < 0 /\ cavities_ok super_fixed six_points /\
  closed_run super_fixed six_points /\
  gp_strong (six_points ++ super_fixed six_points) /\
  option_map (delaunayb six_points) (bw six_points) = Some true /\
  option_map (@length tri) (bw_with_sched (fun _ T => rev T) super_fixed six_points) = Some 6%nat.
Proof.
  split; [simpl; lia|]. split; [apply general_positionb_ok; vm_compute; reflexivity|].
  split; [vm_compute; reflexivity|]. split; [apply cavities_okb_ok; vm_compute; reflexivity|].
  split; [apply closed_runb_ok; vm_compute; reflexivity|].
  split; [apply gp_strongb_ok; vm_compute; reflexivity|].
  split; vm_compute; reflexivity.
Qed.
