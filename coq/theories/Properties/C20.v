(* C20 — 2-D Bowyer–Watson triangulation.  Statements only; proofs live in Tri/DelaunayProofs.v
   and Tri/BowyerWatsonProofs.v. *)
From Coq Require Import List ZArith QArith Bool Arith.
From PF Require Import Tri.Delaunay Tri.DelaunayProofs.
Import ListNotations.
Open Scope Q_scope.

Theorem delaunay_checker_sound_complete : forall pts ts,
  delaunayb pts ts = true <-> delaunay_spec pts ts.
Proof. exact DelaunayProofs.delaunay_checker_sound_complete. Qed.
Print Assumptions delaunay_checker_sound_complete.
