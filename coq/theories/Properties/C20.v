(* C20 — 2-D Bowyer–Watson triangulation (modeling/triangulation/bowyer_watson.go).
   Statements only; proofs live in Tri/DelaunayProofs.v and Tri/BowyerWatsonProofs.v.

   Vocabulary (Tri/Delaunay.v, Tri/BowyerWatson.v):
     pt = Q*Q, tri = nat*nat*nat (vertex indices), resolve pts t = the three corner points,
     orient a b c   = (b.X-a.X)*(c.Y-a.Y)-(c.X-a.X)*(b.Y-a.Y)      (Go: CounterClockwise is orient > 0)
     incircle a b c p = the determinant of Triangle.InsideCircumcircle (Go answers det < 0)
     bw pts         = the model of bowyerWatson on /repo HEAD (super triangle of fix cb0a07c),
     bw_pinned pts  = the same with the super triangle of the pinned snapshot,
     bw_with_sched sched super pts = the same algorithm where the k-th loop over the Go map sees its
                      content in the order sched k (bw = the identity schedule). *)
From Coq Require Import List ZArith QArith Bool Arith Permutation Lia.
From PF Require Import Tri.Delaunay Tri.DelaunayProofs Tri.BowyerWatson Tri.BowyerWatsonProofs.
Import ListNotations.
Open Scope Q_scope.

(* ---- 1. the checker that the binding runs on every output of the Go code decides the statement:
   only input indices /\ all triangles wound the same way with non-zero area /\ open interiors
   pairwise disjoint /\ no input point strictly inside a circle through the corners of a triangle *)
Theorem delaunay_checker_sound_complete : forall pts ts,
  delaunayb pts ts = true <->
  (forall t, In t ts -> idx_ok (length pts) t) /\
  ((forall t, In t ts -> 0 < gorient (resolve pts t)) \/ (forall t, In t ts -> gorient (resolve pts t) < 0)) /\
  (forall i j t u, i <> j -> nth_error ts i = Some t -> nth_error ts j = Some u ->
     forall p, ~ (Inside (resolve pts t) p /\ Inside (resolve pts u) p)) /\
  (forall t p, In t ts -> In p pts -> ~ InCircum (resolve pts t) p).
Proof. exact DelaunayProofs.delaunay_checker_sound_complete. Qed.
Print Assumptions delaunay_checker_sound_complete.

(* ---- 2. vertex identity: every triangle uses three different input indices (no super-triangle
   vertex survives), and vertex i of the mesh is input point i at (x, 0, y) *)
Theorem bw_vertex_identity : forall pts ts,
  bw pts = Some ts ->
  (forall t, In t ts -> idx_ok (length pts) t /\ distinct3 t) /\
  length (positions pts) = length pts /\
  (forall i, (i < length pts)%nat ->
     nth i (positions pts) (0, 0, 0) = (fst (nth i pts pzero), 0, snd (nth i pts pzero))).
Proof. exact bw_vertex_identity_proof. Qed.
Print Assumptions bw_vertex_identity.

(* ---- 3. same winding, positive area: with no three input points on a line every triangle is
   strictly clockwise (orient < 0) — established by fillHole's fix-up and the super triangle *)
Theorem bw_same_winding : forall pts ts,
  general_position pts -> bw pts = Some ts ->
  forall t, In t ts -> gorient (resolve pts t) < 0.
Proof. exact bw_same_winding_proof. Qed.
Print Assumptions bw_same_winding.

(* ---- 4. the Go map's iteration order is irrelevant: under any schedule of the n+1 loops over the
   map the result holds the same triangles, each exactly once (for any super-triangle construction) *)
Theorem bw_order_independent : forall sched super pts ts ts',
  (forall k T, Permutation (sched k T) T) ->
  bw_with_sched sched super pts = Some ts -> bw_with super pts = Some ts' ->
  Permutation ts ts'.
Proof. exact BowyerWatsonProofs.bw_order_independent. Qed.
Print Assumptions bw_order_independent.

(* hence 2 and 3 hold for every schedule *)
Theorem bw_sched_winding_identity : forall sched pts ts,
  (forall k T, Permutation (sched k T) T) -> general_position pts ->
  bw_with_sched sched super_fixed pts = Some ts ->
  forall t, In t ts -> idx_ok (length pts) t /\ distinct3 t /\ gorient (resolve pts t) < 0.
Proof. exact bw_sched_same_winding. Qed.
Print Assumptions bw_sched_winding_identity.

(* ---- 5. the super triangle of /repo HEAD (sized by max(width, height) of the bounding box) is
   clockwise and strictly contains every input point, for every input whose points do not all
   coincide — whatever the scale and offset *)
Theorem super_contains : forall pts,
  (exists a b, In a pts /\ In b pts /\ (~ fst a == fst b \/ ~ snd a == snd b)) ->
  gorient (super_gtri super_fixed pts) < 0 /\
  forall p, In p pts -> Inside (super_gtri super_fixed pts) p.
Proof. exact super_contains_proof. Qed.
Print Assumptions super_contains.

(* the pinned construction (min.Y - 2, apex from the height only) does not: for the unit square
   scaled by 1/100 the apex lies below every point, no point is inside, the triangulation is empty
   (the repaired one returns the two triangles) *)
Theorem super_refuted :
  general_position tiny_square /\ (3 <= length tiny_square)%nat /\
  (forall p, In p tiny_square -> snd (snd (fst (super_gtri super_pinned tiny_square))) < snd p) /\
  (forall p, In p tiny_square -> ~ Inside (super_gtri super_pinned tiny_square) p) /\
  bw_pinned tiny_square = Some [] /\
  (exists ts, bw tiny_square = Some ts /\ length ts = 2%nat).
Proof. exact super_pinned_refuted. Qed.
Print Assumptions super_refuted.

(* ---- 6. Delaunay.  Full statement (NOT proved):

     Theorem bw_delaunay : forall pts ts,
       (3 <= length pts)%nat -> general_position pts -> bw pts = Some ts ->
       delaunay_spec pts ts.

   Proved: (a) one insertion preserves the empty-circumcircle invariant GIVEN that the cavity is
   strictly star-shaped from the new point and that the triangulation continues behind every
   boundary edge beyond which an already inserted point lies; (b) hence the whole run returns
   clockwise triangles with empty circumcircles GIVEN those two facts at every step (cavities_ok).
   The missing piece is the geometric lemma that the cavity of a point strictly inside the super
   triangle always has these two properties (and the non-overlap conjunct).  The binding closes
   the gap per input: cavities_okb — a decision procedure for cavities_ok, item (c) — is evaluated
   on every model-compared case, and delaunayb on every output of the Go code. *)
Theorem bw_insert_keeps_empty : forall P T i (old : nat -> Prop),
  (forall t, In t T -> gorient (resolve P t) < 0) ->
  (forall t j, In t T -> old j -> in_circb P t (nth j P pzero) = false) ->
  (forall e, In e (polygon (bad_of P T i)) ->
     orient (nth (fst e) P pzero) (nth (snd e) P pzero) (nth i P pzero) < 0) ->
  (forall e j, In e (polygon (bad_of P T i)) -> old j ->
     0 < orient (nth (fst e) P pzero) (nth (snd e) P pzero) (nth j P pzero) ->
     exists g, In g T /\ In (snd e, fst e) (edges g)) ->
  forall t j, In t (insert P T i) -> old j \/ j = i -> in_circb P t (nth j P pzero) = false.
Proof. exact insert_keeps_empty. Qed.
Print Assumptions bw_insert_keeps_empty.

Theorem bw_delaunay_partial : forall super pts ts,
  gorient (super_gtri super pts) < 0 ->
  cavities_ok super pts ->
  bw_with super pts = Some ts ->
  (forall t, In t ts -> idx_ok (length pts) t /\ gorient (resolve pts t) < 0) /\
  (forall t p, In t ts -> In p pts -> ~ InCircum (resolve pts t) p).
Proof. exact bw_delaunay_conditional. Qed.
Print Assumptions bw_delaunay_partial.

Theorem cavities_decidable : forall super pts, cavities_okb super pts = true -> cavities_ok super pts.
Proof. exact cavities_okb_ok. Qed.
Print Assumptions cavities_decidable.

(* a repeated input point (excluded by the statement's "distinct points") cannot produce a degenerate
   triangle: while the invariant holds its cavity is empty and the insertion is a no-op *)
Theorem bw_duplicate_ignored : forall P T i j (old : nat -> Prop),
  (forall t k, In t T -> old k -> in_circb P t (nth k P pzero) = false) -> old j ->
  fst (nth i P pzero) == fst (nth j P pzero) -> snd (nth i P pzero) == snd (nth j P pzero) ->
  insert P T i = T.
Proof. exact duplicate_ignored. Qed.
Print Assumptions bw_duplicate_ignored.

(* ---- 7. "triangulation OF THE INPUT" is not always met (known finding
   triangulation:finite-super-triangle-drops-hull-triangles): on these six points in general position
   the run meets every hypothesis above and its six triangles satisfy the four conjuncts, but the
   hull triangle (1,0,2) — whose circumcircle contains a super-triangle vertex — is missing:
   adding it keeps the four conjuncts true and only then do the areas add up to the hull area *)
Definition six_points : list pt := [(88, 21); (11, 80); (43, 55); (41, 53); (31, 17); (31, 18)].
Theorem bw_coverage_refuted :
  general_position six_points /\ cavities_ok super_fixed six_points /\
  exists ts, bw six_points = Some ts /\ length ts = 6%nat /\
    delaunayb six_points ts = true /\ coverb six_points ts = false /\
    ~ In (1, 0, 2)%nat ts /\
    delaunayb six_points ((1, 0, 2)%nat :: ts) = true /\ coverb six_points ((1, 0, 2)%nat :: ts) = true.
Proof.
  split; [apply general_positionb_ok; vm_compute; reflexivity|].
  split; [apply cavities_okb_ok; vm_compute; reflexivity|].
  eexists. split; [vm_compute; reflexivity|].
  split; [reflexivity|]. split; [vm_compute; reflexivity|]. split; [vm_compute; reflexivity|].
  split; [|split; vm_compute; reflexivity].
  simpl. intros H. repeat (destruct H as [H|H]; [discriminate H|]). exact H.
Qed.
Print Assumptions bw_coverage_refuted.

(* ---- non-vacuity: the hypotheses of 3, 5 and 6 are met by a concrete input and the conclusions
   are what the checker sees *)
Example c20_example :
  (3 <= length six_points)%nat /\ general_position six_points /\
  gorient (super_gtri super_fixed six_points) < 0 /\ cavities_ok super_fixed six_points /\
  option_map (delaunayb six_points) (bw six_points) = Some true /\
  option_map (@length tri) (bw_with_sched (fun _ T => rev T) super_fixed six_points) = Some 6%nat.
Proof.
  split; [simpl; lia|]. split; [apply general_positionb_ok; vm_compute; reflexivity|].
  split; [vm_compute; reflexivity|]. split; [apply cavities_okb_ok; vm_compute; reflexivity|].
  split; vm_compute; reflexivity.
Qed.
