(* C07 — binary STL round trip and size law.  Statements only; proofs live in Formats/StlProofs.v. *)
From PF Require Import Base.Bytes Formats.Stl Formats.StlProofs.
From PF Require Import Formats.StlNormal Formats.StlNormalProofs Formats.StlIo Formats.StlIoProofs.
From Coq Require Import ZArith Reals.
From Flocq Require Import Core.Raux Core.Zaux Core.Defs IEEE754.Binary IEEE754.Bits.
Open Scope N_scope.

(* 84 + 50*n bytes for n triangles, for every n including 0 *)
Theorem stl_size_law : forall hdr ts, length hdr = 80%nat ->
  length (write hdr ts) = (84 + 50 * length ts)%nat.
Proof. intros hdr ts H. rewrite write_length, H. reflexivity. Qed.
Print Assumptions stl_size_law.

(* reading a written file returns the same records in order *)
Theorem stl_roundtrip : forall hdr ts,
  length hdr = 80%nat -> Forall tri_ok ts -> N.of_nat (length ts) < 4294967296 ->
  read (write hdr ts) = Some (hdr, ts).
Proof. exact read_write. Qed.
Print Assumptions stl_roundtrip.

(* reading a well-formed byte string and writing it again reproduces it *)
Theorem stl_read_write : forall bytes hdr ts,
  bytes_ok bytes -> read bytes = Some (hdr, ts) -> length bytes = (84 + 50 * length ts)%nat ->
  write hdr ts = bytes.
Proof. exact write_read. Qed.
Print Assumptions stl_read_write.

(* mesh level: n triangles in order, corner positions gathered through the index, identity indices,
   a Normal attribute exactly when some stored facet normal is non-zero *)
Theorem stl_mesh_roundtrip : forall idx pos fns,
  length idx = (3 * length fns)%nat -> Forall (fun i => (i < length pos)%nat) idx ->
  Forall vec_ok pos -> Forall vec_ok fns -> N.of_nat (length fns) < 4294967296 ->
  exists bytes m,
    write_mesh idx (Some pos) fns = Some bytes /\
    length bytes = (84 + 50 * length fns)%nat /\
    read_mesh bytes = Some m /\
    r_nverts m = length idx /\ r_idx m = seq 0 (length idx) /\
    r_pos m = corner_positions idx pos /\
    r_nrm m = (if existsb (fun f => negb (vec_zero f)) fns
               then Some (flat_map (fun f => let x := vec_nrm f in [x; x; x]) fns) else None).
Proof. exact mesh_roundtrip. Qed.
Print Assumptions stl_mesh_roundtrip.

(* a strict prefix of a written file is rejected (also used by C14) *)
Theorem stl_prefix_rejected : forall hdr ts k,
  length hdr = 80%nat -> bytes_ok hdr -> N.of_nat (length ts) < 4294967296 ->
  (k < length (write hdr ts))%nat -> read (firstn k (write hdr ts)) = None.
Proof. exact read_prefix_rejected. Qed.
Print Assumptions stl_prefix_rejected.

(* ---- reading then writing, input with trailing bytes ----
   stl.Read ignores whatever follows the announced records (no hypothesis on the length of the input): writing
   the result reproduces exactly the first 84 + 50 n bytes — header, count and the triangle records *)
Theorem stl_read_write_trailing : forall bytes hdr ts,
  bytes_ok bytes -> read bytes = Some (hdr, ts) ->
  write hdr ts = firstn (84 + 50 * length ts) bytes /\ (84 + 50 * length ts <= length bytes)%nat.
Proof. exact write_read_prefix. Qed.
Print Assumptions stl_read_write_trailing.

(* ---- the chunked reader ----
   stl.Read asks binary.Read for min(remaining, 4096) records per iteration (read_chunked stl_chunk).  For EVERY
   chunk size k >= 1, every announced count and every byte string (well-formed or not, short or with trailing
   bytes) the chunk loop returns what the one-pass reader [read] returns — so every theorem about [read] above
   is a theorem about the chunked reader, at and around every chunk boundary *)
Theorem stl_read_chunk_independent : forall k bytes, 1 <= k -> read_chunked k bytes = read bytes.
Proof. exact read_chunked_eq_read. Qed.
Print Assumptions stl_read_chunk_independent.

Theorem stl_chunked_roundtrip : forall hdr ts extra,
  length hdr = 80%nat -> Forall tri_ok ts -> N.of_nat (length ts) < 4294967296 ->
  read_chunked stl_chunk (write hdr ts ++ extra) = Some (hdr, ts).
Proof.
  intros. rewrite read_chunked_eq_read by (unfold stl_chunk; lia). apply read_write_trailing; assumption.
Qed.
Print Assumptions stl_chunked_roundtrip.

(* ---- which byte strings are accepted ----
   exactly those holding the 84-byte preamble and 50 bytes for each of the n records the count field announces
   (n up to 2^32-1; anything after them is ignored, anything shorter is rejected); with the theorem above the
   same holds for the chunked reader with any chunk size *)
Theorem stl_read_accepts_iff : forall bytes, (84 <= length bytes)%nat ->
  exists n, get32 (skipn 80 bytes) = Some (n, skipn 84 bytes) /\
    ((exists hdr ts, read bytes = Some (hdr, ts)) <-> 84 + 50 * n <= N.of_nat (length bytes)).
Proof. exact read_accepts_iff. Qed.
Print Assumptions stl_read_accepts_iff.

Theorem stl_read_short_header : forall bytes, (length bytes < 84)%nat -> read bytes = None.
Proof. exact read_short_header. Qed.
Print Assumptions stl_read_short_header.

(* ---- which word is stored where ----
   record t of a written file occupies bytes 84 + 50 t .. 84 + 50 t + 49; by definition
   rec50 t = vec12 normal ++ vec12 v1 ++ vec12 v2 ++ vec12 v3 ++ le16 attribute (little-endian words) *)
Theorem stl_record_layout : forall hdr ts t d, length hdr = 80%nat -> (t < length ts)%nat ->
  exists pre post, write hdr ts = pre ++ rec50 (nth t ts d) ++ post /\ length pre = (84 + 50 * t)%nat.
Proof. exact write_record_at. Qed.
Print Assumptions stl_record_layout.

(* what stl.WriteMesh writes: 80 zero bytes and the little-endian count ... *)
Theorem stl_mesh_header : forall idx pos fns bytes,
  write_mesh idx (Some pos) fns = Some bytes -> length idx = (3 * length fns)%nat ->
  exists recs, bytes = repeat 0 80 ++ le32 (N.of_nat (length fns)) ++ recs /\ length recs = (50 * length fns)%nat.
Proof. exact mesh_header. Qed.
Print Assumptions stl_mesh_header.

(* ... and for triangle t, at byte offset 84 + 50 t: the facet-normal words fns[t] (their VALUE — the normalised
   mean of the three corner normals, zero without normals — is float arithmetic, judged by the harness against
   an independent float64 computation), then the float32 words of the positions of vertices idx[3t], idx[3t+1],
   idx[3t+2] in this order, then a zero attribute word *)
Theorem stl_mesh_record_layout : forall idx pos fns bytes t,
  write_mesh idx (Some pos) fns = Some bytes -> length idx = (3 * length fns)%nat -> (t < length fns)%nat ->
  let corner j := nth (nth j idx O) pos vzero in
  exists pre post,
    bytes = pre ++ vec12 (nth t fns vzero) ++ vec12 (corner (3 * t)%nat) ++ vec12 (corner (3 * t + 1)%nat)
                ++ vec12 (corner (3 * t + 2)%nat) ++ [0; 0] ++ post
    /\ length pre = (84 + 50 * t)%nat.
Proof. exact mesh_record_at. Qed.
Print Assumptions stl_mesh_record_layout.

(* reading back: corner j of the result carries the facet normal stored for triangle j / 3
   (Flat = the stored words are +-0: stl.ReadMesh substitutes the geometric normal, harness-checked) *)
Theorem stl_facet_normal_read_back : forall idx pos fns,
  length idx = (3 * length fns)%nat -> Forall (fun i => (i < length pos)%nat) idx ->
  Forall vec_ok pos -> Forall vec_ok fns -> N.of_nat (length fns) < 4294967296 ->
  existsb (fun f => negb (vec_zero f)) fns = true ->
  exists bytes m ns,
    write_mesh idx (Some pos) fns = Some bytes /\ read_mesh bytes = Some m /\ r_nrm m = Some ns /\
    length ns = length idx /\
    forall j, (j < length idx)%nat -> nth j ns Flat = vec_nrm (nth (j / 3) fns vzero).
Proof. exact mesh_normals_read_back. Qed.
Print Assumptions stl_facet_normal_read_back.

(* ---- what the large cases of the check rest on (Check/C07.v evaluates fingerprints, not byte lists) ---- *)
(* (StlBigProofs.fp_file_spec : fp_file hdr ts extra = fp (write hdr ts ++ extra) — the streamed fingerprint is
   the fingerprint of the model's bytes; not restated here because its statement mentions Coq's primitive 63-bit
   integers, which Print Assumptions lists as kernel primitives) *)

(* the model's answer on a synthetic file of any size, with any trailing bytes *)
Theorem stl_big_file_model : forall hdr ts extra,
  length hdr = 80%nat -> forallb tri_okb ts = true -> N.of_nat (length ts) < 4294967296 ->
  read_chunked stl_chunk (write hdr ts ++ extra) = Some (hdr, ts).
Proof. exact big_file_model. Qed.
Print Assumptions stl_big_file_model.

(* the model's bytes for a mesh whose index buffer and vertex list are given by functions *)
Theorem stl_big_mesh_model : forall (g : N -> N) (f fn : N -> vec) nv n part,
  (forall j, g j < N.of_nat nv) ->
  write_mesh (map (fun j => N.to_nat (g j)) (iotaN (3 * n) 0) ++ part) (Some (map f (iotaN nv 0))) (map fn (iotaN n 0))
  = Some (write zero_hdr (tris_from n 0 fn (fun j => f (g j)))).
Proof. exact big_mesh_model. Qed.
Print Assumptions stl_big_mesh_model.

(* non-vacuity: a concrete welded 2-triangle mesh meets the hypotheses and round-trips *)
Example stl_example :
  let idx := [0; 1; 2; 2; 1; 3]%nat in
  let pos := [(0, 0, 0); (1065353216, 0, 0); (0, 1065353216, 0); (1065353216, 1065353216, 0)] in
  let fns := [(0, 0, 1065353216); (0, 0, 0)] in
  option_map (@length N) (write_mesh idx (Some pos) fns) = Some 184%nat /\
  option_map r_nverts (bind (write_mesh idx (Some pos) fns) read_mesh) = Some 6%nat.
Proof. vm_compute. split; reflexivity. Qed.

(* non-vacuity of the chunk theorem: 5 records, chunk size 2 (three iterations, the last one partial), trailing
   bytes; and a file cut inside the last chunk is rejected by both readers *)
Example stl_chunk_example :
  let hdr := repeat 7 80 in
  let ts := map (fun i => {| tn := (i, 0, 1); ta := (i + 1, 2, 3); tb := (4, i * 1000, 5); tc := (6, 7, 4294967295 - i);
                             tattr := i * 9 |}) (iotaN 5 0) in
  let bytes := write hdr ts ++ [1; 2; 3] in
  read_chunked 2 bytes = Some (hdr, ts) /\ read bytes = Some (hdr, ts) /\
  read_chunked 2 (firstn 300 bytes) = None /\ read (firstn 300 bytes) = None.
Proof. vm_compute. repeat split; reflexivity. Qed.

(* ==================================================================================================================
   Round 4
   ================================================================================================================== *)

(* ---- the reader side: an io.Reader hands out the data in pieces ----
   A stream is the list of pieces successive Read calls deliver (any sizes, empty pieces included).  stl.Read fills
   every buffer with io.ReadFull ([pull]): for EVERY segmentation of the input and every chunk size k >= 1 it
   returns exactly what it returns on the whole byte string (so: files above bufio's 4096 bytes, pipes, sockets,
   iotest.HalfReader / OneByteReader / DataErrReader change nothing) *)
Theorem stl_read_piece_independent : forall k ps, 1 <= k -> read_stream k ps = read (concat ps).
Proof. exact read_stream_eq_read. Qed.
Print Assumptions stl_read_piece_independent.

(* end to end: a written file, cut into pieces any way, followed by anything: the same records in the same order *)
Theorem stl_stream_roundtrip : forall hdr ts ps,
  length hdr = 80%nat -> Forall tri_ok ts -> N.of_nat (length ts) < 4294967296 ->
  (exists extra, concat ps = write hdr ts ++ extra) ->
  read_stream stl_chunk ps = Some (hdr, ts).
Proof. exact stream_roundtrip. Qed.
Print Assumptions stl_stream_roundtrip.

(* a reader that fails (or ends) before the announced records are complete: rejected, wherever it stops *)
Theorem stl_stream_cut_rejected : forall hdr ts ps k,
  length hdr = 80%nat -> bytes_ok hdr -> N.of_nat (length ts) < 4294967296 ->
  (k < length (write hdr ts))%nat -> concat ps = firstn k (write hdr ts) ->
  read_stream stl_chunk ps = None.
Proof. exact stream_cut_rejected. Qed.
Print Assumptions stl_stream_cut_rejected.

(* ---- the writer side: a writer that accepts cap bytes and then fails ----
   an error is reported exactly when the 84 + 50 n bytes do not fit *)
Theorem stl_failing_writer_reported : forall cap hdr ts, length hdr = 80%nat ->
  snd (write_to cap (write hdr ts)) = true <-> (cap < 84 + 50 * length ts)%nat.
Proof. exact write_to_reported. Qed.
Print Assumptions stl_failing_writer_reported.

(* ---- mesh -> bytes -> pieces -> chunked reader -> mesh, composed ----
   what stl.ReadMesh returns on the bytes stl.WriteMesh wrote, delivered in any pieces: 3n vertices, identity
   indices, the corner positions gathered through the index *)
Theorem stl_mesh_stream_roundtrip : forall idx pos fns ps,
  length idx = (3 * length fns)%nat -> Forall (fun i => (i < length pos)%nat) idx ->
  Forall vec_ok pos -> Forall vec_ok fns -> N.of_nat (length fns) < 4294967296 ->
  (exists bytes, write_mesh idx (Some pos) fns = Some bytes /\ concat ps = bytes) ->
  exists hdr ts,
    read_stream stl_chunk ps = Some (hdr, ts) /\ length ts = length fns /\
    rm_pos ts = corner_positions idx pos /\ map tn ts = fns /\ Forall (fun t => tattr t = 0) ts.
Proof. exact mesh_stream_roundtrip. Qed.
Print Assumptions stl_mesh_stream_roundtrip.

(* ---- the facet-normal VALUE ----
   [facet_ok s v]: the three float32 words v are the roundings of s / |s|, decided in integer arithmetic
   (Formats/StlNormal.v).  Soundness over the real numbers: each accepted word is a finite float32 within
   (1/2 + 2^-21) ulp of the corresponding component of the normalised sum s / sqrt (s.s) — half an ulp is
   round-to-nearest, the 2^-21 ulp covers Go evaluating the quotient in float64 before rounding to float32.
   (Print Assumptions lists the axioms of Coq's standard real numbers for these two theorems.) *)
Theorem stl_facet_normal_word : forall sk S w sg m e,
  (0 < S)%Z -> f32_decode w = Some (sg, m, e) -> fn_word_ok sk S w = true ->
  (Rabs (f32R w - IZR sk / sqrt (IZR S)) <= (/ 2 + bpow radix2 (- 21)) * bpow radix2 e)%R.
Proof. exact fn_word_sound. Qed.
Print Assumptions stl_facet_normal_word.

Theorem stl_facet_normal_value : forall x y z wx wy wz,
  facet_ok (x, y, z) (wx, wy, wz) = true ->
  let S := (x * x + y * y + z * z)%Z in
  (0 < S)%Z /\
  forall sk w, (sk, w) = (x, wx) \/ (sk, w) = (y, wy) \/ (sk, w) = (z, wz) ->
    exists sg m e, f32_decode w = Some (sg, m, e) /\
      (Rabs (f32R w - IZR sk / sqrt (IZR S)) <= (/ 2 + bpow radix2 (- 21)) * bpow radix2 e)%R.
Proof. exact facet_ok_sound. Qed.
Print Assumptions stl_facet_normal_value.

(* the real number [f32R w] used above is the value of the word in Flocq's formalisation of IEEE-754 binary32 *)
Theorem stl_f32_decoder_is_ieee754 : forall w : N, w < 4294967296 -> f32_decode w <> None ->
  B2R 24 128 (b32_of_bits (Z.of_N w)) = f32R w.
Proof. exact f32R_ieee754. Qed.
Print Assumptions stl_f32_decoder_is_ieee754.

(* "normalised": the length of the corner normals does not matter — scaling all three by any c > 0 (in particular
   the 1/3 of the mean, and the common power of two the harness drops) leaves the accepted words unchanged *)
Theorem stl_facet_normal_scale_invariant : forall c s v, (0 < c)%Z -> facet_ok (zscale c s) v = facet_ok s v.
Proof. exact facet_ok_scale. Qed.
Print Assumptions stl_facet_normal_scale_invariant.

(* the oracle is tight: two accepted (non-zero) words with the same sign and exponent have significands at most one
   apart — it pins the stored word down to the correctly rounded one or, when s_k/|s| is within 2^-21 ulp of a
   rounding boundary, its neighbour across that boundary *)
Theorem stl_facet_normal_oracle_tight : forall sk S w1 w2 sg m1 m2 e, (0 < S)%Z ->
  f32_decode w1 = Some (sg, m1, e) -> f32_decode w2 = Some (sg, m2, e) -> m1 <> 0%Z -> m2 <> 0%Z ->
  fn_word_ok sk S w1 = true -> fn_word_ok sk S w2 = true -> (Z.abs (m1 - m2) <= 1)%Z.
Proof. exact fn_word_ok_tight. Qed.
Print Assumptions stl_facet_normal_oracle_tight.

(* mesh level: the check's [mesh_normals_ok] says: for every triangle t, the stored words are the normalised sum of
   the normals of vertices idx[3t], idx[3t+1], idx[3t+2] *)
Theorem stl_mesh_normals_spec : forall idx nrm fns,
  mesh_normals_ok idx nrm fns = true <->
  forall t, (t < length fns)%nat -> facet_ok (corner_sum idx nrm t) (nth t fns vzero) = true.
Proof. exact mesh_normals_ok_spec. Qed.
Print Assumptions stl_mesh_normals_spec.

(* placement and value composed: in the bytes stl.WriteMesh wrote, the three words at byte offset 84 + 50 t are the
   float32 roundings of the normalised sum of the normals of vertices idx[3t], idx[3t+1], idx[3t+2]
   ([mesh_normals_ok] is what the check evaluates on the implementation's words on every run) *)
Theorem stl_mesh_facet_normal_at : forall idx pos nrm fns bytes t,
  write_mesh idx (Some pos) fns = Some bytes -> length idx = (3 * length fns)%nat ->
  mesh_normals_ok idx nrm fns = true -> (t < length fns)%nat ->
  exists pre post v, bytes = pre ++ vec12 v ++ post /\ length pre = (84 + 50 * t)%nat /\
                     facet_ok (corner_sum idx nrm t) v = true.
Proof. exact mesh_facet_normal_at. Qed.
Print Assumptions stl_mesh_facet_normal_at.

(* non-vacuity of the value oracle, branch by branch: a component that is exactly zero is accepted as +0 and as -0;
   negative components; exactly 1.0 (lowest significand of its binade: the gap below is half the gap above);
   a component that rounds to a float32 subnormal (2^-140); corner normals at a huge common scale *)
Example stl_facet_value_examples :
  facet_ok (0, 3, 4)%Z (0, 1058642330, 1061997773) = true /\
  facet_ok (0, 3, 4)%Z (2147483648, 1058642330, 1061997773) = true /\
  facet_ok (0, -3, 4)%Z (0, 3206125978, 1061997773) = true /\
  facet_ok (0, 3, 4)%Z (0, 3206125978, 1061997773) = false /\
  facet_ok (0, 0, 7)%Z (0, 0, 1065353216) = true /\
  facet_ok (1, 0, 2 ^ 140)%Z (512, 0, 1065353216) = true /\
  facet_ok (1, 0, 2 ^ 140)%Z (513, 0, 1065353216) = false /\
  facet_ok (zscale (2 ^ 200) (1, 2, 2))%Z (1051372203, 1059760811, 1059760811) = true /\
  facet_ok (0, 0, 0)%Z (0, 0, 0) = false.
Proof. vm_compute. repeat split; reflexivity. Qed.

(* behaviours the property excludes, as witnesses:
   the un-normalised mean is not accepted (three corner normals (0,0,2): mean (0,0,2) = word 0x40000000, the
   normalised mean is (0,0,1) = 0x3F800000); a word one ulp off the correctly rounded one is not accepted
   (1/3 rounds to 0x3EAAAAAB) *)
Theorem stl_unnormalised_mean_refuted :
  facet_ok (0, 0, 6)%Z (0, 0, 1073741824) = false /\ facet_ok (0, 0, 6)%Z (0, 0, 1065353216) = true.
Proof. vm_compute. split; reflexivity. Qed.
Print Assumptions stl_unnormalised_mean_refuted.

Theorem stl_one_ulp_off_refuted :
  facet_ok (1, 2, 2)%Z (1051372203, 1059760811, 1059760811) = true /\
  facet_ok (1, 2, 2)%Z (1051372204, 1059760811, 1059760811) = false /\
  facet_ok (1, 2, 2)%Z (1051372202, 1059760811, 1059760811) = false.
Proof. vm_compute. repeat split; reflexivity. Qed.
Print Assumptions stl_one_ulp_off_refuted.

(* reading then writing is NOT the identity on inputs with trailing bytes (they are outside "well-formed"):
   the trailing bytes are dropped *)
Theorem stl_trailing_bytes_dropped_refuted :
  exists b hdr ts, read b = Some (hdr, ts) /\ write hdr ts <> b.
Proof.
  exists (repeat 0 85), (repeat 0 80), []. split; [vm_compute; reflexivity|].
  intros H. apply (f_equal (@length N)) in H. vm_compute in H. discriminate.
Qed.
Print Assumptions stl_trailing_bytes_dropped_refuted.

(* non-vacuity of the stream theorems: a 2-record file delivered as [3 bytes; nothing; 100 bytes; 1 byte; the rest]
   and the same stream failing 10 bytes before the end *)
Example stl_stream_example :
  let hdr := repeat 9 80 in
  let ts := map (fun i => {| tn := (i, 0, 1); ta := (i + 1, 2, 3); tb := (4, i * 1000, 5); tc := (6, 7, 8); tattr := i |}) (iotaN 2 0) in
  let b := write hdr ts in
  let ps := [firstn 3 b; []; firstn 100 (skipn 3 b); firstn 1 (skipn 103 b); skipn 104 b] in
  concat ps = b /\ read_stream stl_chunk ps = Some (hdr, ts) /\ read_stream 1 ps = Some (hdr, ts) /\
  read_stream stl_chunk [firstn 3 b; firstn 171 (skipn 3 b)] = @None (list N * list tri).
Proof. vm_compute. repeat split; reflexivity. Qed.
