(* C07 — binary STL round trip and size law.  Statements only; proofs live in Formats/StlProofs.v. *)
From PF Require Import Base.Bytes Formats.Stl Formats.StlProofs.
Open Scope N_scope.

(* 84 + 50*n bytes for n triangles, for every n including 0 *)
Theorem stl_size_law : forall hdr ts, length hdr = 80%nat ->
  length (write hdr ts) = (84 + 50 * length ts)%nat.
Proof. intros hdr ts H. rewrite write_length, H. reflexivity. Qed.
Print Assumptions stl_size_law.

(* reading a written file returns the same records in order *)
Theorem stl_roundtrip : forall hdr ts,
  length hdr = 80%nat -> Forall tri_ok ts -> N.of_nat (length ts) < 4294967296 ->
  read (write hdr ts) = Some (hdr, ts).
Proof. exact read_write. Qed.
Print Assumptions stl_roundtrip.

(* reading a well-formed byte string and writing it again reproduces it *)
Theorem stl_read_write : forall bytes hdr ts,
  bytes_ok bytes -> read bytes = Some (hdr, ts) -> length bytes = (84 + 50 * length ts)%nat ->
  write hdr ts = bytes.
Proof. exact write_read. Qed.
Print Assumptions stl_read_write.

(* mesh level: n triangles in order, corner positions gathered through the index, identity indices,
   a Normal attribute exactly when some stored facet normal is non-zero *)
Theorem stl_mesh_roundtrip : forall idx pos fns,
  length idx = (3 * length fns)%nat -> Forall (fun i => (i < length pos)%nat) idx ->
  Forall vec_ok pos -> Forall vec_ok fns -> N.of_nat (length fns) < 4294967296 ->
  exists bytes m,
    write_mesh idx (Some pos) fns = Some bytes /\
    length bytes = (84 + 50 * length fns)%nat /\
    read_mesh bytes = Some m /\
    r_nverts m = length idx /\ r_idx m = seq 0 (length idx) /\
    r_pos m = corner_positions idx pos /\
    r_nrm m = (if existsb (fun f => negb (vec_zero f)) fns
               then Some (flat_map (fun f => let x := vec_nrm f in [x; x; x]) fns) else None).
Proof. exact mesh_roundtrip. Qed.
Print Assumptions stl_mesh_roundtrip.

(* a strict prefix of a written file is rejected (also used by C14) *)
Theorem stl_prefix_rejected : forall hdr ts k,
  length hdr = 80%nat -> bytes_ok hdr -> N.of_nat (length ts) < 4294967296 ->
  (k < length (write hdr ts))%nat -> read (firstn k (write hdr ts)) = None.
Proof. exact read_prefix_rejected. Qed.
Print Assumptions stl_prefix_rejected.

(* non-vacuity: a concrete welded 2-triangle mesh meets the hypotheses and round-trips *)
Example stl_example :
  let idx := [0; 1; 2; 2; 1; 3]%nat in
  let pos := [(0, 0, 0); (1065353216, 0, 0); (0, 1065353216, 0); (1065353216, 1065353216, 0)] in
  let fns := [(0, 0, 1065353216); (0, 0, 0)] in
  option_map (@length N) (write_mesh idx (Some pos) fns) = Some 184%nat /\
  option_map r_nverts (bind (write_mesh idx (Some pos) fns) read_mesh) = Some 6%nat.
Proof. vm_compute. split; reflexivity. Qed.
