(* C02 — well-formedness is closed under generation and mesh operations.
   Statements only; the proofs live in Mesh/PureProofs.v (operations) and Mesh/GenWf.v + Gen/*Proofs.v
   (generators).

   Reading guide (Mesh/Pure.v).  A [mesh] is a topology, an index list, material ranges and ONE
   association list of attribute arrays keyed by (arity, name) — the four Go maps v4Data..v1Data.
   [nverts m] is Mesh.AttributeLength (the length of the first array in map order).
   [wf m] : every attribute array has length [nverts m], every index is < [nverts m], the index count
   is a multiple of 3 (triangles) / 4 (quads), the keys are distinct (strictly sorted).
   [step o ins] is the model of one call of the Go operation [o] on the input meshes [ins]:
   [Ok ms] = returned meshes, [Declared] = reported failure (error / panic(error)),
   [Crash] = runtime panic (never produced by the model — that it agrees with the implementation is
   what the correspondence check establishes on every run).  [run h pool] executes a history of
   operations, each naming its arguments by position in the growing pool of meshes. *)
From Coq Require Import List NArith ZArith Bool Arith.
From PF Require Import Gen.Closed Gen.Sphere Gen.Hemisphere Gen.Cylinder Gen.Cube.
From PF Require Import Mesh.Pure Mesh.PureLemmas Mesh.PureProofs Mesh.GenWf Mesh.GenIdx Mesh.GenIdxProofs Mesh.GenCompose Mesh.GenIntern.
Import ListNotations.
Close Scope N_scope.
Open Scope nat_scope.

(* ================================================================ THE PROPERTY, stated once
   "Every mesh returned by a geometry generator and every mesh returned by a mesh operation applied to
   well-formed meshes is well-formed [wf: one common attribute length, every index in range, index count
   fitting the topology]. An operation either returns such a mesh or reports failure; it never returns
   a mesh whose accessors would read out of range."

   (1) operations: every operation, every well-formed input, every parameter: results all wf or a declared
       failure, never a crash;  (2) sequences of operations (any history over a growing pool);
   (3) wf means accessors stay in range;  (4) generators, for EVERY parameter the generator accepts:
       UV sphere (welded / unwelded), hemisphere, cylinder, cube (welded / six quads) - index formulas of
       Gen/*.v (C18); circle and cone (fan), quad, extrude.polygon/Polygon/Circle (tube), extrude.Line
       (ribbon), extrude.Shape/ClosedShape (one ring per path point, also for collinear or repeated path
       points) - index formulas of Mesh/GenIdx.v; anything assembled with Append from well-formed parts
       and repeat.Mesh over any transform list (repeat.Circle/Line/Spline/FibonacciSphere).
       Every index formula is compared with the implementation's index list on every run (CGenI, C18).
   Marching-cubes and Bowyer-Watson outputs are not index formulas of their parameters: they are judged on
   every run by the verified test wfb (clause 0); their structure is C09's (grid_no_degenerate) and C20's
   (bw_vertex_identity: the triangles name input points) business. *)
Theorem C02_wellformedness_closed :
  (* 0 *) (forall m, wfb m = true <-> wf m) /\
  (* 1 *) (forall o ins, Forall wf ins -> op_pre o ins = true ->
             match step o ins with Ok ms => Forall wf ms | Declared => True | Crash => False end) /\
  (* 2 *) (forall h pool, Forall wf pool -> Forall wf (run h pool)) /\
  (* 3 *) (forall m, wf m -> forall i a, In i (indices m) -> In a (attrs m) -> i < length (snd a)) /\
  (* 4 *) (forall ks mats vals, ssortedb ks = true -> ks <> [] ->
     (forall r c, (2 <= r)%N -> (1 <= c)%N -> wf (gen_mesh (sphere_nverts r c) (sphere_idx r c) ks mats vals)) /\
     (forall r c, (2 <= r)%N -> (1 <= c)%N -> wf (gen_mesh (sphereU_nverts r c) (sphereU_idx r c) ks mats vals)) /\
     (forall r c, (2 <= r)%N -> (1 <= c)%N -> wf (gen_mesh (hemi_nverts r c) (hemi_idx r c) ks mats vals)) /\
     (forall n, (1 <= n)%N -> wf (gen_mesh (cyl_nverts n) (cyl_idx n) ks mats vals)) /\
     wf (gen_mesh cubeW_nverts cubeW_idx ks mats vals) /\ wf (gen_mesh cubeQ_nverts cubeQ_idx ks mats vals) /\
     (forall n, 1 <= n -> wf (gen_mesh_nat (fan_nverts n) (fan_idx n) ks mats vals)) /\
     wf (gen_mesh_nat quad_nverts quad_idx ks mats vals) /\
     (forall flip sides points, wf (gen_mesh_nat (tube_nverts sides points) (tube_idx flip sides points) ks mats vals)) /\
     (forall points, wf (gen_mesh_nat (ribbon_nverts points) (ribbon_idx points) ks mats vals)) /\
     (forall sides points closed, 1 <= points ->
        wf (gen_mesh_nat (shape_nverts sides points) (shape_idx sides points closed) ks mats vals))) /\
  (* 4, composed *) (forall ms acc, wf acc -> Forall wf ms ->
     match append_all acc ms with Ok rs => Forall wf rs | Declared => True | Crash => False end) /\
  (forall pos base ts, wf base ->
     match repeat_mesh pos base ts with Ok ms => Forall wf ms | Declared => True | Crash => False end).
Proof.
  split; [exact wfb_wf|]. split; [exact step_wf|]. split; [exact run_wf|].
  split; [exact PureProofs.wf_accessors_in_range|].
  split; [|split; [exact append_all_wf|exact repeat_mesh_wf]].
  intros ks mats vals Hs Hk.
  split; [intros; apply sphere_mesh_wf; assumption|].
  split; [intros; apply sphereU_mesh_wf; assumption|].
  split; [intros; apply hemi_mesh_wf; assumption|].
  split; [intros; apply cyl_mesh_wf; assumption|].
  split; [apply (cube_mesh_wf ks mats vals Hs Hk)|].
  split; [apply (cube_mesh_wf ks mats vals Hs Hk)|].
  split; [intros; apply fan_mesh_wf; assumption|].
  split; [apply quad_mesh_wf; assumption|].
  split; [intros; apply tube_mesh_wf; assumption|].
  split; [intros; apply ribbon_mesh_wf; assumption|].
  intros; apply shape_mesh_wf; assumption.
Qed.
Print Assumptions C02_wellformedness_closed.

(* ================================================================ the clauses one by one *)

(* the executable test applied to every mesh the implementation returns decides well-formedness *)
Theorem wfb_decides_wf : forall m, wfb m = true <-> wf m.
Proof. exact wfb_wf. Qed.
Print Assumptions wfb_decides_wf.

(* "it never returns a mesh whose accessors would read out of range": on a well-formed mesh every
   index addresses an element of every attribute array *)
Theorem wf_accessors_in_range : forall m, wf m ->
  forall i a, In i (indices m) -> In a (attrs m) -> i < length (snd a).
Proof. exact PureProofs.wf_accessors_in_range. Qed.
Print Assumptions wf_accessors_in_range.

(* every operation, on every well-formed input, for every parameter: a well-formed result or a
   declared failure, never a crash.  (op_pre only constrains the three raw setters, whose data come
   from the caller: SetIndices in range and fitting the topology, SetFloatNAttribute of the common
   length.)  Operations: Append, Unweld, RemovedUnreferencedVertices, RemoveNullFaces3D (any area
   test), FlipTriangleWinding, ToPointCloud, FilterFloat1..4 (any predicate), CropFloat3Attribute,
   SplitOnUniqueMaterials, WeldByFloat3Attribute (any rounding key), SetIndices, SetFloatNAttribute,
   SetMaterials, repeat.Mesh, Translate/Scale/Rotate/ApplyTRS/Center attribute transforms,
   SliceByPlaneWithAttribute (any side test; both halves), ScaleAttributeAlongNormal. *)
Theorem wf_closed_ops : forall o ins, Forall wf ins -> op_pre o ins = true ->
  match step o ins with Ok ms => Forall wf ms | Declared => True | Crash => False end.
Proof. exact step_wf. Qed.
Print Assumptions wf_closed_ops.

(* ... and therefore every sequence of operations applied to well-formed meshes (induction over the
   history; each operation may consume any earlier result) *)
Theorem wf_closed_histories : forall h pool, Forall wf pool -> Forall wf (run h pool).
Proof. exact run_wf. Qed.
Print Assumptions wf_closed_histories.

(* the individual closure lemmas, named as in DESIGN.md *)
Theorem append_wf : forall a b, wf a -> wf b ->
  match append a b with Ok ms => Forall wf ms | Declared => True | Crash => False end.
Proof. exact PureProofs.append_wf. Qed.
Print Assumptions append_wf.

(* index shift after vertex removal (RemovedUnreferencedVertices, and the tail of
   WeldByFloat3Attribute with drop_empty = false): shiftBy i is the running count of dropped ids, so
   i - shiftBy i is the rank of i among the kept ids *)
Theorem remove_unreferenced_wf : forall drop_empty m, wf m -> wf (remove_unref_with drop_empty m).
Proof. exact remove_unref_with_wf. Qed.
Print Assumptions remove_unreferenced_wf.

Theorem rank_shift : forall u i, i < length u -> nth i u false = true -> i - shift_by u i = rank u i.
Proof. exact shift_rank. Qed.
Print Assumptions rank_shift.

Theorem weld_wf : forall keyf a m, wf m ->
  match weld vec_eqb keyf a m with Ok ms => Forall wf ms | Declared => True | Crash => False end.
Proof. exact PureProofs.weld_wf. Qed.
Print Assumptions weld_wf.

Theorem split_wf : forall m, wf m ->
  match split m with Ok ms => Forall wf ms | Declared => True | Crash => False end.
Proof. exact PureProofs.split_wf. Qed.
Print Assumptions split_wf.

Theorem filter_wf : forall k pred m, wf m ->
  match filter_attr k pred m with Ok ms => Forall wf ms | Declared => True | Crash => False end.
Proof. exact filter_attr_wf. Qed.
Print Assumptions filter_wf.

Theorem crop_wf : forall a lo hi m, wf m ->
  match crop a lo hi m with Ok ms => Forall wf ms | Declared => True | Crash => False end.
Proof. exact PureProofs.crop_wf. Qed.
Print Assumptions crop_wf.

Theorem repeat_wf : forall pos m ts, wf m ->
  match repeat_mesh pos m ts with Ok ms => Forall wf ms | Declared => True | Crash => False end.
Proof. exact repeat_mesh_wf. Qed.
Print Assumptions repeat_wf.

(* SliceByPlaneWithAttribute, for EVERY side test (so every plane): both returned halves are well-formed;
   other topologies / a missing attribute are a declared failure (after fixes/C02-slice-requires-triangles:
   the pinned code cut a quad mesh's index list into threes and returned quad meshes with 3 indices) *)
Theorem slice_wf : forall a clip m, wf m ->
  match slice a clip m with Ok ms => Forall wf ms /\ length ms = 2 | Declared => True | Crash => False end.
Proof.
  intros a clip m W. pose proof (PureProofs.slice_wf a clip m W) as H. unfold slice in *.
  destruct (topology m); try exact I. destruct (lookup (3%N, a) (attrs m)); [|exact I]. split; [exact H|reflexivity].
Qed.
Print Assumptions slice_wf.

Theorem scale_along_normal_wf : forall a nrm amt m, wf m ->
  match scale_along_normal a nrm amt m with Ok ms => Forall wf ms | Declared => True | Crash => False end.
Proof. exact PureProofs.scale_along_normal_wf. Qed.
Print Assumptions scale_along_normal_wf.

(* "every mesh returned ... IS well-formed" - and stays so: results are values.  However a history is
   continued (h2 after h1: any operations, on any of the meshes, the result in question included), every
   mesh of the pool after h1 is still in the pool, unchanged, and well-formed.  (The implementation shares
   backing arrays between a result and its inputs; that no later call writes through them is what the
   retained-value stream of the check - case CKeep - observes on the real Go values on every run.) *)
Theorem results_stay_wellformed : forall h1 h2 pool i m, Forall wf pool ->
  nth_error (run h1 pool) i = Some m ->
  nth_error (run (h1 ++ h2) pool) i = Some m /\ wf m.
Proof. intros h1 h2 pool i m F H. rewrite run_app. apply run_keeps_wf; assumption. Qed.
Print Assumptions results_stay_wellformed.

Theorem history_only_adds : forall h pool, exists ext, run h pool = pool ++ ext.
Proof. exact run_extends. Qed.
Print Assumptions history_only_adds.

(* generators: the primitives whose index formulas are modelled in Gen/*.v (C18); the others follow below
   (Mesh/GenIdx.v, Mesh/GenCompose.v).  Marching cubes and triangulation: wfb on every output only.
   [gen_mesh nv idx ks mats vals]: triangle mesh with vertex count nv, index list idx and one array
   of length nv under every key of ks.  For EVERY accepted count: *)
Theorem wf_generators_primitives : forall ks mats vals, ssortedb ks = true -> ks <> [] ->
  (forall r c, (2 <= r)%N -> (1 <= c)%N -> wf (gen_mesh (sphere_nverts r c) (sphere_idx r c) ks mats vals)) /\
  (forall r c, (2 <= r)%N -> (1 <= c)%N -> wf (gen_mesh (sphereU_nverts r c) (sphereU_idx r c) ks mats vals)) /\
  (forall r c, (2 <= r)%N -> (1 <= c)%N -> wf (gen_mesh (hemi_nverts r c) (hemi_idx r c) ks mats vals)) /\
  (forall n, (1 <= n)%N -> wf (gen_mesh (cyl_nverts n) (cyl_idx n) ks mats vals)) /\
  wf (gen_mesh cubeW_nverts cubeW_idx ks mats vals) /\ wf (gen_mesh cubeQ_nverts cubeQ_idx ks mats vals).
Proof.
  intros ks mats vals Hs Hk.
  split; [|split; [|split; [|split; [|split]]]]; intros.
  - apply sphere_mesh_wf; assumption.
  - apply sphereU_mesh_wf; assumption.
  - apply hemi_mesh_wf; assumption.
  - apply cyl_mesh_wf; assumption.
  - apply (cube_mesh_wf ks mats vals Hs Hk).
  - apply (cube_mesh_wf ks mats vals Hs Hk).
Qed.
Print Assumptions wf_generators_primitives.

(* the fan of primitives.Circle (sides >= 1) and primitives.Cone (sides >= 3), and the tube of
   extrude.polygon / extrude.Polygon / extrude.Circle.Extrude for EVERY side count, path length and
   winding-flip table (Mesh/GenIdx.v; index lists compared with the implementation's on every run) *)
Theorem wf_generators_fan_tube : forall ks mats vals, ssortedb ks = true -> ks <> [] ->
  (forall n, 1 <= n -> wf (gen_mesh_nat (fan_nverts n) (fan_idx n) ks mats vals)) /\
  (forall flip sides points, wf (gen_mesh_nat (tube_nverts sides points) (tube_idx flip sides points) ks mats vals)).
Proof.
  intros ks mats vals Hs Hk. split; intros.
  - apply fan_mesh_wf; assumption.
  - apply tube_mesh_wf; assumption.
Qed.
Print Assumptions wf_generators_fan_tube.

(* quad, extrude.Line (ribbon), extrude.Shape / ClosedShape (every path of >= 1 point, every stencil size,
   open or closed; collinear and repeated path points get their ring like any other) *)
Theorem wf_generators_quad_ribbon_shape : forall ks mats vals, ssortedb ks = true -> ks <> [] ->
  wf (gen_mesh_nat quad_nverts quad_idx ks mats vals) /\
  (forall points, wf (gen_mesh_nat (ribbon_nverts points) (ribbon_idx points) ks mats vals)) /\
  (forall sides points closed, 1 <= points ->
     wf (gen_mesh_nat (shape_nverts sides points) (shape_idx sides points closed) ks mats vals)).
Proof.
  intros ks mats vals Hs Hk. split; [apply quad_mesh_wf; assumption|].
  split; intros; [apply ribbon_mesh_wf|apply shape_mesh_wf]; assumption.
Qed.
Print Assumptions wf_generators_quad_ribbon_shape.

(* generators assembled from parts: folding Mesh.Append over well-formed parts (Cube.UnweldedQuads,
   Cylinder ...) and repeat.Mesh over any transform list (the repeat.* transform generators) *)
Theorem wf_generators_composed :
  (forall ms acc, wf acc -> Forall wf ms ->
     match append_all acc ms with Ok rs => Forall wf rs | Declared => True | Crash => False end) /\
  (forall ms acc, wf acc -> Forall wf ms -> Forall (fun m => topology m = topology acc) ms ->
     exists r, append_all acc ms = Ok [r] /\ wf r /\ topology r = topology acc) /\
  (forall pos base ts, wf base ->
     match repeat_mesh pos base ts with Ok ms => Forall wf ms | Declared => True | Crash => False end).
Proof. split; [exact append_all_wf|split; [exact append_all_ok|exact repeat_mesh_wf]]. Qed.
Print Assumptions wf_generators_composed.

(* marching cubes and Bowyer-Watson: their index lists are not formulas of the parameters, but the way the
   mesh is ASSEMBLED makes it well-formed whatever the geometry decides (Mesh/GenIntern.v):
   - marching: in every block each emitted triangle corner goes through LookupOrAdd (found by its rounding
     key, or appended to the vertex array - the index is its position there); the block meshes are folded
     with Append from the empty mesh, welded and scaled.  For EVERY list of emitted corner positions per
     block, every rounding key of the interning and of the weld, every scale;
   - BowyerWatson: one vertex per input point; the clean-up keeps the triangles none of whose corners is a
     super-triangle vertex.  For EVERY triangle list the insertion loop may have produced.
   The check ties both to the implementation through their observable consequences (CGenI GMarch: no
   unreferenced vertex; CGenI (GBw n): one vertex per input point) next to wfb on every output. *)
Theorem wf_generators_marching_triangulation :
  (forall (K : Type) (keq : K -> K -> bool) keyf a tris, wf (block_mesh keq keyf a tris)) /\
  (forall (K : Type) (keq : K -> K -> bool) keyf wkey a blocks origin amount,
     match marching_mesh keq keyf wkey a blocks origin amount with
     | Ok ms => Forall wf ms | Declared => True | Crash => False end) /\
  (forall pos tex n tris, wf (bw_mesh pos tex n tris)).
Proof.
  split; [intros; apply block_mesh_wf|]. split; [intros; apply marching_mesh_wf|exact bw_mesh_wf].
Qed.
Print Assumptions wf_generators_marching_triangulation.

(* non-vacuity of the interning builder: two triangles sharing an edge give 4 vertices and 6 indices *)
Example block_mesh_example :
  let t1 := ([0; 0; 0], [1; 0; 0], [0; 1; 0])%Z in let t2 := ([1; 0; 0], [1; 1; 0], [0; 1; 0])%Z in
  indices (block_mesh vec_eqb (fun v => v) 0%N [t1; t2]) = [0; 1; 2; 1; 3; 2]
  /\ nverts (block_mesh vec_eqb (fun v => v) 0%N [t1; t2]) = 4.
Proof. vm_compute. split; reflexivity. Qed.

(* non-vacuity: a mesh with an unreferenced vertex (3), duplicated vertices (0 and 4 carry the same
   values) and two attributes is well-formed; a history of six operations on it (weld, append with
   itself, remove-unreferenced, filter on the scalar attribute, unweld, flip) stays well-formed and
   is not trivial (the last mesh has four triangles, unwelded and flipped) *)
Definition ex_mesh : mesh :=
  Mesh Triangle [0; 1; 2; 2; 1; 4]%nat [(2%nat, 7%N)]
       [((3%N, 0%N), [[0; 0; 0]; [1; 0; 0]; [0; 1; 0]; [5; 5; 5]; [0; 0; 0]]%Z);
        ((1%N, 1%N), [[10]; [11]; [12]; [13]; [10]]%Z)].

Example wf_example :
  wf ex_mesh /\
  let h := [(OWeld 0%N (round_key 1%Z), [0]); (OAppend, [0; 0]); (ORemoveUnref, [2]);
            (OFilter (1%N, 1%N) (fun v => (nth 0 v 0 <=? 12)%Z), [3]); (OUnweld, [4]); (OFlip, [5])]%nat in
  length (run h [ex_mesh]) = 7%nat /\ Forall wf (run h [ex_mesh]) /\
  option_map (fun m => length (indices m)) (nth_error (run h [ex_mesh]) 6) = Some 12%nat.
Proof.
  assert (W : wf ex_mesh) by (apply wfb_wf; vm_compute; reflexivity).
  split; [exact W|]. cbv zeta. split; [vm_compute; reflexivity|]. split.
  - apply run_wf. constructor; [exact W|constructor].
  - vm_compute. reflexivity.
Qed.
