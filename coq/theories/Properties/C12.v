(* C12 — a saved graph reloads to the same graph, the same artifacts and, re-saved, the same bytes.
   Statements only; proofs live in Graph/SchemaProofs.v and Graph/InstanceProofs.v.

   Vocabulary (Graph/Instance.v, Graph/Schema.v):  [run T h] is the instance after the edit history [h]
   (create node / delete a node nothing depends on / connect and disconnect scalar and ARRAY inputs / set
   parameter value, name, description / designate producers / set and delete metadata) over the node-type
   table [T];  [encode] is graph.Instance.EncodeToAppSchema (dependencies sorted by dependencyNameLess,
   binary payloads appended to the buffer in id order);  [decode] is ApplyAppSchema (build the nodes, replay
   SetInput per dependency IN FILE ORDER — array inputs are appended —, FromJSON per parameter; a File
   payload is read from its offset to the END of the buffer, as jbtf v0.2.0 does).
   [no_overread]: no File parameter's payload is followed by further buffer content (known finding
   graph:file-param-overread: otherwise the statement is false of the code, see the last theorem). *)
From Coq Require Import String Ascii List ZArith.
From PF Require Import Base.Bytes Graph.Schema Graph.SchemaProofs Graph.Instance Graph.InstanceProofs Graph.Values Graph.ValuesProofs Graph.SortedProofs Graph.TypedProofs Check.C12.
Open Scope N_scope.

(* 1. same graph: ids, types, wiring INCLUDING the order of array inputs, parameter records (name,
      description, default, current value, CLI), producers, metadata — after every edit history, for any
      number of array connections *)
Theorem reload_same : forall (T : table) (h : list op),
  table_ok T -> no_overread T (i_nodes (run T h)) ->
  decode T (encode T (run T h)) = Some (run T h).
Proof. exact InstanceProofs.reload_same. Qed.
Print Assumptions reload_same.

(* 2. saving the reloaded graph reproduces the saved schema (the JSON text of a schema is encoding/json's,
      checked byte for byte by the binding) *)
Theorem resave_same_bytes : forall (T : table) (h : list op) (s' : inst),
  table_ok T -> no_overread T (i_nodes (run T h)) ->
  decode T (encode T (run T h)) = Some s' -> encode T s' = encode T (run T h).
Proof. exact InstanceProofs.resave_same. Qed.
Print Assumptions resave_same_bytes.

(* 3. artifacts of nodes that are deterministic functions of their inputs: any function of the instance *)
Theorem artifacts_equal : forall (T : table) (h : list op) (s' : inst) (A : Type) (artifact : inst -> A),
  table_ok T -> no_overread T (i_nodes (run T h)) ->
  decode T (encode T (run T h)) = Some s' -> artifact s' = artifact (run T h).
Proof. intros T h s' A artifact. exact (InstanceProofs.artifacts_same T h s' artifact). Qed.
Print Assumptions artifacts_equal.

(* graphs without File parameters satisfy the side condition *)
Theorem no_file_no_overread : forall (T : table) (l : list (id * node)),
  Forall (fun e => file_payload T (snd e) = false) l -> no_overread T l.
Proof. exact InstanceProofs.no_file_no_overread. Qed.
Print Assumptions no_file_no_overread.

(* 4. KEY LEMMA — the repaired comparator compares "field.i" and "field.j" as the numbers i and j, for ALL
      i, j (decimal printing is read back exactly, hence injective and order-reflecting) ... *)
Theorem dependency_names_compare_numerically : forall (field : string) (i j : N),
  dep_less (arr_name field i) (arr_name field j) = (i <? j).
Proof. exact dep_less_arr. Qed.
Print Assumptions dependency_names_compare_numerically.

Theorem decimal_read_back : forall n : N, atoi (dec n) = Some n.
Proof. exact atoi_dec. Qed.
Print Assumptions decimal_read_back.

(* ... so the saved dependency list keeps array dependencies in index order, whatever their number *)
Theorem array_dependencies_saved_in_index_order : forall (field : string) (sources : list id) (k0 : N),
  sort_deps dep_less (enum_arr field k0 sources) = enum_arr field k0 sources.
Proof. exact sort_arr_index_order. Qed.
Print Assumptions array_dependencies_saved_in_index_order.

(* and replaying a node's saved dependency list on a freshly built node rebuilds every input port exactly *)
Theorem dependencies_replay : forall (T : table) (tl : list (id * nat)) (ps : list port) (ins : list (list id)),
  NoDup (map p_name ps) -> Forall pname_ok ps -> Forall2 port_shape ps ins -> Forall2 (srcs_ok T tl) ps ins ->
  fold_opt (dstep T tl ps) (sort_deps dep_less (enum_deps ps ins)) (map (fun _ => []) ps) = Some ins.
Proof. exact deps_roundtrip. Qed.
Print Assumptions dependencies_replay.

(* 5. the id table: a new node never receives an id that is in use *)
Theorem new_id_is_fresh : forall used : list id, ~ In (alloc used) used.
Proof. exact alloc_fresh. Qed.
Print Assumptions new_id_is_fresh.

(* 6. every editing operation keeps the instance well formed (the invariant the round trip rests on) *)
Theorem edits_preserve_validity : forall (T : table) (h : list op), table_ok T -> valid T (run T h).
Proof. exact run_valid. Qed.
Print Assumptions edits_preserve_validity.

(* 7. the pinned comparator (strings.ToLower(a) < strings.ToLower(b)) is refuted by 11 connections on one
      array input: the reload is a different graph *)
Theorem lexicographic_sort_refuted : exists (T : table) (h : list op),
  table_ok T /\ no_overread T (i_nodes (run T h)) /\
  decode T (encode_pinned T (run T h)) <> Some (run T h).
Proof.
  exists demo_table, eleven. split; [exact demo_table_ok|]. split.
  - vm_compute. repeat split; intros; discriminate.
  - exact lexicographic_sort_refuted_witness.
Qed.
Print Assumptions lexicographic_sort_refuted.

(* 8. known finding graph:file-param-overread — without the side condition statement 1 is false of the code
      (two File parameters: the first reloads with the second's bytes appended) *)
Theorem file_overread_refuted : exists (T : table) (h : list op),
  table_ok T /\ ~ no_overread T (i_nodes (run T h)) /\
  decode T (encode T (run T h)) <> Some (run T h).
Proof.
  exists demo_table, two_files. split; [exact demo_table_ok|].
  destruct file_overread_refuted_witness as [A B]. split; assumption.
Qed.
Print Assumptions file_overread_refuted.

(* 9. the REPAIRED reading discipline (a reader limited to the view's byteLength, [decode_fixed]): statement 1
      holds after every edit history with NO side condition; theorem 8 stays as the refutation of the faithful
      model, and the two readers agree wherever the faithful one does not over-read *)
Theorem reload_same_repaired : forall (T : table) (h : list op),
  table_ok T -> decode_fixed T (encode T (run T h)) = Some (run T h).
Proof. exact InstanceProofs.reload_same_fixed. Qed.
Print Assumptions reload_same_repaired.

Theorem repaired_reader_agrees : forall (T : table) (h : list op),
  table_ok T -> no_overread T (i_nodes (run T h)) ->
  decode T (encode T (run T h)) = decode_fixed T (encode T (run T h)).
Proof. exact InstanceProofs.reload_fixed_agrees. Qed.
Print Assumptions repaired_reader_agrees.

(* 10. life after the reload — what the binding's continuation oracle ([contobs]) checks: every further edit
       history c gives, on the reloaded graph, the same graph and the same outcome of every operation as on the
       graph that was saved (faithful reader under the side condition, repaired reader unconditionally) ... *)
Theorem continuation_same : forall (T : table) (h c : list op) (s' : inst),
  table_ok T -> no_overread T (i_nodes (run T h)) ->
  decode T (encode T (run T h)) = Some s' ->
  run_from T s' c = run_from T (run T h) c.
Proof. exact InstanceProofs.continuation_same. Qed.
Print Assumptions continuation_same.

Theorem continuation_same_repaired : forall (T : table) (h c : list op) (s' : inst),
  table_ok T -> decode_fixed T (encode T (run T h)) = Some s' ->
  run_from T s' c = run_from T (run T h) c.
Proof. exact InstanceProofs.continuation_same_fixed. Qed.
Print Assumptions continuation_same_repaired.

(* ... the result is the graph of the concatenated history and survives the next save/load as well ... *)
Theorem reload_continue_reload : forall (T : table) (h c : list op) (s' : inst),
  table_ok T -> decode_fixed T (encode T (run T h)) = Some s' ->
  let s2 := fst (run_from T s' c) in
  s2 = run T (h ++ c) /\ decode_fixed T (encode T s2) = Some s2.
Proof. exact InstanceProofs.reload_then_continue_then_reload. Qed.
Print Assumptions reload_continue_reload.

(* ... and the first node created after a reload gets an id that is not in use in the reloaded graph, the very id
   the saved graph would have handed out (ids freed by deletions included: seeded change C12-F's class) *)
Theorem new_id_after_reload_is_fresh : forall (T : table) (h : list op) (s' : inst),
  table_ok T -> decode_fixed T (encode T (run T h)) = Some s' ->
  ~ In (alloc (ids_of s')) (ids_of s') /\ alloc (ids_of s') = alloc (ids_of (run T h)).
Proof. exact InstanceProofs.new_id_after_reload_is_fresh. Qed.
Print Assumptions new_id_after_reload_is_fresh.

(* 11. same BYTES: [render] (Graph/Schema.v) is the JSON text of a save — encoding/json's MarshalIndent layout as
       jbtf/polyform call it (tab indentation, struct fields in declaration order, map keys sorted, omitempty,
       {} / [], HTML-safe escaping), with the text of a float ([show_num]), of the buffer ([show_buf]) and the
       registered type names delegated.  Whatever these are, saving the reloaded graph gives the same text *)
Theorem resave_same_bytes_text :
  forall (show_num : N -> string) (show_buf : list N -> string) (tyname : nat -> string) (sorted : nat -> bool)
         (hd : header) (T : table) (h : list op) (s' : inst),
  table_ok T -> no_overread T (i_nodes (run T h)) ->
  decode T (encode T (run T h)) = Some s' ->
  render show_num show_buf tyname sorted hd (encode T s') = render show_num show_buf tyname sorted hd (encode T (run T h)).
Proof. intros. f_equal. eapply InstanceProofs.resave_same; eassumption. Qed.
Print Assumptions resave_same_bytes_text.

Theorem resave_same_bytes_text_repaired :
  forall (show_num : N -> string) (show_buf : list N -> string) (tyname : nat -> string) (sorted : nat -> bool)
         (hd : header) (T : table) (h : list op) (s' : inst),
  table_ok T -> decode_fixed T (encode T (run T h)) = Some s' ->
  render show_num show_buf tyname sorted hd (encode T s') = render show_num show_buf tyname sorted hd (encode T (run T h)).
Proof.
  intros until s'. intros HT H. rewrite InstanceProofs.reload_same_fixed in H by assumption. injection H as <-. reflexivity.
Qed.
Print Assumptions resave_same_bytes_text_repaired.

(* the lexical layer of the text determines what it denotes: a quoted string (and where it ends) determines the
   string, an integer text the integer.  (Injectivity of the whole printer — same bytes => same schema — is NOT
   proved; see notes/C12.md.) *)
Theorem string_escaping_read_back : forall (s s' X Y : string),
  (esc s ++ String """"%char X = esc s' ++ String """"%char Y)%string -> s = s' /\ X = Y.
Proof. exact esc_prefix_free. Qed.
Print Assumptions string_escaping_read_back.

Theorem quoted_strings_injective : forall s s' : string, quote s = quote s' -> s = s'.
Proof. exact quote_inj. Qed.
Print Assumptions quoted_strings_injective.

Theorem integer_text_injective : forall a b : Z, zdec a = zdec b -> a = b.
Proof. exact zdec_inj. Qed.
Print Assumptions integer_text_injective.

(* 12. "any parameter value of each parameter type": the TYPED layer (Graph/Values.v).  A parameter's value is, per
       kind, a Go value (number atom, int64, string, bool, vector, point array, AABB, four colour bytes, string
       array); [to_json] is its type's MarshalJSON as a tree, [of_json] the reading back, [wf] the kind's value set
       (incl. -0, subnormals, the largest finite float, both int64 ends, nil vs empty arrays).  Every value is read
       back exactly ... *)
Theorem typed_value_read_back : forall (k : vkind) (v : tval), wf k v = true -> of_json k (to_json v) = Some v.
Proof. exact value_roundtrip. Qed.
Print Assumptions typed_value_read_back.

(* ... two different values of a kind are never saved as the same tree ... *)
Theorem saved_tree_determines_value : forall (k : vkind) (v v' : tval),
  wf k v = true -> wf k v' = true -> to_json v = to_json v' -> v = v'.
Proof. exact ValuesProofs.saved_tree_determines_value. Qed.
Print Assumptions saved_tree_determines_value.

(* ... the tree of a value passes the test the binding applies to every value it observes ([canonical]) ... *)
Theorem saved_tree_is_canonical : forall (k : vkind) (v : tval), wf k v = true -> canonical k (to_json v) = true.
Proof. exact ValuesProofs.saved_tree_is_canonical. Qed.
Print Assumptions saved_tree_is_canonical.

(* ... WebColor's text in full: "#rrggbb" (A = 255) / "#rrggbbaa" printed with two lower-case hex digits per byte
   is parsed back to the same four bytes ... *)
Theorem color_text_read_back : forall r g b a : N,
  r < 256 -> g < 256 -> b < 256 -> a < 256 -> color_parse (color_str r g b a) = Some (r, g, b, a).
Proof. exact color_roundtrip. Qed.
Print Assumptions color_text_read_back.

(* ... and, composed with statement 9: after any edit history, a parameter holding the typed value x holds x again
   in the reloaded graph *)
Theorem typed_parameter_values_reload :
  forall (T : table) (h : list op) (i : id) (n : node) (r : prec) (k : vkind) (x : tval),
  table_ok T -> find_node (run T h) i = Some n -> n_par n = Some r -> pr_val r = Some (to_json x) -> wf k x = true ->
  exists (s' : inst) (n' : node) (r' : prec) (j : jval),
    decode_fixed T (encode T (run T h)) = Some s' /\ find_node s' i = Some n' /\ n_par n' = Some r'
    /\ pr_val r' = Some j /\ of_json k j = Some x.
Proof.
  intros T h i n r k x HT Hn Hr Hv Hw. exists (run T h), n, r, (to_json x).
  repeat split; try assumption.
  - apply InstanceProofs.reload_same_fixed; assumption.
  - apply value_roundtrip; assumption.
Qed.
Print Assumptions typed_parameter_values_reload.

(* ... the typed invariant: when the registered records of the type table hold canonical values and every update
   hands a canonical value to the parameter it addresses, every current and default value of every parameter is
   canonical after the whole history ([vk]: the value kind of each Value[T] type) — the test the binding applies to the
   graphs it observes, as a theorem — and still is in the reloaded graph *)
Theorem parameter_values_stay_canonical : forall (vk : nat -> option vkind) (T : table) (h : list op),
  table_canon vk T -> hist_canon vk T empty h -> all_canon vk (run T h).
Proof. exact run_canon. Qed.
Print Assumptions parameter_values_stay_canonical.

Theorem parameter_values_canonical_after_reload : forall (vk : nat -> option vkind) (T : table) (h : list op) (s' : inst),
  table_ok T -> table_canon vk T -> hist_canon vk T empty h ->
  decode_fixed T (encode T (run T h)) = Some s' -> all_canon vk s'.
Proof. exact reload_canon. Qed.
Print Assumptions parameter_values_canonical_after_reload.

Example binding_table_values_canonical : table_canon the_vkind the_table.
Proof.
  intros k t H. do 21 (destruct k as [|k]; [injection H as <-; vm_compute; repeat split|]).
  destruct k; discriminate.
Qed.

Example a_colour_with_small_alpha_reloads :
  let h := [OCreate 8; OUpdate "Node-0" (to_json (VColor 1 2 3 4))] in
  wf KColor (VColor 1 2 3 4) = true
  /\ (do n <- find_node (run the_table h) "Node-0"; do r <- n_par n; pr_val r) = Some (JStr "#01020304").
Proof. vm_compute. split; reflexivity. Qed.

(* 13. producer names are file names the user typed: kept verbatim, whatever their form (paths that are not in
       their shortest form, absolute ones, other separators, the empty name) — statement 9 holds for every name;
       a concrete instance with names that coincide once brought into their shortest form *)
Example unclean_producer_names_reload :
  let h := [OCreate 17; OCreate 17; OCreate 17; OCreate 17; OSetProducer "Node-0" "./x.txt"; OSetProducer "Node-1" "x.txt";
            OSetProducer "Node-2" "docs/../x.txt"; OSetProducer "Node-3" ""] in
  decode_fixed the_table (encode the_table (run the_table h)) = Some (run the_table h)
  /\ i_prods (run the_table h) = [("", "Node-3"); ("./x.txt", "Node-0"); ("docs/../x.txt", "Node-2"); ("x.txt", "Node-1")].
Proof. vm_compute. split; reflexivity. Qed.

(* 14. the id table and the order of the tables: after ANY edit history (no hypothesis on the type table) no two
       nodes share an id, no two producers a name, and the node table, the producer table and the top level of the
       metadata object are in ascending bytewise key order — the order EncodeToAppSchema visits nodes in (payload
       offsets) and encoding/json writes map keys in; a reloaded graph that is edited further keeps it *)
Theorem no_two_nodes_share_an_id : forall (T : table) (h : list op), NoDup (ids (run T h)).
Proof. exact ids_distinct. Qed.
Print Assumptions no_two_nodes_share_an_id.

Theorem no_two_producers_share_a_name : forall (T : table) (h : list op), NoDup (map fst (i_prods (run T h))).
Proof. exact producer_names_distinct. Qed.
Print Assumptions no_two_producers_share_a_name.

Theorem tables_stay_in_key_order : forall (T : table) (h : list op),
  sorted (i_nodes (run T h)) /\ sorted (i_prods (run T h)) /\ sorted (i_meta (run T h)).
Proof. exact run_ordered. Qed.
Print Assumptions tables_stay_in_key_order.

Theorem tables_stay_in_key_order_after_reload : forall (T : table) (h c : list op) (s' : inst),
  table_ok T -> decode_fixed T (encode T (run T h)) = Some s' -> ordered (fst (run_from T s' c)).
Proof. exact continuation_ordered. Qed.
Print Assumptions tables_stay_in_key_order_after_reload.

(* Go's < on strings (bytewise) is a strict total order: what "sorted" means above *)
Theorem string_order_strict_total : forall a b c : string,
  str_ltb a a = false /\ (str_ltb a b = true -> str_ltb b c = true -> str_ltb a c = true)
  /\ (str_ltb a b = false -> a <> b -> str_ltb b a = true).
Proof. intros a b c. split; [apply str_ltb_irrefl|]. split; [apply str_ltb_trans|apply str_ltb_total]. Qed.
Print Assumptions string_order_strict_total.

(* non-vacuity: the table of the binding (the repository's parameter types, array-input processors, artifact
   nodes) is well formed, and a history with 11 array connections meets the hypotheses and reloads *)
Example binding_table_ok : table_ok the_table.
Proof. apply table_okb_sound. vm_compute. reflexivity. Qed.

Example eleven_connections_reload :
  decode demo_table (encode demo_table (run demo_table eleven)) = Some (run demo_table eleven).
Proof. exact eleven_reloads. Qed.
