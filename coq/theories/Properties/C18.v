(* C18 — solid primitives are closed, outward-facing and of the right volume.
   Statements only; the proofs live in Gen/{ClosedProofs,FamilyProofs,CylinderProofs,SphereProofs,CubeProofs}.v.

   Reading guide.  [sphere_idx r c], [sphereU_idx r c], [hemi_idx r c], [cyl_idx n], [cubeW_idx], [cubeQ_idx]
   are Gallina copies of the index-generating loops of modeling/primitives (tied to the Go code on every run of
   the check: index lists and coincidence classes compared exactly).  [*_cls] maps a vertex number to the
   representative of the set of vertices at the same position ("once coincident positions are merged").
   [closed_idx cls idx] : the index count is a multiple of 3 and, after replacing every index by its class,
   no triangle is degenerate, no directed edge is used twice and the reverse of every used directed edge is
   used too — i.e. a closed (boundaryless, 2-manifold-edged), consistently oriented surface. *)
From PF Require Import Gen.Closed Gen.ClosedProofs Gen.FamilyProofs Gen.Sphere Gen.Hemisphere Gen.Cylinder Gen.Cube
  Gen.CylinderProofs Gen.SphereProofs Gen.CubeProofs Gen.CylinderGeom Gen.SphereGeom Gen.CylinderVolume Gen.CylinderMono Gen.SphereVolume Gen.HemiVolume Gen.CubeClasses Gen.VolumeLimits Gen.CubeTableProofs Gen.Solids Gen.SphereDistinct Gen.CylinderClasses Gen.HemiDistinct Gen.GenProofs.
From Coq Require Import Reals.
Open Scope N_scope.

(* ---------- what "closed" means, and the checker that decides it ---------- *)

(* in a closed triangle list every directed edge occurs exactly once, its reverse exactly once *)
Theorem closed_edge_counts : forall (eq_dec : forall x y : N * N, {x = y} + {x <> y}) (ts : list (N * N * N)),
  closed ts -> forall e, In e (dedges ts) ->
    count_occ eq_dec (dedges ts) e = 1%nat /\ count_occ eq_dec (dedges ts) (erev e) = 1%nat /\ erev e <> e.
Proof. exact (@ClosedProofs.closed_edge_counts N). Qed.
Print Assumptions closed_edge_counts.

(* the executable checker used by the check on the implementation's own output decides closedness *)
Theorem closedb_iff : forall ts : list (N * N * N), closedb ts = true <-> closed ts.
Proof. exact ClosedProofs.closedb_iff. Qed.
Print Assumptions closedb_iff.

(* the proof device: distinct parameters, no degenerate triangle, no directed edge shared by two triangles,
   every directed edge has a twin *)
Theorem family_closed : forall (P V : Type) (T : P -> V * V * V) (ps : list P), good T ps -> closed (map T ps).
Proof. exact (@FamilyProofs.good_closed). Qed.
Print Assumptions family_closed.

(* ---------- closed + consistently oriented, for EVERY admissible count ---------- *)

(* UVSphere(radius, rows, columns): the constructor accepts exactly rows >= 2, columns >= 3 *)
Theorem sphere_closed : forall r c, 2 <= r -> 3 <= c -> closed_idx sphere_cls (sphere_idx r c).
Proof. exact SphereProofs.sphere_closed. Qed.
Print Assumptions sphere_closed.

(* UVSphereUnwelded: closed under its coincidence classes … *)
Theorem sphereU_closed : forall r c, 2 <= r -> 3 <= c -> closed_idx (sphereU_cls r c) (sphereU_idx r c).
Proof. exact SphereProofs.sphereU_closed. Qed.
Print Assumptions sphereU_closed.

(* … because merging its coincident vertices gives back exactly the welded sphere's index list *)
Theorem sphereU_welds : forall r c, map (sphereU_cls r c) (sphereU_idx r c) = sphere_idx r c.
Proof. exact SphereProofs.sphereU_welds. Qed.
Print Assumptions sphereU_welds.

(* Hemisphere.UV(rows, columns) — base disc included whatever the Capped flag says (the code ignores it) *)
Theorem hemi_closed : forall r c, 2 <= r -> 3 <= c -> closed_idx hemi_cls (hemi_idx r c).
Proof. exact SphereProofs.hemi_closed. Qed.
Print Assumptions hemi_closed.

(* Cylinder{Sides: n}.ToMesh() with both caps; seam column and cap rims merged by cyl_cls *)
Theorem cyl_closed : forall n, 3 <= n -> closed_idx (cyl_cls n) (cyl_idx n).
Proof. exact CylinderProofs.cyl_closed. Qed.
Print Assumptions cyl_closed.

(* Cube.Welded (index table) and Cube.UnweldedQuads (six quads, corners merged by cubeQ_cls) *)
Theorem cubeW_closed : closed_idx cubeW_cls cubeW_idx.
Proof. exact CubeProofs.cubeW_closed. Qed.
Print Assumptions cubeW_closed.
Theorem cubeQ_closed : closed_idx cubeQ_cls cubeQ_idx.
Proof. exact CubeProofs.cubeQ_closed. Qed.
Print Assumptions cubeQ_closed.

(* ---------- well-formed indices: whole triangles, every index below the vertex count ---------- *)
Theorem sphere_wf : forall r c, 2 <= r -> 1 <= c -> wf_idx (sphere_nverts r c) (sphere_idx r c).
Proof. exact SphereProofs.sphere_wf. Qed.
Print Assumptions sphere_wf.
Theorem sphereU_wf : forall r c, 2 <= r -> 1 <= c -> wf_idx (sphereU_nverts r c) (sphereU_idx r c).
Proof. exact SphereProofs.sphereU_wf. Qed.
Print Assumptions sphereU_wf.
Theorem hemi_wf : forall r c, 2 <= r -> 1 <= c -> wf_idx (hemi_nverts r c) (hemi_idx r c).
Proof. exact SphereProofs.hemi_wf. Qed.
Print Assumptions hemi_wf.
Theorem cyl_wf : forall n, 1 <= n -> wf_idx (cyl_nverts n) (cyl_idx n).
Proof. exact CylinderProofs.cyl_wf. Qed.
Print Assumptions cyl_wf.
Theorem cube_wf : wf_idx cubeW_nverts cubeW_idx /\ wf_idx cubeQ_nverts cubeQ_idx.
Proof. exact (conj CubeProofs.cubeW_wf CubeProofs.cubeQ_wf). Qed.
Print Assumptions cube_wf.

(* ---------- the boxes over the reals: exact volume, outward faces, outward vertex normals ---------- *)
Open Scope R_scope.

(* enclosed volume (divergence-theorem sum / 6) = width * height * depth, for every real width, height, depth *)
Theorem cube_volume : forall w h d : R,
  rvol6 (tri_pos (cubeW_posR (w / 2) (h / 2) (d / 2)) cubeW_idx) / 6 = w * h * d /\
  rvol6 (tri_pos (cubeQ_posR (w / 2) (h / 2) (d / 2)) cubeQ_idx) / 6 = w * h * d.
Proof. exact CubeProofs.cube_volume. Qed.
Print Assumptions cube_volume.

(* every face of either box points away from the centre, for all positive extents *)
Theorem cube_outward : forall hw hh hd : R, 0 < hw -> 0 < hh -> 0 < hd ->
  Forall (rfaces_away rzero) (tri_pos (cubeW_posR hw hh hd) cubeW_idx) /\
  Forall (rfaces_away rzero) (tri_pos (cubeQ_posR hw hh hd) cubeQ_idx).
Proof. intros. split; [apply CubeProofs.cubeW_outward|apply CubeProofs.cubeQ_outward]; assumption. Qed.
Print Assumptions cube_outward.

(* the vertex normals (welded: the corner direction; quads: the turned `up`) are on the outer side of every
   incident face *)
Theorem cube_normals_outward : forall hw hh hd : R, 0 < hw -> 0 < hh -> 0 < hd ->
  normals_outer (cubeW_posR hw hh hd) (cubeW_posR hw hh hd) cubeW_idx /\
  normals_outer (cubeQ_posR hw hh hd) cubeQ_nrmR cubeQ_idx.
Proof. intros. split; [apply CubeProofs.cubeW_normals_outward|apply CubeProofs.cubeQ_normals_outward]; assumption. Qed.
Print Assumptions cube_normals_outward.

(* the real-valued position tables are the integer tables the harness compares with the implementation *)
Theorem cube_positions_Z : forall a b c : Z,
  cubeW_posR (IZR a) (IZR b) (IZR c) = map rv3 (cubeW_pos a b c) /\
  cubeQ_posR (IZR a) (IZR b) (IZR c) = map rv3 (cubeQ_pos a b c).
Proof. intros. split; [apply CubeProofs.cubeW_posR_Z|apply CubeProofs.cubeQ_posR_Z]. Qed.
Print Assumptions cube_positions_Z.

(* ---------- the cylinder over the reals: faces and supplied normals point outward, every side count >= 3 ----------
   column k of Cylinder{Sides: n, Radius: rad, Height: h} sits at angle (1/n * 2*pi) * k; the two side triangles and
   the two cap wedges between columns k and k+1 (k real: covers the seam column too) face away from the centre *)
Theorem cyl_faces_outward : forall (n : nat) (rad h k : R), (3 <= n)%nat -> 0 < rad -> 0 < h ->
  let inc := 1 / INR n * 2 * PI in
  let a0 := inc * k in let a1 := inc * (k + 1) in
  let T0 : rvec := (cos a0 * rad, h / 2, sin a0 * rad) in let B0 : rvec := (cos a0 * rad, - (h / 2), sin a0 * rad) in
  let T1 : rvec := (cos a1 * rad, h / 2, sin a1 * rad) in let B1 : rvec := (cos a1 * rad, - (h / 2), sin a1 * rad) in
  rfaces_away rzero (B0, T0, T1) /\ rfaces_away rzero (B0, T1, B1) /\
  rfaces_away rzero (T0, (0, h / 2, 0), T1) /\ rfaces_away rzero (B1, (0, - (h / 2), 0), B0).
Proof. exact CylinderGeom.cyl_faces_outward. Qed.
Print Assumptions cyl_faces_outward.

(* side normals (cos, +-0.1, sin) and cap normals (0, +-1, 0), up to the positive normalising factor, are on the
   outer side of every incident face *)
Theorem cyl_normals_outward : forall (n : nat) (rad h k : R), (3 <= n)%nat -> 0 < rad -> 0 < h ->
  let inc := 1 / INR n * 2 * PI in
  let a0 := inc * k in let a1 := inc * (k + 1) in
  let T0 : rvec := (cos a0 * rad, h / 2, sin a0 * rad) in let B0 : rvec := (cos a0 * rad, - (h / 2), sin a0 * rad) in
  let T1 : rvec := (cos a1 * rad, h / 2, sin a1 * rad) in let B1 : rvec := (cos a1 * rad, - (h / 2), sin a1 * rad) in
  let n0t : rvec := (cos a0, 1 / 10, sin a0) in let n0b : rvec := (cos a0, - (1 / 10), sin a0) in
  let n1t : rvec := (cos a1, 1 / 10, sin a1) in let n1b : rvec := (cos a1, - (1 / 10), sin a1) in
  0 < rdot (rfnormal (B0, T0, T1)) n0b /\ 0 < rdot (rfnormal (B0, T0, T1)) n0t /\ 0 < rdot (rfnormal (B0, T0, T1)) n1t /\
  0 < rdot (rfnormal (B0, T1, B1)) n0b /\ 0 < rdot (rfnormal (B0, T1, B1)) n1t /\ 0 < rdot (rfnormal (B0, T1, B1)) n1b /\
  0 < rdot (rfnormal (T0, (0, h / 2, 0), T1)) (0, 1, 0) /\ 0 < rdot (rfnormal (B1, (0, - (h / 2), 0), B0)) (0, -1, 0).
Proof. exact CylinderGeom.cyl_normals_outward. Qed.
Print Assumptions cyl_normals_outward.

(* the four triangles of one column (two side triangles, one wedge of either cap) contribute exactly the wedge of the
   inscribed n-gon prism to the divergence sum: 6 * (1/2 * rad^2 * sin (2*pi/n) * h); n columns: the prism's volume *)
Theorem cyl_column_volume : forall (n : nat) (rad h k : R), (3 <= n)%nat ->
  let inc := 1 / INR n * 2 * PI in
  let a0 := inc * k in let a1 := inc * (k + 1) in
  let T0 : rvec := (cos a0 * rad, h / 2, sin a0 * rad) in let B0 : rvec := (cos a0 * rad, - (h / 2), sin a0 * rad) in
  let T1 : rvec := (cos a1 * rad, h / 2, sin a1 * rad) in let B1 : rvec := (cos a1 * rad, - (h / 2), sin a1 * rad) in
  rvol6 [(B0, T0, T1); (B0, T1, B1); (T0, (0, h / 2, 0), T1); (B1, (0, - (h / 2), 0), B0)]
  = 6 * (1 / 2 * rad * rad * sin (2 * PI / INR n) * h).
Proof. exact CylinderGeom.cyl_column_volume. Qed.
Print Assumptions cyl_column_volume.

(* ---------- the UV sphere over the reals: faces point outward ----------
   ring vertices are (sin phi * cos theta, cos phi, sin phi * sin theta) * radius with phi = pi*(i+1)/rows
   (0 < phi < pi, consecutive rings pi/rows apart) and theta = 2*pi*j/columns (consecutive columns 2*pi/columns < pi
   apart for columns >= 3, the seam included).  For any such angles the pole-fan triangles and both triangles of a quad
   (in the generator's winding) face away from the centre. *)
Theorem sphere_faces_outward : forall rad phi0 phi1 th0 th1 : R,
  0 < rad -> 0 < phi0 -> phi0 < phi1 -> phi1 < PI -> 0 < th1 - th0 -> th1 - th0 < PI ->
  let V (phi th : R) : rvec := (sin phi * cos th * rad, cos phi * rad, sin phi * sin th * rad) in
  rfaces_away rzero ((0, rad, 0), V phi0 th1, V phi0 th0) /\
  rfaces_away rzero ((0, - rad, 0), V phi0 th0, V phi0 th1) /\
  rfaces_away rzero (V phi0 th0, V phi0 th1, V phi1 th1) /\
  rfaces_away rzero (V phi0 th0, V phi1 th1, V phi1 th0).
Proof. exact SphereGeom.sphere_faces_outward. Qed.
Print Assumptions sphere_faces_outward.

(* hemisphere (rings from the equator, polar angle pi/2, up to the apex; other quad diagonal, opposite winding):
   apex fan and dome quads face away from the centre of the sphere, the base disc faces away from every point of the
   axis above it *)
Theorem hemi_faces_outward : forall rad phiU phiL th0 th1 y : R,
  0 < rad -> 0 < phiU -> phiU < phiL -> phiL <= PI / 2 -> 0 < th1 - th0 -> th1 - th0 < PI -> 0 < y ->
  let V (phi th : R) : rvec := (sin phi * cos th * rad, cos phi * rad, sin phi * sin th * rad) in
  rfaces_away rzero ((0, rad, 0), V phiU th1, V phiU th0) /\
  rfaces_away rzero (V phiL th0, V phiU th1, V phiL th1) /\
  rfaces_away rzero (V phiL th0, V phiU th0, V phiU th1) /\
  rfaces_away (0, y, 0) (rzero, (1 * cos th0 * rad, 0 * rad, 1 * sin th0 * rad), (1 * cos th1 * rad, 0 * rad, 1 * sin th1 * rad)).
Proof. exact SphereGeom.hemi_faces_outward. Qed.
Print Assumptions hemi_faces_outward.

(* UVSphere's vertex normal is position/|position|: its side relative to a face is the sign of the same number *)
Theorem normal_is_position : forall a b c : rvec,
  let n := rfnormal (a, b, c) in rdot n a = rdot n (rsub a rzero) /\ rdot n b = rdot n a /\ rdot n c = rdot n a.
Proof. exact SphereGeom.normal_is_position. Qed.
Print Assumptions normal_is_position.

(* ================= whole-mesh theorems over the reals =================
   [cyl_posR n rad h], [sph_posR r c rad], [hemi_posR r c rad] give the (ideal, real-arithmetic) position of vertex
   number v exactly as the generators compute it; [cyl_trisR], [sph_trisR], [hemi_trisR] are the generator's whole index
   list with every index replaced by its position; [rvol6] is the divergence-theorem sum (six times the signed volume). *)

(* capped cylinder: enclosed volume = the inscribed n-gon prism, n * (rad^2 * sin(2*pi/n) / 2) * h *)
Theorem cyl_volume : forall n rad h, (1 <= n)%N ->
  rvol6 (cyl_trisR n rad h) / 6 = NR n * (rad * rad * sin (2 * PI / NR n) / 2) * h.
Proof. exact CylinderVolume.cyl_volume. Qed.
Print Assumptions cyl_volume.

Theorem cyl_volume_pos : forall n rad h, (3 <= n)%N -> 0 < rad -> 0 < h -> 0 < rvol6 (cyl_trisR n rad h) / 6.
Proof. exact CylinderVolume.cyl_volume_pos. Qed.
Print Assumptions cyl_volume_pos.

(* every triangle of the whole cylinder mesh (strip, both caps, the seam included) faces away from the centre *)
Theorem cyl_all_faces_outward : forall n rad h, (3 <= n)%N -> 0 < rad -> 0 < h ->
  Forall (rfaces_away rzero) (cyl_trisR n rad h).
Proof. exact CylinderVolume.cyl_all_faces_outward. Qed.
Print Assumptions cyl_all_faces_outward.

(* every supplied vertex normal of the whole cylinder mesh is on the outer side of every incident face
   (cyl_nrmR: strip (cos, +-0.1, sin), top circle (0, 1, 0), bottom circle turned to (0, -1, 0); up to normalisation) *)
Theorem cyl_all_normals_outward : forall n rad h, (3 <= n)%N -> 0 < rad -> 0 < h ->
  Forall pn_outer (tris_of (map (fun v => (cyl_posR n rad h v, cyl_nrmR n v)) (cyl_idx n))).
Proof. exact CylinderVolume.cyl_all_normals_outward. Qed.
Print Assumptions cyl_all_normals_outward.

(* the prism is smaller than the cylinder, its volume grows with the side count (sin is concave on [0, pi]) and tends
   to pi * rad^2 * h *)
Theorem cyl_volume_monotone : forall m n rad h, (2 <= m)%N -> (m <= n)%N -> 0 <= h ->
  rvol6 (cyl_trisR m rad h) / 6 <= rvol6 (cyl_trisR n rad h) / 6.
Proof. exact CylinderMono.cyl_volume_monotone. Qed.
Print Assumptions cyl_volume_monotone.

Theorem cyl_volume_below_analytic : forall n rad h, (3 <= n)%N -> 0 < rad -> 0 < h ->
  rvol6 (cyl_trisR n rad h) / 6 < PI * rad * rad * h.
Proof. exact CylinderVolume.cyl_volume_below_analytic. Qed.
Print Assumptions cyl_volume_below_analytic.

Theorem cyl_volume_converges : forall rad h,
  Un_cv (fun m : nat => rvol6 (cyl_trisR (N.of_nat m) rad h) / 6) (PI * rad * rad * h).
Proof. exact CylinderVolume.cyl_volume_converges. Qed.
Print Assumptions cyl_volume_converges.

(* welded UV sphere: the divergence sum as a finite sum over the rings — c wedges, each the two pole pyramids plus
   r-2 frusta: the volume of the inscribed polyhedron for these (rows, columns) *)
Theorem sphere_volume_is_sum : forall r c rad, (2 <= r)%N -> (1 <= c)%N ->
  rvol6 (sph_trisR r c rad) =
    NR c * (rad * rad * rad * sin (2 * PI / NR c)) *
      (sin (phi r 1) * sin (phi r 1) + sin (phi r (r - 1)) * sin (phi r (r - 1))
       + sin (PI / NR r) * rsum (fun j => sin (phi r (j + 1)) + sin (phi r (j + 2))) (nseq (r - 2))).
Proof. exact SphereVolume.sphere_volume_is_sum. Qed.
Print Assumptions sphere_volume_is_sum.

(* the same volume written as the polyhedron inscribed for (rows, columns): c wedges of a stack of r slabs (two pole
   pyramids, r-2 frusta) between regular c-gons of circumradius rho_l = rad * sin (phi l) at height y_l = rad * cos (phi l):
   sum of (y_l - y_(l+1))/3 * (c/2 * sin (2*pi/c)) * (rho_l^2 + rho_(l+1)^2 + rho_l * rho_(l+1)) — the closed form the
   harness compares the implementation's float volume with *)
Theorem sphere_volume_frusta : forall r c rad, (2 <= r)%N -> (1 <= c)%N ->
  rvol6 (sph_trisR r c rad) / 6 =
    rsum (fun l => (rad * cos (phi r l) - rad * cos (phi r (l + 1))) / 3 * (NR c / 2 * sin (2 * PI / NR c)) *
                   ((rad * sin (phi r l)) * (rad * sin (phi r l)) + (rad * sin (phi r (l + 1))) * (rad * sin (phi r (l + 1)))
                    + (rad * sin (phi r l)) * (rad * sin (phi r (l + 1))))) (nseq r).
Proof. exact SphereVolume.sphere_volume_frusta. Qed.
Print Assumptions sphere_volume_frusta.

Theorem sphere_volume_pos : forall r c rad, (2 <= r)%N -> (3 <= c)%N -> 0 < rad -> 0 < rvol6 (sph_trisR r c rad) / 6.
Proof. exact SphereVolume.sphere_volume_pos. Qed.
Print Assumptions sphere_volume_pos.

(* every triangle of the whole sphere mesh faces away from the centre; since the supplied vertex normals are
   position/|position| this is also "normals on the outer side of every incident face" (normal_is_position) *)
Theorem sphere_all_faces_outward : forall r c rad, (2 <= r)%N -> (3 <= c)%N -> 0 < rad ->
  Forall (rfaces_away rzero) (sph_trisR r c rad).
Proof. exact SphereVolume.sphere_all_faces_outward. Qed.
Print Assumptions sphere_all_faces_outward.

Theorem sphere_all_normals_outward : forall r c rad, (2 <= r)%N -> (3 <= c)%N -> 0 < rad ->
  Forall corners_outer (sph_trisR r c rad).
Proof. exact SphereVolume.sphere_all_normals_outward. Qed.
Print Assumptions sphere_all_normals_outward.

(* the unwelded sphere copies calculatedPositions[class of k] into fresh vertex k: same triangles, hence same
   volume and orientation *)
Theorem sphereU_same_triangles : forall r c rad,
  tris_of (map (sphU_posR r c rad) (sphereU_idx r c)) = sph_trisR r c rad.
Proof. exact SphereVolume.sphereU_same_triangles. Qed.
Print Assumptions sphereU_same_triangles.

(* hemisphere: volume as a finite sum (the base fan, which contains the origin, contributes 0) *)
Theorem hemi_volume_is_sum : forall r c rad, (2 <= r)%N -> (1 <= c)%N ->
  rvol6 (hemi_trisR r c rad) =
    NR c * (rad * rad * rad * sin (2 * PI / NR c)) *
      (sin (alpha r (r - 2)) * sin (alpha r (r - 2))
       + sin (PI / (2 * NR r)) * rsum (fun j => sin (alpha r j) + sin (alpha r (j + 1))) (nseq (r - 2))).
Proof. exact HemiVolume.hemi_volume_is_sum. Qed.
Print Assumptions hemi_volume_is_sum.

(* … and as the stack on the base plane: rows-2 frusta between consecutive rings plus the apex pyramid *)
Theorem hemi_volume_frusta : forall r c rad, (2 <= r)%N -> (1 <= c)%N ->
  rvol6 (hemi_trisR r c rad) / 6 =
    rsum (fun j => (rad * cos (alpha r (j + 1)) - rad * cos (alpha r j)) / 3 * (NR c / 2 * sin (2 * PI / NR c)) *
                   ((rad * sin (alpha r j)) * (rad * sin (alpha r j)) + (rad * sin (alpha r (j + 1))) * (rad * sin (alpha r (j + 1)))
                    + (rad * sin (alpha r j)) * (rad * sin (alpha r (j + 1))))) (nseq (r - 2))
    + (rad - rad * cos (alpha r (r - 2))) / 3 * (NR c / 2 * sin (2 * PI / NR c))
      * ((rad * sin (alpha r (r - 2))) * (rad * sin (alpha r (r - 2)))).
Proof. exact HemiVolume.hemi_volume_frusta. Qed.
Print Assumptions hemi_volume_frusta.

Theorem hemi_volume_pos : forall r c rad, (2 <= r)%N -> (3 <= c)%N -> 0 < rad -> 0 < rvol6 (hemi_trisR r c rad) / 6.
Proof. exact HemiVolume.hemi_volume_pos. Qed.
Print Assumptions hemi_volume_pos.

(* [hemi_trisR r c rad = map (hemi_triR r c rad) (sph_ps r c)] (HemiVolume.hemi_trisR_eq): every dome / apex triangle
   faces away from the sphere centre, every base triangle away from every axis point above the base *)
Theorem hemi_all_faces_outward : forall r c rad y, (2 <= r)%N -> (3 <= c)%N -> 0 < rad -> 0 < y ->
  hemi_trisR r c rad = map (hemi_triR r c rad) (sph_ps r c) /\
  (forall p, In p (sph_ps r c) -> is_base p = false -> rfaces_away rzero (hemi_triR r c rad p)) /\
  (forall i, (i < c)%N -> rfaces_away (0, y, 0) (hemi_triR r c rad (TF i))).
Proof. exact HemiVolume.hemi_all_faces_outward. Qed.
Print Assumptions hemi_all_faces_outward.

(* ---------- round 4: closed forms, explicit error bounds, convergence to the analytic volumes ---------- *)

(* the inscribed prism misses at most the fraction 2 pi^2 / (3 n^2) of the cylinder's volume pi rad^2 h *)
Theorem cyl_volume_error_bound : forall n rad h, (2 <= n)%N -> 0 <= h ->
  PI * rad * rad * h - rvol6 (cyl_trisR n rad h) / 6 <= PI * rad * rad * h * (2 * (PI * PI) / (3 * (NR n * NR n))).
Proof. exact VolumeLimits.cyl_volume_error_bound. Qed.
Print Assumptions cyl_volume_error_bound.

(* UVSphere(rad, r, c): the ring sum of sphere_volume_is_sum telescopes; enclosed volume in closed form
   (c sin (2 pi / c) -> 2 pi and 1 + cos (pi / r) -> 2 give 4/3 pi rad^3) *)
Theorem sphere_volume_closed : forall r c rad, (2 <= r)%N -> (1 <= c)%N ->
  rvol6 (sph_trisR r c rad) / 6 = NR c * sin (2 * PI / NR c) * (1 + cos (PI / NR r)) / 3 * (rad * rad * rad).
Proof. exact VolumeLimits.sphere_volume_closed. Qed.
Print Assumptions sphere_volume_closed.

(* below the ball's volume, by at most pi^3 rad^3 (8 / (9 c^2) + 1 / (3 r^2)): quadratic in the resolution *)
Theorem sphere_volume_error_bound : forall r c rad, (2 <= r)%N -> (2 <= c)%N -> 0 <= rad ->
  0 <= 4 / 3 * PI * (rad * rad * rad) - rvol6 (sph_trisR r c rad) / 6
    <= PI * PI * PI * (rad * rad * rad) * (8 / (9 * (NR c * NR c)) + 1 / (3 * (NR r * NR r))).
Proof. exact VolumeLimits.sphere_volume_error_bound. Qed.
Print Assumptions sphere_volume_error_bound.

Theorem sphere_volume_below_analytic : forall r c rad, (2 <= r)%N -> (3 <= c)%N -> 0 < rad ->
  rvol6 (sph_trisR r c rad) / 6 < 4 / 3 * PI * (rad * rad * rad).
Proof. exact VolumeLimits.sphere_volume_below_analytic. Qed.
Print Assumptions sphere_volume_below_analytic.

(* more rows and more columns never lose volume *)
Theorem sphere_volume_monotone : forall r1 c1 r2 c2 rad, (2 <= r1)%N -> (r1 <= r2)%N -> (2 <= c1)%N -> (c1 <= c2)%N -> 0 <= rad ->
  rvol6 (sph_trisR r1 c1 rad) / 6 <= rvol6 (sph_trisR r2 c2 rad) / 6.
Proof. exact VolumeLimits.sphere_volume_monotone. Qed.
Print Assumptions sphere_volume_monotone.

(* "approaching the analytic volume as resolution grows": whatever way rows and columns grow *)
Theorem sphere_volume_converges : forall rad eps, 0 <= rad -> 0 < eps ->
  exists n0 : N, forall r c, (n0 <= r)%N -> (n0 <= c)%N ->
    Rabs (rvol6 (sph_trisR r c rad) / 6 - 4 / 3 * PI * (rad * rad * rad)) < eps.
Proof. exact VolumeLimits.sphere_volume_converges. Qed.
Print Assumptions sphere_volume_converges.

(* Hemisphere{rad}.UV(r, c), rings pi / (2 r) apart, the apex slab two steps high *)
Theorem hemi_volume_closed : forall r c rad, (2 <= r)%N -> (1 <= c)%N ->
  let h := PI / (2 * NR r) in
  rvol6 (hemi_trisR r c rad) / 6 =
    NR c * sin (2 * PI / NR c) * (sin (2 * h) * sin (2 * h) + (1 + cos h) * cos (2 * h)) / 6 * (rad * rad * rad).
Proof. exact VolumeLimits.hemi_volume_closed. Qed.
Print Assumptions hemi_volume_closed.

Theorem hemi_volume_error_bound : forall r c rad, (2 <= r)%N -> (2 <= c)%N -> 0 <= rad ->
  0 <= 2 / 3 * PI * (rad * rad * rad) - rvol6 (hemi_trisR r c rad) / 6
    <= PI * PI * PI * (rad * rad * rad) * (4 / (9 * (NR c * NR c)) + 3 / (8 * (NR r * NR r))).
Proof. exact VolumeLimits.hemi_volume_error_bound. Qed.
Print Assumptions hemi_volume_error_bound.

Theorem hemi_volume_converges : forall rad eps, 0 <= rad -> 0 < eps ->
  exists n0 : N, forall r c, (n0 <= r)%N -> (n0 <= c)%N ->
    Rabs (rvol6 (hemi_trisR r c rad) / 6 - 2 / 3 * PI * (rad * rad * rad)) < eps.
Proof. exact VolumeLimits.hemi_volume_converges. Qed.
Print Assumptions hemi_volume_converges.

(* non-vacuity: the smallest sphere (triangular bipyramid, radius 1) and the smallest hemisphere *)
Example bipyramid_volume : rvol6 (sph_trisR 2 3 1) / 6 = sin (2 * PI / 3).
Proof. exact VolumeLimits.bipyramid_volume. Qed.
Example tetra_hemi_volume : rvol6 (hemi_trisR 2 3 1) / 6 = sin (2 * PI / 3) / 2.
Proof. exact VolumeLimits.tetra_hemi_volume. Qed.

(* ---------- round 4, binding T: the welded box's triangle table as TRANSLATED from cube.go on every run ----------
   [cube_table] = coq/gen/CubeTable.v's cubeVertIndices (tools/tab2coq, regenerated from the repository under test before
   this file is compiled).  Proved by evaluation: independent of the order of the twelve triangles in the source. *)
Theorem cube_table_wf : forallb (fun z => (0 <=? z)%Z) PFGen.CubeTable.cubeVertIndices = true /\ wf_idx cubeW_nverts cube_table.
Proof. exact CubeTableProofs.cube_table_wf. Qed.
Print Assumptions cube_table_wf.

Theorem cube_table_closed : closed_idx cubeW_cls cube_table.
Proof. exact CubeTableProofs.cube_table_closed. Qed.
Print Assumptions cube_table_closed.

Theorem cube_table_volume : forall w h d : R,
  rvol6 (tri_pos (cubeW_posR (w / 2) (h / 2) (d / 2)) cube_table) / 6 = w * h * d.
Proof. exact CubeTableProofs.cube_table_volume. Qed.
Print Assumptions cube_table_volume.

Theorem cube_table_outward : forall hw hh hd : R, 0 < hw -> 0 < hh -> 0 < hd ->
  Forall (rfaces_away rzero) (tri_pos (cubeW_posR hw hh hd) cube_table) /\
  normals_outer (cubeW_posR hw hh hd) (cubeW_posR hw hh hd) cube_table.
Proof. exact CubeTableProofs.cube_table_outward. Qed.
Print Assumptions cube_table_outward.

(* the translated table and the hand model [cubeW_idx] are the same set of oriented triangles *)
Theorem cube_table_same_surface : canon_tris cube_table = canon_tris cubeW_idx.
Proof. exact CubeTableProofs.cube_table_same_surface. Qed.
Print Assumptions cube_table_same_surface.

(* ================= the property sentence, one theorem per solid =================
   Every clause for that primitive in one statement (composed from the theorems above): closed + consistently oriented once
   coincident positions are merged, well-formed indices, every face outward, supplied vertex normals on the outer side,
   enclosed volume = the inscribed polyhedron's (closed form), positive, below the analytic volume and within an explicit
   O(1/resolution^2) of it.  Positions are the generators' formulas over R (the float positions are the harness's oracle). *)
Theorem uvsphere_solid : forall r c rad, (2 <= r)%N -> (3 <= c)%N -> 0 < rad ->
  closed_idx sphere_cls (sphere_idx r c) /\ closed_idx (sphereU_cls r c) (sphereU_idx r c) /\
  wf_idx (sphere_nverts r c) (sphere_idx r c) /\ wf_idx (sphereU_nverts r c) (sphereU_idx r c) /\
  tris_of (map (sphU_posR r c rad) (sphereU_idx r c)) = sph_trisR r c rad /\
  Forall (rfaces_away rzero) (sph_trisR r c rad) /\ Forall corners_outer (sph_trisR r c rad) /\
  rvol6 (sph_trisR r c rad) / 6 = NR c * sin (2 * PI / NR c) * (1 + cos (PI / NR r)) / 3 * (rad * rad * rad) /\
  0 < rvol6 (sph_trisR r c rad) / 6 < 4 / 3 * PI * (rad * rad * rad) /\
  4 / 3 * PI * (rad * rad * rad) - rvol6 (sph_trisR r c rad) / 6
    <= PI * PI * PI * (rad * rad * rad) * (8 / (9 * (NR c * NR c)) + 1 / (3 * (NR r * NR r))).
Proof. exact Solids.uvsphere_solid. Qed.
Print Assumptions uvsphere_solid.

Theorem hemisphere_solid : forall r c rad, (2 <= r)%N -> (3 <= c)%N -> 0 < rad ->
  closed_idx hemi_cls (hemi_idx r c) /\ wf_idx (hemi_nverts r c) (hemi_idx r c) /\
  (forall y, 0 < y ->
     hemi_trisR r c rad = map (hemi_triR r c rad) (sph_ps r c) /\
     (forall p, In p (sph_ps r c) -> is_base p = false -> rfaces_away rzero (hemi_triR r c rad p)) /\
     (forall i, (i < c)%N -> rfaces_away (0, y, 0) (hemi_triR r c rad (TF i)))) /\
  (let h := PI / (2 * NR r) in
   rvol6 (hemi_trisR r c rad) / 6 =
     NR c * sin (2 * PI / NR c) * (sin (2 * h) * sin (2 * h) + (1 + cos h) * cos (2 * h)) / 6 * (rad * rad * rad)) /\
  0 < rvol6 (hemi_trisR r c rad) / 6 <= 2 / 3 * PI * (rad * rad * rad) /\
  2 / 3 * PI * (rad * rad * rad) - rvol6 (hemi_trisR r c rad) / 6
    <= PI * PI * PI * (rad * rad * rad) * (4 / (9 * (NR c * NR c)) + 3 / (8 * (NR r * NR r))).
Proof. exact Solids.hemisphere_solid. Qed.
Print Assumptions hemisphere_solid.

Theorem cylinder_solid : forall n rad h, (3 <= n)%N -> 0 < rad -> 0 < h ->
  closed_idx (cyl_cls n) (cyl_idx n) /\ wf_idx (cyl_nverts n) (cyl_idx n) /\
  Forall (rfaces_away rzero) (cyl_trisR n rad h) /\
  Forall pn_outer (tris_of (map (fun v => (cyl_posR n rad h v, cyl_nrmR n v)) (cyl_idx n))) /\
  rvol6 (cyl_trisR n rad h) / 6 = NR n * (rad * rad * sin (2 * PI / NR n) / 2) * h /\
  0 < rvol6 (cyl_trisR n rad h) / 6 < PI * rad * rad * h /\
  PI * rad * rad * h - rvol6 (cyl_trisR n rad h) / 6 <= PI * rad * rad * h * (2 * (PI * PI) / (3 * (NR n * NR n))).
Proof. exact Solids.cylinder_solid. Qed.
Print Assumptions cylinder_solid.

Theorem box_solid : forall w h d, 0 < w -> 0 < h -> 0 < d ->
  closed_idx cubeW_cls cubeW_idx /\ closed_idx cubeQ_cls cubeQ_idx /\
  wf_idx cubeW_nverts cubeW_idx /\ wf_idx cubeQ_nverts cubeQ_idx /\
  Forall (rfaces_away rzero) (tri_pos (cubeW_posR (w / 2) (h / 2) (d / 2)) cubeW_idx) /\
  Forall (rfaces_away rzero) (tri_pos (cubeQ_posR (w / 2) (h / 2) (d / 2)) cubeQ_idx) /\
  normals_outer (cubeW_posR (w / 2) (h / 2) (d / 2)) (cubeW_posR (w / 2) (h / 2) (d / 2)) cubeW_idx /\
  normals_outer (cubeQ_posR (w / 2) (h / 2) (d / 2)) cubeQ_nrmR cubeQ_idx /\
  rvol6 (tri_pos (cubeW_posR (w / 2) (h / 2) (d / 2)) cubeW_idx) / 6 = w * h * d /\
  rvol6 (tri_pos (cubeQ_posR (w / 2) (h / 2) (d / 2)) cubeQ_idx) / 6 = w * h * d.
Proof. exact Solids.box_solid. Qed.
Print Assumptions box_solid.

(* ---------- "once coincident positions are merged", welded UV sphere: nothing to merge ----------
   with the generator's position formula no two of the (rows-1)*columns+2 vertices coincide, so the identity class map
   sphere_cls is the coincidence relation of the real positions *)
Theorem sphere_vertices_distinct : forall r c rad v w, (2 <= r)%N -> (1 <= c)%N -> 0 < rad ->
  (v < sphere_nverts r c)%N -> (w < sphere_nverts r c)%N -> sph_posR r c rad v = sph_posR r c rad w -> v = w.
Proof. exact SphereDistinct.sphere_vertices_distinct. Qed.
Print Assumptions sphere_vertices_distinct.

(* likewise the hemisphere (base centre, rings from the equator upwards, apex): hemi_cls = identity *)
Theorem hemi_vertices_distinct : forall r c rad v w, (2 <= r)%N -> (1 <= c)%N -> 0 < rad ->
  (v < hemi_nverts r c)%N -> (w < hemi_nverts r c)%N -> hemi_posR r c rad v = hemi_posR r c rad w -> v = w.
Proof. exact HemiDistinct.hemi_vertices_distinct. Qed.
Print Assumptions hemi_vertices_distinct.

(* unwelded sphere: fresh vertex k copies welded vertex sphereU_cls k; two fresh vertices are at the same point exactly when
   sphereU_cls gives them the same welded vertex *)
Theorem sphereU_classes_from_positions : forall r c rad k k', (2 <= r)%N -> (1 <= c)%N -> 0 < rad ->
  (k < sphereU_nverts r c)%N -> (k' < sphereU_nverts r c)%N ->
  (sphU_posR r c rad k = sphU_posR r c rad k' <-> sphereU_cls r c k = sphereU_cls r c k').
Proof. exact SphereDistinct.sphereU_classes_from_positions. Qed.
Print Assumptions sphereU_classes_from_positions.

(* capped cylinder: cyl_cls (seam column = column 0, top rim k = column k, bottom rim k = column (n-k) mod n after the half
   turn, the cap centres on their own) IS the coincidence relation of the generator's real positions *)
Theorem cyl_classes_from_positions : forall n rad h v w, (1 <= n)%N -> 0 < rad -> 0 < h ->
  (v < cyl_nverts n)%N -> (w < cyl_nverts n)%N ->
  (cyl_posR n rad h v = cyl_posR n rad h w <-> cyl_cls n v = cyl_cls n w).
Proof. exact CylinderClasses.cyl_classes_from_positions. Qed.
Print Assumptions cyl_classes_from_positions.

(* ---------- coincidence classes of the boxes derived from the real positions ---------- *)
(* two of the 24 corners of the six-quad box are the same point exactly when cubeQ_cls merges them; the welded
   box's 8 corners are pairwise distinct — for all positive real extents *)
Theorem cubeQ_classes_from_positions : forall hw hh hd, 0 < hw -> 0 < hh -> 0 < hd ->
  forall i j, (i < 24)%N -> (j < 24)%N ->
    (at_ (cubeQ_posR hw hh hd) i = at_ (cubeQ_posR hw hh hd) j <-> cubeQ_cls i = cubeQ_cls j).
Proof. exact CubeClasses.cubeQ_classes_from_positions. Qed.
Print Assumptions cubeQ_classes_from_positions.

Theorem cubeW_corners_distinct : forall hw hh hd, 0 < hw -> 0 < hh -> 0 < hd ->
  forall i j, (i < 8)%N -> (j < 8)%N -> at_ (cubeW_posR hw hh hd) i = at_ (cubeW_posR hw hh hd) j -> i = j.
Proof. exact CubeClasses.cubeW_corners_distinct. Qed.
Print Assumptions cubeW_corners_distinct.
Close Scope R_scope.

(* ---------- the count hypotheses are needed (refuted without them) ---------- *)
(* Cylinder.ToMesh does not validate Sides: it accepts 2 and returns an open surface — "admissible" has to mean sides >= 3 *)
Theorem cyl_closed_below_3_refuted : exists n, 1 <= n /\ ~ closed_idx (cyl_cls n) (cyl_idx n).
Proof. exact GenProofs.cyl_closed_below_3_refuted. Qed.
Print Assumptions cyl_closed_below_3_refuted.
(* two columns (rejected by UVSphere / UVSphereUnwelded / Hemisphere.UV) would not be closed *)
Theorem sphere_closed_below_3_refuted : exists r c, 2 <= r /\ 1 <= c /\ ~ closed_idx sphere_cls (sphere_idx r c).
Proof. exact GenProofs.sphere_closed_below_3_refuted. Qed.
Print Assumptions sphere_closed_below_3_refuted.

(* ---------- non-vacuity ---------- *)
(* the smallest sphere: a triangular bipyramid *)
Example sphere_2_3 : tris_of (sphere_idx 2 3) = [(0, 2, 1); (4, 1, 2); (0, 3, 2); (4, 2, 3); (0, 1, 3); (4, 3, 1)].
Proof. exact GenProofs.sphere_2_3. Qed.
(* the classes matter: an unmerged cylinder is open; two columns / sides (which the sphere constructors reject)
   would not be closed *)
Example cyl_unmerged_open : closed_idxb (fun v => v) (cyl_idx 5) = false.
Proof. exact GenProofs.cyl_unmerged_open. Qed.
Example sphere_2cols_not_closed : closed_idxb sphere_cls (sphere_idx 3 2) = false.
Proof. exact GenProofs.sphere_2cols_not_closed. Qed.
