(* C18 — solid primitives are closed, outward-facing and of the right volume.
   Statements only; proofs live in Gen/ClosedProofs.v and Gen/GenProofs.v. *)
From PF Require Import Gen.Closed Gen.ClosedProofs Gen.Sphere Gen.Hemisphere Gen.Cylinder Gen.Cube Gen.GenProofs.
Open Scope N_scope.

(* the executable checker decides closedness: no degenerate triangle, every directed edge used at most
   once, the reverse of every used directed edge used as well *)
Theorem closedb_iff : forall ts : list (N * N * N), closedb ts = true <-> closed ts.
Proof. exact ClosedProofs.closedb_iff. Qed.
Print Assumptions closedb_iff.

Theorem sphere_closed_small : forall r c, 2 <= r <= 24 -> 3 <= c <= 24 -> closed_idx sphere_cls (sphere_idx r c).
Proof. exact GenProofs.sphere_closed_small. Qed.
Print Assumptions sphere_closed_small.
