(* C18 — solid primitives are closed, outward-facing and of the right volume.
   Statements only; the proofs live in Gen/{ClosedProofs,FamilyProofs,CylinderProofs,SphereProofs,CubeProofs}.v.

   Reading guide.  [sphere_idx r c], [sphereU_idx r c], [hemi_idx r c], [cyl_idx n], [cubeW_idx], [cubeQ_idx]
   are Gallina copies of the index-generating loops of modeling/primitives (tied to the Go code on every run of
   the check: index lists and coincidence classes compared exactly).  [*_cls] maps a vertex number to the
   representative of the set of vertices at the same position ("once coincident positions are merged").
   [closed_idx cls idx] : the index count is a multiple of 3 and, after replacing every index by its class,
   no triangle is degenerate, no directed edge is used twice and the reverse of every used directed edge is
   used too — i.e. a closed (boundaryless, 2-manifold-edged), consistently oriented surface. *)
From PF Require Import Gen.Closed Gen.ClosedProofs Gen.FamilyProofs Gen.Sphere Gen.Hemisphere Gen.Cylinder Gen.Cube
  Gen.CylinderProofs Gen.SphereProofs Gen.CubeProofs Gen.GenProofs.
From Coq Require Import Reals.
Open Scope N_scope.

(* ---------- what "closed" means, and the checker that decides it ---------- *)

(* in a closed triangle list every directed edge occurs exactly once, its reverse exactly once *)
Theorem closed_edge_counts : forall (eq_dec : forall x y : N * N, {x = y} + {x <> y}) (ts : list (N * N * N)),
  closed ts -> forall e, In e (dedges ts) ->
    count_occ eq_dec (dedges ts) e = 1%nat /\ count_occ eq_dec (dedges ts) (erev e) = 1%nat /\ erev e <> e.
Proof. exact (@ClosedProofs.closed_edge_counts N). Qed.
Print Assumptions closed_edge_counts.

(* the executable checker used by the check on the implementation's own output decides closedness *)
Theorem closedb_iff : forall ts : list (N * N * N), closedb ts = true <-> closed ts.
Proof. exact ClosedProofs.closedb_iff. Qed.
Print Assumptions closedb_iff.

(* the proof device: distinct parameters, no degenerate triangle, no directed edge shared by two triangles,
   every directed edge has a twin *)
Theorem family_closed : forall (P V : Type) (T : P -> V * V * V) (ps : list P), good T ps -> closed (map T ps).
Proof. exact (@FamilyProofs.good_closed). Qed.
Print Assumptions family_closed.

(* ---------- closed + consistently oriented, for EVERY admissible count ---------- *)

(* UVSphere(radius, rows, columns): the constructor accepts exactly rows >= 2, columns >= 3 *)
Theorem sphere_closed : forall r c, 2 <= r -> 3 <= c -> closed_idx sphere_cls (sphere_idx r c).
Proof. exact SphereProofs.sphere_closed. Qed.
Print Assumptions sphere_closed.

(* UVSphereUnwelded: closed under its coincidence classes … *)
Theorem sphereU_closed : forall r c, 2 <= r -> 3 <= c -> closed_idx (sphereU_cls r c) (sphereU_idx r c).
Proof. exact SphereProofs.sphereU_closed. Qed.
Print Assumptions sphereU_closed.

(* … because merging its coincident vertices gives back exactly the welded sphere's index list *)
Theorem sphereU_welds : forall r c, map (sphereU_cls r c) (sphereU_idx r c) = sphere_idx r c.
Proof. exact SphereProofs.sphereU_welds. Qed.
Print Assumptions sphereU_welds.

(* Hemisphere.UV(rows, columns) — base disc included whatever the Capped flag says (the code ignores it) *)
Theorem hemi_closed : forall r c, 2 <= r -> 3 <= c -> closed_idx hemi_cls (hemi_idx r c).
Proof. exact SphereProofs.hemi_closed. Qed.
Print Assumptions hemi_closed.

(* Cylinder{Sides: n}.ToMesh() with both caps; seam column and cap rims merged by cyl_cls *)
Theorem cyl_closed : forall n, 3 <= n -> closed_idx (cyl_cls n) (cyl_idx n).
Proof. exact CylinderProofs.cyl_closed. Qed.
Print Assumptions cyl_closed.

(* Cube.Welded (index table) and Cube.UnweldedQuads (six quads, corners merged by cubeQ_cls) *)
Theorem cubeW_closed : closed_idx cubeW_cls cubeW_idx.
Proof. exact CubeProofs.cubeW_closed. Qed.
Print Assumptions cubeW_closed.
Theorem cubeQ_closed : closed_idx cubeQ_cls cubeQ_idx.
Proof. exact CubeProofs.cubeQ_closed. Qed.
Print Assumptions cubeQ_closed.

(* ---------- well-formed indices: whole triangles, every index below the vertex count ---------- *)
Theorem sphere_wf : forall r c, 2 <= r -> 1 <= c -> wf_idx (sphere_nverts r c) (sphere_idx r c).
Proof. exact SphereProofs.sphere_wf. Qed.
Print Assumptions sphere_wf.
Theorem sphereU_wf : forall r c, 2 <= r -> 1 <= c -> wf_idx (sphereU_nverts r c) (sphereU_idx r c).
Proof. exact SphereProofs.sphereU_wf. Qed.
Print Assumptions sphereU_wf.
Theorem hemi_wf : forall r c, 2 <= r -> 1 <= c -> wf_idx (hemi_nverts r c) (hemi_idx r c).
Proof. exact SphereProofs.hemi_wf. Qed.
Print Assumptions hemi_wf.
Theorem cyl_wf : forall n, 1 <= n -> wf_idx (cyl_nverts n) (cyl_idx n).
Proof. exact CylinderProofs.cyl_wf. Qed.
Print Assumptions cyl_wf.
Theorem cube_wf : wf_idx cubeW_nverts cubeW_idx /\ wf_idx cubeQ_nverts cubeQ_idx.
Proof. exact (conj CubeProofs.cubeW_wf CubeProofs.cubeQ_wf). Qed.
Print Assumptions cube_wf.

(* ---------- the boxes over the reals: exact volume, outward faces, outward vertex normals ---------- *)
Open Scope R_scope.

(* enclosed volume (divergence-theorem sum / 6) = width * height * depth, for every real width, height, depth *)
Theorem cube_volume : forall w h d : R,
  rvol6 (tri_pos (cubeW_posR (w / 2) (h / 2) (d / 2)) cubeW_idx) / 6 = w * h * d /\
  rvol6 (tri_pos (cubeQ_posR (w / 2) (h / 2) (d / 2)) cubeQ_idx) / 6 = w * h * d.
Proof. exact CubeProofs.cube_volume. Qed.
Print Assumptions cube_volume.

(* every face of either box points away from the centre, for all positive extents *)
Theorem cube_outward : forall hw hh hd : R, 0 < hw -> 0 < hh -> 0 < hd ->
  Forall (rfaces_away rzero) (tri_pos (cubeW_posR hw hh hd) cubeW_idx) /\
  Forall (rfaces_away rzero) (tri_pos (cubeQ_posR hw hh hd) cubeQ_idx).
Proof. intros. split; [apply CubeProofs.cubeW_outward|apply CubeProofs.cubeQ_outward]; assumption. Qed.
Print Assumptions cube_outward.

(* the vertex normals (welded: the corner direction; quads: the turned `up`) are on the outer side of every
   incident face *)
Theorem cube_normals_outward : forall hw hh hd : R, 0 < hw -> 0 < hh -> 0 < hd ->
  normals_outer (cubeW_posR hw hh hd) (cubeW_posR hw hh hd) cubeW_idx /\
  normals_outer (cubeQ_posR hw hh hd) cubeQ_nrmR cubeQ_idx.
Proof. intros. split; [apply CubeProofs.cubeW_normals_outward|apply CubeProofs.cubeQ_normals_outward]; assumption. Qed.
Print Assumptions cube_normals_outward.

(* the real-valued position tables are the integer tables the harness compares with the implementation *)
Theorem cube_positions_Z : forall a b c : Z,
  cubeW_posR (IZR a) (IZR b) (IZR c) = map rv3 (cubeW_pos a b c) /\
  cubeQ_posR (IZR a) (IZR b) (IZR c) = map rv3 (cubeQ_pos a b c).
Proof. intros. split; [apply CubeProofs.cubeW_posR_Z|apply CubeProofs.cubeQ_posR_Z]. Qed.
Print Assumptions cube_positions_Z.
Close Scope R_scope.

(* ---------- non-vacuity ---------- *)
(* the smallest sphere: a triangular bipyramid *)
Example sphere_2_3 : tris_of (sphere_idx 2 3) = [(0, 2, 1); (4, 1, 2); (0, 3, 2); (4, 2, 3); (0, 1, 3); (4, 3, 1)].
Proof. exact GenProofs.sphere_2_3. Qed.
(* the classes matter: an unmerged cylinder is open; two columns / sides (which the sphere constructors reject)
   would not be closed *)
Example cyl_unmerged_open : closed_idxb (fun v => v) (cyl_idx 5) = false.
Proof. exact GenProofs.cyl_unmerged_open. Qed.
Example sphere_2cols_not_closed : closed_idxb sphere_cls (sphere_idx 3 2) = false.
Proof. exact GenProofs.sphere_2cols_not_closed. Qed.
