(* C04 — PLY write/read round trip.  Statements only; proofs live in Formats/PlyWriteProofs.v. *)
From PF Require Import Base.Bytes Formats.PlyRead Formats.PlyWrite Formats.PlyWriteProofs.
Open Scope N_scope.

Theorem ply_word_size : forall e t w, List.length (enc_word e t w) = sty_size t.
Proof. exact enc_word_length. Qed.
Print Assumptions ply_word_size.
