(* C04 — PLY write/read round trip in ASCII, little-endian and big-endian.
   Statements only; proofs live in Formats/PlyWriteProofs.v.  Writer model: Formats/PlyWrite.v (MeshWriter.Write,
   property writers, header, face records); reader model: Formats/PlyRead.v (the C08 model of ply.ReadMesh).

   Vocabulary.  A writer table applied to a mesh is a list of groups [gs : list rgroup] (property names, one
   storage type, one row of float32 words per vertex); [group_good n g]: supported type (float, double, uchar), n
   rows of the right width, every value storable ([bword]) with a word that fits the type and readable ([val]).
   [layout bin gs 0] are the property readers laid out on those groups (byte offsets / token columns);
   [vrow gs i] are the float64 values the model of polyform's readers must deliver for vertex i:
   float -> widening of the stored word, uchar -> round(255 x)/255 through the division table, double -> the word.

   Headline: [ply_roundtrip_ascii], [ply_roundtrip_le], [ply_roundtrip_be] — for ply.Write's property-writer table
   (WriteUnspecifiedProperties on or off), every mesh accepted by [wf_mesh] (point cloud or triangle mesh; welded or
   not; unreferenced vertices; any mix of Position/Normal/Color/FDC/Opacity/Scale/Rotation, user-named attributes of
   dimension 1-4, per-corner texture coordinates of triangle meshes):
       write o f m = Ok file,  expected o m = Ok r,  read_mesh file = Ok r
   where [write] is the model of MeshWriter.Write, [read_mesh] the model of ply.ReadMesh (Formats/PlyRead.v) and
   [expected] the stored image of m (float32 words widened, colours as round(255x)/255, user vector attributes as
   their scalar columns name_k, unwelded when the mesh has UVs and at least one face).  [ply_encodings_agree] is
   the corollary for the three files.  Two explicit hypotheses remain, both decidable:
   * [no_st m] — the mesh is not a point cloud carrying TexCoord.  Such a cloud gets per-vertex properties s, t
     (fix ad4b3e5) whose reader ply.ReadMesh places BEFORE the splat groups, so the reader's list is in its own order.
     That class has its own whole-property theorem [ply_write_read_property_points_st] (round 4: the reader
     construction lemma is now proved in general, [ply_readers_placed_points_st]): same statement, with the attributes
     as a permutation of [expected]'s (attribute order is no observable of a mesh) and the extra decidable hypothesis
     [no_user_st m] — no user attribute is itself called "s" or "t" (the file would carry two properties of that name and
     the reader takes the last: [ply_points_st_duplicate_refuted]).  With WriteUnspecifiedProperties off the table never
     writes s/t: [ply_roundtrip_points_nounspec] needs neither hypothesis.
   * ASCII only: the configuration writes at least one vertex property when n >= 1 (otherwise known finding
     ply:ascii-vertex-without-properties: [ascii_ok] cannot hold, the encodings really disagree).
   * User-named attributes: [wf_mesh] requires their PLY property names (name, or name_k for vectors) to be distinct
     from each other and from the table's own names, and to COMPLETE no reader group ([no_group_completedb]: for every
     group either no user name is a member or some member is in the file under no name; colour groups also for their
     first three members).  Names that are members of a group but complete none ("t" without "s", "alpha" without the
     colours, "px", "scale_0" — the class of seeded change C04-G) are INSIDE the theorems: [ply_readers_default_open]
     shows they get their own scalar reader.  When user names do complete a group the values come back as that group's
     attribute (PlyRead.accepted); that direction is evaluated ([ply_lone_member_example], Check/C04.v), not proved.
   Custom writer tables: the same statement holds for ANY table under decidable side conditions
   ([ply_roundtrip_any_table]: the reader builds the laid-out readers, attribute keys distinct, values storable);
   the 8-bit scalar case is refuted ([ascii_uchar_scalar_refuted], known finding ply:ascii-uchar-scalar-raw). *)
From PF Require Import Base.Bytes Formats.PlyRead Formats.PlyWrite Formats.PlyWriteProofs Formats.PlyWritePlaced.
From Coq Require Import String Permutation.
Open Scope list_scope.
Open Scope N_scope.

(* ================= THE PROPERTY ================= *)
(* Writing any well-formed point cloud or triangle mesh with ply.Write's table and reading it back yields [expected o m]
   — same topology and indices (unwelded when the mesh has UVs and a face), every attribute at the precision of its
   stored type —; the ASCII, little-endian and big-endian files decode to the same mesh; and the header of each file
   parses to the format, element counts (AttributeLength, PrimitiveCount) and property lists that determine the size
   of the body that follows ([described]).  Explicit exclusions: a configuration that writes no vertex property for
   n >= 1 vertices (known finding ply:ascii-vertex-without-properties: the ASCII file cannot be read), point clouds with
   per-vertex s/t ([no_st], see [ply_roundtrip_points_st]); for custom tables ([ply_roundtrip_any_table]) additionally
   the 8-bit scalar ([ascii_uchar_scalar_refuted], known finding ply:ascii-uchar-scalar-raw). *)
Theorem ply_write_read_property : forall o m, o_writers o = default_writers -> wf_mesh m = true -> no_st m ->
  (w_n m = 0%nat \/ vertex_props (rview o m) <> []) ->
  let gs := map (group_of m) (effective_writers o m) in
  exists fa fl fb r,
    write o ASCII m = Ok fa /\ write o BinLE m = Ok fl /\ write o BinBE m = Ok fb /\
    expected o m = Ok r /\ read_mesh fa = Ok r /\ read_mesh fl = Ok r /\ read_mesh fb = Ok r /\
    described ASCII gs m fa /\ described BinLE gs m fl /\ described BinBE gs m fb.
Proof. exact ply_property_default. Qed.
Print Assumptions ply_write_read_property.

(* ... and without [no_st] (round 4): EVERY mesh accepted by [wf_mesh], ply.Write's table with unspecified properties on or
   off.  r' is the mesh all three files decode to; it has the topology and indices of [expected o m] and the same
   attributes — literally r' = r except for a point cloud carrying TexCoord with unspecified properties on, where
   ply.ReadMesh lists the attributes in its own order (a permutation; the order of attributes is no observable of a
   modeling.Mesh).  The only hypothesis beyond well-formedness and "some vertex property is written": in that class no
   user attribute is itself named "s" or "t" ([no_user_st], needed: [ply_points_st_duplicate_refuted]). *)
Theorem ply_write_read_property_all : forall o m,
  o_writers o = default_writers -> wf_mesh m = true ->
  (w_topo m = TPoint -> has_tex m = true -> o_unspec o = true -> no_user_st m = true) ->
  (w_n m = 0%nat \/ vertex_props (rview o m) <> []) ->
  let gs := map (group_of m) (effective_writers o m) in
  exists fa fl fb r r',
    write o ASCII m = Ok fa /\ write o BinLE m = Ok fl /\ write o BinBE m = Ok fb /\
    expected o m = Ok r /\ read_mesh fa = Ok r' /\ read_mesh fl = Ok r' /\ read_mesh fb = Ok r' /\
    m_topo r' = m_topo r /\ m_idx r' = m_idx r /\ Permutation (m_attrs r') (m_attrs r) /\
    described ASCII gs m fa /\ described BinLE gs m fl /\ described BinBE gs m fb.
Proof. exact ply_property_all. Qed.
Print Assumptions ply_write_read_property_all.

(* ---- header: what Header.Write emits parses back to the same format, elements, counts and property list ---- *)
Theorem ply_header_roundtrip : forall f gs m,
  parse_header (header_lines f (header_elems gs m))
  = Ok {| h_fmt := f; h_elems := header_elems gs m; h_comments := [tl comment_line] |}.
Proof. intros. apply parse_header_written, header_elems_ok. Qed.
Print Assumptions ply_header_roundtrip.

(* ---- vertex element, binary (e = LEnd / BEnd): reading the n written records with the laid-out readers returns,
        for every vertex in order, the stored image of every group, and consumes exactly the vertex block ---- *)
Theorem ply_vertex_block_le : forall n gs rest, Forall (group_good n) gs ->
  read_vertices_bin LEnd (layout true gs 0) (record_size (vertex_props gs)) n
    (flat_map (fun i => flat_map (fun g => genc LEnd g i) gs) (seq 0 n) ++ rest)
  = Ok (map (vrow gs) (seq 0 n), rest).
Proof.
  intros n gs rest H. rewrite record_size_props.
  pose proof (read_vertices_bin_written LEnd n gs n rest H (le_n n)) as R. rewrite Nat.sub_diag in R. exact R.
Qed.
Print Assumptions ply_vertex_block_le.

Theorem ply_vertex_block_be : forall n gs rest, Forall (group_good n) gs ->
  read_vertices_bin BEnd (layout true gs 0) (record_size (vertex_props gs)) n
    (flat_map (fun i => flat_map (fun g => genc BEnd g i) gs) (seq 0 n) ++ rest)
  = Ok (map (vrow gs) (seq 0 n), rest).
Proof.
  intros n gs rest H. rewrite record_size_props.
  pose proof (read_vertices_bin_written BEnd n gs n rest H (le_n n)) as R. rewrite Nat.sub_diag in R. exact R.
Qed.
Print Assumptions ply_vertex_block_be.

(* ---- vertex element, ASCII: token lines; [ascii_ok] excludes the 8-bit scalar read through
        Vector1PropertyReader (known finding ply:ascii-uchar-scalar-raw, see ascii_uchar_scalar_refuted) ---- *)
Theorem ply_vertex_block_ascii : forall n gs rest,
  Forall (group_good n) gs -> forallb ascii_ok gs = true -> (n = 0%nat \/ vertex_props gs <> []) ->
  read_vertices_ascii (layout false gs 0) (List.length (vertex_props gs))
    (map (fun i => flat_map (fun g => gtoks g i) gs) (seq 0 n) ++ rest) n
  = Ok (map (vrow gs) (seq 0 n), rest).
Proof.
  intros n gs rest H A N.
  pose proof (read_vertices_ascii_written n gs n rest H A N (le_n n)) as R. rewrite Nat.sub_diag in R. exact R.
Qed.
Print Assumptions ply_vertex_block_ascii.

(* the closed forms used above ARE what the writer model emits *)
Theorem ply_writer_emits : forall n gs, Forall (group_good n) gs ->
  mapR (vertex_words gs) (seq 0 n) = Ok (map (fun i => flat_map (fun g => gwords g i) gs) (seq 0 n)) /\
  mapR (vertex_toks gs) (seq 0 n) = Ok (map (fun i => flat_map (fun g => gtoks g i) gs) (seq 0 n)).
Proof. intros n gs H. split; [apply write_vertices_bin_ok|apply write_vertices_ascii_ok]; exact H. Qed.
Print Assumptions ply_writer_emits.

(* ---- the three encodings of one vertex table decode to the same rows ---- *)
Theorem ply_encodings_agree : forall n gs,
  Forall (group_good n) gs -> forallb ascii_ok gs = true -> (n = 0%nat \/ vertex_props gs <> []) ->
  exists rows,
    read_vertices_bin LEnd (layout true gs 0) (record_size (vertex_props gs)) n
      (flat_map (fun i => flat_map (fun g => genc LEnd g i) gs) (seq 0 n)) = Ok (rows, []) /\
    read_vertices_bin BEnd (layout true gs 0) (record_size (vertex_props gs)) n
      (flat_map (fun i => flat_map (fun g => genc BEnd g i) gs) (seq 0 n)) = Ok (rows, []) /\
    read_vertices_ascii (layout false gs 0) (List.length (vertex_props gs))
      (map (fun i => flat_map (fun g => gtoks g i) gs) (seq 0 n)) n = Ok (rows, []).
Proof.
  intros n gs H A N. exists (map (vrow gs) (seq 0 n)).
  pose proof (ply_vertex_block_le n gs [] H) as L. pose proof (ply_vertex_block_be n gs [] H) as B.
  pose proof (ply_vertex_block_ascii n gs [] H A N) as C. rewrite app_nil_r in L, B, C. auto.
Qed.
Print Assumptions ply_encodings_agree.

(* ---- face element: `3 i0 i1 i2` (+ `6` and six floats gathered per corner) comes back as the index list and
        one UV pair per corner, for every number of faces and any reader state left by a previous face ---- *)
Theorem ply_faces_bin : forall e ts rest st, Forall tri_ok ts -> shape st ->
  faces_bin e [(UChar, Int)] 0 None (flat_map (rec_notex e) ts ++ rest) (List.length ts) st = Ok (flat_map tri_z ts, []).
Proof. exact faces_bin_notex. Qed.
Print Assumptions ply_faces_bin.

Theorem ply_faces_bin_texcoord : forall e fts rest st, Forall ftu_ok fts -> shape st ->
  faces_bin e [(UChar, Int); (UChar, Float)] 0 (Some 1%nat) (flat_map (rec_tex e) fts ++ rest) (List.length fts) st
  = Ok (flat_map (fun tu => tri_z (fst tu)) fts, flat_map (fun tu => pairs (map cvF (snd tu))) fts).
Proof. exact faces_bin_tex. Qed.
Print Assumptions ply_faces_bin_texcoord.

Theorem ply_faces_ascii : forall ts rest st, shape st ->
  faces_ascii [(UChar, Int)] 0 None (map line_notex ts ++ rest) (List.length ts) st = Ok (flat_map tri_z ts, []).
Proof. exact faces_ascii_notex. Qed.
Print Assumptions ply_faces_ascii.

Theorem ply_faces_ascii_texcoord : forall fts rest st, Forall (fun tu => List.length (snd tu) = 6%nat) fts -> shape st ->
  faces_ascii [(UChar, Int); (UChar, Float)] 0 (Some 1%nat) (map line_tex fts ++ rest) (List.length fts) st
  = Ok (flat_map (fun tu => tri_z (fst tu)) fts, flat_map (fun tu => pairs (map cvF (snd tu))) fts).
Proof. exact faces_ascii_tex. Qed.
Print Assumptions ply_faces_ascii_texcoord.

(* the face records/lines above are what the writer model emits, with the UVs gathered through the index *)
Theorem ply_face_records_emitted : forall e m t,
  (has_tex m = false -> face_bin_rec e m t = Ok (rec_notex e t) /\ face_ascii_line m t = Ok (line_notex t)) /\
  (forall uv, has_tex m = true -> face_uvs m t = Ok uv ->
     face_bin_rec e m t = Ok (rec_tex e (t, uv)) /\ face_ascii_line m t = Ok (line_tex (t, uv))).
Proof.
  intros e m t. split.
  - intros H. split; [apply face_bin_rec_notex|apply face_ascii_line_notex]; exact H.
  - intros uv H U. split; [apply face_bin_rec_tex|apply face_ascii_line_tex]; assumption.
Qed.
Print Assumptions ply_face_records_emitted.

(* ---- the header describes the body: element counts are AttributeLength / PrimitiveCount, the binary vertex
        block has vcount * rowsize bytes, a face record 13 (38 with texture coordinates) bytes, every index list
        is complete (flat_map tri_z (tris idx) = idx, count = len/3) ---- *)
Theorem ply_header_describes_body : forall gs m e n,
  (exists ve, nth_error (header_elems gs m) 0 = Some ve /\ e_name ve = "vertex"%string /\ e_count ve = Z.of_nat (w_n m)
              /\ e_props ve = vertex_props gs) /\
  (w_topo m = TTriangle -> exists fe, nth_error (header_elems gs m) 1 = Some fe /\ e_name fe = "face"%string
                                      /\ e_count fe = Z.of_nat (List.length (w_idx m) / 3)) /\
  (Forall (group_good n) gs ->
     List.length (flat_map (fun i => flat_map (fun g => genc e g i) gs) (seq 0 n)) = (n * record_size (vertex_props gs))%nat) /\
  (forall t, List.length (rec_notex e t) = 13%nat) /\
  (forall tu, List.length (snd tu) = 6%nat -> List.length (rec_tex e tu) = 38%nat) /\
  (forall idx, (List.length idx mod 3 = 0)%nat ->
     flat_map (fun '(a, b, c) => [a; b; c]) (tris idx) = idx /\ List.length (tris idx) = (List.length idx / 3)%nat).
Proof.
  intros gs m e n. split; [|split; [|split; [|split; [|split]]]].
  - eexists. split; [reflexivity|]. auto.
  - intros T. unfold header_elems, nprims. rewrite T. eexists. split; [reflexivity|]. auto.
  - apply vertex_block_length.
  - apply rec_notex_length.
  - apply rec_tex_length.
  - intros idx H. apply (tris_spec (List.length idx)); [apply le_n|exact H].
Qed.
Print Assumptions ply_header_describes_body.

(* ---- mesh level: ply.ReadMesh's model on the written file (f = BinLE or BinBE; ASCII separately) ---- *)
Theorem ply_roundtrip_bin_points : forall f gs m, f <> ASCII -> w_topo m = TPoint ->
  Forall (group_good (w_n m)) gs -> readers_ok true gs ->
  read_mesh {| pf_header := header_lines f (header_elems gs m);
               pf_body := BodyBin (flat_map (fun i => flat_map (fun g => genc (enc_of f) g i) gs) (seq 0 (w_n m))) |}
  = Ok {| m_topo := TPoint; m_idx := iota (w_n m);
          m_attrs := update_mesh (layout true gs 0) 0 (map (vrow gs) (seq 0 (w_n m))) [] |}.
Proof. exact read_mesh_pointcloud_bin. Qed.
Print Assumptions ply_roundtrip_bin_points.

Theorem ply_roundtrip_ascii_points : forall gs m, w_topo m = TPoint ->
  Forall (group_good (w_n m)) gs -> forallb ascii_ok gs = true -> (w_n m = 0%nat \/ vertex_props gs <> []) -> readers_ok false gs ->
  read_mesh {| pf_header := header_lines ASCII (header_elems gs m);
               pf_body := BodyAscii (map (fun i => flat_map (fun g => gtoks g i) gs) (seq 0 (w_n m))) |}
  = Ok {| m_topo := TPoint; m_idx := iota (w_n m);
          m_attrs := update_mesh (layout false gs 0) 0 (map (vrow gs) (seq 0 (w_n m))) [] |}.
Proof. exact read_mesh_pointcloud_ascii. Qed.
Print Assumptions ply_roundtrip_ascii_points.

(* triangle meshes without texture coordinates: indices come back unchanged (welded stays welded, unreferenced
   vertices stay) *)
Theorem ply_roundtrip_bin_triangles : forall f gs m, f <> ASCII -> w_topo m = TTriangle -> has_tex m = false ->
  (List.length (w_idx m) mod 3 = 0)%nat -> Forall tri_ok (tris (w_idx m)) ->
  Forall (group_good (w_n m)) gs -> readers_ok true gs ->
  read_mesh {| pf_header := header_lines f (header_elems gs m);
               pf_body := BodyBin (flat_map (fun i => flat_map (fun g => genc (enc_of f) g i) gs) (seq 0 (w_n m))
                                   ++ flat_map (rec_notex (enc_of f)) (tris (w_idx m))) |}
  = Ok {| m_topo := TTriangle; m_idx := zidx (w_idx m);
          m_attrs := update_mesh (layout true gs 0) 0 (map (vrow gs) (seq 0 (w_n m))) [] |}.
Proof. exact read_mesh_triangles_bin. Qed.
Print Assumptions ply_roundtrip_bin_triangles.

Theorem ply_roundtrip_ascii_triangles : forall gs m, w_topo m = TTriangle -> has_tex m = false ->
  (List.length (w_idx m) mod 3 = 0)%nat ->
  Forall (group_good (w_n m)) gs -> forallb ascii_ok gs = true -> (w_n m = 0%nat \/ vertex_props gs <> []) -> readers_ok false gs ->
  read_mesh {| pf_header := header_lines ASCII (header_elems gs m);
               pf_body := BodyAscii (map (fun i => flat_map (fun g => gtoks g i) gs) (seq 0 (w_n m))
                                     ++ map line_notex (tris (w_idx m))) |}
  = Ok {| m_topo := TTriangle; m_idx := zidx (w_idx m);
          m_attrs := update_mesh (layout false gs 0) 0 (map (vrow gs) (seq 0 (w_n m))) [] |}.
Proof. exact read_mesh_triangles_ascii. Qed.
Print Assumptions ply_roundtrip_ascii_triangles.

(* with texture coordinates ([fts]: every face with the six UV words gathered through the index): [mesh_of] is the
   reader's documented behaviour — at least one face: unweld every attribute through the indices, identity
   indices, TexCoord = one pair per corner; no face: the welded mesh without TexCoord *)
Theorem ply_roundtrip_bin_triangles_uv : forall f gs m fts, f <> ASCII -> w_topo m = TTriangle -> has_tex m = true ->
  (List.length (w_idx m) mod 3 = 0)%nat -> map fst fts = tris (w_idx m) -> Forall ftu_ok fts ->
  Forall (group_good (w_n m)) gs -> readers_ok true gs ->
  read_mesh {| pf_header := header_lines f (header_elems gs m);
               pf_body := BodyBin (flat_map (fun i => flat_map (fun g => genc (enc_of f) g i) gs) (seq 0 (w_n m))
                                   ++ flat_map (rec_tex (enc_of f)) fts) |}
  = mesh_of TTriangle (zidx (w_idx m)) (flat_map (fun tu => pairs (map cvF (snd tu))) fts)
            (update_mesh (layout true gs 0) 0 (map (vrow gs) (seq 0 (w_n m))) []).
Proof. exact read_mesh_triangles_tex_bin. Qed.
Print Assumptions ply_roundtrip_bin_triangles_uv.

Theorem ply_roundtrip_ascii_triangles_uv : forall gs m fts, w_topo m = TTriangle -> has_tex m = true ->
  (List.length (w_idx m) mod 3 = 0)%nat -> map fst fts = tris (w_idx m) -> Forall (fun tu => List.length (snd tu) = 6%nat) fts ->
  Forall (group_good (w_n m)) gs -> forallb ascii_ok gs = true -> (w_n m = 0%nat \/ vertex_props gs <> []) -> readers_ok false gs ->
  read_mesh {| pf_header := header_lines ASCII (header_elems gs m);
               pf_body := BodyAscii (map (fun i => flat_map (fun g => gtoks g i) gs) (seq 0 (w_n m)) ++ map line_tex fts) |}
  = mesh_of TTriangle (zidx (w_idx m)) (flat_map (fun tu => pairs (map cvF (snd tu))) fts)
            (update_mesh (layout false gs 0) 0 (map (vrow gs) (seq 0 (w_n m))) []).
Proof. exact read_mesh_triangles_tex_ascii. Qed.
Print Assumptions ply_roundtrip_ascii_triangles_uv.

(* the attribute list in these results, in closed form: one attribute per group (dimension, name, image of every
   row), in table order — when the (dimension, name) keys are pairwise distinct and there is at least one vertex *)
Theorem ply_attributes_of_groups : forall bin n gs, (0 < n)%nat ->
  Forall (fun g => List.length (rg_rows g) = n) gs -> keys_ok [] gs = true ->
  update_mesh (layout bin gs 0) 0 (map (vrow gs) (seq 0 n)) [] = map gattr gs.
Proof. exact attrs_of_layout. Qed.
Print Assumptions ply_attributes_of_groups.

(* the side condition holds for ply.Write's own table, whatever subset of its writers qualifies, in both layouts *)
Theorem ply_readers_default : forall bin m (sel : pw -> bool),
  readers_ok bin (map (group_of m) (filter sel default_writers)).
Proof. exact readers_ok_default. Qed.
Print Assumptions ply_readers_default.

(* ... and for ply.Write's table followed by any number of user-named scalar properties (what unspecified
   attributes become on the reading side) with pairwise distinct names outside the reader's reserved names:
   fresh names are claimed by no recognised group and each gets its own scalar reader at the right offset *)
Theorem ply_readers_default_user : forall bin m (sel : pw -> bool) tail,
  Forall scalar_group tail -> NoDup (map rg_attr tail) -> Forall (fun g => ~ In (rg_attr g) reserved_names) tail ->
  readers_ok bin (map (group_of m) (filter sel default_writers) ++ tail).
Proof. exact readers_ok_default_user. Qed.
Print Assumptions ply_readers_default_user.

(* ================= the whole file ================= *)
(* for any writer table, under decidable side conditions *)
Theorem ply_roundtrip_any_table : forall o f m,
  let gw := map (group_of m) (effective_writers o m) in
  let gr := rview o m in
  Forall (group_good (w_n m)) gw -> readers_ok (is_bin f) gr -> keys_ok [] gr = true ->
  (w_n m = 0%nat -> effective_writers o m = []) ->
  (f = ASCII -> forallb ascii_ok gr = true /\ (w_n m = 0%nat \/ vertex_props gr <> [])) ->
  (w_topo m = TTriangle -> (List.length (w_idx m) mod 3 = 0)%nat /\ Forall tri_ok (tris (w_idx m))) ->
  (has_tex m = true -> tex_ok m) ->
  exists file, write o f m = Ok file /\ read_mesh file = expected o m.
Proof. exact write_read_expected. Qed.
Print Assumptions ply_roundtrip_any_table.

(* ply.Write's table, every well-formed mesh *)
Theorem ply_roundtrip_ascii : forall o m, o_writers o = default_writers -> wf_mesh m = true -> no_st m ->
  (w_n m = 0%nat \/ vertex_props (rview o m) <> []) ->
  exists file r, write o ASCII m = Ok file /\ expected o m = Ok r /\ read_mesh file = Ok r.
Proof. intros o m Ho Hwf C Hne. apply ply_write_read_default; auto. Qed.
Print Assumptions ply_roundtrip_ascii.

Theorem ply_roundtrip_le : forall o m, o_writers o = default_writers -> wf_mesh m = true -> no_st m ->
  exists file r, write o BinLE m = Ok file /\ expected o m = Ok r /\ read_mesh file = Ok r.
Proof. intros o m Ho Hwf C. apply ply_write_read_default; auto. discriminate. Qed.
Print Assumptions ply_roundtrip_le.

Theorem ply_roundtrip_be : forall o m, o_writers o = default_writers -> wf_mesh m = true -> no_st m ->
  exists file r, write o BinBE m = Ok file /\ expected o m = Ok r /\ read_mesh file = Ok r.
Proof. intros o m Ho Hwf C. apply ply_write_read_default; auto. discriminate. Qed.
Print Assumptions ply_roundtrip_be.

(* ASCII, little-endian and big-endian files of one mesh decode to the same mesh *)
Theorem ply_encodings_agree_mesh : forall o m, o_writers o = default_writers -> wf_mesh m = true -> no_st m ->
  (w_n m = 0%nat \/ vertex_props (rview o m) <> []) ->
  exists fa fl fb r, write o ASCII m = Ok fa /\ write o BinLE m = Ok fl /\ write o BinBE m = Ok fb /\
                     read_mesh fa = Ok r /\ read_mesh fl = Ok r /\ read_mesh fb = Ok r /\ expected o m = Ok r.
Proof. exact ply_encodings_agree_default. Qed.
Print Assumptions ply_encodings_agree_mesh.

(* pieces of the composition worth reading on their own *)
(* user vector attributes: their scalar columns carry the same header lines, bytes and tokens *)
Theorem ply_vector_attributes_as_columns : forall n m ws, Forall (group_good n) (map (group_of m) ws) ->
  vertex_props (flat_map (rview_of m) ws) = vertex_props (map (group_of m) ws) /\
  Forall (group_good n) (flat_map (rview_of m) ws) /\
  forall i, (i < n)%nat ->
    flat_map (fun g => gwords g i) (flat_map (rview_of m) ws) = flat_map (fun g => gwords g i) (map (group_of m) ws) /\
    flat_map (fun g => gtoks g i) (flat_map (rview_of m) ws) = flat_map (fun g => gtoks g i) (map (group_of m) ws).
Proof. exact rview_same. Qed.
Print Assumptions ply_vector_attributes_as_columns.

(* [expected] is the right-hand side of the mesh-level theorems *)
Theorem ply_expected_is_result : forall o m bin, let gs := rview o m in
  Forall (group_good (w_n m)) gs -> keys_ok [] gs = true -> (w_n m = 0%nat -> gs = []) ->
  (w_topo m = TTriangle -> (List.length (w_idx m) mod 3 = 0)%nat) -> (has_tex m = true -> tex_ok m) ->
  expected o m = result_mesh bin gs m.
Proof. exact expected_result. Qed.
Print Assumptions ply_expected_is_result.

(* point clouds with per-vertex s/t (outside [no_st]): the whole file, read through readers placed in the reader's own
   order; [PL] lists the groups with the cursor each reader was built at *)
Theorem ply_roundtrip_points_st : forall o f m PL, o_writers o = default_writers -> wf_mesh m = true -> w_topo m = TPoint ->
  (0 < w_n m)%nat -> readers_placed (is_bin f) (rview o m) PL -> keys_ok [] (map fst PL) = true ->
  (f = ASCII -> forallb ascii_ok (rview o m) = true /\ vertex_props (rview o m) <> []) ->
  exists file, write o f m = Ok file /\
    read_mesh file = Ok {| m_topo := TPoint; m_idx := iota (w_n m); m_attrs := map gattr (map fst PL) |}.
Proof. exact ply_points_placed. Qed.
Print Assumptions ply_roundtrip_points_st.

(* ---- round 4: the placement hypothesis of [ply_roundtrip_points_st] discharged ---- *)
(* ply.ReadMesh's reader construction on the property list ply.Write emits for a point cloud with TexCoord: the
   reader list L is the same for ASCII and binary (Position/Normal/Color, TexCoord, FDC/Opacity/Scale/Rotation, then the
   user scalars in file order: a permutation of the file order), every reader sits at its real byte offset / column *)
Theorem ply_readers_placed_points_st : forall o m,
  o_writers o = default_writers -> wf_mesh m = true -> w_topo m = TPoint -> has_tex m = true -> o_unspec o = true ->
  no_user_st m = true ->
  exists L, keys_ok [] L = true /\ Permutation L (rview o m) /\
            forall bin, exists PL, map fst PL = L /\ readers_placed bin (rview o m) PL.
Proof. exact readers_placed_points_st_uniform. Qed.
Print Assumptions ply_readers_placed_points_st.

(* THE PROPERTY for point clouds with per-vertex texture coordinates (the class [no_st] excludes above): three files,
   ONE mesh r' read back from all three, topology / indices of [expected], the same attributes, headers describe bodies *)
Theorem ply_write_read_property_points_st : forall o m,
  o_writers o = default_writers -> wf_mesh m = true -> w_topo m = TPoint -> has_tex m = true -> o_unspec o = true ->
  no_user_st m = true ->
  let gs := map (group_of m) (effective_writers o m) in
  exists fa fl fb r r',
    write o ASCII m = Ok fa /\ write o BinLE m = Ok fl /\ write o BinBE m = Ok fb /\
    expected o m = Ok r /\ read_mesh fa = Ok r' /\ read_mesh fl = Ok r' /\ read_mesh fb = Ok r' /\
    m_topo r' = m_topo r /\ m_idx r' = m_idx r /\ Permutation (m_attrs r') (m_attrs r) /\
    described ASCII gs m fa /\ described BinLE gs m fl /\ described BinBE gs m fb.
Proof. exact ply_property_points_st. Qed.
Print Assumptions ply_write_read_property_points_st.

(* per encoding *)
Theorem ply_roundtrip_points_st_whole : forall o f m,
  o_writers o = default_writers -> wf_mesh m = true -> w_topo m = TPoint -> has_tex m = true -> o_unspec o = true ->
  no_user_st m = true ->
  exists file r r', write o f m = Ok file /\ expected o m = Ok r /\ read_mesh file = Ok r' /\
     m_topo r' = m_topo r /\ m_idx r' = m_idx r /\ Permutation (m_attrs r') (m_attrs r).
Proof. exact ply_points_st_roundtrip. Qed.
Print Assumptions ply_roundtrip_points_st_whole.

(* WriteUnspecifiedProperties off: every well-formed point cloud, with or without TexCoord (no [no_st]) *)
Theorem ply_roundtrip_points_nounspec : forall o f m,
  o_writers o = default_writers -> wf_mesh m = true -> w_topo m = TPoint -> o_unspec o = false ->
  (f = ASCII -> w_n m = 0%nat \/ vertex_props (rview o m) <> []) ->
  exists file r, write o f m = Ok file /\ expected o m = Ok r /\ read_mesh file = Ok r.
Proof. exact ply_points_tex_nounspec. Qed.
Print Assumptions ply_roundtrip_points_nounspec.

(* the hypothesis [no_user_st] is needed: a well-formed point cloud with TexCoord and a user scalar "s" is written with two
   properties named s; ply.ReadMesh's model loses the user attribute and fills TexCoord's first column from it *)
Theorem ply_points_st_duplicate_refuted :
  exists m, wf_mesh m = true /\ w_topo m = TPoint /\ has_tex m = true /\ no_user_st m = false /\
    forall f, exists file r r', write default_opts f m = Ok file /\ expected default_opts m = Ok r /\ read_mesh file = Ok r' /\
      List.length (m_attrs r') <> List.length (m_attrs r).
Proof.
  set (m := {| w_topo := TPoint; w_idx := [0; 1]%nat; w_n := 2%nat;
            w_attrs := [ {| wa_dim := 3; wa_name := "Position"; wa_rows := [[1065353216; 0; 0]; [0; 1065353216; 0]] |};
                         {| wa_dim := 2; wa_name := "TexCoord"; wa_rows := [[0; 1065353216]; [1065353216; 0]] |};
                         {| wa_dim := 1; wa_name := "s"; wa_rows := [[1056964608]; [1048576000]] |} ] |}).
  exists m.
  split; [vm_compute; reflexivity|]. split; [reflexivity|]. split; [vm_compute; reflexivity|]. split; [vm_compute; reflexivity|].
  intros f.
  assert (H : match write default_opts f m, expected default_opts m with
              | Ok file, Ok r => match read_mesh file with
                                 | Ok r' => negb (Nat.eqb (List.length (m_attrs r')) (List.length (m_attrs r)))
                                 | Err _ => false end
              | _, _ => false end = true) by (destruct f; vm_compute; reflexivity).
  destruct (write default_opts f m) as [file|] eqn:W; [|discriminate H].
  destruct (expected default_opts m) as [r|] eqn:X; [|discriminate H].
  destruct (read_mesh file) as [r'|] eqn:R; [|discriminate H].
  exists file, r, r'. split; [reflexivity|]. split; [reflexivity|]. split; [exact R|].
  intros E. rewrite E, Nat.eqb_refl in H. discriminate H.
Qed.
Print Assumptions ply_points_st_duplicate_refuted.

(* non-vacuity of the hypotheses of [ply_write_read_property_points_st] *)
Example ply_points_st_example :
  let m := {| w_topo := TPoint; w_idx := [0; 1]%nat; w_n := 2%nat;
              w_attrs := [ {| wa_dim := 3; wa_name := "Position"; wa_rows := [[1065353216; 0; 0]; [0; 1065353216; 0]] |};
                           {| wa_dim := 3; wa_name := "Scale"; wa_rows := [[1065353216; 1065353216; 0]; [0; 1065353216; 1056964608]] |};
                           {| wa_dim := 2; wa_name := "Foo"; wa_rows := [[1; 2]; [3; 4]] |};
                           {| wa_dim := 2; wa_name := "TexCoord"; wa_rows := [[0; 1065353216]; [1065353216; 0]] |};
                           {| wa_dim := 2; wa_name := "bar"; wa_rows := [[5; 6]; [7; 8]] |};
                           {| wa_dim := 1; wa_name := "t2"; wa_rows := [[1056964608]; [1048576000]] |} ] |} in
  wf_mesh m = true /\ has_tex m = true /\ no_user_st m = true /\
  forallb (fun f => match write default_opts f m, expected default_opts m with
                    | Ok file, Ok r => match read_mesh file with Ok r' => mesh_eqb r r' | Err _ => false end
                    | _, _ => false end) [ASCII; BinLE; BinBE] = true.
Proof. vm_compute. repeat split; reflexivity. Qed.

(* the written file in closed form, for ply.Write's table on every well-formed mesh *)
Theorem ply_write_closed_form : forall o f m, o_writers o = default_writers -> wf_mesh m = true ->
  (f = ASCII -> w_n m = 0%nat \/ effective_writers o m <> []) ->
  write o f m = Ok {| pf_header := header_lines f (header_elems (map (group_of m) (effective_writers o m)) m);
                      pf_body := closed_body f (map (group_of m) (effective_writers o m)) m |}.
Proof. exact write_closed_default. Qed.
Print Assumptions ply_write_closed_form.

(* user names that are members of reader groups but complete none get their own scalar readers *)
Theorem ply_readers_default_open : forall bin m (sel : pw -> bool) tail,
  let pregs := map (group_of m) (filter sel default_writers) in
  Forall scalar_group tail -> NoDup (map rg_attr tail) ->
  (forall g, In g tail -> ~ In (rg_attr g) (pnames (vertex_props pregs))) ->
  Forall (fun g => group_open g (vertex_props pregs) (vertex_props tail)) default_groups ->
  readers_ok bin (pregs ++ tail).
Proof. exact readers_ok_default_open. Qed.
Print Assumptions ply_readers_default_open.

(* the header describes the body, for ANY writer table: what [write] returns parses to the format, the element counts
   and the property lists, and these give the body size (binary: vcount * rowsize + fcount * facesize bytes; ASCII:
   vcount + fcount lines with one token per property / 4 or 11 tokens per face) *)
Theorem ply_header_describes_body_file : forall o f m,
  let gs := map (group_of m) (effective_writers o m) in
  Forall (group_good (w_n m)) gs -> (f = ASCII -> w_n m = 0%nat \/ gs <> []) ->
  (w_topo m = TTriangle -> (List.length (w_idx m) mod 3 = 0)%nat) -> (has_tex m = true -> tex_ok m) ->
  exists file, write o f m = Ok file /\ described f gs m file.
Proof.
  intros o f m gs Hg Hne Hm Hx. destruct (write_header_describes_body o f m Hg Hne Hm Hx) as (file & W & D).
  exists file. split; [exact W|exact D].
Qed.
Print Assumptions ply_header_describes_body_file.

(* ---- the known finding, as a statement about the reader model: an 8-bit scalar comes back raw from ASCII ---- *)
Theorem ascii_uchar_scalar_refuted :
  exists gs, Forall (group_good 1) gs /\ forallb ascii_ok gs = false /\
    fst (match read_vertices_ascii (layout false gs 0) (List.length (vertex_props gs))
                 [flat_map (fun g => gtoks g 0) gs] 1 with Ok x => x | Err _ => ([], []) end)
    <> map (vrow gs) (seq 0 1).
Proof.
  exists [{| rg_attr := "Opacity"; rg_names := ["opacity"%string]; rg_ty := UChar; rg_rows := [[1056964608]] |}].
  split; [|split; [reflexivity|vm_compute; discriminate]].
  constructor; [|constructor]. split; [reflexivity|]. split; [reflexivity|]. constructor; [|constructor].
  split; [reflexivity|]. constructor; [|constructor]. split.
  - exists 128. split; [vm_compute; reflexivity|vm_compute; reflexivity].
  - eexists. vm_compute. reflexivity.
Qed.
Print Assumptions ascii_uchar_scalar_refuted.

(* non-vacuity: a welded quad with colours and texture coordinates is well-formed, is written in all three
   encodings, and the reader model returns [expected] from each of them *)
Example ply_example :
  let m := {| w_topo := TTriangle; w_idx := [0; 1; 2; 0; 2; 3]%nat; w_n := 4%nat;
              w_attrs := [ {| wa_dim := 3; wa_name := "Color"; wa_rows := [[0; 1065353216; 1056964608]; [1048576000; 0; 0]; [0; 0; 0]; [1065353216; 1065353216; 1065353216]] |};
                           {| wa_dim := 3; wa_name := "Position"; wa_rows := [[0; 0; 0]; [1065353216; 0; 0]; [1065353216; 1065353216; 0]; [0; 1065353216; 0]] |};
                           {| wa_dim := 2; wa_name := "TexCoord"; wa_rows := [[0; 0]; [1065353216; 0]; [1065353216; 1065353216]; [0; 1048576000]] |};
                           {| wa_dim := 1; wa_name := "Intensity"; wa_rows := [[1065353216]; [3221225472]; [1056964608]; [0]] |} ] |} in
  wf_mesh m = true /\
  forallb (fun f => match write default_opts f m, expected default_opts m with
                    | Ok file, Ok r => match read_mesh file with Ok r' => mesh_eqb r r' | Err _ => false end
                    | _, _ => false end) [ASCII; BinLE; BinBE] = true.
Proof. vm_compute. split; reflexivity. Qed.

(* user scalars named like lone members of the reader's groups stay scalar attributes; a complete group spelled as user
   scalars (r g b) comes back as that group's attribute — in all three encodings *)
Example ply_lone_member_example :
  let m := {| w_topo := TPoint; w_idx := [0; 1]%nat; w_n := 2%nat;
              w_attrs := [ {| wa_dim := 3; wa_name := "Position"; wa_rows := [[1065353216; 0; 0]; [0; 1065353216; 0]] |};
                           {| wa_dim := 1; wa_name := "alpha"; wa_rows := [[1048576000]; [1073741824]] |};
                           {| wa_dim := 1; wa_name := "b"; wa_rows := [[1061158912]; [1048576000]] |};
                           {| wa_dim := 1; wa_name := "g"; wa_rows := [[1056964608]; [0]] |};
                           {| wa_dim := 1; wa_name := "r"; wa_rows := [[1040187392]; [1065353216]] |};
                           {| wa_dim := 1; wa_name := "t"; wa_rows := [[1056964608]; [3212836864]] |} ] |} in
  wf_mesh m = false /\
  forallb (fun f => match write default_opts f m with
                    | Ok file => match read_mesh file with
                                 | Ok r => rows_eqb (match get_attr 1 "t" (m_attrs r) with Some d => d | None => [] end)
                                                    [[cvF 1056964608]; [cvF 3212836864]]
                                           && rows_eqb (match get_attr 1 "alpha" (m_attrs r) with Some d => d | None => [] end)
                                                       [[cvF 1048576000]; [cvF 1073741824]]
                                           && rows_eqb (match get_attr 3 "Color" (m_attrs r) with Some d => d | None => [] end)
                                                       [[cvF 1040187392; cvF 1056964608; cvF 1061158912]; [cvF 1065353216; cvF 0; cvF 1048576000]]
                                 | Err _ => false end
                    | Err _ => false end) [ASCII; BinLE; BinBE] = true.
Proof. vm_compute. split; reflexivity. Qed.
