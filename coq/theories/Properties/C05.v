(* C05 — OBJ write/read round trip and load/save.  Statements only; proofs live in Formats/ObjProofs.v. *)
From PF Require Import Base.Bytes Formats.Obj Formats.ObjProofs.
From Coq Require Import String.
Open Scope nat_scope.

(* The pinned writer (one running offset for v, vt and vn) does not round-trip: a mesh without normals
   followed by a mesh with normals is written with vn indices past the vn block and the reader crashes;
   with separate offsets (74c7928) the same list reads back with the expected observation. *)
Theorem obj_shared_offset_refuted :
  wf_list [mesh_plain; mesh_nrm] = true /\
  (exists ls, write_pinned None [mesh_plain; mesh_nrm] = Ok ls /\ read ls = Crash) /\
  (exists ls gs, write None [mesh_plain; mesh_nrm] = Ok ls /\ read ls = Ok (gs, []) /\
                 map obs gs = map obs_written [mesh_plain; mesh_nrm]).
Proof. exact shared_offset_refuted. Qed.
Print Assumptions obj_shared_offset_refuted.
