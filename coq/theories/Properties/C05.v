(* C05 — THE PROPERTY (properties.jsonl, verbatim in meaning):
     "Writing any list of named, well-formed triangle meshes - with or without normals, texture coordinates and
      material ranges, in any mixture - to OBJ and reading it back yields one group per mesh with the same triangles
      in order, the same per-corner position, normal and texture coordinate (float32 precision) and the same material
      on every triangle.  Loading any valid triangulated OBJ (groups and usemtl statements in any arrangement) and
      saving it again loses or invents no face."
   Clause 1 = [obj_roundtrip] (line records) / [obj_roundtrip_bytes] (bytes); clause 2 = [obj_load_save_faces]
   (line records) / [obj_load_save_bytes] (bytes).  The text layer between bytes and line records is
   Formats/ObjText.v ([obj_text_*] theorems below); number text (strconv) is a parameter with stated hypotheses.
   Through the file system (obj.Save / SaveAll / Load, .mtl libraries): [obj_save_load_files] (clause 1) and
   [obj_load_save_load_files] (clause 2), Formats/ObjFiles.v.

   C05 — OBJ write/read round trip and load/save.  Statements only; proofs live in Formats/ObjProofs.v.

   Vocabulary (Formats/Obj.v).  A file is a list of line records (V, VT, VN, G, UseMtl, F a b c, Fn, Short,
   MtlLib, O, Other); coordinates are float32 words, corners are (v, vt, vn, spelling) with 1-based indices.
   [write] / [read] model obj.WriteMeshes / obj.ReadMesh of /repo HEAD.  [obs m] = (name, per-corner content
   in triangle order = (position, uv, normal) as options, material of every triangle).  [file_groups] is the
   direct, table-free meaning of a line list: it never de-duplicates and never counts ranges.
   [mat_written] is what the writer does to a material name (nil -> DefaultDiffuse, spaces removed). *)
From Coq Require Import String.
From PF Require Import Base.Bytes Formats.Obj Formats.ObjProofs Formats.ObjText Formats.ObjTextProofs Formats.ObjFiles Formats.ObjFilesProofs.
Open Scope nat_scope.

(* Clause 1: writing ANY list of well-formed triangle meshes (any number of meshes, each with or without
   normals, with or without texture coordinates, with any partition of its triangles into material ranges,
   empty ranges and nil materials included) and reading the text back yields one group per mesh, with the
   same name, the same corner contents in the same triangle order and the same material on every triangle.
   [wf_list]: at least one mesh; index count a multiple of 3; indices in range; an attribute that is present
   has one entry per vertex; the ranges cover the triangles; no material with an empty name; every mesh but
   the last has a triangle (the format cannot represent an empty group followed by another group). *)
Theorem obj_roundtrip : forall mtl ms, wf_list ms = true -> mtl <> Some [] ->
  exists ls gs, write mtl ms = Ok ls /\ read ls = Ok (gs, libs_of mtl) /\ length gs = length ms /\
    forall k m g, nth_error ms k = Some m -> nth_error gs k = Some g ->
      m_name g = m_name m /\ corners g = corners m /\
      tri_mats (m_mats g) = map (fun mt => Some (mat_written mt)) (tri_mats (m_mats m)).
Proof. exact roundtrip_groups. Qed.
Print Assumptions obj_roundtrip.

(* the two halves it is made of: the writer's text is a valid OBJ whose direct meaning is the observation of
   the meshes (induction over the mesh list; the invariant is that the three running offsets equal the
   lengths of the v / vt / vn blocks of the meshes already written) ... *)
Theorem obj_write_meaning : forall mtl ms, wf_list ms = true -> mtl <> Some [] ->
  exists ls, write mtl ms = Ok ls /\ valid ls = true /\ file_groups ls = map obs_written ms /\
             lib_names ls = libs_of mtl.
Proof. exact write_sem. Qed.
Print Assumptions obj_write_meaning.

(* ... and the reader computes the direct meaning of EVERY valid line list: g / usemtl / f / v / vt / vn /
   mtllib / o / comment lines in any legal order, all four corner forms (also mixed inside one group), late
   vertex data, usemtl before g, usemtl immediately followed by g or end of input, faces before the first g
   or usemtl, bare g, repeated names, corner tokens with unusual spelling; and what it returns is well formed *)
Theorem obj_read_meaning : forall file, valid file = true ->
  exists gs, read file = Ok (gs, lib_names file) /\ map obs gs = file_groups file /\ wf_list gs = true.
Proof. exact read_valid. Qed.
Print Assumptions obj_read_meaning.

(* Clause 2: loading any valid triangulated OBJ and saving it again loses or invents no face: re-reading the
   saved text gives, group by group, the same names, the same corner contents in the same order and the same
   material on every face as the direct meaning of the original file (material names as the writer spells
   them, i.e. with spaces removed). *)
Theorem obj_load_save_faces : forall file, valid file = true ->
  exists gs1 ls gs2,
    read file = Ok (gs1, lib_names file) /\ map obs gs1 = file_groups file /\
    write None gs1 = Ok ls /\ valid ls = true /\
    read ls = Ok (gs2, []) /\ map obs gs2 = map gobs_written (file_groups file).
Proof. exact load_save. Qed.
Print Assumptions obj_load_save_faces.

(* The pinned writer (one running offset for v, vt and vn) does not round-trip: a mesh without normals
   followed by a mesh with normals is written with vn indices past the vn block and the reader crashes;
   with separate offsets (74c7928) the same list reads back with the expected observation. *)
Theorem obj_shared_offset_refuted :
  wf_list [mesh_plain; mesh_nrm] = true /\
  (exists ls, write_pinned None [mesh_plain; mesh_nrm] = Ok ls /\ read ls = Crash) /\
  (exists ls gs, write None [mesh_plain; mesh_nrm] = Ok ls /\ read ls = Ok (gs, []) /\
                 map obs gs = map obs_written [mesh_plain; mesh_nrm]).
Proof. exact shared_offset_refuted. Qed.
Print Assumptions obj_shared_offset_refuted.

(* The pinned reader carries "triangles since the last usemtl" across g: the last range of every group but
   the last keeps count 0 and load -> save -> load fails (f82d47b closes the range at g). *)
Theorem obj_group_material_refuted :
  valid file_two_groups = true /\
  resave cfg_pinned file_two_groups = Crash /\
  resave cfg_full file_two_groups = Ok (map gobs_written (file_groups file_two_groups)).
Proof. exact group_material_refuted. Qed.
Print Assumptions obj_group_material_refuted.

(* Faces before the first g load as an unnamed group, which is saved as a bare "g" line that the reader
   used to reject (331d6c1). *)
Theorem obj_bare_group_refuted :
  valid file_default_group = true /\
  resave cfg_f82 file_default_group = Declared /\
  resave cfg_full file_default_group = Ok (map gobs_written (file_groups file_default_group)).
Proof. exact bare_group_refuted. Qed.
Print Assumptions obj_bare_group_refuted.

(* A group mixing v//vn and v corners used to load as a mesh with 3 normals for 6 positions; saving and
   loading that panics (ca6f159 attaches an attribute only when every corner of the group has it). *)
Theorem obj_mixed_forms_refuted :
  valid file_mixed_forms = true /\
  resave {| close_at_g := true; bare_g := true; drop_partial := false |} file_mixed_forms = Crash /\
  resave cfg_full file_mixed_forms = Ok (map gobs_written (file_groups file_mixed_forms)).
Proof. exact mixed_forms_refuted. Qed.
Print Assumptions obj_mixed_forms_refuted.

(* Outside the property ("triangulated"): ReadMesh keeps only the first three corners of a polygon (the fan
   has two triangles, the reader returns one) and panics on relative (negative) indices. *)
Theorem obj_polygon_truncated :
  valid file_quad = false /\
  (exists gs, read file_quad = Ok (gs, []) /\ map (fun g => length (corners g)) gs = [3]) /\
  map (fun g : gobs => length (snd (fst g))) (file_groups file_quad) = [6].
Proof. exact polygon_truncated. Qed.
Print Assumptions obj_polygon_truncated.

Theorem obj_relative_index_crash : valid file_relative = false /\ read file_relative = Crash.
Proof. exact relative_index_crash. Qed.
Print Assumptions obj_relative_index_crash.

(* Why [wf_list] asks every mesh but the last to have a triangle: ReadMesh renames a group without faces
   instead of emitting it, so an empty mesh in the middle of a list comes back as one group fewer (names a, b);
   the same empty mesh at the end of the list is kept. *)
Theorem obj_empty_group_dropped :
  forallb wf_mesh [mesh_plain; mesh_empty; mesh_nrm] = true /\ wf_list [mesh_plain; mesh_empty; mesh_nrm] = false /\
  (exists ls gs, write None [mesh_plain; mesh_empty; mesh_nrm] = Ok ls /\ valid ls = true /\
                 read ls = Ok (gs, []) /\ map m_name gs = [["a"%string]; ["b"%string]]) /\
  (exists ls gs, write None [mesh_plain; mesh_nrm; mesh_empty] = Ok ls /\ read ls = Ok (gs, []) /\
                 map obs gs = map obs_written [mesh_plain; mesh_nrm; mesh_empty]).
Proof. exact empty_group_dropped. Qed.
Print Assumptions obj_empty_group_dropped.

(* non-vacuity: three meshes in the mixture the pinned writer got wrong (none / normals / uv+normals), material
   ranges with an empty range, a nil material and a name with a space; hypotheses hold, the result is computed *)
Example obj_example :
  let p4 : list vec3 := [(0, 0, 0); (1065353216, 0, 0); (0, 1065353216, 0); (1065353216, 1065353216, 0)]%N in
  let u4 : list vec2 := [(0, 0); (1065353216, 0); (0, 1065353216); (1065353216, 1065353216)]%N in
  let ms := [ {| m_name := ["a"%string]; m_idx := [0; 1; 2; 2; 1; 3]; m_pos := p4; m_uv := []; m_nrm := [];
                 m_mats := [(1, Some ["my"%string; "mat"%string]); (0, Some ["x"%string]); (1, None)] |};
              {| m_name := ["wheel"%string; "1"%string]; m_idx := [2; 1; 0]; m_pos := p4; m_uv := []; m_nrm := p4;
                 m_mats := [] |};
              {| m_name := []; m_idx := [0; 3; 1]; m_pos := p4; m_uv := u4; m_nrm := p4;
                 m_mats := [(1, Some ["red"%string])] |} ] in
  wf_list ms = true /\
  match write (Some ["m.mtl"%string]) ms with
  | Ok ls => valid ls = true /\ length ls = 38 /\
             match read ls with
             | Ok (gs, libs) => map obs gs = map obs_written ms /\ libs = ["m.mtl"%string]
             | _ => False
             end
  | _ => False
  end.
Proof. vm_compute. repeat split; reflexivity. Qed.

(* ------------------------------------------------------------------------------------------------------------
   The file level (round 4; Formats/ObjFiles.v = fs.go Load / Save / SaveAll + the material names a .mtl defines).
   [save_all ms] = (OBJ text, files written next to it); [load fs ls] = ReadMesh, then every material range gets the
   material of its name from the libraries named by mtllib ([fs]: file name -> newmtl names), or nil.
   ------------------------------------------------------------------------------------------------------------ *)
(* Clause 1 through the file system: obj.SaveAll (obj.Save = the case of one unnamed mesh) followed by obj.Load gives
   one group per mesh with the same corners in order and, on every triangle, the material of the written name - the
   .mtl written next to the .obj defines every name the usemtl lines use. *)
Theorem obj_save_load_files : forall ms, wf_list ms = true ->
  exists ls gs, fst (save_all ms) = Ok ls /\ load (snd (save_all ms)) ls = Ok gs /\ map obs gs = map obs_written ms.
Proof. exact save_load. Qed.
Print Assumptions obj_save_load_files.

(* what obj.Load returns for any valid triangulated OBJ whose libraries exist: the direct meaning of the text, a face
   keeping its material name exactly when some library defines it; and the result can be saved *)
Theorem obj_load_meaning : forall file fs defs, valid file = true -> load_defs fs (lib_names file) = Ok defs ->
  exists gs, load fs file = Ok gs /\ map obs gs = map (gobs_resolved defs) (file_groups file) /\ wf_list gs = true.
Proof. exact load_meaning. Qed.
Print Assumptions obj_load_meaning.

(* Clause 2 through the file system: Load, SaveAll, Load again - no face lost, invented or reordered, whatever the
   libraries define ([gfaces] = group name and corner contents, i.e. the observation without the materials) *)
Theorem obj_load_save_load_files : forall file fs defs, valid file = true -> load_defs fs (lib_names file) = Ok defs ->
  exists gs1 ls gs2,
    load fs file = Ok gs1 /\ fst (save_all gs1) = Ok ls /\ load (snd (save_all gs1)) ls = Ok gs2 /\
    map gfaces (map obs gs1) = map gfaces (file_groups file) /\
    map gfaces (map obs gs2) = map gfaces (file_groups file) /\
    map obs gs2 = map gobs_written (map (gobs_resolved defs) (file_groups file)).
Proof. exact load_save_load_full. Qed.
Print Assumptions obj_load_save_load_files.

(* a library that does not exist is a declared error (nothing is returned, nothing can be lost silently) *)
Theorem obj_load_missing_library : forall file fs, valid file = true -> load_defs fs (lib_names file) = Declared ->
  load fs file = Declared.
Proof. exact load_missing_library. Qed.
Print Assumptions obj_load_missing_library.

(* recorded behaviour, allowed by the property (no face is lost): a usemtl name that no library defines loads as the
   nil material and is therefore saved as DefaultDiffuse; witness: red undefined, blue defined *)
Theorem obj_load_undefined_material_becomes_default :
  valid file_undefined_material = true /\
  (exists gs, load [("a.mtl"%string, [["blue"%string]])] file_undefined_material = Ok gs /\
     map (fun g => tri_mats (m_mats g)) gs = [[None; Some ["blue"%string]]] /\
     exists ls gs2, fst (save_all gs) = Ok ls /\ load (snd (save_all gs)) ls = Ok gs2 /\
       map (fun g => tri_mats (m_mats g)) gs2 = [[Some ["DefaultDiffuse"%string]; Some ["blue"%string]]]) /\
  load [] file_undefined_material = Declared.
Proof. exact undefined_material_becomes_default. Qed.
Print Assumptions obj_load_undefined_material_becomes_default.

(* non-vacuity of the file-level theorems: two named meshes, one with ranges red / nil / "my mat"; the hypotheses hold
   and Load of what SaveAll wrote is computed *)
Example obj_files_example :
  let p3 : list vec3 := [(0, 0, 0); (1065353216, 0, 0); (0, 1065353216, 0)]%N in
  let ms := [ {| m_name := ["a"%string]; m_idx := [0; 1; 2; 2; 1; 0; 1; 2; 0]; m_pos := p3; m_uv := []; m_nrm := p3;
                 m_mats := [(1, Some ["red"%string]); (1, None); (1, Some ["my"%string; "mat"%string])] |};
              {| m_name := ["b"%string]; m_idx := [0; 2; 1]; m_pos := p3; m_uv := []; m_nrm := []; m_mats := [] |} ] in
  wf_list ms = true /\
  snd (save_all ms) = [(mtl_file, [["red"%string]; ["DefaultDiffuse"%string]; ["mymat"%string]])] /\
  match fst (save_all ms) with
  | Ok ls => match load (snd (save_all ms)) ls with
             | Ok gs => map obs gs = map obs_written ms
             | _ => False
             end
  | _ => False
  end.
Proof. vm_compute. repeat split; reflexivity. Qed.

(* ------------------------------------------------------------------------------------------------------------
   The text layer (Formats/ObjText.v): bytes -> lines (bufio.ScanLines) -> fields (strings.Fields) -> statements.
   ------------------------------------------------------------------------------------------------------------ *)
Open Scope N_scope.

(* every byte string tokenises: statements are non-empty lists of non-empty blank-free tokens, each is classified *)
Theorem obj_text_layer_total : forall pf pi pri text,
  Forall (fun fs => fs <> [] /\ Forall (fun t => cleanb t = true) fs) (stmts text) /\
  length (lines_of_bytes pf pi pri text) = length (stmts text).
Proof. exact text_layer_total. Qed.
Print Assumptions obj_text_layer_total.

(* a last line without terminator is kept: with or without a final '\n' a text has the same statements
   (the seeded reader that drops an unterminated last line - C05-F - contradicts exactly this) *)
Theorem obj_text_last_line_without_newline_kept : forall text, stmts (text ++ [10]) = stmts text.
Proof. exact last_line_without_newline_kept. Qed.
Print Assumptions obj_text_last_line_without_newline_kept.

(* the statements of a text are those of its lines in order *)
Theorem obj_text_lines_compose : forall a b, stmts (a ++ 10 :: b) = stmts a ++ stmts b.
Proof. exact stmts_nl. Qed.
Print Assumptions obj_text_lines_compose.

(* CRLF instead of LF changes nothing *)
Theorem obj_text_crlf_ignored : forall text, stmts (crlf text) = stmts text.
Proof. exact crlf_ignored. Qed.
Print Assumptions obj_text_crlf_ignored.

(* blank lines are no statements; a '#' line is the statement Other, which reader and direct meaning skip *)
Theorem obj_text_blank_and_comment_lines_ignored :
  (forall a l b, forallb is_space l = true -> stmts (a ++ 10 :: l ++ 10 :: b) = stmts (a ++ 10 :: b)) /\
  (forall pf pi pri k args, classify pf pi pri ((35 :: k) :: args) = TL Other) /\
  (forall cfg a b, read_gen cfg (a ++ Other :: b) = read_gen cfg (a ++ b)) /\
  (forall a b, file_groups (a ++ Other :: b) = file_groups (a ++ b)).
Proof. exact blank_and_comment_lines_ignored. Qed.
Print Assumptions obj_text_blank_and_comment_lines_ignored.

(* number text is a parameter: [prf w] / [pri z] print one blank-free token (no '/' in integers) that parses back *)
Definition number_text_ok (pf : list N -> option N) (pi : list N -> option Z) (prf : N -> list N) (pri : Z -> list N) :=
  (forall w, cleanb (prf w) = true /\ pf (prf w) = Some w) /\
  (forall z, cleanb (pri z) = true /\ no47 (pri z) = true /\ pi (pri z) = Some z).

(* reading the bytes the writer prints for its statements gives back exactly those statements *)
Theorem obj_text_print_then_read : forall pf pi prf pri, number_text_ok pf pi prf pri ->
  forall ls, Forall printable ls -> lines_of_bytes pf pi pri (print_lines prf pri ls) = map TL ls.
Proof. intros pf pi prf pri [H1 H2]. exact (print_then_read pf pi prf pri H1 H2). Qed.
Print Assumptions obj_text_print_then_read.

(* Clause 1 over BYTES: the text WriteMeshes prints (as bytes) tokenises to the writer's statements and reads back
   group by group; [mesh_clean]: group names and written material names consist of non-empty blank-free pieces *)
Theorem obj_roundtrip_bytes : forall pf pi prf pri, number_text_ok pf pi prf pri ->
  forall mtl ms, wf_list ms = true -> mtl <> Some [] ->
  Forall mesh_clean ms -> match mtl with Some f => clean_name f | None => True end ->
  exists text gs, write_bytes prf pri mtl ms = Ok text /\
    lines_of_bytes pf pi pri text = map TL (match write mtl ms with Ok ls => ls | _ => [] end) /\
    read_bytes pf pi pri text = Ok (gs, libs_of mtl) /\ length gs = length ms /\
    forall k m g, nth_error ms k = Some m -> nth_error gs k = Some g ->
      m_name g = m_name m /\ corners g = corners m /\
      tri_mats (m_mats g) = map (fun mt => Some (mat_written mt)) (tri_mats (m_mats m)).
Proof. intros pf pi prf pri [H1 H2]. exact (roundtrip_bytes pf pi prf pri H1 H2). Qed.
Print Assumptions obj_roundtrip_bytes.

(* Clause 2 over BYTES (was obj_load_save_bytes_partial until round 4; the side premise "the names the reader returns
   are printable" is now proved: they are fields of the input or the constant "Default", an invariant through the
   reader state).  For every byte string (values < 256) whose statements all parse and form a valid triangulated OBJ:
   read_bytes / write_bytes / read_bytes succeed and no face is lost or invented. *)
Theorem obj_load_save_bytes : forall pf pi prf pri, number_text_ok pf pi prf pri ->
  forall text file, bytes_ok text -> good_prefix (lines_of_bytes pf pi pri text) = (file, false) -> valid file = true ->
  exists gs1 text2 gs2,
    read_bytes pf pi pri text = Ok (gs1, lib_names file) /\ map obs gs1 = file_groups file /\
    write_bytes prf pri None gs1 = Ok text2 /\
    read_bytes pf pi pri text2 = Ok (gs2, []) /\ map obs gs2 = map gobs_written (file_groups file).
Proof. intros pf pi prf pri [H1 H2]. exact (load_save_bytes pf pi prf pri H1 H2). Qed.
Print Assumptions obj_load_save_bytes.

(* the invariant behind it: whatever ReadMesh returns carries only names that were arguments of g / usemtl lines
   (or "Default"), for every configuration of the reader *)
Theorem obj_read_names_from_input : forall cfg ls gs libs, Forall line_clean ls -> read_gen cfg ls = Ok (gs, libs) ->
  Forall mesh_src_clean gs.
Proof. exact read_names_clean. Qed.
Print Assumptions obj_read_names_from_input.

(* non-vacuity of obj_load_save_bytes: a byte text (CRLF, comment, usemtl with a two-piece name, g, v//vn corners)
   satisfies the three hypotheses *)
Example obj_load_save_bytes_example :
  let text := kw "v 0 0 0" ++ [13; 10] ++ kw "v 1 0 0" ++ [10] ++ kw "v 0 1 0" ++ [10] ++ kw "vn 0 0 1" ++ [10] ++
              kw "# c" ++ [10] ++ kw "usemtl my mat" ++ [10] ++ kw "f 1//1 2//1 3//1" ++ [10] ++ kw "g b" ++ [10] ++ kw "f 3 2 1" in
  bytes_okb text = true /\
  match good_prefix (lines_of_bytes (fun _ => Some 7) atoi itoa text) with
  | (file, false) => valid file = true /\ length (file_groups file) = 2%nat
  | _ => False
  end.
Proof. vm_compute. repeat split; reflexivity. Qed.

(* non-vacuity of the text layer: CRLF, tabs, a comment, a blank line, an unterminated last f line *)
Example obj_text_example :
  lines_of_bytes (fun _ => Some 7) atoi itoa
    (kw "v 0 0 0" ++ [13; 10] ++ kw "v 1	0  0 " ++ [10] ++ kw "# c" ++ [10; 32; 10] ++ kw "v 0 1 0" ++ [10] ++ kw "f 1 02 3//")
  = [TL (V (7, 7, 7)); TL (V (7, 7, 7)); TL Other; TL (V (7, 7, 7));
     TL (F (1%Z, None, None, 0) (2%Z, None, None, enc (kw "02")) (3%Z, None, None, enc (kw "3//")))].
Proof. vm_compute. reflexivity. Qed.
