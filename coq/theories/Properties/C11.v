(* C11 — node outputs are never stale; nodes recompute only when needed.
   Statements only; the proofs live in Graph/NodesProofs.v, the model (nodes.Struct.Value / Outdated /
   process / SetInput / Dependencies, parameter nodes) in Graph/Nodes.v.

   Vocabulary: a history is a list of operations SetParam / Connect / Disconnect / Read applied from
   [init ds] (node declarations, nothing connected); [run] returns None when an operation is rejected
   (the Go call panics with a declared error) or would close a cycle.  [eval_now s n] evaluates node n
   from scratch on the current wiring and parameter values, ignoring every cache.  The order in which
   Dependencies() lists the inputs is an oracle; [sorted_oracle] is the repaired code (sort by name),
   [oracle_ok] only asks that each enumeration is a permutation of the inputs (a Go map iteration). *)
From Coq Require Import String.
From PF Require Import Base.Bytes Graph.Nodes Graph.NodesProofs Graph.NodesMore Graph.NodesLazy Graph.NodesLazyProofs Graph.NodesLazyHist.
Local Open Scope nat_scope.

(* Sentence 1: reading a node output returns the value that evaluating the current graph from scratch
   with the current parameter values returns — after every history, for every node. *)
Theorem read_fresh : forall ds h s n s' v,
  run sorted_oracle (init ds) h = Some s ->
  read sorted_oracle s n = Some (s', v) ->
  eval_now s n = Some v.
Proof.
  intros ds h s n s' v H R.
  exact (proj1 (read_fresh_any_order sorted_oracle ds h s n s' v sorted_oracle_ok H R)).
Qed.
Print Assumptions read_fresh.

(* Freshness does not depend on the order in which dependencies are enumerated: the positional
   comparison of a permuted version vector can only err towards "outdated".  Holds for EVERY oracle
   that returns permutations, even one that changes from call to call (the pinned map iteration).
   The read leaves wiring and parameters alone, and the node still shows the fresh value after it. *)
Theorem stale_never_missed_any_order : forall orc ds h s n s' v,
  oracle_ok orc ->
  run orc (init ds) h = Some s ->
  read orc s n = Some (s', v) ->
  eval_now s n = Some v /\ eval_now s' n = Some v /\ graph_of (nodes s') = graph_of (nodes s).
Proof. exact read_fresh_any_order. Qed.
Print Assumptions stale_never_missed_any_order.

(* Processors that FAIL.  Data.Process() returns (value, error); nodes.Struct stores both, Value() serves the
   value component whatever the error, and the error is never read back (State() is Stale or Processed,
   Version() counts failed runs, Outdated() ignores it) — so [procfn] of the model is the value component
   and every theorem here already quantifies over failing processors.  Made explicit: if the processors are
   the value components [served p] of error-returning functions p (graph og), the value a read returns is
   the value component of the from-scratch OUTCOME [eval_outcome] of the node, success or error alike,
   whatever failed or succeeded earlier in the history, under every enumeration order.
   Restriction (stated, not a gap of the proof): the stored error flag itself is not part of the model's
   state because no method of the pinned/repaired code returns it. *)
Theorem read_fresh_error_path : forall orc ds h s n s' v og,
  oracle_ok orc ->
  run orc (init ds) h = Some s ->
  read orc s n = Some (s', v) ->
  graph_of (nodes s) = map oerase og ->
  exists failed, eval_outcome (fuel_of (nodes s)) og n = Some (v, failed).
Proof. exact read_fresh_outcome. Qed.
Print Assumptions read_fresh_error_path.

(* TOTALITY: after every history, reading any existing node returns (acyclicity is an invariant — Connect
   refuses to close a cycle, Disconnect only removes edges — and fuel = number of nodes + 1 suffices); so the
   hypothesis "read … = Some …" of the theorems above is never vacuous, and freshness can be stated without it. *)
Lemma sorted_stable_oracle : stable_oracle sorted_oracle.
Proof. intros c. exact sorted_order_stable. Qed.

Theorem read_total_and_fresh : forall ds h s n,
  run sorted_oracle (init ds) h = Some s -> n < length (nodes s) ->
  exists s' v, read sorted_oracle s n = Some (s', v) /\ eval_now s n = Some v.
Proof.
  intros ds h s n R Hn.
  destruct (read_total sorted_oracle ds h s n sorted_stable_oracle R Hn) as (s' & v & Hr).
  exists s', v. split; auto.
  exact (proj1 (read_fresh_any_order sorted_oracle ds h s n s' v sorted_oracle_ok R Hr)).
Qed.
Print Assumptions read_total_and_fresh.

(* Processors that PANIC (third outcome of a read).  Model ([pvalue], Graph/Nodes.v): when Data.Process() of a node
   panics — its own code or a dependency's Value() called from it — the panic unwinds through process() and
   Value(): nothing of that node (value, version, depVersions, flag) is updated, dependencies whose Value() had
   already returned keep what their own evaluation committed; the caller recovers.  [prun] = histories whose
   reads may panic ([pan] tells which processor panics on which input values); [eval_p] = from-scratch
   evaluation with panics (inputs in declaration order, the first panic aborts).
   THREE-OUTCOME FRESHNESS, both directions: after any such history every read of an existing node returns
   ([read_three_outcomes_total]) and its outcome — a value or a panic — IS the outcome of the from-scratch
   evaluation of the current wiring and parameters: it panics iff the from-scratch evaluation panics and
   otherwise returns its value, whatever panicked, failed or succeeded before.  The read leaves the wiring
   alone and Version() still equals the number of completed executions.  (Stable enumeration order = the
   repaired code; for arbitrary permutation oracles the value direction is [read_fresh_panics_any_order].) *)
Theorem read_fresh_three_outcomes : forall pan orc ds h s n st' r,
  stable_oracle orc ->
  prun pan orc (init ds) h = Some s ->
  pvalue (orc (clock s)) pan (fuel_of (nodes s)) (nodes s) n = Some (st', r) ->
  eval_p pan (fuel_of (nodes s)) (graph_of (nodes s)) n = Some r /\ graph_of st' = graph_of (nodes s) /\ VC st'.
Proof. exact read_outcome_fresh. Qed.
Print Assumptions read_fresh_three_outcomes.

Theorem read_three_outcomes_total : forall pan orc ds h s n,
  stable_oracle orc -> prun pan orc (init ds) h = Some s -> n < length (nodes s) ->
  exists st' r, pvalue (orc (clock s)) pan (fuel_of (nodes s)) (nodes s) n = Some (st', r).
Proof. exact pread_total. Qed.
Print Assumptions read_three_outcomes_total.

(* every permutation oracle: a read that returns a value returns the from-scratch value; a read that panics does
   so because some processor panics on the from-scratch values of its inputs *)
Theorem read_fresh_panics_any_order : forall pan orc ds h s n st' r,
  oracle_ok orc ->
  prun pan orc (init ds) h = Some s ->
  pvalue (orc (clock s)) pan (fuel_of (nodes s)) (nodes s) n = Some (st', r) ->
  match r with
  | POk v => eval_now s n = Some v
  | PPanic => genuine pan (graph_of (nodes s))
  end /\ graph_of st' = graph_of (nodes s) /\ VC st'.
Proof. exact read_fresh_with_panics. Qed.
Print Assumptions read_fresh_panics_any_order.

(* Sentence 2 for histories with failing and panicking processors ([execs_of] counts COMPLETED executions; an
   execution that panicked does not count; a failed one — error result — does): once n completed an execution it
   is neither executed nor attempted again, and State() stays Processed, during any continuation none of whose
   operations sets a parameter of its cone or re-wires a node of its cone — whatever panics elsewhere. *)
Theorem exec_only_if_cone_changed_with_panics : forall pan ds h1 s0 o s0' h2 s1 n,
  prun pan sorted_oracle (init ds) h1 = Some s0 ->
  pstep pan sorted_oracle s0 o = Some s0' ->
  execs_of (nodes s0') n <> execs_of (nodes s0) n ->
  prun pan sorted_oracle s0' h2 = Some s1 ->
  Forall (fun o' => ~ touches (graph_of (nodes s0')) n o') h2 ->
  execs_of (nodes s1) n = execs_of (nodes s0') n /\ clean sorted_order (nodes s1) n.
Proof.
  intros pan ds h1 s0 o s0' h2 s1 n.
  exact (exec_only_if_cone_touched_panics pan sorted_order ds h1 s0 o s0' h2 s1 n sorted_order_stable).
Qed.
Print Assumptions exec_only_if_cone_changed_with_panics.

(* What a read that PANICS leaves behind, i.e. what re-executes afterwards: nodes that were clean are untouched
   and stay clean; every node that completed during it is clean (and will not run again, by the theorem above);
   no node whose from-scratch evaluation panics — the failed path: the panicking node and everything above it — is
   marked up to date, and the node read did not complete.  So the next read re-attempts exactly the failed path
   (plus nodes that were stale and never reached) and panics again unless parameters or wiring changed. *)
Theorem panicked_read_reexecutes_failed_path : forall pan ds h s n st' r,
  prun pan sorted_oracle (init ds) h = Some s ->
  pvalue sorted_order pan (fuel_of (nodes s)) (nodes s) n = Some (st', r) ->
  (forall m, clean sorted_order (nodes s) m -> nth_error st' m = nth_error (nodes s) m /\ clean sorted_order st' m) /\
  (forall m, execs_of st' m <> execs_of (nodes s) m -> clean sorted_order st' m) /\
  (forall m f, eval_p pan f (graph_of st') m = Some PPanic -> ~ clean sorted_order st' m) /\
  (r = PPanic -> execs_of st' n = execs_of (nodes s) n).
Proof.
  intros pan ds h s n st' r.
  exact (panicked_read_commits pan sorted_order ds h s n st' r sorted_order_stable).
Qed.
Print Assumptions panicked_read_reexecutes_failed_path.

(* Sentence 2, first half (stable order = the repaired code): once node n has executed (in step o,
   reaching s0'), it does not execute again during any continuation h2 none of whose operations sets
   a parameter in the dependency cone of n or re-wires a node of that cone (n itself included; cone
   taken in the wiring at s0').  Equivalently: n executes during a read only if it never executed
   before, or a parameter it transitively depends on was set, or wiring in its cone changed, since its
   last execution.  (The property text says "its own wiring"; freshness forces re-execution when an
   upstream node is re-wired, so the cone is the weakest statement compatible with sentence 1.) *)
Theorem exec_only_if_cone_changed : forall ds h1 s0 o s0' res h2 s1 n,
  run sorted_oracle (init ds) h1 = Some s0 ->
  step sorted_oracle s0 o = Some (s0', res) ->
  execs_of (nodes s0') n <> execs_of (nodes s0) n ->
  run sorted_oracle s0' h2 = Some s1 ->
  Forall (fun o' => ~ touches (graph_of (nodes s0')) n o') h2 ->
  execs_of (nodes s1) n = execs_of (nodes s0') n.
Proof.
  intros ds h1 s0 o s0' res h2 s1 n.
  exact (exec_only_if_cone_touched sorted_order ds h1 s0 o s0' res h2 s1 n sorted_order_stable).
Qed.
Print Assumptions exec_only_if_cone_changed.

(* the same for every stable enumeration order, with the ghost change counters ([ctr] = number of
   updates of a parameter / number of SetInput calls on a struct node), and State() stays Processed *)
Theorem exec_only_if_cone_changed_counters : forall po ds h1 s0 o s0' res h2 s1 n,
  stable po ->
  run (const_oracle po) (init ds) h1 = Some s0 ->
  step (const_oracle po) s0 o = Some (s0', res) ->
  execs_of (nodes s0') n <> execs_of (nodes s0) n ->
  run (const_oracle po) s0' h2 = Some s1 ->
  (forall m, reach (graph_of (nodes s0')) n m -> ctr (nodes s1) m = ctr (nodes s0') m) ->
  execs_of (nodes s1) n = execs_of (nodes s0') n /\ clean po (nodes s1) n.
Proof. exact no_exec_while_cone_untouched. Qed.
Print Assumptions exec_only_if_cone_changed_counters.

(* Sentence 2, second half: Version() of a struct node = number of calls of Data.Process(), Version()
   of a parameter = number of updates — in every reachable state, under every enumeration order; so
   the version increases by exactly one per execution and never otherwise. *)
Theorem version_counts_execs : forall orc ds h s,
  run orc (init ds) h = Some s ->
  forall n, match nth_error (nodes s) n with
            | Some (Struct sn) => sn_ver sn = sn_execs sn
            | Some (Param ver _ sets) => ver = sets
            | None => True
            end.
Proof. exact version_counts. Qed.
Print Assumptions version_counts_execs.

(* The pinned tree (dependencies enumerated through a Go map, so the order when recording versions
   and the order when comparing them may differ): "recompute only when needed" is FALSE.  Witness:
   two parameters with different versions feeding a two-input node; after a read, two more reads with
   nothing in between each execute the node again.  Freshness still holds (value 8 = 3 + 5). *)
Theorem spurious_refuted :
  exists orc ds h s1 s2 s3 n v,
    oracle_ok orc /\
    run orc (init ds) h = Some s1 /\ execs_of (nodes s1) n = 1 /\
    read orc s1 n = Some (s2, v) /\ execs_of (nodes s2) n = 2 /\
    read orc s2 n = Some (s3, v) /\ execs_of (nodes s3) n = 3 /\
    eval_now s1 n = Some v.
Proof.
  destruct spurious_witness as (s1 & s2 & s3 & H).
  exists (const_oracle flip_order), spurious_decls, spurious_hist, s1, s2, s3, 2, 8%Z.
  split; [exact flip_oracle_ok | exact H].
Qed.
Print Assumptions spurious_refuted.

(* non-vacuity: the same history under the repaired order reaches states, the reads succeed, and
   node 2 executes exactly once *)
Example c11_example :
  exists s1 s2 s3,
    run sorted_oracle (init spurious_decls) spurious_hist = Some s1 /\
    execs_of (nodes s1) 2 = 1 /\
    read sorted_oracle s1 2 = Some (s2, 8%Z) /\ execs_of (nodes s2) 2 = 1 /\
    read sorted_oracle s2 2 = Some (s3, 8%Z) /\ execs_of (nodes s3) 2 = 1.
Proof. exact sorted_witness. Qed.

(* non-vacuity of the error path: parameter -> node 1 (fails iff its input is divisible by 3, returning -1
   next to the error) -> node 2 (+100).  With the parameter at 3 node 1 fails and node 2 serves 99; after the
   parameter is set to 4, reading node 2 WITHOUT reading node 1 first re-executes both and serves 104, the
   from-scratch outcome. *)
Example c11_failing_example :
  exists s1 s2 s3,
    run sorted_oracle (init failing_decls) [Connect 1 "In"%string 0; Connect 2 "In"%string 1] = Some s1 /\
    read sorted_oracle s1 2 = Some (s2, 99%Z) /\ eval_outcome 4 (failing_og 3%Z) 1 = Some ((-1)%Z, true) /\
    run sorted_oracle s2 [SetParam 0 4%Z] = Some s3 /\
    (exists s4, read sorted_oracle s3 2 = Some (s4, 104%Z) /\ execs_of (nodes s4) 1 = 2 /\ execs_of (nodes s4) 2 = 2) /\
    graph_of (nodes s3) = map oerase (failing_og 4%Z) /\ eval_outcome 4 (failing_og 4%Z) 2 = Some (104%Z, false).
Proof. exact failing_witness. Qed.

(* non-vacuity of the panic path: same graph, node 1 PANICS when its input is divisible by 3.  Parameter 4: node 2
   serves 104.  Parameter 3: the read of node 2 panics, twice in a row (nothing was marked up to date), node 1
   keeps version 1 and stays Stale.  Parameter 5: node 2 serves 105, the from-scratch value. *)
Example c11_panicking_example :
  let pan : pantab := fun n ins => (n =? 1) && (fold_right Z.add 0%Z (concat ins) mod 3 =? 0)%Z in
  let ds := [DParam 4%Z; DStruct [("In"%string, false)] sum_proc; DStruct [("In"%string, false)] (served plus100_p)] in
  exists s1 s2 s3,
    prun pan sorted_oracle (init ds) [Connect 1 "In"%string 0; Connect 2 "In"%string 1; Read 2; SetParam 0 3%Z] = Some s1 /\
    (exists st, pvalue sorted_order pan (fuel_of (nodes s1)) (nodes s1) 2 = Some (st, PPanic)) /\
    prun pan sorted_oracle s1 [Read 2; Read 2] = Some s2 /\
    ver_of (nodes s2) 1 = Some 1 /\ state_of sorted_order (nodes s2) 1 = Some true /\
    eval_p pan 4 (graph_of (nodes s2)) 2 = Some PPanic /\
    prun pan sorted_oracle s2 [SetParam 0 5%Z] = Some s3 /\
    (exists st, pvalue sorted_order pan (fuel_of (nodes s3)) (nodes s3) 2 = Some (st, POk 105%Z)).
Proof.
  cbv zeta. eexists. eexists. eexists.
  split; [vm_compute; reflexivity|]. split; [eexists; vm_compute; reflexivity|].
  split; [vm_compute; reflexivity|]. split; [vm_compute; reflexivity|]. split; [vm_compute; reflexivity|].
  split; [vm_compute; reflexivity|]. split; [vm_compute; reflexivity|]. eexists; vm_compute; reflexivity.
Qed.

(* ====================================================================================================== *)
(* Round 4 additions (proofs in Graph/NodesMore.v)                                                          *)

(* TOTALITY + FRESHNESS for EVERY permutation oracle — also one that changes from call to call (the pinned map
   iteration): after every history, reading any existing node returns, and returns the from-scratch value.
   No hypothesis on the read, none on the order beyond "each enumeration lists the inputs". *)
Theorem read_total_and_fresh_any_order : forall orc ds h s n,
  oracle_ok orc -> run orc (init ds) h = Some s -> n < length (nodes s) ->
  exists s' v, read orc s n = Some (s', v) /\ eval_now s n = Some v.
Proof.
  intros orc ds h s n OK R Hn.
  destruct (read_total_any_order orc ds h s n OK R Hn) as (s' & v & Hr).
  exists s', v. split; auto.
  exact (proj1 (read_fresh_any_order orc ds h s n s' v OK R Hr)).
Qed.
Print Assumptions read_total_and_fresh_any_order.

(* A second read is a no-op.  After reading node n, reading n again — or any node m of its cone — returns the
   from-scratch value (for n: the same v) and leaves the WHOLE node table unchanged: nothing executes, no
   version moves, nothing is re-recorded. *)
Theorem second_read_is_noop : forall ds h s n s1 v m,
  run sorted_oracle (init ds) h = Some s -> read sorted_oracle s n = Some (s1, v) ->
  reach (graph_of (nodes s1)) n m ->
  exists s2 w, read sorted_oracle s1 m = Some (s2, w) /\ nodes s2 = nodes s1 /\ eval_now s1 m = Some w /\
               (m = n -> w = v).
Proof.
  intros ds h s n s1 v m.
  exact (read_cone_again_noop sorted_order ds h s n s1 v m sorted_order_stable).
Qed.
Print Assumptions second_read_is_noop.

(* "its version increases by exactly one per execution": during ONE read every node executes at most once, and
   the version of every struct node grows by exactly the number of its executions during that read (0 or 1). *)
Theorem at_most_one_execution_per_read : forall ds h s n s' v m,
  run sorted_oracle (init ds) h = Some s -> read sorted_oracle s n = Some (s', v) ->
  execs_of (nodes s) m <= execs_of (nodes s') m <= S (execs_of (nodes s) m).
Proof.
  intros ds h s n s' v m R Hr.
  exact (exec_at_most_once_per_read sorted_order ds h s n s' v sorted_order_stable R Hr m).
Qed.
Print Assumptions at_most_one_execution_per_read.

Theorem version_step_per_read : forall ds h s n s' v m sn sn',
  run sorted_oracle (init ds) h = Some s -> read sorted_oracle s n = Some (s', v) ->
  nth_error (nodes s) m = Some (Struct sn) -> nth_error (nodes s') m = Some (Struct sn') ->
  sn_ver sn' - sn_ver sn = sn_execs sn' - sn_execs sn /\ sn_ver sn <= sn_ver sn' <= S (sn_ver sn).
Proof.
  intros ds h s n s' v m sn sn'.
  exact (read_version_step sorted_order ds h s n s' v m sn sn' sorted_order_stable).
Qed.
Print Assumptions version_step_per_read.

(* ... and this too is FALSE for the pinned map order: in a diamond, ONE read executes the shared two-input node
   twice (the second consumer compares the remembered versions in the other order); the value read is right. *)
Theorem once_per_read_refuted :
  exists orc ds h s1 s2 n m v,
    oracle_ok orc /\ run orc (init ds) h = Some s1 /\ read orc s1 n = Some (s2, v) /\
    execs_of (nodes s2) m = 2 + execs_of (nodes s1) m /\ eval_now s1 n = Some v.
Proof.
  destruct twice_witness as (s1 & s2 & R & E0 & Hr & E2 & Ev).
  exists (const_oracle flip_order), twice_decls, twice_hist, s1, s2, 5, 2, 16%Z.
  split; [exact flip_oracle_ok|]. split; [exact R|]. split; [exact Hr|]. split; [rewrite E2, E0; reflexivity | exact Ev].
Qed.
Print Assumptions once_per_read_refuted.

(* COMPLETENESS of State() (the converse of "a clean node stays clean while its cone is untouched"): right after
   an accepted update of parameter p — even to the value it already has — every other node whose cone contains p
   reports Stale; right after an accepted Connect / Disconnect on node t, every node whose cone contains t
   (t included) reports Stale.  Under every enumeration order, for the history and for the question alike.
   Together with [exec_only_if_cone_changed_counters]: State() = Stale exactly when the cone was touched since
   the node's last execution (or it never executed). *)
Theorem state_stale_after_parameter_update : forall orc ds h s p v s' r n po,
  oracle_ok orc -> perm_ok po ->
  run orc (init ds) h = Some s -> step orc s (SetParam p v) = Some (s', r) ->
  reach (graph_of (nodes s')) n p -> n <> p ->
  state_of po (nodes s') n = Some true.
Proof.
  intros orc ds h s p v s' r n po OK PO R Hs Hr Hne.
  exact (state_stale_after_set_param orc ds h s p v s' r n OK R Hs Hr Hne po PO).
Qed.
Print Assumptions state_stale_after_parameter_update.

Theorem state_stale_after_rewiring : forall orc ds h s o s' r n po,
  oracle_ok orc -> perm_ok po ->
  run orc (init ds) h = Some s -> step orc s o = Some (s', r) ->
  (match o with Connect _ _ _ | Disconnect _ _ => True | _ => False end) ->
  reach (graph_of (nodes s')) n (NodesProofs.target o) ->
  state_of po (nodes s') n = Some true.
Proof.
  intros orc ds h s o s' r n po OK PO R Hs Ho Hr.
  exact (state_stale_after_rewire orc ds h s o s' r n OK R Hs Ho Hr po PO).
Qed.
Print Assumptions state_stale_after_rewiring.

(* non-vacuity of the round 4 statements: the diamond under the repaired order executes the shared node once in
   the read; a parameter update to the SAME value turns its consumer Stale and the next read executes it *)
Example c11_once_example :
  exists s1 s2,
    run sorted_oracle (init twice_decls) twice_hist = Some s1 /\ execs_of (nodes s1) 2 = 0 /\
    read sorted_oracle s1 5 = Some (s2, 16%Z) /\ execs_of (nodes s2) 2 = 1.
Proof. exact once_witness. Qed.

Example c11_state_example :
  exists s1 s2 s3,
    run sorted_oracle (init spurious_decls) spurious_hist = Some s1 /\ state_of sorted_order (nodes s1) 2 = Some false /\
    run sorted_oracle s1 [SetParam 0 3%Z] = Some s2 /\ state_of sorted_order (nodes s2) 2 = Some true /\
    read sorted_oracle s2 2 = Some (s3, 8%Z) /\ execs_of (nodes s3) 2 = 2 /\ state_of sorted_order (nodes s3) 2 = Some false.
Proof. exact state_witness. Qed.

(* ====================================================================================================== *)
(* Processors that do NOT read every input (Graph/NodesLazy.v; /repo 6677351: Outdated() skips the dependencies
   that were still Stale when the last run finished).  Every theorem above is about processors that read every
   port; for those the repaired code behaves exactly as before (all flags false).

   FULL statement wanted: [read_fresh] and [exec_only_if_cone_changed] for histories of [lrun] (processors with a
   reading discipline [stops]).  PROVED (partial): its induction step, the soundness of skipping — for a node that
   looks clean locally and whose record is what process() wrote (remembered versions sv / values sx, flags U,
   every input the run consulted is flagged read), Outdated() = false implies that the cached value is what
   Process() computes from the from-scratch values E of its inputs, WHATEVER value the unread inputs have now.
   Not proved: that every history preserves that record (needs the analogue of Parts 2, 3, 5 of NodesProofs.v over
   the read cone).  The harness judges such histories on the Go side (stream "lazy-processors"). *)
Theorem unread_inputs_skipped_soundly_partial :
  forall po (stops : id -> stopfn) f st ur n sn dv (sv : id -> nat) (sx E : id -> val) (U : id -> bool),
  perm_ok po ->
  nth_error st n = Some (Struct sn) -> sn_depvers sn = Some dv -> sn_dirty sn = false ->
  dv = map sv (enum po n sn) -> flags_of ur n = map U (enum po n sn) ->
  sn_cache sn = sn_proc sn (cut (stops n) (map (map sx) (ids_of sn))) ->
  (forall d, In d (deps_ids sn) -> U d = false -> sv d = verT st d -> sx d = outT st d) ->
  (forall j l d, j < length (cut (stops n) (map (map sx) (ids_of sn))) -> nth_error (ids_of sn) j = Some l -> In d l -> U d = false) ->
  lstale po (S f) st ur n = Some false ->
  (forall d, In d (deps_ids sn) -> lstale po f st ur d = Some false -> E d = outT st d) ->
  sn_cache sn = sn_proc sn (cut (stops n) (map (map E) (ids_of sn))).
Proof. exact skip_unread_sound. Qed.
Print Assumptions unread_inputs_skipped_soundly_partial.

(* ... and, by induction over the depth of the graph: in EVERY state whose records are what process() writes ([LInv]:
   per locally clean node the remembered versions / values, the flags, "every consulted input is flagged read") and
   whose processors look only at the prefix they read ([lazy_procs]), a node the repaired Outdated() calls up to
   date shows its from-scratch value — graphs of any depth, unread inputs Stale / changed / anything.
   What is still missing for [read_fresh] over [lrun]: that [lvalue] and the edits preserve [LInv]. *)
Theorem lazy_up_to_date_is_fresh_partial : forall po stops f st ur n h,
  perm_ok po -> LInv po stops st ur -> lazy_procs stops st ->
  depth f (graph_of st) n = Some h -> lstale po f st ur n = Some false ->
  eval_scratch f (graph_of st) n = Some (outT st n).
Proof. intros po stops f st ur n h PO. exact (lstale_false_eval po stops PO f st ur n h). Qed.
Print Assumptions lazy_up_to_date_is_fresh_partial.

(* non-vacuity, and the defect itself: a gate-driven processor (node 3) that does not read its input A (node 2)
   executes once; node 2 stays Stale; the repaired Outdated() ([lstale]) reports node 3 Processed, the unrepaired
   comparison ([stale]) outdated; two idle reads and an update behind the unread input execute nothing, and the
   cache is the from-scratch value *)
Example c11_lazy_example :
  exists s1 s2,
    lrun sorted_order lazy_stops (linit lazy_decls) lazy_hist = Some s1 /\
    execs_of (fst s1) 3 = 1 /\ execs_of (fst s1) 2 = 0 /\
    flags_of (snd s1) 3 = [true; false] /\
    lstale sorted_order 5 (fst s1) (snd s1) 2 = Some true /\
    lstale sorted_order 5 (fst s1) (snd s1) 3 = Some false /\
    stale sorted_order 5 (fst s1) 3 = Some true /\
    lrun sorted_order lazy_stops s1 [Read 3; Read 3; SetParam 1 9%Z; Read 3] = Some s2 /\
    execs_of (fst s2) 3 = 1 /\
    eval_scratch 5 (graph_of (fst s2)) 3 = Some (outT (fst s2) 3).
Proof. exact lazy_witness. Qed.

(* ====================================================================================================== *)
(* The FULL statements for processors that skip inputs (proofs: Graph/NodesLazyHist.v; the two "_partial" theorems
   above are the steps they are built from).  Class: every processor reads its ports in declaration order and a
   function [stops n] of the VALUES read so far may end the reading ([lazy_procs]: as a function of all inputs it
   looks only at that prefix); graphs of any depth; the repaired, deterministic Dependencies() order (one order
   [po] for recording and comparing; any permutation).

   SENTENCE 1: after every history of parameter updates, re-wiring and reads from the unconnected graph, a read
   returns the from-scratch value of the current wiring and parameters; it leaves the wiring alone and the node read
   is up to date afterwards. *)
Theorem read_fresh_skipping_processors : forall po stops ds h s n s' v,
  perm_ok po -> lazy_procs stops (nodes (init ds)) ->
  lrun po stops (linit ds) h = Some s ->
  lvalue po stops (fuel_of (fst s)) s n = Some (s', v) ->
  eval_scratch (fuel_of (fst s)) (graph_of (fst s)) n = Some v /\
  graph_of (fst s') = graph_of (fst s) /\ lclean po s' n.
Proof. exact lazy_read_fresh. Qed.
Print Assumptions read_fresh_skipping_processors.

(* SENTENCE 2: a node that is up to date — in particular the node just read, by the theorem above — does not
   execute and stays up to date during any continuation none of whose edits (parameter update, Connect, Disconnect)
   targets a node of its READ cone: the cone through the dependencies its last run read ([rreach]: unflagged
   positions only), taken in the state the edit is applied to ([quiet]).  Inputs that were not read may change,
   be re-wired, be evaluated by others: the node does not run again.
   PARTIAL in one respect (kept visible): the premise is "up to date"; that every node that EXECUTED during a read
   (as an input of the node read) is up to date at the end of it — [Xc] of the eager development — is not proved for
   [lvalue], nor is Version() = executions restated for [lrun] (the version field moves only in [exec_node], as before). *)
Theorem exec_only_if_read_cone_changed_skipping_processors_partial : forall po stops h s s1 n,
  perm_ok po -> GoodL po stops s -> lclean po s n ->
  lrun po stops s h = Some s1 -> quiet po stops n s h ->
  execs_of (fst s1) n = execs_of (fst s) n /\ lclean po s1 n.
Proof. intros po stops h s s1 n PO. exact (lazy_exec_only_if_read_cone_touched po stops PO h s s1 n). Qed.
Print Assumptions exec_only_if_read_cone_changed_skipping_processors_partial.

(* every reachable state is "good" (the premise above is never vacuous), and the witness graph satisfies [lazy_procs] *)
Theorem reachable_states_are_good : forall po stops ds h s,
  perm_ok po -> lazy_procs stops (nodes (init ds)) -> lrun po stops (linit ds) h = Some s -> GoodL po stops s.
Proof.
  intros po stops ds h s PO LP R. exact (lrun_GoodL po stops PO _ _ _ (linit_GoodL po stops ds LP) R).
Qed.
Print Assumptions reachable_states_are_good.

Example c11_lazy_procs_example : lazy_procs lazy_stops (nodes (init lazy_decls)).
Proof. exact lazy_witness_procs. Qed.
