(* C10 — parallel variants equal their sequential counterparts on every schedule.
   Statements only; the model is Par/Partition.v + Par/Interleave.v, the proofs live in Par/ParProofs.v.

   Reading guide.  `ranges n s` is the list of half-open index ranges [a,b) that the
   *ParallelWithPoolSize entry points of modeling/mesh.go hand to their s workers for n elements
   (ws = n/s, worker i starts at ws*i, the last worker takes the remainder), `visited n s` the indices
   touched worker after worker.  A worker is the list of its atomic steps; an *execution* is any
   `interleaving` (merge) of the workers' step lists.  Every theorem below that mentions an execution
   quantifies over ALL interleavings, for every element count n (incl. n < s and s not dividing n) and
   every pool size s >= 1.

   Honest scope: the interleavings are those of the model's per-element atomic steps.  Real goroutine
   schedules, the Go memory model and the race detector are outside Coq; they are sampled by
   harness/cmd/c10 (exhaustive n <= 40 x s <= 20, -race build, GOMAXPROCS sweeps). *)
From Coq Require Import String.
From Coq Require Import List Arith ZArith Bool Permutation.
From PF Require Import Par.Partition Par.Interleave Par.ParProofs Par.ParExtra Par.ParSequence Check.C10.
From PF Require Import Par.Sites Par.SitesProofs Par.ParRound4.
From PFGen Require ParSites.
From Coq Require Import Reals.
From PF Require Par.FloatDiv.
From Flocq Require Core.
Import ListNotations.

(* ------------------------------------------------------------------ work partition (mesh.go) *)

(* For every element count and every pool size >= 1 the workers' ranges, taken worker after worker,
   enumerate 0, 1, ..., n-1: exactly, in order, hence as a permutation and without duplicates.
   Covers n < s (the first s-1 ranges are empty) and s not dividing n (the last range is longer). *)
Theorem partition_exact : forall n s, 1 <= s ->
  visited n s = seq 0 n /\ Permutation (visited n s) (seq 0 n) /\ NoDup (visited n s).
Proof.
  intros n s H. split; [exact (visited_eq_seq n s H)|].
  split; [exact (ParProofs.partition_exact n s H) | exact (visited_nodup n s H)].
Qed.
Print Assumptions partition_exact.

(* There are exactly s ranges; each is well formed and stays inside [0, n]. *)
Theorem ranges_in_bounds : forall n s,
  length (ranges n s) = s /\
  forall i a b, nth_error (ranges n s) i = Some (a, b) -> a <= b /\ b <= n.
Proof. intros n s. split; [exact (ranges_length n s) | exact (ranges_bounds n s)]. Qed.
Print Assumptions ranges_in_bounds.

(* Ranges of different workers do not overlap: the earlier worker ends before the later one starts,
   so no index belongs to two workers. *)
Theorem ranges_disjoint : forall n s i j a b c e,
  i < j -> nth_error (ranges n s) i = Some (a, b) -> nth_error (ranges n s) j = Some (c, e) -> b <= c.
Proof. exact ParProofs.ranges_disjoint. Qed.
Print Assumptions ranges_disjoint.

Theorem ranges_share_no_index : forall n s i j ri rj x,
  i <> j -> nth_error (ranges n s) i = Some ri -> nth_error (ranges n s) j = Some rj ->
  In x (span ri) -> In x (span rj) -> False.
Proof. exact ranges_no_shared_index. Qed.
Print Assumptions ranges_share_no_index.

(* What an entry point visits as a function of the pool size: the declared panic for size 0,
   otherwise 0..n-1 -- pool size 1 (delegation to the sequential code) and pool sizes >= 2 agree. *)
Theorem pool_size_irrelevant : forall n s,
  par_indices n s = if s =? 0 then None else Some (seq 0 n).
Proof. exact par_indices_spec. Qed.
Print Assumptions pool_size_irrelevant.

(* The partition computed on Go ints (floor division on Z) is the nat model for every count >= 0. *)
Theorem partition_go_ints : forall n s, 1 <= s -> visitedZ (Z.of_nat n) s = map Z.of_nat (visited n s).
Proof. exact visitedZ_nat. Qed.
Print Assumptions partition_go_ints.

(* The evaluator (Check/C10.v) judges element counts up to 2*10^6 with the partition computed on binary
   numbers: that partition is the model's, and its ranges follow each other from 0 to n. *)
Theorem partition_binary : forall n s,
  rangesN (N.of_nat n) (N.of_nat s) = map (fun r => (N.of_nat (fst r), N.of_nat (snd r))) (ranges n s)
  /\ (1 <= s -> chainN 0%N (rangesN (N.of_nat n) (N.of_nat s)) (N.of_nat n) = true).
Proof. intros n s. split; [exact (rangesN_spec n s) | exact (chainN_ranges n s)]. Qed.
Print Assumptions partition_binary.

(* ------------------------------------------------------------------ scans *)

(* ScanFloat{1,2,3}AttributeParallelWithPoolSize / ScanPrimitivesParallelWithPoolSize: in EVERY
   execution the callback invocations are, as a multiset, those of the sequential scan; the indices
   called are 0..n-1, none twice; every call carries the value stored at its own index. *)
Theorem scan_any_schedule : forall (V : Type) (d : V) (xs : list V) s e,
  1 <= s -> interleaving e (scan_workers d xs s) ->
  Permutation e (scan_seq xs)
  /\ Permutation (map fst e) (seq 0 (length xs))
  /\ NoDup (map fst e)
  /\ (forall i v, In (i, v) e -> nth_error xs i = Some v).
Proof. intros V d. exact (ParProofs.scan_any_schedule d). Qed.
Print Assumptions scan_any_schedule.

(* ------------------------------------------------------------------ modifications *)

(* ModifyFloat{1,2,3}AttributeParallelWithPoolSize: writes commute -- any two executions return the
   same array, and it is the array of the sequential entry point, modified[i] = f(i, old[i]).
   Nothing is assumed about f (it is a pure function of (i, v): "whenever the user callback is"). *)
Theorem writes_commute : forall (V : Type) (d : V) (f : nat -> V -> V) (z : V) (xs : list V) s e e',
  1 <= s -> interleaving e (modify_workers d f xs s) -> interleaving e' (modify_workers d f xs s) ->
  modify_par z xs e = modify_par z xs e' /\ modify_par z xs e = modify_seq f xs.
Proof. intros V d f. exact (ParProofs.writes_commute d f). Qed.
Print Assumptions writes_commute.

(* the sequential result spelled out: element i of the result is f i (xs[i]) *)
Theorem modify_result : forall (V : Type) (d : V) (f : nat -> V -> V) (z : V) (xs : list V) s e,
  1 <= s -> interleaving e (modify_workers d f xs s) ->
  modify_par z xs e = map (fun i => f i (nth i xs d)) (seq 0 (length xs)).
Proof.
  intros V d f z xs s e Hs H. rewrite (modify_any_schedule d f z xs s e Hs H). apply modify_seq_map.
Qed.
Print Assumptions modify_result.

(* No data race in the model: two steps of DIFFERENT workers never access the same memory cell with
   one of the accesses being a write (a step reads old[i] and writes modified[i]). *)
Theorem no_model_race : forall (V : Type) (d : V) (f : nat -> V -> V) (xs : list V) s i j wi wj st1 st2 a1 a2,
  i <> j ->
  nth_error (modify_workers d f xs s) i = Some wi -> nth_error (modify_workers d f xs s) j = Some wj ->
  In st1 wi -> In st2 wj -> In a1 (write_accesses st1) -> In a2 (write_accesses st2) ->
  ~ conflict a1 a2.
Proof. intros V d f. exact (ParProofs.no_model_race d f). Qed.
Print Assumptions no_model_race.

(* a scan only reads *)
Theorem scan_no_model_race : forall (V : Type) (ev1 ev2 : nat * V) a1 a2,
  In a1 (scan_accesses ev1) -> In a2 (scan_accesses ev2) -> ~ conflict a1 a2.
Proof. intros V. exact (@ParProofs.scan_no_model_race V). Qed.
Print Assumptions scan_no_model_race.

(* ------------------------------------------------------------------ AddField / AddFieldParallel *)

(* One job per (attribute, chunk) key, each job a list of `data_k[cell] += v` steps.  In EVERY
   execution of the jobs every cell of every chunk ends with the value the sequential AddField
   (job after job, in dispatch order) leaves there.  `add` is arbitrary: float addition is neither
   associative nor commutative and the theorem does not need it to be, because all additions into
   one cell come from one job and keep their order. *)
Theorem addfield_any_schedule :
  forall (K V : Type) (keqb : K -> K -> bool) (add : V -> V -> V),
    (forall a b, keqb a b = true <-> a = b) ->
  forall (jobs : list (K * list (Z * V))) e st,
    NoDup (map fst jobs) -> interleaving e (map job_steps jobs) ->
    forall k c, run_canvas keqb add e st k c = run_canvas keqb add (concat (map job_steps jobs)) st k c.
Proof. intros K V keqb add H. exact (ParProofs.addfield_any_schedule keqb add H). Qed.
Print Assumptions addfield_any_schedule.

(* The same with the bookkeeping of canvas.go: a positions map + a slice of chunk arrays that grows
   under chunkMutex (lookup-or-allocate is one atomic step `Fetch`).  The slot a chunk gets depends
   on the schedule; what the canvas holds for every (key, cell) does not. *)
Theorem addfield_table_any_schedule :
  forall (K V : Type) (keqb : K -> K -> bool) (add : V -> V -> V),
    (forall a b, keqb a b = true <-> a = b) ->
  forall (zero : V) (jobs : list (K * list (Z * V))) e t,
    twf keqb t -> NoDup (map fst jobs) -> interleaving e (map job_tsteps jobs) ->
    forall k c, view keqb zero (run_table keqb add zero e t) k c
                = view keqb zero (run_table keqb add zero (concat (map job_tsteps jobs)) t) k c.
Proof. intros K V keqb add H zero. exact (ParProofs.addfield_table_any_schedule keqb add H zero). Qed.
Print Assumptions addfield_table_any_schedule.

(* jobs with different keys never touch a common chunk array *)
Theorem addfield_no_model_race :
  forall (K V : Type) (jobs : list (K * list (Z * V))) i j ji jj a b,
    NoDup (map fst jobs) -> i <> j -> nth_error jobs i = Some ji -> nth_error jobs j = Some jj ->
    In a (job_steps ji) -> In b (job_steps jj) -> step_key a <> step_key b.
Proof. intros K V. exact (@ParProofs.addfield_no_model_race K V). Qed.
Print Assumptions addfield_no_model_race.

(* The hypothesis `NoDup (map fst jobs)` holds for the jobs AddFieldParallel dispatches, and the jobs
   split the field's box exactly: chunkSectionsInRange lists no chunk twice, every position of the
   box lies in a listed chunk, the job of chunk c writes exactly the box positions lying in c, and
   inside a chunk different positions have different cells in [0, 100^3). *)
Theorem addfield_jobs_partition_box :
  (forall mn mx, NoDup (chunk_sections mn mx)) /\
  (forall mn mx p, in_box p mn mx -> In (chunk_pos p) (chunk_sections mn mx)) /\
  (forall c mn mx p, In p (job_positions c mn mx) <-> in_box p mn mx /\ chunk_pos p = c) /\
  (forall p, (0 <= cell_index (chunk_pos p) p < 1000000)%Z) /\
  (forall c p q, chunk_pos p = c -> chunk_pos q = c -> cell_index c p = cell_index c q -> p = q).
Proof.
  split; [exact chunk_sections_nodup|]. split; [exact chunk_sections_complete|].
  split; [exact job_positions_spec|]. split; [exact cell_index_range | exact cell_index_inj].
Qed.
Print Assumptions addfield_jobs_partition_box.

(* End to end.  `field_jobs val mn mx attrs` is the job list AddFieldParallel dispatches for a field whose
   Float1 functions are `val a` (a in attrs, no attribute twice) over the canvas box [mn, mx): one job per
   (attribute, chunk of chunkSectionsInRange), adding `val a p` into cell `cell_index c p` for the box positions
   p of chunk c.  For EVERY interleaving of these jobs: a cell that belongs to the box and to a dispatched
   attribute receives exactly one addition, of its own value; every other cell is left as it was.  (Cells are
   addressed as (attribute, chunk_pos p, cell_index (chunk_pos p) p); every cell of a chunk is of that form.) *)
Theorem addfield_parallel_exact :
  forall (A V : Type) (aeqb : A -> A -> bool) (add : V -> V -> V),
    (forall a b, aeqb a b = true <-> a = b) ->
  forall (val : A -> vec -> V) (mn mx : vec) (attrs : list A) e (st : @canvas (A * vec) V),
    NoDup attrs -> interleaving e (map job_steps (field_jobs val mn mx attrs)) ->
    forall a p,
      let k := (a, chunk_pos p) in
      let cell := cell_index (chunk_pos p) p in
      (In a attrs -> in_box p mn mx -> run_canvas (fkeqb aeqb) add e st k cell = add (st k cell) (val a p))
      /\ (~ (In a attrs /\ in_box p mn mx) -> run_canvas (fkeqb aeqb) add e st k cell = st k cell).
Proof. intros A V aeqb add H. exact (ParExtra.addfield_parallel_exact aeqb add H). Qed.
Print Assumptions addfield_parallel_exact.

(* ------------------------------------------------------------------ AddFieldParallel refines AddField *)

(* The keyed-canvas theorem and the chunk-table refinement in ONE statement, on the bookkeeping of canvas.go
   (positions map + slice of chunk arrays grown under chunkMutex).  For every field (distinct attribute names,
   arbitrary value functions, arbitrary box), every well-formed canvas t and EVERY interleaving e of the per-chunk
   jobs -- including the order in which they reach chunkIndex_atomic and grow the chunk table -- the canvas tp left by
   AddFieldParallel and the canvas ts left by the sequential AddField (job after job, `addfield_seq_steps`) are
   well formed and EQUAL for every reader: the same (attribute, chunk) keys exist and every cell of every chunk holds
   the same value (`table_eq`; slot numbers in float1Data are not observable).  This is exactly what the harness'
   bitwise chunk-table comparison tests.  Moreover the keys are the old ones plus the field's, and the value of a
   cell is the old one plus the field's own value, once, inside the box, and the old one everywhere else. *)
Theorem addfield_parallel_refines_sequential :
  forall (A V : Type) (aeqb : A -> A -> bool) (add : V -> V -> V) (zero : V),
    (forall a b, aeqb a b = true <-> a = b) ->
  forall (val : A -> vec -> V) (mn mx : vec) (attrs : list A) e (t : @table (A * vec) V),
    tinv (fkeqb aeqb) t -> NoDup attrs -> interleaving e (map job_tsteps (field_jobs val mn mx attrs)) ->
    let tp := run_table (fkeqb aeqb) add zero e t in
    let ts := run_table (fkeqb aeqb) add zero (addfield_seq_steps val mn mx attrs) t in
    tinv (fkeqb aeqb) tp /\ tinv (fkeqb aeqb) ts /\ table_eq (fkeqb aeqb) zero tp ts
    /\ (forall k, In k (keys tp) <-> In k (keys t) \/ In k (map fst (field_jobs val mn mx attrs)))
    /\ forall a p,
         let k := (a, chunk_pos p) in
         let cell := cell_index (chunk_pos p) p in
         (In a attrs -> in_box p mn mx ->
          view (fkeqb aeqb) zero tp k cell = add (view (fkeqb aeqb) zero t k cell) (val a p))
         /\ (~ (In a attrs /\ in_box p mn mx) ->
             view (fkeqb aeqb) zero tp k cell = view (fkeqb aeqb) zero t k cell).
Proof. intros A V aeqb add zero H. exact (ParSequence.addfield_parallel_refines_sequential aeqb add zero H). Qed.
Print Assumptions addfield_parallel_refines_sequential.

(* ------------------------------------------------------------------ sequences of operations on one canvas *)

(* Operations: OAdd par f (AddField / AddFieldParallel of field f), OMarch par c (March / MarchParallel with cutoff c).
   `step` runs one operation: an add executes ANY interleaving of the field's per-chunk jobs on the chunk table (the
   sequential variant: job after job); a march appends the block meshes of the selected blocks in ANY order (map
   iteration order / channel arrival order) and returns the triangles.  The per-block marcher is an arbitrary
   function of the canvas contents, the cutoff and the block that returns well-formed block meshes.
   Theorem: run the same operation list twice from equal canvases, choosing the sequential or the parallel variant
   (and any schedule) independently for every operation in each run.  After EVERY step the two canvases are equal
   (same chunks, same cell values) and at every march the two meshes have the same triangle multiset. *)
Theorem sequence_parallel_eq_sequential :
  forall (A V P C : Type) (aeqb : A -> A -> bool) (add : V -> V -> V) (zero : V) (dP : P),
    (forall a b, aeqb a b = true <-> a = b) ->
  forall (sel : A * vec -> bool) (march_block : @canvas (A * vec) V -> C -> A * vec -> @bmesh P),
    (forall v1 v2 c k, canvas_eq v1 v2 -> march_block v1 c k = march_block v2 c k) ->
    (forall v c k, bwf (march_block v c k)) ->
  forall os1 os2 t1 t2 tr1 tr2,
    tinv (fkeqb aeqb) t1 -> tinv (fkeqb aeqb) t2 -> table_eq (fkeqb aeqb) zero t1 t2 ->
    Forall2 same_shape os1 os2 -> ops_wf os1 ->
    run aeqb add zero dP sel march_block t1 os1 tr1 -> run aeqb add zero dP sel march_block t2 os2 tr2 ->
    Forall2 (fun x y => table_eq (fkeqb aeqb) zero (fst x) (fst y) /\ obs_eq (snd x) (snd y)) tr1 tr2.
Proof.
  intros A V P C aeqb add zero dP H sel mb Hext Hwf.
  exact (ParSequence.sequence_parallel_eq_sequential aeqb add zero dP H sel mb Hext Hwf).
Qed.
Print Assumptions sequence_parallel_eq_sequential.

(* marching does not modify the canvas; every operation list has a sequential and a parallel run from every canvas
   (so the theorem above is not vacuous); the empty canvas is well formed *)
Theorem sequences_run :
  forall (A V P C : Type) (aeqb : A -> A -> bool) (add : V -> V -> V) (zero : V) (dP : P)
         (sel : A * vec -> bool) (march_block : @canvas (A * vec) V -> C -> A * vec -> @bmesh P),
    (forall t par c t' ob, step aeqb add zero dP sel march_block t (OMarch par c) t' ob -> t' = t)
    /\ (forall os (par : bool) t, exists tr,
          run aeqb add zero dP sel march_block t
              (map (fun o => match o with OAdd _ f => OAdd par f | OMarch _ c => OMarch par c end) os) tr)
    /\ tinv (fkeqb aeqb) ({| positions := []; chunks := [] |} : @table (A * vec) V).
Proof.
  intros A V P C aeqb add zero dP sel mb. split; [exact (march_leaves_canvas aeqb add zero dP sel mb)|].
  split; [exact (run_exists aeqb add zero dP sel mb) | exact (@tinv_empty (A * vec) V (fkeqb aeqb))].
Qed.
Print Assumptions sequences_run.

(* What a block march reads.  The cube with lowest corner p reads the samples at its eight corners
   (`cube_corners`, the cubeDataIndexIncrements of canvas.go); its case is the list of `sample < cutoff`.
   (a) a cube of block b only reads b and its +x/+y/+z neighbours; (b) it does read each of the three face
   neighbours: the last layer of cubes takes its +x/+y/+z corners from the neighbour's first samples;
   (c) hence a cached block result may be reused when neither the block nor one of those neighbours was written;
   (d) but the rule "re-march a block only when the block itself was written" (seeded change C10-H) is refuted:
   one sample written in the +x neighbour changes a cube of the block. *)
Theorem march_reads_neighbours :
  (forall p q, In q (cube_corners p) -> upper_neighbourhood (chunk_pos p) (chunk_pos q)) /\
  (forall bx by_ bz,
     (exists p q, chunk_pos p = (bx, by_, bz) /\ In q (cube_corners p) /\ chunk_pos q = (bx + 1, by_, bz)%Z) /\
     (exists p q, chunk_pos p = (bx, by_, bz) /\ In q (cube_corners p) /\ chunk_pos q = (bx, by_ + 1, bz)%Z) /\
     (exists p q, chunk_pos p = (bx, by_, bz) /\ In q (cube_corners p) /\ chunk_pos q = (bx, by_, bz + 1)%Z)) /\
  (forall (s s' : vec -> Z) cutoff b,
     (forall q, upper_neighbourhood b (chunk_pos q) -> s q = s' q) ->
     forall p, chunk_pos p = b -> cube_case s cutoff p = cube_case s' cutoff p).
Proof.
  split; [exact march_footprint|]. split; [exact ParSequence.march_reads_neighbours | exact cache_sound_with_neighbours].
Qed.
Print Assumptions march_reads_neighbours.

Theorem per_block_cache_refuted : exists (s s' : vec -> Z) cutoff b p,
  (forall q, chunk_pos q = b -> s q = s' q) /\ chunk_pos p = b /\ cube_case s cutoff p <> cube_case s' cutoff p.
Proof. exact ParSequence.per_block_cache_refuted. Qed.
Print Assumptions per_block_cache_refuted.

(* ------------------------------------------------------------------ March / MarchParallel *)

(* marchFloat1Parallel appends the block meshes in the order in which they arrive on the result
   channel, marchFloat1 in map-iteration order.  Whatever the two orders are, the merged meshes have
   the same multiset of triangles (as position triples). *)
Theorem march_parallel_multiset : forall (P : Type) (d : P) (blocks arrival : list (@bmesh P)),
  Forall (@bwf P) blocks -> Permutation arrival blocks ->
  Permutation (resolve d (march_fold arrival)) (resolve d (march_fold blocks)).
Proof. intros P d. exact (ParProofs.march_parallel_multiset d). Qed.
Print Assumptions march_parallel_multiset.

(* ... in particular for the arrival order of any execution of the per-block jobs *)
Theorem march_any_schedule : forall (P : Type) (d : P) (blocks e : list (@bmesh P)),
  Forall (@bwf P) blocks -> interleaving e (map (fun m => [m]) blocks) ->
  Permutation (resolve d (march_fold e)) (resolve d (march_fold blocks)).
Proof. intros P d. exact (ParProofs.march_any_schedule d). Qed.
Print Assumptions march_any_schedule.

(* ------------------------------------------------------------------ the notion of execution is not empty *)

(* worker after worker, last worker first and round robin are executions of any list of workers;
   an execution performs exactly the workers' steps *)
Theorem schedules_are_executions : forall (A : Type) (ws : list (list A)),
  interleaving (sched_seq ws) ws /\ interleaving (sched_rev ws) ws /\ interleaving (sched_round_robin ws) ws
  /\ forall e, interleaving e ws -> Permutation e (concat ws).
Proof.
  intros A ws. split; [apply sched_seq_interleaving|]. split; [apply sched_rev_interleaving|].
  split; [apply sched_round_robin_interleaving|]. intros e. apply interleaving_perm.
Qed.
Print Assumptions schedules_are_executions.

(* ------------------------------------------------------------------ the pinned tree violates the property *)

(* Before 6ab50c7 ScanPrimitivesParallelWithPoolSize passed (start, size) to helpers whose loop bound is
   `size`: for 10 primitives and pool size 3 only 0, 1, 2 are visited. *)
Theorem scan_prims_refuted : exists n s, 1 <= s /\ visited_pinned n s <> seq 0 n.
Proof. exact ParProofs.scan_prims_refuted. Qed.
Print Assumptions scan_prims_refuted.

(* Before 08b2ef6 a line strip without indices (PrimitiveCount() = -1) was scanned with negative
   indices by the parallel variant while the sequential one visits nothing. *)
Theorem scan_prims_negative_count_refuted :
  exists s, 1 <= s /\ visitedZ (prim_count LineStrip 0) s <> [] /\ prim_work LineStrip 0 = 0.
Proof. exact ParProofs.scan_prims_negative_count_refuted. Qed.
Print Assumptions scan_prims_negative_count_refuted.

(* ------------------------------------------------------------------ the Go work size is the model's *)
(* mesh.go computes  workSize := int(math.Floor(float64(n) / float64(s))).  With rn = rounding to the nearest
   float64: IF rounding is monotone, integers below 2^53 are floats and the relative error is at most 2^-53, THEN
   the expression equals the integer quotient n / s for every 0 <= n < 2^53 and 1 <= s < 2^53 ... *)
Theorem floor_float_div : forall rn : R -> R,
  (forall x y, (x <= y)%R -> (rn x <= rn y)%R) ->
  (forall z : Z, (Z.abs z < 2 ^ 53)%Z -> rn (IZR z) = IZR z) ->
  (forall x, (/ IZR (2 ^ 53) <= x)%R -> (rn x <= x + x * / IZR (2 ^ 53))%R) ->
  forall n s : Z, (0 <= n < 2 ^ 53)%Z -> (1 <= s < 2 ^ 53)%Z ->
    Raux.Zfloor (rn (rn (IZR n) / rn (IZR s))%R) = (n / s)%Z.
Proof. exact FloatDiv.floor_float_div. Qed.
Print Assumptions floor_float_div.

(* ... and the three IEEE facts hold for binary64 round-to-nearest-even (Flocq: rn64 = round radix2 (FLT_exp (-1074) 53)
   ZnearestE), so the model's work_size IS the value of the Go expression.  (These two theorems use the real
   numbers: Print Assumptions lists the axioms of Coq's standard library of reals, nothing else.) *)
Theorem work_size_float64 : forall n s : nat,
  (Z.of_nat n < 2 ^ 53)%Z -> 1 <= s -> (Z.of_nat s < 2 ^ 53)%Z ->
  Z.to_nat (Raux.Zfloor (FloatDiv.rn64 (FloatDiv.rn64 (IZR (Z.of_nat n)) / FloatDiv.rn64 (IZR (Z.of_nat s)))%R))
  = work_size n s.
Proof. exact FloatDiv.work_size_float64. Qed.
Print Assumptions work_size_float64.

(* ------------------------------------------------------------------ the source itself (translator binding) *)
(* coq/gen/ParSites.v is written by tools/par2coq from modeling/mesh.go of the tree under test on every run: it
   executes every <X>ParallelWithPoolSize method of Mesh, its sequential counterpart <X> and the wrapper <X>Parallel
   symbolically (helpers inlined, closures entered, if/else merged) and records what the SOURCE says -- when it
   panics / delegates, the dispatch loop, and for every element loop its bounds lo, hi as terms of a (the element
   count: len(<data>) or m.PrimitiveCount(), which is -1 for a line strip without indices), s (pool size) and w
   (worker), the index given to the callback, the indices read and written.  The theorem is about those terms:
   for each of the seven entry points, every element count and pool size: s < 1 panics, s = 1 returns the sequential
   method, s >= 2 starts one goroutine per w in [0, s) and in EVERY branch (every topology the scan supports; the
   branch labels of parallel and sequential method coincide) the workers' loops, worker after worker, visit exactly
   what the sequential loop of that branch visits: 0 .. a-1, in bounds; callback index = read index = write index =
   loop index; what is written is not what is read.  (`par_visited` / `seq_visited` evaluate the generated bounds.) *)
Theorem generated_sites_partition_exact :
  Forall2 (fun P S =>
    ps_delegate_to P = ss_name S /\ ps_name P = (ss_name S ++ "ParallelWithPoolSize")%string /\
    forall a s, atom_dom (ps_atom P) a ->
      (ps_panics P a s = true <-> (s < 1)%Z) /\ (ps_delegates P a s = true <-> s = 1%Z) /\
      ((2 <= s)%Z ->
         ps_guard P a s = true /\ ps_disp_lo P a s = 0%Z /\ ps_disp_hi P a s = s /\
         Forall2 (fun lp ls =>
                    wl_label lp = wl_label ls /\ wl_in_worker lp = true /\
                    par_visited lp a s = seq_visited ls a /\ seq_visited ls a = zrange 0 (Z.to_nat a) /\
                    (forall x, In x (par_visited lp a s) -> (0 <= x < a)%Z) /\
                    Forall (fun f => forall k, f k = k) (wl_cb lp) /\
                    Forall (fun r => forall k, snd r k = k) (wl_rd lp) /\
                    Forall (fun r => forall k, snd r k = k) (wl_wr lp))
                 (ps_loops P) (ss_loops S)))
    ParSites.par_sites ParSites.seq_sites.
Proof. exact SitesProofs.generated_sites_partition_exact. Qed.
Print Assumptions generated_sites_partition_exact.

(* the obligations the generated file was checked against, and that nothing is missing from it: the seven entry
   points and their seven wrappers (which pass runtime.NumCPU() as the pool size) are there under their names *)
Theorem generated_sites_complete :
  Forall psite_ok ParSites.par_sites /\ Forall ssite_ok ParSites.seq_sites
  /\ Forall2 pair_ok ParSites.par_sites ParSites.seq_sites /\ Forall wrapper_ok ParSites.wrappers
  /\ List.length ParSites.par_sites = 7 /\ List.length ParSites.wrappers = 7
  /\ (exists P, In P ParSites.par_sites /\ ps_name P = "ScanPrimitivesParallelWithPoolSize"%string
                /\ map wl_label (ps_loops P)
                   = ["m.topology==TriangleTopology"; "m.topology==PointTopology"; "m.topology==LineStripTopology"]%string).
Proof.
  split; [exact par_sites_ok|]. split; [exact seq_sites_ok|]. split; [exact pairs_ok|]. split; [exact wrappers_ok|].
  split; [exact (f_equal (@List.length _) (proj1 sites_named))|].
  split; [exact (f_equal (@List.length _) (proj2 sites_named))|].
  exists ParSites.ScanPrimitivesParallelWithPoolSize_site. split; [|split; reflexivity].
  unfold ParSites.par_sites. cbn. tauto.
Qed.
Print Assumptions generated_sites_complete.

(* the generic half: ANY loop whose bounds are provably ws*w and ws*w+ws (the total for the last worker) wherever it
   is reached, and empty where it is not, visits 0 .. a-1 exactly and stays in bounds *)
Theorem loop_obligation_suffices : forall atom m l, par_loop_ok atom m l ->
  forall a s, atom_dom atom a -> (2 <= s)%Z ->
    par_visited l a s = zrange 0 (Z.to_nat a) /\ (forall x, In x (par_visited l a s) -> (0 <= x < a)%Z).
Proof.
  intros atom m l H a s Ha Hs. split; [exact (par_loop_visits atom m l H a s Ha Hs)|].
  intros x. exact (par_loop_in_bounds atom m l H a s x Ha Hs).
Qed.
Print Assumptions loop_obligation_suffices.

(* seeded change C10-I: the scan helpers take (start, count) but the line-strip call site still passes
   (start, start+size).  With 4 segments and 2 workers the second worker runs over 2..5; with fewer segments than
   workers nothing is wrong; and the obligation above rejects that loop. *)
Theorem count_callsite_refuted :
  par_visited count_callsite_loop 4 2 = [0; 1; 2; 3; 4; 5]%Z
  /\ par_visited count_callsite_loop 4 2 <> zrange 0 4
  /\ par_visited count_callsite_loop 2 3 = zrange 0 2
  /\ ~ par_loop_ok "m.PrimitiveCount()" false count_callsite_loop.
Proof. exact ParRound4.count_callsite_refuted. Qed.
Print Assumptions count_callsite_refuted.

(* ------------------------------------------------------------------ worker pools and block lists *)
(* AddFieldParallel and marchFloat1Parallel start runtime.NumCPU() workers that take jobs from a channel.  If
   groups[k] is the list of jobs worker k happened to take (in that order), its steps are the concatenation of those
   jobs.  EVERY interleaving of such workers is an interleaving of the dispatched jobs themselves -- whatever the pool
   size, the job-to-worker assignment and the order in which the queue is drained.  Hence every theorem above that
   quantifies over all interleavings of the jobs (addfield_*, march_any_schedule) holds for the real pool. *)
Theorem pool_schedule_is_job_interleaving : forall (A : Type) (groups : list (list (list A))) (jobs : list (list A)) e,
  Permutation (List.concat groups) jobs -> interleaving e (map (@List.concat A) groups) -> interleaving e jobs.
Proof. intros A. exact (@ParRound4.pool_schedule_is_job_interleaving A). Qed.
Print Assumptions pool_schedule_is_job_interleaving.

(* the order in which the workers are listed does not matter *)
Theorem interleaving_perm_workers : forall (A : Type) (e : list A) ws ws',
  interleaving e ws -> Permutation ws ws' -> interleaving e ws'.
Proof. intros A e ws ws' H Hp. exact (ParRound4.interleaving_perm_workers e ws H ws' Hp). Qed.
Print Assumptions interleaving_perm_workers.

(* the field accumulation with a pool: composition of the two statements *)
Theorem addfield_pool_any_schedule :
  forall (K V : Type) (keqb : K -> K -> bool) (add : V -> V -> V),
    (forall a b, keqb a b = true <-> a = b) ->
  forall (jobs : list (K * list (Z * V))) (groups : list (list (list (@astep K V)))) e st,
    NoDup (map fst jobs) -> Permutation (List.concat groups) (map job_steps jobs) ->
    interleaving e (map (@List.concat _) groups) ->
    forall k c, run_canvas keqb add e st k c = run_canvas keqb add (List.concat (map job_steps jobs)) st k c.
Proof.
  intros K V keqb add H jobs groups e st Hn Hp He.
  apply (ParProofs.addfield_any_schedule keqb add H jobs e st Hn).
  exact (ParRound4.pool_schedule_is_job_interleaving groups _ e Hp He).
Qed.
Print Assumptions addfield_pool_any_schedule.

(* AddFieldParallel2 (repaired by 913f893 / 924b580): the workers only compute one array of values per
   (attribute, chunk) job; the calling goroutine adds the arrays into the canvas in the order in which they arrive on
   the result channel.  For ANY arrival order every cell ends as after the sequential AddField. *)
Theorem addfield_collector_any_arrival_order :
  forall (K V : Type) (keqb : K -> K -> bool) (add : V -> V -> V),
    (forall a b, keqb a b = true <-> a = b) ->
  forall (jobs arrival : list (K * list (Z * V))) st,
    NoDup (map fst jobs) -> Permutation arrival jobs ->
    forall k c, run_canvas keqb add (List.concat (map job_steps arrival)) st k c
                = run_canvas keqb add (List.concat (map job_steps jobs)) st k c.
Proof. intros K V keqb add H. exact (ParRound4.addfield_collector_any_arrival_order keqb add H). Qed.
Print Assumptions addfield_collector_any_arrival_order.

(* The block list decides the result of a march: a block marched once more (seeded change C10-J sizes the job list
   by the canvas-wide block store, so block (0,0,0) is marched once per block of another attribute) or once less
   changes the triangle multiset, unless that block has no triangle. *)
Theorem march_extra_block_changes_result : forall (P : Type) (d : P) (blocks : list (@bmesh P)) (b : @bmesh P),
  Forall (@bwf P) blocks -> bwf b -> tris b <> [] ->
  ~ Permutation (resolve d (march_fold (b :: blocks))) (resolve d (march_fold blocks))
  /\ List.length (resolve d (march_fold (b :: blocks))) = List.length (tris b) + List.length (resolve d (march_fold blocks)).
Proof. intros P d. exact (ParRound4.march_extra_block_changes_result d). Qed.
Print Assumptions march_extra_block_changes_result.

(* ------------------------------------------------------------------ non-vacuity *)
Example c10_example :
  ranges 10 3 = [(0, 3); (3, 6); (6, 10)] /\
  ranges 2 5 = [(0, 0); (0, 0); (0, 0); (0, 0); (0, 2)] /\
  visited 10 3 = seq 0 10 /\ visited_pinned 10 3 = [0; 1; 2] /\
  (* a genuinely interleaved execution of the 3 workers of a 7-element modify *)
  let f := fun i v => 3 * v + i in
  let xs := [10; 20; 30; 40; 50; 60; 70] in
  let ws := modify_workers 0 f xs 3 in
  sched_round_robin ws = [Write 0 30; Write 2 92; Write 4 154; Write 1 61; Write 3 123; Write 5 185; Write 6 216] /\
  modify_par 0 xs (sched_round_robin ws) = modify_seq f xs /\
  modify_par 0 xs (sched_rev ws) = [30; 61; 92; 123; 154; 185; 216].
Proof. vm_compute. repeat split; reflexivity. Qed.
