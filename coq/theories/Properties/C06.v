(* C06 — glTF / GLB output is structurally loadable and carries exactly the scene data.
   Statements only; proofs live in Formats/GltfProofs.v and Formats/GltfGlbProofs.v.
   [run sc] is the writer state after AddScene, [to_summary] the document ToGLTF emits, [buf] the
   binary payload.  [scene_ok] is what a modeling.Mesh guarantees structurally (K components per vector,
   float32 / byte words, all attributes of one length, indices below it) — no bound on the number of
   models, vertices, attributes, repeated pointers, materials, instances or lights. *)
From PF Require Import Base.Bytes Formats.Gltf Formats.GltfProofs Formats.GltfExtProofs Formats.GltfDedupProofs
  Formats.GltfNodeProofs Formats.GltfTexProofs Formats.GltfGlbProofs Formats.GltfFinalProofs Formats.GltfGeomProofs
  Formats.GltfR4DedupProofs Formats.GltfR4NodeProofs Formats.GltfR4TexProofs Formats.GltfR4ExtraProofs Formats.GltfR4FullProofs.
From Coq Require String.
Import String.StringSyntax.
Delimit Scope string_scope with string.
Open Scope list_scope.
Open Scope N_scope.

(* buffer views are consecutive from offset 0 (hence disjoint), lie inside the declared buffer length,
   and their lengths add up to it; for well-formed scenes it is the actual payload length *)
Theorem views_tile_buffer : forall sc,
  let st := run sc in let s := to_summary st in
  tiles 0 (s_views s) (b_written (st_b st)) /\ views_disjoint (s_views s) = true /\
  forallb (view_ok [b_written (st_b st)]) (s_views s) = true /\
  s_buffers s = (if 0 <? b_written (st_b st) then [b_written (st_b st)] else []) /\
  (scene_ok sc -> len (buf st) = b_written (st_b st)).
Proof. exact views_tile. Qed.
Print Assumptions views_tile_buffer.

(* accessor i refers to view i (a valid index), starts at its beginning and fills it exactly:
   count * components * component size = view length *)
Theorem accessor_fits_view : forall sc, scene_ok sc ->
  let s := to_summary (run sc) in
  forallb (acc_ok (s_views s)) (s_accs s) = true /\
  forall i a, nth_error (s_accs s) i = Some a ->
    exists v, a_view a = Some (N.of_nat i) /\ nth_error (s_views s) i = Some v /\ a_off a = 0 /\
              a_count a * a_k a * code_size (a_comp a) = v_len v.
Proof. exact accessors_fit. Qed.
Print Assumptions accessor_fits_view.

(* decoding accessor i from the payload returns exactly, in order, the elements the writer was handed for
   it (the float32 words / bytes of an attribute, the indices, the instance transforms) *)
Theorem payload_is_image : forall sc, scene_ok sc ->
  let st := run sc in let s := to_summary st in
  forall i a, nth_error (s_accs s) i = Some a ->
    exists ck, nth_error (b_chunks (st_b st)) i = Some ck /\ a = acc_of (N.of_nat i) ck /\
               decode_acc (s_views s) (buf st) a = Some (expand (ck_data ck)).
Proof. exact payload_decodes. Qed.
Print Assumptions payload_is_image.

(* every mesh of the document has one primitive; it belongs to the mesh [m] of one of the scene's models
   (also when the geometry was written for an earlier model with the same mesh pointer): the index
   accessor has the width the attribute length calls for, one element per index of [m], and decodes to
   exactly those indices; every attribute listed is an attribute of [m] under its glTF name, all with
   the same count [attr_len m] (prim_counts_agree), of the right component type and arity, and decodes
   to exactly the attribute's float32 / byte image *)
Theorem prim_counts_agree_and_carry_mesh : forall sc, scene_ok sc ->
  let st := run sc in let s := to_summary st in
  forall gm, In gm (s_meshes s) ->
  exists p mo ii, In mo (sc_models sc) /\ gm_prims gm = [p] /\ gp_idx p = Some ii /\
    let m := mo_mesh mo in
    (exists a, nth_error (s_accs s) (N.to_nat ii) = Some a /\
               a_comp a = (if attr_len m <=? 65535 then 5123 else 5125) /\ a_k a = 1 /\ a_count a = len (me_idx m) /\
               decode_acc (s_views s) (buf st) a = Some (map (fun i => [i]) (me_idx m))) /\
    forall name ai, In (name, ai) (gp_attrs p) ->
      exists k nv a, attr_of m k nv /\ name = gltf_name (fst nv) /\
        nth_error (s_accs s) (N.to_nat ai) = Some a /\
        a_comp a = comp_code (attr_comp (fst nv)) /\ a_k a = k /\ a_count a = attr_len m /\
        decode_acc (s_views s) (buf st) a = Some (expand (snd nv)).
Proof. exact prims_carry. Qed.
Print Assumptions prim_counts_agree_and_carry_mesh.

(* index accessors: UNSIGNED_SHORT iff the attribute length is at most 65535 (the code's threshold:
   attributeSize > math.MaxUint16 selects UNSIGNED_INT) ... *)
Theorem index_width_ok : forall idx n i,
  a_comp (acc_of i (idx_chunk idx n)) = (if n <=? 65535 then 5123 else 5125).
Proof. exact index_width_rule. Qed.
Print Assumptions index_width_ok.
(* ... and on a well-formed mesh (every index below the attribute length) the stored values are the
   mesh's indices unchanged (no truncation by uint16()/uint32()), none is the reserved maximum of the
   chosen type, and the chunk is well-formed *)
Theorem index_values_ok : forall idx n, Forall (fun i => i < n) idx -> n < 4294967296 ->
  ck_data (idx_chunk idx n) = plain (map (fun i => [i]) idx) /\
  Forall (fun i => i + 1 < 256 ^ comp_size (index_comp n)) idx /\
  chunk_ok (idx_chunk idx n).
Proof. exact index_values_kept. Qed.
Print Assumptions index_values_ok.

(* declared min / max: index accessors declare none; a vector accessor declares, per component, a value
   that is attained by a stored NaN-free element and bounds all of them ([fkey] embeds the float32 order,
   -0 < +0, into Z); with no usable element the start values +-MaxFloat64 remain *)
Theorem minmax_sound : forall sc i a, nth_error (s_accs (to_summary (run sc))) i = Some a ->
  exists ck, nth_error (b_chunks (st_b (run sc))) i = Some ck /\
    (is_idx_comp (ck_comp ck) = true /\ a_min a = [] /\ a_max a = [] \/
     is_idx_comp (ck_comp ck) = false /\
     (a_min a, a_max a) = minmax_of (ck_comp ck) (ck_k ck) (run_elems (ck_data ck))).
Proof. exact minmax_declared. Qed.
Print Assumptions minmax_sound.
Theorem minmax_bounds : forall c k es j, (j < N.to_nat k)%nat ->
  let u := col j (mm_elems c es) in
  match u with
  | [] => nth_error (fst (minmax_of c k es)) j = Some MHi /\ nth_error (snd (minmax_of c k es)) j = Some MLo
  | _ => exists lo hi,
      nth_error (fst (minmax_of c k es)) j = Some (MF lo) /\ nth_error (snd (minmax_of c k es)) j = Some (MF hi) /\
      In lo u /\ In hi u /\ forall x, In x u -> (fkey lo <= fkey x <= fkey hi)%Z
  end.
Proof. exact minmax_of_sound. Qed.
Print Assumptions minmax_bounds.

(* ---- nodes.  [scene_ptr_ok]: pointer identity is consistent with values (two models with the same
   mesh pointer have the same mesh) — what a Go pointer guarantees.  [model_nodes sc] are the first
   |live models| nodes of the document; [node_doc st mo nd mi p ii] collects what the document says about
   the node of one model: name, TRS, mesh index [mi], its single primitive [p] with index accessor [ii]
   being exactly the block of chunks written for the model's mesh, material index from the material
   table, instance accessors. *)

(* node j is the node of the j-th model that has a primitive (models with an empty mesh are skipped);
   one node per light follows, in order; every node is a scene root *)
Theorem node_link : forall sc, scene_ptr_ok sc ->
  let st := run sc in
  exists mn, st_nodes st = mn ++ light_nodes 0 (sc_lights sc) /\
    Forall2 (fun mo nd => exists mi p ii, node_doc st mo nd mi p ii) (filter live (sc_models sc)) mn /\
    st_scene st = seqN (length (st_nodes st)) /\ st_lights st = map light_out (sc_lights sc).
Proof. exact nodes_of_run. Qed.
Print Assumptions node_link.

(* node transforms (float64 bit patterns) and names equal the model's *)
Theorem node_trs_equal : forall sc, scene_ptr_ok sc ->
  Forall2 (fun mo nd => gn_name nd = mo_name mo /\ gn_t nd = mo_t mo /\ gn_r nd = mo_r mo /\ gn_s nd = mo_s mo /\
                        gn_light nd = None)
          (filter live (sc_models sc)) (model_nodes sc).
Proof. exact node_trs_run. Qed.
Print Assumptions node_trs_equal.

(* EXT_mesh_gpu_instancing: a node has the extension iff its model has instances; the TRANSLATION / SCALE /
   ROTATION accessors are FLOAT VEC3 / VEC3 / VEC4 with one element per instance and decode to exactly the
   instances' float32 translations, scales and rotations *)
Theorem instances_equal : forall sc, scene_ok sc -> scene_ptr_ok sc ->
  let st := run sc in let s := to_summary st in
  Forall2 (fun mo nd =>
    match mo_inst mo with
    | [] => gn_inst nd = None
    | ins => exists t sc_ r at_ as_ ar,
        gn_inst nd = Some [("TRANSLATION"%string, t); ("SCALE"%string, sc_); ("ROTATION"%string, r)] /\
        In "EXT_mesh_gpu_instancing"%string (gn_exts nd) /\
        nth_error (s_accs s) (N.to_nat t) = Some at_ /\ nth_error (s_accs s) (N.to_nat sc_) = Some as_ /\
        nth_error (s_accs s) (N.to_nat r) = Some ar /\
        (a_comp at_, a_k at_, a_count at_) = (5126, 3, len ins) /\
        (a_comp as_, a_k as_, a_count as_) = (5126, 3, len ins) /\
        (a_comp ar, a_k ar, a_count ar) = (5126, 4, len ins) /\
        decode_acc (s_views s) (buf st) at_ = Some (map in_t ins) /\
        decode_acc (s_views s) (buf st) as_ = Some (map in_s ins) /\
        decode_acc (s_views s) (buf st) ar = Some (map in_r ins)
    end) (filter live (sc_models sc)) (model_nodes sc).
Proof. exact instances_run. Qed.
Print Assumptions instances_equal.

(* shared things are stored once and referenced consistently, for any two models of the scene:
   same mesh pointer => the same accessor indices; the same mesh entry iff same mesh pointer and same
   material entry (so: same pointer with different materials => two mesh entries sharing the accessors);
   the same material entry iff the two materials are equal by value ([mat_equal], an equivalence) *)
Theorem dedup_consistent : forall sc, scene_ptr_ok sc ->
  forall mo1 nd1 mo2 nd2,
  In (mo1, nd1) (combine (filter live (sc_models sc)) (model_nodes sc)) ->
  In (mo2, nd2) (combine (filter live (sc_models sc)) (model_nodes sc)) ->
  exists mi1 p1 ii1 mi2 p2 ii2,
    node_doc (run sc) mo1 nd1 mi1 p1 ii1 /\ node_doc (run sc) mo2 nd2 mi2 p2 ii2 /\
    (me_ptr (mo_mesh mo1) = me_ptr (mo_mesh mo2) -> gp_attrs p1 = gp_attrs p2 /\ gp_idx p1 = gp_idx p2) /\
    (mi1 = mi2 <-> me_ptr (mo_mesh mo1) = me_ptr (mo_mesh mo2) /\ gp_mat p1 = gp_mat p2) /\
    (forall pm1 pm2, mo_mat mo1 = Some pm1 -> mo_mat mo2 = Some pm2 ->
       (gp_mat p1 = gp_mat p2 <-> mat_equal pm1 pm2 = true)) /\
    (mo_mat mo1 = None -> gp_mat p1 = None).
Proof. exact dedup_run. Qed.
Print Assumptions dedup_consistent.
Theorem mat_equal_is_equivalence :
  (forall a, mat_equal a a = true) /\ (forall a b, mat_equal a b = mat_equal b a) /\
  (forall a b c, mat_equal a b = true -> mat_equal b c = true -> mat_equal a c = true).
Proof. exact (conj mat_equal_refl (conj mat_equal_sym mat_equal_trans)). Qed.
Print Assumptions mat_equal_is_equivalence.
(* the material entry a model's primitive refers to was built (AddMaterial) from a material equal by value *)
Theorem material_entry_built : forall sc, scene_ptr_ok sc ->
  forall mo nd pm, In (mo, nd) (combine (filter live (sc_models sc)) (model_nodes sc)) -> mo_mat mo = Some pm ->
  exists mi p ii i e x g, node_doc (run sc) mo nd mi p ii /\ gp_mat p = Some i /\ mat_equal e pm = true /\
    nth_error (s_mats (to_summary (run sc))) (N.to_nat i) = Some g /\ g = fst (build_material e x).
Proof. exact material_run. Qed.
Print Assumptions material_entry_built.

(* textures, images and samplers are stored once: no two images with the same URI, no two samplers equal
   under Sampler.equal, no two textures equal under Texture.equal; every texture refers to an existing
   image and sampler *)
Theorem textures_deduplicated : forall sc,
  let s := to_summary (run sc) in
  nodup_str (s_images s) = true /\ nodup_by samp_eqb (s_samplers s) = true /\ nodup_by gtex_eqb (s_texs s) = true /\
  forallb (fun t => valid_opt (gt_source t) (s_images s) && valid_opt (gt_sampler t) (s_samplers s)) (s_texs s) = true.
Proof. exact textures_stored_once. Qed.
Print Assumptions textures_deduplicated.

(* extensions in use are declared: every extension key emitted on a node, a material, a texture
   reference, a texture or at the root is listed in extensionsUsed, and extensionsRequired is a subset *)
Theorem ext_declared : forall sc,
  let s := to_summary (run sc) in incl (all_ext_keys s) (s_used s) /\ incl (s_req s) (s_used s).
Proof. exact ext_declared_run. Qed.
Print Assumptions ext_declared.

(* GLB container: for every JSON text and every buffer, the header's length field is the actual file
   length 12 + 8 + pad4 json [+ 8 + pad4 bin]; both chunk lengths are multiples of 4, padding < 4 *)
Theorem glb_lengths : forall json bin,
  len (glb_frame json bin) = glb_total (len json) (len bin) /\
  glb_total (len json) (len bin)
    = 12 + 8 + (len json + pad4 (len json))
      + (if len bin + pad4 (len bin) =? 0 then 0 else 8 + (len bin + pad4 (len bin))) /\
  (len json + pad4 (len json)) mod 4 = 0 /\ (len bin + pad4 (len bin)) mod 4 = 0 /\
  pad4 (len json) < 4 /\ pad4 (len bin) < 4.
Proof.
  intros. repeat split; auto using glb_frame_length, glb_total_eq, pad4_aligned, pad4_lt.
Qed.
Print Assumptions glb_lengths.

(* ... and an independent reader that insists on declared = actual lengths, aligned chunks and no
   trailing bytes recovers the JSON (space padded) and the buffer (zero padded; no BIN chunk when empty) *)
Theorem glb_declared_is_actual : forall json bin,
  glb_total (len json) (len bin) < 4294967296 ->
  glb_parse (glb_frame json bin) =
    Some (json ++ repeat 32 (N.to_nat (pad4 (len json))),
          if len bin =? 0 then None else Some (bin ++ repeat 0 (N.to_nat (pad4 (len bin))))).
Proof. exact glb_parse_frame. Qed.
Print Assumptions glb_declared_is_actual.

(* ---- the property sentence, packaged.
   FULL STATEMENT (what [prop_ok] evaluates on the implementation's documents):
     forall sc, scene_ok sc -> scene_ptr_ok sc -> scene_rejected sc = false ->
       gltf_validb sc {| o_sum := to_summary (run sc); o_payload := Some (buf (run sc));
                         o_bin_len := b_written (st_b (run sc)); o_glb := None |} = true
   (alignment excepted: see alignment_refuted).  PROVED: the record [doc_valid sc] below — one field per
   group of checker clauses (keys in the comments of Formats/GltfNodeProofs.v): buffers / views /
   accessors, payload image and declared bounds of every accessor, primitives (counts, index width and
   range, attribute and index image), extension inclusions, nodes (count, name, TRS, kind, mode, lights,
   scene roots), instances, de-duplication of meshes and materials, material entries, GLB framing.
   Round 4: [gltf_check = gltf_check_struct ++ gltf_check_models]; the struct half is proved in boolean
   form (gltf_valid_model_struct), the full statement is REFUTED as it stands (material_content_refuted:
   texture extensions are ignored by the material equality — a defect of the code, fix proposed).
   Of the models half, proved in boolean form: attribute-count-mismatch, index-out-of-range
   (prim_clauses_hold); in Prop form: this record.  Still evaluator-only: texture-slot content of a
   material ([tex_matches], false in general, see above), "texture-pointer-stored-twice",
   "unreferenced-entry", and the boolean form of the node-by-node clauses. *)
(* ROUND 4 (builder): the FULL STATEMENT is now proved — [gltf_valid_model] below (hypothesis [scene_wf]: what Go
   guarantees about pointers, == and JSON object keys).  This Prop-form record is kept: it needs only
   [scene_ok] and [scene_ptr_ok] and says more than the booleans in places (order of nodes, blocks of chunks). *)
Theorem gltf_valid_model_partial : forall sc, scene_ok sc -> scene_ptr_ok sc -> doc_valid sc.
Proof. exact model_doc_valid. Qed.
Print Assumptions gltf_valid_model_partial.

(* ---- round 4 *)
(* the bounds the writer computes on the (run-length) attribute are the bounds of the expanded data, i.e. of
   what a reader decodes from the buffer: with [payload_is_image] the checker's recomputation agrees *)
Theorem minmax_matches_stored : forall c k d, minmax_of c k (expand d) = minmax_of c k (run_elems d).
Proof. exact minmax_expand. Qed.
Print Assumptions minmax_matches_stored.

(* the whole extension clause of the checker (inclusions AND absence of duplicates in extensionsUsed /
   extensionsRequired), in the checker's own boolean form *)
Theorem ext_ok_holds : forall sc, ext_ok (to_summary (run sc)) = true.
Proof. exact ext_ok_run. Qed.
Print Assumptions ext_ok_holds.

(* the text container.  base64 is abstract: ANY encoder / decoder pair with the round-trip property.
   buffers[0] = { byteLength = bytes written, uri = "data:application/octet-stream;base64," ++ base64 buffer };
   an independent reader (strip the prefix, decode) gets exactly the payload, whose length is byteLength *)
Theorem text_container_carries_buffer :
  forall (b64enc : list N -> list N) (b64dec : list N -> option (list N)),
  (forall l, bytes_ok l -> b64dec (b64enc l) = Some l) ->
  forall sc, scene_ok sc ->
  match text_buffers b64enc (run sc) with
  | [(n, u)] => read_uri b64dec u = Some (buf (run sc)) /\ n = len (buf (run sc)) /\ 0 < n
  | [] => buf (run sc) = []
  | _ => False
  end.
Proof. exact text_payload. Qed.
Print Assumptions text_container_carries_buffer.

(* GLB and text container carry the same payload: the BIN chunk up to byteLength is the decoded data URI,
   the rest of the chunk is zero padding; neither has a buffer when nothing was written *)
Theorem containers_same_payload :
  forall (b64enc : list N -> list N) (b64dec : list N -> option (list N)),
  (forall l, bytes_ok l -> b64dec (b64enc l) = Some l) ->
  forall sc json, scene_ok sc -> glb_total (len json) (len (buf (run sc))) < 4294967296 ->
  match text_buffers b64enc (run sc) with
  | [(n, u)] => exists j b, glb_parse (glb_frame json (buf (run sc))) = Some (j, Some b) /\
                            read_uri b64dec u = Some (firstn (N.to_nat n) b) /\
                            skipn (N.to_nat n) b = repeat 0 (N.to_nat (pad4 n))
  | [] => exists j, glb_parse (glb_frame json (buf (run sc))) = Some (j, None)
  | _ => False
  end.
Proof. exact glb_text_same_payload. Qed.
Print Assumptions containers_same_payload.

(* the boolean glue, first half: [gltf_check = gltf_check_struct ++ gltf_check_models]; the struct half
   (buffer-count, buffer-length, payload-length, view-out-of-buffer, view-overlap, accessor-out-of-view,
   minmax-mismatch, extension-undeclared, node-count, light-node, light-content, light-root-extension,
   scene-roots, duplicate-entry, dangling-index of textures) — exactly what [prop_ok] evaluates on the
   implementation's .gltf — returns no key on the model's document, for every well-formed scene *)
Theorem gltf_valid_model_struct : forall sc, scene_ok sc -> scene_ptr_ok sc ->
  gltf_check_struct sc (obs_text sc) = [].
Proof. exact check_struct_run. Qed.
Print Assumptions gltf_valid_model_struct.

(* models half, the primitive clauses in the checker's boolean form: "attribute-count-mismatch" and
   "index-out-of-range" never fire on a document of the model *)
Theorem prim_clauses_hold : forall sc, scene_ok sc ->
  let s := to_summary (run sc) in
  forallb (fun m => forallb (counts_agree s) (gm_prims m)) (s_meshes s) = true /\
  forallb (fun m => forallb (indices_in_range s (buf (run sc))) (gm_prims m)) (s_meshes s) = true.
Proof. exact prim_clauses_run. Qed.
Print Assumptions prim_clauses_hold.

(* ---- round 5 *)
(* the checker's accessor judgement [acc_is] (component type, arity, count, decoded image, declared bounds)
   in boolean form: accessor n of the model's document passes it against the chunk the writer was handed —
   the core of "attribute-image", "index-image" and "instances" *)
Theorem acc_is_holds : forall sc, scene_ok sc ->
  let st := run sc in let s := to_summary st in
  forall n ck, nth_error (b_chunks (st_b st)) n = Some ck ->
    acc_is s (Some (buf st)) (N.of_nat n) (comp_code (ck_comp ck)) (ck_k ck) (ck_data ck) = true.
Proof. exact acc_is_run. Qed.
Print Assumptions acc_is_holds.

(* completeness ("carries EXACTLY the scene data"): with distinct glTF attribute names per mesh
   ([names_ok]: the writer's map insert would replace otherwise), the primitive of every model node lists
   exactly as many attributes as that model's mesh has, each under its glTF name, and each passes [acc_is]
   against the mesh's own attribute — "attribute-set" and "attribute-image", node by node *)
Theorem attributes_complete : forall sc, scene_ok sc -> scene_ptr_ok sc ->
  (forall mo, In mo (sc_models sc) -> names_ok (mo_mesh mo)) ->
  let st := run sc in let s := to_summary st in
  forall mo nd, In (mo, nd) (combine (filter live (sc_models sc)) (model_nodes sc)) ->
  exists mi p ii, node_doc st mo nd mi p ii /\ length (gp_attrs p) = length (all_attrs (mo_mesh mo)) /\
    forall k nv, attr_of (mo_mesh mo) k nv ->
      exists ai, amap_get (gltf_name (fst nv)) (gp_attrs p) = Some ai /\
                 acc_is s (Some (buf st)) ai (comp_code (attr_comp (fst nv))) k (snd nv) = true.
Proof. exact attrs_complete_run. Qed.
Print Assumptions attributes_complete.

(* documentation of the defect repaired by /repo 31c30a5 (found while proving "material-content"): the
   PINNED texture equality [ptex_equal_pinned] (URI and sampler settings only) calls two textures equal
   whose extension lists differ, so two materials differing only there were merged; with the repaired
   equality ([ptex_equal]: also the extension values and the sampler name) the materials differ and the
   witness scene's document passes the whole checker *)
Theorem material_content_refuted :
  ptex_equal_pinned (Some tx_transformed) (Some tx_plain) = true /\ tx_exts tx_transformed <> tx_exts tx_plain /\
  mat_equal (mat_with 0 tx_transformed) (mat_with 1 tx_plain) = false /\
  scene_ok tex_ext_scene /\ scene_ptr_ok tex_ext_scene /\ scene_rejected tex_ext_scene = false /\
  gltf_validb tex_ext_scene (obs_text tex_ext_scene) = true.
Proof. exact material_content_refuted_witness. Qed.
Print Assumptions material_content_refuted.

(* ---- round 4 (builder): the models half of the checker, clause by clause in its own boolean form, and the
   whole property sentence.  Hypotheses (all definitions are one-liners in Formats/GltfR4*.v):
     scene_names_ok   glTF attribute names of one mesh are distinct (map insert would replace)
     scene_mat_ptr_ok two models' materials with the same pointer are equal by value
     scene_tex_ptr_ok two textures of the scene with the same pointer are the same value
     scene_ext_cls_ok material extension values in one class of Go's == are the same value
     scene_mat_ok     texture slot names of one material are distinct
     scene_ext_ids_ok extension ids of one material / of one texture are distinct
   [scene_wf] is their conjunction with [scene_ok] and [scene_ptr_ok]. *)

(* node by node (node j against the j-th model with a primitive): node-name, node-trs, node-kind,
   primitive-mode, attribute-set, attribute-image, position-bounds, index-image, index-width, view-target
   (attribute views are ARRAY_BUFFER, index views ELEMENT_ARRAY_BUFFER), instances *)
Theorem node_geometry_clauses_hold : forall sc, scene_ok sc -> scene_ptr_ok sc ->
  (forall mo, In mo (sc_models sc) -> names_ok (mo_mesh mo)) ->
  forall mo nd, In (mo, nd) (combine (filter live (sc_models sc)) (model_nodes sc)) ->
  node_geom_check (to_summary (run sc)) (Some (buf (run sc))) mo nd = [].
Proof. exact node_geom_check_run. Qed.
Print Assumptions node_geometry_clauses_hold.

(* material-content: the material entry a model's primitive refers to has the model's material's name,
   colours (thousandths), factors, alpha mode / cutoff, extension ids, and every texture slot refers to a
   texture with that texture's image URI, sampler and texture-info extension ids *)
Theorem material_content_holds : forall sc, scene_ptr_ok sc -> scene_tex_ptr_ok sc -> scene_ext_cls_ok sc ->
  scene_mat_ok sc -> scene_ext_ids_ok sc ->
  forall mo nd, In (mo, nd) (combine (filter live (sc_models sc)) (model_nodes sc)) ->
  node_mat_check (to_summary (run sc)) mo nd = [].
Proof. exact node_mat_check_run. Qed.
Print Assumptions material_content_holds.

(* texture-pointer-stored-twice: one texture pointer is given one texture index, wherever it is used *)
Theorem texture_pointer_one_index : forall sc, scene_ptr_ok sc -> scene_tex_ptr_ok sc -> scene_ext_cls_ok sc ->
  scene_mat_ok sc ->
  functional (all_tex_refs (to_summary (run sc)) (placements (to_summary (run sc)) sc)) = true.
Proof. exact tex_refs_functional_run. Qed.
Print Assumptions texture_pointer_one_index.

(* dedup-inconsistent, the checker's pairwise clause over all placements: same mesh pointer => same accessors
   (+ same material entry => same mesh entry); different mesh pointers => different index accessors; same
   material (pointer or value) <=> same material entry *)
Theorem dedup_pairs_hold : forall sc, scene_ptr_ok sc -> scene_mat_ptr_ok sc ->
  pairs_ok dedup_pair_ok (placements (to_summary (run sc)) sc) = true.
Proof. exact dedup_pairs_run. Qed.
Print Assumptions dedup_pairs_hold.

(* dangling-index: every primitive is well-formed (distinct attribute names, valid accessor / material
   indices, mode, SCALAR unsigned index accessor), every node reference (mesh, light, instance accessors) and
   every texture slot of every material is valid *)
Theorem references_valid : forall sc, scene_ptr_ok sc ->
  let s := to_summary (run sc) in
  (forallb (fun m => forallb (prim_ok s) (gm_prims m)) (s_meshes s) = true) /\
  (forallb (fun nd => valid_opt (gn_mesh nd) (s_meshes s) && valid_opt (gn_light nd) (s_lights s)
                      && match gn_inst nd with
                         | Some a => forallb (fun kv => valid_idx (snd kv) (s_accs s)) a
                         | None => true end) (s_nodes s) = true) /\
  (forallb (fun m => forallb (fun sl => valid_idx (ti_index (fst (snd sl))) (s_texs s)) (gmt_texs m)) (s_mats s) = true).
Proof. intros sc Hp. exact (conj (prims_ok_run sc Hp) (conj (nodes_valid_run sc Hp) (mat_slots_valid_run sc))). Qed.
Print Assumptions references_valid.

(* unreferenced-entry: every accessor, view, mesh, material, texture, image and sampler is referenced ... *)
Theorem nothing_unreferenced : forall sc, (forall mo, In mo (sc_models sc) -> names_ok (mo_mesh mo)) ->
  nothing_extra (to_summary (run sc)) = true.
Proof. exact nothing_extra_run. Qed.
Print Assumptions nothing_unreferenced.
(* ... and the hypothesis is needed: a mesh with "Color" both as a 4- and a 3-component attribute (both become
   COLOR_0; the second map insert replaces the first) leaves an accessor that nothing refers to *)
Theorem unreferenced_entry_refuted :
  exists sc, scene_ok sc /\ scene_ptr_ok sc /\ nothing_extra (to_summary (run sc)) = false.
Proof. exact names_needed. Qed.
Print Assumptions unreferenced_entry_refuted.

(* the GLB container clauses of the checker (header, total length, chunk lengths and alignment, no trailing
   bytes, chunk table vs buffers, padding) on the container the model predicts, for every JSON length and
   every buffer length (together with glb_lengths / glb_declared_is_actual about the bytes themselves) *)
Theorem glb_container_clauses_hold : forall jl n,
  glb_check (glb_info_of jl n) (if 0 <? n then [n] else []) = [].
Proof. exact glb_check_model. Qed.
Print Assumptions glb_container_clauses_hold.

(* THE PROPERTY SENTENCE (alignment excepted: alignment_refuted), in exactly the form [prop_ok] evaluates on
   the implementation's .gltf documents: the model's document passes every clause of [gltf_check] *)
Theorem gltf_valid_model : forall sc, scene_wf sc -> gltf_validb sc (obs_text sc) = true.
Proof. exact gltf_valid_model_run. Qed.
Print Assumptions gltf_valid_model.
(* non-vacuity of [scene_wf]: two models sharing one mesh, two materials with textures (one with
   KHR_texture_transform) *)
Example c06_scene_wf_example : scene_wf tex_ext_scene /\ live (hd (tri_model 0) (sc_models tex_ext_scene)) = true.
Proof. split; [exact tex_ext_scene_wf|reflexivity]. Qed.

(* component alignment is FALSE of the faithful model (and of the code: known finding
   gltf:unaligned-view): a well-formed scene whose document has a FLOAT accessor at byte offset 42 *)
Theorem alignment_refuted :
  exists sc a v, scene_ok sc /\ In a (s_accs (to_summary (run sc))) /\
    (exists vi, a_view a = Some vi /\ nth_error (s_views (to_summary (run sc))) (N.to_nat vi) = Some v) /\
    (v_off v + a_off a) mod code_size (a_comp a) <> 0.
Proof. exact alignment_refuted_witness. Qed.
Print Assumptions alignment_refuted.

(* non-vacuity: the two-triangle scene is well-formed, is not refused, and its document passes the whole
   checker (everything except alignment) against the scene *)
Example c06_example_ptr : scene_ptr_ok two_triangles.
Proof.
  intros m1 m2 (mo1 & H1 & ->) (mo2 & H2 & ->) E. cbn [sc_models two_triangles In] in H1, H2.
  destruct H1 as [<-|[<-|[]]], H2 as [<-|[<-|[]]]; try reflexivity; cbn in E; discriminate.
Qed.
Example c06_example :
  scene_ok two_triangles /\ scene_rejected two_triangles = false /\
  gltf_validb two_triangles {| o_sum := to_summary (run two_triangles); o_payload := Some (buf (run two_triangles));
                               o_bin_len := 84; o_glb := None |} = true /\
  aligned_ok (s_views (to_summary (run two_triangles))) (s_accs (to_summary (run two_triangles))) = false.
Proof.
  split; [|vm_compute; repeat split; reflexivity].
  unfold scene_ok, two_triangles. cbn [sc_models].
  repeat constructor; cbn; try lia; try (vm_compute; reflexivity).
Qed.
