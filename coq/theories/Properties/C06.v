(* C06 — glTF / GLB output is structurally loadable and carries exactly the scene data.
   Statements only; proofs live in Formats/GltfProofs.v and Formats/GltfGlbProofs.v. *)
From PF Require Import Base.Bytes Formats.Gltf Formats.GltfGlbProofs.
Open Scope list_scope.
Open Scope N_scope.

(* GLB container: for every JSON text and every buffer, the header's length field is the actual file
   length 12 + 8 + pad4 json [+ 8 + pad4 bin]; an independent reader that insists on declared = actual
   lengths and 4-byte aligned chunks recovers the JSON (space padded) and the buffer (zero padded) *)
Theorem glb_lengths : forall json bin,
  len (glb_frame json bin) = glb_total (len json) (len bin) /\
  glb_total (len json) (len bin)
    = 12 + 8 + (len json + pad4 (len json))
      + (if len bin + pad4 (len bin) =? 0 then 0 else 8 + (len bin + pad4 (len bin))) /\
  (len json + pad4 (len json)) mod 4 = 0 /\ (len bin + pad4 (len bin)) mod 4 = 0 /\
  pad4 (len json) < 4 /\ pad4 (len bin) < 4.
Proof.
  intros. repeat split; auto using glb_frame_length, glb_total_eq, pad4_aligned, pad4_lt.
Qed.
Print Assumptions glb_lengths.

Theorem glb_declared_is_actual : forall json bin,
  glb_total (len json) (len bin) < 4294967296 ->
  glb_parse (glb_frame json bin) =
    Some (json ++ repeat 32 (N.to_nat (pad4 (len json))),
          if len bin =? 0 then None else Some (bin ++ repeat 0 (N.to_nat (pad4 (len bin))))).
Proof. exact glb_parse_frame. Qed.
Print Assumptions glb_declared_is_actual.
