(* C16 — spatial index queries agree with exhaustive search.
   Statements only; proofs live in Trees/OctreeProofs.v, Trees/BvhProofs.v, Trees/ElemProofs.v.

   Model: Trees/Octree.v (newOctree and the queries of trees/octree.go, AABB operations of
   math/geometry/aabb.go) and Trees/Bvh.v (BVHNode.Hit, HitList.Hit).  Coordinates are integers
   (Go coordinate x4), ray parameters rationals; everything below is exact and holds for EVERY list
   of (well-formed) element boxes, EVERY maximum depth (Some d, for any d including 0, or None = the
   automatic depth) and EVERY query.

   brute f boxes  =  the indices i (in increasing order) of the boxes with f (box i) = true — the
   exhaustive scan.                                                                              *)
From PF Require Import Trees.Octree Trees.Bvh Trees.OctreeProofs Trees.BvhProofs Trees.ElemProofs Trees.TriProofs Trees.MeshProofs Trees.SphereProofs.
From PF Require Check.C16 Trees.CheckProofs.
From Coq Require Import Permutation QArith.
Open Scope Z_scope.

(* The invariant of the tree newOctree builds: every element occurs exactly once (the tree's elements
   are a permutation of the numbered input), and every element stored in or below a cell has its
   box inside that cell's box — at every level (inv is recursive over the children). *)
Theorem inv_build : forall depth boxes t,
  Forall wf_box boxes -> new_octree depth boxes = Some t ->
  inv t /\ Permutation (tree_elems t) (number boxes).
Proof. exact new_octree_inv. Qed.
Print Assumptions inv_build.

(* no tree exactly for the empty element set *)
Theorem build_none_iff_empty : forall depth boxes, new_octree depth boxes = None <-> boxes = [].
Proof. exact new_octree_none. Qed.
Print Assumptions build_none_iff_empty.

(* the test the correspondence check runs on the implementation's own dumped tree is sound for inv:
   every theorem below that starts from `inv t` applies to every tree that passes it *)
Theorem invariant_test_sound : forall t, Check.C16.invb t = true -> inv t.
Proof. exact Trees.CheckProofs.invb_inv. Qed.
Print Assumptions invariant_test_sound.

(* ElementsContainingPoint = the scan, from the invariant alone (even the order: the tree's own order) *)
Theorem contains_eq_scan : forall p t, inv t -> containing t p = scan (inb p) t.
Proof. exact containing_eq_scan. Qed.
Print Assumptions contains_eq_scan.

Theorem contains_eq_brute : forall depth boxes t p,
  Forall wf_box boxes -> new_octree depth boxes = Some t ->
  Permutation (containing t p) (brute (inb p) boxes).
Proof. exact contains_eq_brute_thm. Qed.
Print Assumptions contains_eq_brute.

(* ElementsWithinRange: box distance <= d (squared comparison; a negative d selects nothing) *)
Theorem within_eq_brute : forall depth boxes t p d,
  Forall wf_box boxes -> new_octree depth boxes = Some t ->
  Permutation (within t p d) (brute (fun b => negb (far b p d)) boxes).
Proof. exact within_eq_brute_thm. Qed.
Print Assumptions within_eq_brute.

(* the slab test AABB.IntersectsRayInRange (with its kEpsilon inflation and the 1/0 = Inf cases) is
   monotone: a ray that passes the test for a box and a parameter range passes it for every larger
   box and every larger range.  This is what makes pruning by the cell / node box sound. *)
Theorem slab_monotone : forall a b ry ra rb,
  box_sub a b -> wf_box a -> (fst rb <= fst ra)%Q -> (snd ra <= snd rb)%Q ->
  slab a ry ra = true -> slab b ry rb = true.
Proof. exact slab_mono. Qed.
Print Assumptions slab_monotone.

(* ElementsIntersectingRay = the scan with the same slab test; TraverseIntersectingRay with an
   iterator that leaves the range alone visits exactly the same elements in the same order *)
Theorem ray_eq_brute : forall depth boxes t ry r,
  Forall wf_box boxes -> new_octree depth boxes = Some t ->
  Permutation (ray_hits t ry r) (brute (fun b => slab b ry r) boxes) /\
  traverse (fun _ r => r) t ry r = ray_hits t ry r.
Proof. exact ray_eq_brute_thm. Qed.
Print Assumptions ray_eq_brute.

(* What the slab test MEANS (independent of the code's sequential min/max updates): for a well-formed
   box, AABB.IntersectsRayInRange(ray, tmin, tmax) is true exactly when some parameter t with
   tmin < t < tmax puts origin + t*direction strictly inside the kEpsilon-inflated box on every axis with
   a non-zero direction component, and the origin is inside the closed inflated slab on every axis whose
   direction component is an exact zero of either sign (ray_crosses / axis_in, Trees/OctreeProofs.v). *)
Theorem ray_spec_iff_slab : forall b ry r, wf_box b -> (slab b ry r = true <-> ray_crosses b ry r).
Proof. exact slab_geo. Qed.
Print Assumptions ray_spec_iff_slab.

(* the direct oracle's interval formulation (Check/C16.v ray_spec) means the same, hence equals the slab test *)
Theorem oracle_ray_spec_iff_crosses : forall b ry r, Check.C16.ray_spec b ry r = true <-> ray_crosses b ry r.
Proof. exact Trees.CheckProofs.ray_spec_geo. Qed.
Print Assumptions oracle_ray_spec_iff_crosses.

Theorem oracle_ray_spec_eq_slab : forall b ry r, wf_box b -> Check.C16.ray_spec b ry r = slab b ry r.
Proof. exact Trees.CheckProofs.ray_spec_eq_slab. Qed.
Print Assumptions oracle_ray_spec_eq_slab.

(* ElementsIntersectingRay against the geometric specification, not against the code's own test:
   exactly the elements whose box the ray crosses, each once *)
Theorem ray_eq_brute_geometric : forall depth boxes t ry r,
  Forall wf_box boxes -> new_octree depth boxes = Some t ->
  NoDup (ray_hits t ry r) /\
  forall i, In i (ray_hits t ry r) <->
            (i < length boxes)%nat /\ ray_crosses (nth i boxes zero_pt_box) ry r.
Proof. exact ray_hits_geo. Qed.
Print Assumptions ray_eq_brute_geometric.

(* TraverseIntersectingRay with an iterator that narrows the range (nearest-hit search): for every
   iterator that only shrinks the range and never cuts into rl, every visited element passes the
   bounds test for the caller's range and every element that passes it for rl is visited *)
Theorem traverse_sandwich_narrowing : forall it ry rl,
  (forall i r, rsub (it i r) r) -> (forall i r, rsub rl r -> rsub rl (it i r)) ->
  forall t r, inv t -> rsub rl r ->
    (forall i, In i (traverse it t ry r) -> In i (scan (fun b => slab b ry r) t)) /\
    (forall e, In e (tree_elems t) -> slab (e_box e) ry rl = true -> In (e_idx e) (traverse it t ry r)).
Proof. exact traverse_sandwich. Qed.
Print Assumptions traverse_sandwich_narrowing.

(* ClosestPoint.  ekey i / cpt i = element i's own squared distance (scaled by kscale) and closest
   point for the query q.  Hypothesis on the elements: no element is nearer than its own box (true
   as soon as the element's closest point lies in its box: closest_in_box_suffices below).
   Then the search always answers on a non-empty set, the returned index i is an element, the
   returned distance and point are element i's own (the index identifies the element that produced
   the point), and no element at all is nearer (ties: some minimiser). *)
Theorem closest_eq_brute : forall (P : Type) (ekey : nat -> Z) (cpt : nat -> P) kscale q depth boxes t,
  0 <= kscale -> Forall wf_box boxes ->
  (forall i, (i < length boxes)%nat -> boxdist2 (nth i boxes zero_pt_box) q * kscale <= ekey i) ->
  new_octree depth boxes = Some t ->
  (exists r, closest P ekey cpt kscale q t = Some r) /\
  forall i k p, closest P ekey cpt kscale q t = Some (i, k, p) ->
    (i < length boxes)%nat /\ k = ekey i /\ p = cpt i /\
    forall j, (j < length boxes)%nat -> k <= ekey j.
Proof. exact closest_eq_brute_thm. Qed.
Print Assumptions closest_eq_brute.

(* the element-instance hypothesis in geometric form: a point of the box is at least as far as the box *)
Theorem closest_in_box_suffices : forall b q c, inb c b = true -> boxdist2 b q <= dist2 c q.
Proof. exact boxdist2_le_in. Qed.
Print Assumptions closest_in_box_suffices.

(* ClosestPoint with EXACT rational element distances kq (no integer keys, no scale given): whenever no
   element is nearer than its box, there is a common integer scale at which the model's search runs, and
   it returns an element of minimal exact distance together with that element's own point *)
Theorem closest_eq_brute_exact : forall (P : Type) (cpt : nat -> P) (kq : nat -> Q) q depth boxes t,
  Forall wf_box boxes ->
  (forall i, (i < length boxes)%nat -> (zq (boxdist2 (nth i boxes zero_pt_box) q) <= kq i)%Q) ->
  new_octree depth boxes = Some t ->
  exists (K : Z) (ekey : nat -> Z),
    0 < K /\ (forall i, (i < length boxes)%nat -> (inject_Z (ekey i) == inject_Z K * kq i)%Q) /\
    (exists r, closest P ekey cpt K q t = Some r) /\
    forall i k p, closest P ekey cpt K q t = Some (i, k, p) ->
      (i < length boxes)%nat /\ p = cpt i /\ forall j, (j < length boxes)%nat -> (kq i <= kq j)%Q.
Proof. exact closest_eq_brute_exact_thm. Qed.
Print Assumptions closest_eq_brute_exact.

(* BOX elements (trees.BoundingBoxElement, what rendering.NewBVH indexes) and POINT elements (point clouds):
   the element's own closest point is the box's clamp / the point, so no hypothesis is left either *)
Theorem closest_eq_brute_boxes : forall (boxes : list box) q depth t,
  Forall wf_box boxes ->
  let ekey := fun i => boxdist2 (nth i boxes zero_pt_box) q in
  let cpt := fun i => bclosest (nth i boxes zero_pt_box) q in
  new_octree depth boxes = Some t ->
  (exists r, closest pt ekey cpt 1 q t = Some r) /\
  forall i k p, closest pt ekey cpt 1 q t = Some (i, k, p) ->
    (i < length boxes)%nat /\ k = ekey i /\ p = cpt i /\ forall j, (j < length boxes)%nat -> k <= ekey j.
Proof. exact closest_eq_brute_boxes_thm. Qed.
Print Assumptions closest_eq_brute_boxes.

Theorem closest_eq_brute_points : forall (pts : list pt) q depth t,
  let ekey := fun i => dist2 (vat pts i) q in
  let cpt := fun i => vat pts i in
  new_octree depth (mesh_point_boxes pts) = Some t ->
  (exists r, closest pt ekey cpt 1 q t = Some r) /\
  forall i k p, closest pt ekey cpt 1 q t = Some (i, k, p) ->
    (i < length pts)%nat /\ k = ekey i /\ p = cpt i /\ forall j, (j < length pts)%nat -> k <= ekey j.
Proof. exact closest_eq_brute_points_thm. Qed.
Print Assumptions closest_eq_brute_points.

(* SEGMENT elements, exact rational model of Line3D.ClosestPointOnLine (seg_closest: parameter
   (p-a).(b-a)/|b-a|^2 clamped to [0,1]): no hypothesis on the elements is left — for every list of
   segments (also zero-length ones), every depth and every query the tree returns a segment whose exact
   closest point is nearest, and that point *)
Theorem closest_eq_brute_segments : forall (segs : list (pt * pt)) q depth t,
  let boxes := map (fun s => seg_box (fst s) (snd s)) segs in
  let cpt := fun i => seg_closest (fst (seg_of segs i)) (snd (seg_of segs i)) q in
  let kq := fun i => qdist2 (cpt i) q in
  new_octree depth boxes = Some t ->
  exists (K : Z) (ekey : nat -> Z),
    0 < K /\ (forall i, (i < length segs)%nat -> (inject_Z (ekey i) == inject_Z K * kq i)%Q) /\
    (exists r, closest qpt ekey cpt K q t = Some r) /\
    forall i k p, closest qpt ekey cpt K q t = Some (i, k, p) ->
      (i < length segs)%nat /\ p = cpt i /\ forall j, (j < length segs)%nat -> (kq i <= kq j)%Q.
Proof. exact closest_eq_brute_segments_thm. Qed.
Print Assumptions closest_eq_brute_segments.

Theorem seg_closest_no_nearer_than_box : forall a b p,
  (zq (boxdist2 (seg_box a b) p) <= qdist2 (seg_closest a b p) p)%Q.
Proof. exact seg_closest_far. Qed.
Print Assumptions seg_closest_no_nearer_than_box.

(* TRIANGLE elements (round 4: no longer partial).  Exact rational model of scopedTri.ClosestPoint
   (Trees/Octree.v tri_closest): the plane projection p - n ((p-a).n / n.n), that point if the repaired
   three-sign PointInSide accepts it, else the nearest of the three edges' ClosestPointOnLine(projection)
   (first on ties).  For every list of triangles of non-zero area (tri_proper: n.n > 0; Go computes NaN for
   the others), every depth and every query the tree returns a triangle whose exact closest point is
   nearest, and that point: no hypothesis on the elements is left. *)
Theorem closest_eq_brute_triangles : forall (tris : list tri3) q depth t,
  Forall tri_proper tris ->
  let boxes := map tri3_box tris in
  let cpt := fun i => tri3_closest (tri_of tris i) q in
  let kq := fun i => qdist2 (cpt i) q in
  new_octree depth boxes = Some t ->
  exists (K : Z) (ekey : nat -> Z),
    0 < K /\ (forall i, (i < length tris)%nat -> (inject_Z (ekey i) == inject_Z K * kq i)%Q) /\
    (exists r, closest qpt ekey cpt K q t = Some r) /\
    forall i k p, closest qpt ekey cpt K q t = Some (i, k, p) ->
      (i < length tris)%nat /\ p = cpt i /\ forall j, (j < length tris)%nat -> (kq i <= kq j)%Q.
Proof. exact closest_eq_brute_triangles_thm. Qed.
Print Assumptions closest_eq_brute_triangles.

(* the element facts behind it: the reported point of a proper triangle lies in the triangle's bounding box
   (every query, both branches), hence is no nearer than the box; the projection branch for ANY rational
   point of the triangle's plane that the three-sign PointInSide accepts (this is the full-strength form of
   tri_closest_in_bbox_partial below, which is its special case "projection on the integer grid") *)
Theorem tri_closest_in_bbox : forall a b c p,
  0 < dot (cross (vsub b a) (vsub c a)) (cross (vsub b a) (vsub c a)) ->
  in_qbox (tri_closest a b c p) (tri_box a b c).
Proof. exact tri_closest_in_box. Qed.
Print Assumptions tri_closest_in_bbox.

Theorem tri_closest_no_nearer_than_box : forall a b c p,
  0 < dot (cross (vsub b a) (vsub c a)) (cross (vsub b a) (vsub c a)) ->
  (zq (boxdist2 (tri_box a b c) p) <= qdist2 (tri_closest a b c p) p)%Q.
Proof. exact tri_closest_far. Qed.
Print Assumptions tri_closest_no_nearer_than_box.

Theorem tri_point_in_side_in_bbox : forall a b c (P : qpt),
  (0 < qdot (tri_normal_q a b c) (tri_normal_q a b c))%Q ->
  (qdot (tri_normal_q a b c) (qvsub P (inj a)) == 0)%Q ->
  tri_in_side_q a b c P = true -> in_qbox P (tri_box a b c).
Proof. exact tri_in_side_q_in_box. Qed.
Print Assumptions tri_point_in_side_in_bbox.

(* instances.  Points: the point itself.  Segments: every coordinate of ClosestPointOnLine lies
   between the end points' coordinates, for every parameter.  Triangles: the projection accepted by the
   repaired PointInSide (three sign tests, 26a68bd) lies in the triangle's box (else the answer is a
   point of an edge = a segment). *)
Theorem point_closest_in_box : forall a, inb a (point_box a) = true.
Proof. exact point_closest_in_bbox. Qed.
Print Assumptions point_closest_in_box.

Theorem seg_closest_in_box : forall a b t : Q,
  ((a <= seg_at a b t /\ seg_at a b t <= b) \/ (b <= seg_at a b t /\ seg_at a b t <= a))%Q.
Proof. exact seg_at_between. Qed.
Print Assumptions seg_closest_in_box.

(* (named tri_closest_in_bbox_partial until round 4: the special case "point of the plane on the integer
   grid" of tri_point_in_side_in_bbox above; the full statement is tri_closest_in_bbox) *)
Theorem tri_point_in_side_in_bbox_grid : forall a b c p,
  0 < dot (cross (vsub b a) (vsub c a)) (cross (vsub b a) (vsub c a)) ->
  coplanar a b c p = true -> tri_in_side a b c p = true -> inb p (tri_box a b c) = true.
Proof. exact tri_in_side_in_bbox. Qed.
Print Assumptions tri_point_in_side_in_bbox_grid.

(* the pinned PointInSide (two sign tests) breaks that instance: it accepts a point of the plane
   outside the triangle's box (so the defect of DESIGN §5 entry 28 is in modeling/tri.go, not in the tree) *)
Theorem tri_point_in_side_pinned_refuted :
  exists a b c p,
    0 < dot (cross (vsub b a) (vsub c a)) (cross (vsub b a) (vsub c a)) /\
    coplanar a b c p = true /\ tri_in_side_pinned a b c p = true /\
    inb p (tri_box a b c) = false /\ tri_in_side a b c p = false.
Proof. exact tri_point_in_side_refuted. Qed.
Print Assumptions tri_point_in_side_pinned_refuted.

(* BVH.  For any hierarchy whose node boxes contain the boxes below them (binv; implied by the node
   boxes NewBVHTree computes: bvh_structure_ok, and every tree NewBVHTree builds: bvh_build_structure_ok), leaves whose hits lie in
   their own box, any range [lo, hi], hit parameters absolute (the recorded Distance is the parameter
   the upper bound is compared with — the repaired Triangle.Hit; for lo = 0 also the pinned one): BVHNode.Hit returns the same hit flag and the
   same nearest distance as HitList.Hit over any list with the same members — whatever the split axes
   were (ties: which of several equally near triangles is reported may differ). *)
Theorem bvh_hit_eq_list : forall lbox tv dist ry lo,
  (forall i t, tv i = Some t -> (dist i == t)%Q) ->
  (forall i t, tv i = Some t -> slab (lbox i) ry (lo, t) = true) ->
  (forall i, wf_box (lbox i)) ->
  forall t l hi,
    binv lbox t -> (forall i, In i (leaves t) <-> In i l) ->
    same_answer (bhit tv dist ry lo t hi None) (list_hit tv dist l hi false None).
Proof. exact bvh_hit_eq_list_thm. Qed.
Print Assumptions bvh_hit_eq_list.

(* NewBVHTree (model bvh_build: the rearrangement `srt` at each node — sort by the random axis, unstable —
   is any permutation; one object: both children are it): every tree it can build satisfies binv and
   holds exactly the given objects; it answers on every non-empty list given fuel >= the object count *)
Theorem bvh_build_structure_ok : forall lbox srt,
  (forall l, Permutation (srt l) l) ->
  forall fuel objs t, bvh_build lbox srt fuel objs = Some t ->
    binv lbox t /\ forall i, In i (leaves t) <-> In i objs.
Proof. exact bvh_build_ok. Qed.
Print Assumptions bvh_build_structure_ok.

Theorem bvh_build_total : forall lbox srt,
  (forall l, Permutation (srt l) l) ->
  forall fuel objs, (length objs <= fuel)%nat -> objs <> [] -> exists t, bvh_build lbox srt fuel objs = Some t.
Proof. exact bvh_build_some. Qed.
Print Assumptions bvh_build_total.

(* so BVHNode.Hit = HitList.Hit on EVERY tree the builder can produce, for every range [lo, hi]
   (lo is arbitrary here and in bvh_hit_eq_list: tv / dist are absolute ray parameters) *)
Theorem bvh_built_hit_eq_list : forall lbox srt tv dist ry lo,
  (forall l, Permutation (srt l) l) ->
  (forall i t, tv i = Some t -> (dist i == t)%Q) ->
  (forall i t, tv i = Some t -> slab (lbox i) ry (lo, t) = true) ->
  (forall i, wf_box (lbox i)) ->
  forall fuel objs t hi,
    bvh_build lbox srt fuel objs = Some t ->
    same_answer (bhit tv dist ry lo t hi None) (list_hit tv dist objs hi false None).
Proof. exact bvh_built_hit_eq_list_thm. Qed.
Print Assumptions bvh_built_hit_eq_list.

(* What the pinned Triangle.Hit does for lo <> 0: it accepts tv <= hi with tv measured from ray.At(lo) but
   records dist = tv + lo.  Then every other hypothesis of bvh_hit_eq_list can hold and the two searches
   still disagree, and BVHNode.Hit does not return the nearest hit (11/2 instead of 5): a genuine defect
   for "nearest ray hit" (fixes/c16-tri-hit-max-offset; FailKey bvh:hit-max-measured-from-min). *)
Theorem bvh_hit_min_offset_pinned_refuted :
  exists (lbox : nat -> box) (tv : nat -> option Q) (dist : nat -> Q) (ry : ray) (lo hi : Q) (t : bvh) (l : list nat),
    (forall i t0, tv i = Some t0 -> (dist i == t0 + lo)%Q) /\
    (forall i t0, tv i = Some t0 -> slab (lbox i) ry (lo, t0 + lo)%Q = true) /\
    (forall i, wf_box (lbox i)) /\
    binv lbox t /\ (forall i, In i (leaves t) <-> In i l) /\
    bhit tv dist ry lo t hi None = (true, Some (11 # 2)) /\
    list_hit tv dist l hi false None = (true, Some 5%Q) /\
    ~ same_answer (bhit tv dist ry lo t hi None) (list_hit tv dist l hi false None).
Proof. exact bvh_hit_min_offset_refuted. Qed.
Print Assumptions bvh_hit_min_offset_pinned_refuted.

Theorem bvh_structure_ok : forall lbox t, bvh_wfb lbox t = true -> binv lbox t.
Proof. exact bvh_wfb_binv. Qed.
Print Assumptions bvh_structure_ok.

(* BVHNode.Hit and HitList.Hit against the exhaustive scan itself (nearest_answer: no flag and an untouched
   record iff no object is hit within the bound, else the least Distance among ALL objects hit within the
   bound, attained by one of them) — not only against each other *)
Theorem list_hit_is_nearest : forall tv dist,
  (forall i t, tv i = Some t -> (dist i == t)%Q) ->
  forall l hi, nearest_answer tv dist l hi (list_hit tv dist l hi false None).
Proof. exact list_hit_nearest_thm. Qed.
Print Assumptions list_hit_is_nearest.

Theorem bvh_hit_is_nearest : forall lbox tv dist ry lo,
  (forall i t, tv i = Some t -> (dist i == t)%Q) ->
  (forall i t, tv i = Some t -> slab (lbox i) ry (lo, t) = true) ->
  (forall i, wf_box (lbox i)) ->
  forall t hi, binv lbox t -> nearest_answer tv dist (leaves t) hi (bhit tv dist ry lo t hi None).
Proof. exact bvh_hit_nearest_thm. Qed.
Print Assumptions bvh_hit_is_nearest.

(* ... on every tree NewBVHTree can build over objs (any split axes, any tie order of the sort) *)
Theorem bvh_built_hit_is_nearest : forall lbox srt tv dist ry lo,
  (forall l, Permutation (srt l) l) ->
  (forall i t, tv i = Some t -> (dist i == t)%Q) ->
  (forall i t, tv i = Some t -> slab (lbox i) ry (lo, t) = true) ->
  (forall i, wf_box (lbox i)) ->
  forall fuel objs t hi, bvh_build lbox srt fuel objs = Some t ->
    nearest_answer tv dist objs hi (bhit tv dist ry lo t hi None).
Proof. exact bvh_built_hit_nearest_thm. Qed.
Print Assumptions bvh_built_hit_is_nearest.

(* SPHERE members (rendering.Sphere through NewBVHTree, static or moving linearly over the time window):
   every point within the radius of the centre at any fraction f of the window lies in the box
   BoundingBox(start, end) reports once that box is the DIAMETER wide (moving_sphere_box: the repaired
   Sphere.BoundingBox, fixes/c16-sphere-bounding-box) — the leaf hypothesis of the BVH theorems for spheres *)
Theorem sphere_hit_in_bbox : forall c0 c1 r f (X : qpt),
  0 <= r -> (0 <= f)%Q -> (f <= 1)%Q ->
  (qdist2q X (centre_at c0 c1 f) <= zq r * zq r)%Q ->
  in_qbox X (moving_sphere_box c0 c1 r).
Proof. exact moving_sphere_point_in_box_thm. Qed.
Print Assumptions sphere_hit_in_bbox.

(* the pinned Sphere.BoundingBox hands the RADIUS to NewAABB(center, size): the box reaches radius/2 only, a
   point of the sphere lies outside its own box (so BVHNode.Hit / Tree.Hit over spheres miss hits HitList.Hit
   finds: FailKey bvh:sphere-box-half-size) *)
Theorem sphere_bbox_pinned_refuted :
  exists (c : pt) (r : Z) (X : qpt),
    0 <= r /\ (qdist2q X (centre_at c c 0) == zq r * zq r)%Q /\
    ~ in_qbox X (sphere_box_pinned c r) /\ in_qbox X (sphere_box c r).
Proof. exact sphere_box_pinned_refuted_thm. Qed.
Print Assumptions sphere_bbox_pinned_refuted.

(* MESH-LEVEL ENTRY POINTS.  Mesh.OctTree / OctTreeDepth / OctTreeWithAttributeAndDepth hand "primitive i of
   the mesh, scoped to the attribute" to NewOctreeWithDepth as element i (mesh_boxes kind verts idx: point
   cloud / line strip / triangles; verts = the attribute's values).  What primitive i is: *)
Theorem mesh_tri_elements : forall verts idx,
  length (mesh_tri_boxes verts idx) = Nat.div (length idx) 3 /\
  forall i, (i < Nat.div (length idx) 3)%nat ->
    nth i (mesh_tri_boxes verts idx) zero_pt_box =
    tri_box (vat verts (nth (3 * i) idx 0%nat)) (vat verts (nth (3 * i + 1) idx 0%nat))
            (vat verts (nth (3 * i + 2) idx 0%nat)).
Proof. exact mesh_tri_boxes_spec. Qed.
Print Assumptions mesh_tri_elements.

Theorem mesh_strip_elements : forall verts idx,
  length (mesh_strip_boxes verts idx) = Nat.pred (length idx) /\
  forall i, (i < Nat.pred (length idx))%nat ->
    nth i (mesh_strip_boxes verts idx) zero_pt_box =
    seg_box (vat verts (nth i idx 0%nat)) (vat verts (nth (S i) idx 0%nat)).
Proof. exact mesh_strip_boxes_spec. Qed.
Print Assumptions mesh_strip_elements.

Theorem mesh_point_elements : forall verts,
  length (mesh_point_boxes verts) = length verts /\
  forall i, (i < length verts)%nat -> nth i (mesh_point_boxes verts) zero_pt_box = point_box (vat verts i).
Proof. exact mesh_point_boxes_spec. Qed.
Print Assumptions mesh_point_elements.

(* the ids every query reports on the tree of a mesh ARE mesh primitive indices: exactly the primitives
   whose own box contains the point / is within the radius / is crossed by the ray — for every mesh
   (also one with triangles that name a vertex twice, zero-length segments, coincident points), depth, query;
   no well-formedness hypothesis is left (mesh boxes are well-formed) *)
Theorem mesh_octree_ids_are_primitives : forall kind verts idx depth t,
  let boxes := mesh_boxes kind verts idx in
  new_octree depth boxes = Some t ->
  (forall p i, In i (containing t p) <-> (i < length boxes)%nat /\ inb p (nth i boxes zero_pt_box) = true) /\
  (forall p d i, In i (within t p d) <-> (i < length boxes)%nat /\ far (nth i boxes zero_pt_box) p d = false) /\
  (forall ry r i, In i (ray_hits t ry r) <-> (i < length boxes)%nat /\ ray_crosses (nth i boxes zero_pt_box) ry r).
Proof. exact mesh_octree_ids_thm. Qed.
Print Assumptions mesh_octree_ids_are_primitives.

(* ClosestPoint on the tree of a triangle mesh without zero-area triangles: end to end from vertices and
   indices to "the returned id is a primitive whose exact closest point is nearest, with that point" *)
Theorem mesh_tri_closest : forall verts idx q depth t,
  let tris := mesh_tris verts idx in
  Forall tri_proper tris ->
  let cpt := fun i => tri3_closest (tri_of tris i) q in
  let kq := fun i => qdist2 (cpt i) q in
  new_octree depth (mesh_tri_boxes verts idx) = Some t ->
  exists (K : Z) (ekey : nat -> Z),
    0 < K /\ (forall i, (i < length tris)%nat -> (inject_Z (ekey i) == inject_Z K * kq i)%Q) /\
    (exists r, closest qpt ekey cpt K q t = Some r) /\
    forall i k p, closest qpt ekey cpt K q t = Some (i, k, p) ->
      (i < length tris)%nat /\ p = cpt i /\ forall j, (j < length tris)%nat -> (kq i <= kq j)%Q.
Proof. exact mesh_tri_closest_thm. Qed.
Print Assumptions mesh_tri_closest.

(* non-vacuity of the triangle / mesh theorems: a mesh of three triangles, the first two sharing an edge;
   all proper; the query (14,-6,0) = Go (3.5,-1.5,0) of DESIGN §5 entry 28: projection rejected, the answer
   is the point (8,0,0) of edge AB / BC of triangle 0 at squared distance 72 (Go: 4.5) *)
Example c16_mesh_example :
  let verts := [(0,0,0); (8,0,0); (0,8,0); (8,8,0); (-24,24,0); (-28,24,0); (-24,28,0)] in
  let idx := [0; 1; 2; 1; 3; 2; 4; 5; 6]%nat in
  Forall tri_proper (mesh_tris verts idx) /\
  length (mesh_tri_boxes verts idx) = 3%nat /\
  Qeq_bool (qdist2 (tri_closest (0,0,0) (8,0,0) (0,8,0) (14,-6,0)) (14,-6,0)) 72 = true /\
  tri_in_side_q (0,0,0) (8,0,0) (0,8,0) (tri_proj (0,0,0) (8,0,0) (0,8,0) (14,-6,0)) = false /\
  tri_in_side_q (0,0,0) (8,0,0) (0,8,0) (tri_proj (0,0,0) (8,0,0) (0,8,0) (2,3,9)) = true.
Proof.
  cbv zeta. split; [repeat constructor|]. vm_compute. repeat split; reflexivity.
Qed.

(* non-vacuity: five elements (three on the centre planes), depth 2: the tree has inner cells, the
   hypotheses hold and the queries return non-trivial answers *)
Example c16_example :
  let boxes := [((0,0,0),(0,0,0)); ((8,8,8),(8,8,8)); ((4,4,4),(4,4,4)); ((0,8,4),(4,8,8)); ((-8,0,0),(-4,4,0))] in
  match new_octree (Some 2%nat) boxes with
  | Some t =>
      tnodes t = 7%nat /\
      containing t (4,8,4) = [3%nat] /\
      within t (4,4,4) 4 = [3; 2]%nat /\
      ray_hits t ((-12,2,0), (1,0,0)%Q) (0, 100)%Q = [4%nat] /\
      closest pt (fun i => dist2 (fst (nth i boxes zero_pt_box)) (7,7,7)) (fun i => fst (nth i boxes zero_pt_box)) 1 (7,7,7) t
        = Some (1%nat, 3, (8,8,8))
  | None => False
  end.
Proof. vm_compute. repeat split; reflexivity. Qed.
