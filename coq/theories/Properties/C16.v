(* C16 — spatial index queries agree with exhaustive search.
   Statements only; proofs live in Trees/OctreeProofs.v, Trees/BvhProofs.v, Trees/ElemProofs.v.

   Model: Trees/Octree.v (newOctree and the queries of trees/octree.go, AABB operations of
   math/geometry/aabb.go) and Trees/Bvh.v (BVHNode.Hit, HitList.Hit).  Coordinates are integers
   (Go coordinate x4), ray parameters rationals; everything below is exact and holds for EVERY list
   of (well-formed) element boxes, EVERY maximum depth (Some d, for any d including 0, or None = the
   automatic depth) and EVERY query.

   brute f boxes  =  the indices i (in increasing order) of the boxes with f (box i) = true — the
   exhaustive scan.                                                                              *)
From PF Require Import Trees.Octree Trees.Bvh Trees.OctreeProofs Trees.BvhProofs Trees.ElemProofs.
From PF Require Check.C16 Trees.CheckProofs.
From Coq Require Import Permutation.
Open Scope Z_scope.

(* The invariant of the tree newOctree builds: every element occurs exactly once (the tree's elements
   are a permutation of the numbered input), and every element stored in or below a cell has its
   box inside that cell's box — at every level (inv is recursive over the children). *)
Theorem inv_build : forall depth boxes t,
  Forall wf_box boxes -> new_octree depth boxes = Some t ->
  inv t /\ Permutation (tree_elems t) (number boxes).
Proof. exact new_octree_inv. Qed.
Print Assumptions inv_build.

(* no tree exactly for the empty element set *)
Theorem build_none_iff_empty : forall depth boxes, new_octree depth boxes = None <-> boxes = [].
Proof. exact new_octree_none. Qed.
Print Assumptions build_none_iff_empty.

(* the test the correspondence check runs on the implementation's own dumped tree is sound for inv:
   every theorem below that starts from `inv t` applies to every tree that passes it *)
Theorem invariant_test_sound : forall t, Check.C16.invb t = true -> inv t.
Proof. exact Trees.CheckProofs.invb_inv. Qed.
Print Assumptions invariant_test_sound.

(* ElementsContainingPoint = the scan, from the invariant alone (even the order: the tree's own order) *)
Theorem contains_eq_scan : forall p t, inv t -> containing t p = scan (inb p) t.
Proof. exact containing_eq_scan. Qed.
Print Assumptions contains_eq_scan.

Theorem contains_eq_brute : forall depth boxes t p,
  Forall wf_box boxes -> new_octree depth boxes = Some t ->
  Permutation (containing t p) (brute (inb p) boxes).
Proof. exact contains_eq_brute_thm. Qed.
Print Assumptions contains_eq_brute.

(* ElementsWithinRange: box distance <= d (squared comparison; a negative d selects nothing) *)
Theorem within_eq_brute : forall depth boxes t p d,
  Forall wf_box boxes -> new_octree depth boxes = Some t ->
  Permutation (within t p d) (brute (fun b => negb (far b p d)) boxes).
Proof. exact within_eq_brute_thm. Qed.
Print Assumptions within_eq_brute.

(* the slab test AABB.IntersectsRayInRange (with its kEpsilon inflation and the 1/0 = Inf cases) is
   monotone: a ray that passes the test for a box and a parameter range passes it for every larger
   box and every larger range.  This is what makes pruning by the cell / node box sound. *)
Theorem slab_monotone : forall a b ry ra rb,
  box_sub a b -> wf_box a -> (fst rb <= fst ra)%Q -> (snd ra <= snd rb)%Q ->
  slab a ry ra = true -> slab b ry rb = true.
Proof. exact slab_mono. Qed.
Print Assumptions slab_monotone.

(* ElementsIntersectingRay = the scan with the same slab test; TraverseIntersectingRay with an
   iterator that leaves the range alone visits exactly the same elements in the same order *)
Theorem ray_eq_brute : forall depth boxes t ry r,
  Forall wf_box boxes -> new_octree depth boxes = Some t ->
  Permutation (ray_hits t ry r) (brute (fun b => slab b ry r) boxes) /\
  traverse (fun _ r => r) t ry r = ray_hits t ry r.
Proof. exact ray_eq_brute_thm. Qed.
Print Assumptions ray_eq_brute.

(* TraverseIntersectingRay with an iterator that narrows the range (nearest-hit search): for every
   iterator that only shrinks the range and never cuts into rl, every visited element passes the
   bounds test for the caller's range and every element that passes it for rl is visited *)
Theorem traverse_sandwich_narrowing : forall it ry rl,
  (forall i r, rsub (it i r) r) -> (forall i r, rsub rl r -> rsub rl (it i r)) ->
  forall t r, inv t -> rsub rl r ->
    (forall i, In i (traverse it t ry r) -> In i (scan (fun b => slab b ry r) t)) /\
    (forall e, In e (tree_elems t) -> slab (e_box e) ry rl = true -> In (e_idx e) (traverse it t ry r)).
Proof. exact traverse_sandwich. Qed.
Print Assumptions traverse_sandwich_narrowing.

(* ClosestPoint.  ekey i / cpt i = element i's own squared distance (scaled by kscale) and closest
   point for the query q.  Hypothesis on the elements: no element is nearer than its own box (true
   as soon as the element's closest point lies in its box: closest_in_box_suffices below).
   Then the search always answers on a non-empty set, the returned index i is an element, the
   returned distance and point are element i's own (the index identifies the element that produced
   the point), and no element at all is nearer (ties: some minimiser). *)
Theorem closest_eq_brute : forall (P : Type) (ekey : nat -> Z) (cpt : nat -> P) kscale q depth boxes t,
  0 <= kscale -> Forall wf_box boxes ->
  (forall i, (i < length boxes)%nat -> boxdist2 (nth i boxes zero_pt_box) q * kscale <= ekey i) ->
  new_octree depth boxes = Some t ->
  (exists r, closest P ekey cpt kscale q t = Some r) /\
  forall i k p, closest P ekey cpt kscale q t = Some (i, k, p) ->
    (i < length boxes)%nat /\ k = ekey i /\ p = cpt i /\
    forall j, (j < length boxes)%nat -> k <= ekey j.
Proof. exact closest_eq_brute_thm. Qed.
Print Assumptions closest_eq_brute.

(* the element-instance hypothesis in geometric form: a point of the box is at least as far as the box *)
Theorem closest_in_box_suffices : forall b q c, inb c b = true -> boxdist2 b q <= dist2 c q.
Proof. exact boxdist2_le_in. Qed.
Print Assumptions closest_in_box_suffices.

(* instances.  Points: the point itself.  Segments: every coordinate of ClosestPointOnLine lies
   between the end points' coordinates, for every parameter.  Triangles: the projection accepted by the
   repaired PointInSide (three sign tests, 26a68bd) lies in the triangle's box (else the answer is a
   point of an edge = a segment). *)
Theorem point_closest_in_box : forall a, inb a (point_box a) = true.
Proof. exact point_closest_in_bbox. Qed.
Print Assumptions point_closest_in_box.

Theorem seg_closest_in_box : forall a b t : Q,
  ((a <= seg_at a b t /\ seg_at a b t <= b) \/ (b <= seg_at a b t /\ seg_at a b t <= a))%Q.
Proof. exact seg_at_between. Qed.
Print Assumptions seg_closest_in_box.

Theorem tri_closest_in_bbox : forall a b c p,
  0 < dot (cross (vsub b a) (vsub c a)) (cross (vsub b a) (vsub c a)) ->
  coplanar a b c p = true -> tri_in_side a b c p = true -> inb p (tri_box a b c) = true.
Proof. exact tri_in_side_in_bbox. Qed.
Print Assumptions tri_closest_in_bbox.

(* the pinned PointInSide (two sign tests) breaks that instance: it accepts a point of the plane
   outside the triangle's box (so the defect of DESIGN §5 entry 28 is in modeling/tri.go, not in the tree) *)
Theorem tri_point_in_side_pinned_refuted :
  exists a b c p,
    0 < dot (cross (vsub b a) (vsub c a)) (cross (vsub b a) (vsub c a)) /\
    coplanar a b c p = true /\ tri_in_side_pinned a b c p = true /\
    inb p (tri_box a b c) = false /\ tri_in_side a b c p = false.
Proof. exact tri_point_in_side_refuted. Qed.
Print Assumptions tri_point_in_side_pinned_refuted.

(* BVH.  For any hierarchy whose node boxes contain the boxes below them (binv; implied by the node
   boxes NewBVHTree computes: bvh_structure_ok), leaves whose hits lie in their own box, and lower
   bound 0 (the recorded Distance is the hit parameter): BVHNode.Hit returns the same hit flag and the
   same nearest distance as HitList.Hit over any list with the same members — whatever the split axes
   were (ties: which of several equally near triangles is reported may differ). *)
Theorem bvh_hit_eq_list : forall lbox tv dist ry lo,
  (forall i t, tv i = Some t -> (dist i == t)%Q) ->
  (forall i t, tv i = Some t -> slab (lbox i) ry (lo, t) = true) ->
  (forall i, wf_box (lbox i)) ->
  forall t l hi,
    binv lbox t -> (forall i, In i (leaves t) <-> In i l) ->
    same_answer (bhit tv dist ry lo t hi None) (list_hit tv dist l hi false None).
Proof. exact bvh_hit_eq_list_thm. Qed.
Print Assumptions bvh_hit_eq_list.

Theorem bvh_structure_ok : forall lbox t, bvh_wfb lbox t = true -> binv lbox t.
Proof. exact bvh_wfb_binv. Qed.
Print Assumptions bvh_structure_ok.

(* non-vacuity: five elements (three on the centre planes), depth 2: the tree has inner cells, the
   hypotheses hold and the queries return non-trivial answers *)
Example c16_example :
  let boxes := [((0,0,0),(0,0,0)); ((8,8,8),(8,8,8)); ((4,4,4),(4,4,4)); ((0,8,4),(4,8,8)); ((-8,0,0),(-4,4,0))] in
  match new_octree (Some 2%nat) boxes with
  | Some t =>
      tnodes t = 7%nat /\
      containing t (4,8,4) = [3%nat] /\
      within t (4,4,4) 4 = [3; 2]%nat /\
      ray_hits t ((-12,2,0), (1,0,0)%Q) (0, 100)%Q = [4%nat] /\
      closest pt (fun i => dist2 (fst (nth i boxes zero_pt_box)) (7,7,7)) (fun i => fst (nth i boxes zero_pt_box)) 1 (7,7,7) t
        = Some (1%nat, 3, (8,8,8))
  | None => False
  end.
Proof. vm_compute. repeat split; reflexivity. Qed.
