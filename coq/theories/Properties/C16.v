(* C16 — spatial index queries agree with exhaustive search.  Statements only; proofs live in
   Trees/OctreeProofs.v, Trees/BvhProofs.v, Trees/ElemProofs.v. *)
From PF Require Import Trees.Octree Trees.OctreeProofs.
Open Scope Z_scope.

Theorem contains_eq_scan : forall p t, inv t -> containing t p = scan (inb p) t.
Proof. exact containing_eq_scan. Qed.
Print Assumptions contains_eq_scan.
