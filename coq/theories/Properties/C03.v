(* C03 — mesh operations do what they say and nothing else.
   Statements only; the proofs live in Mesh/PureLaws.v (which builds on Mesh/PureLemmas.v, PureProofs.v).

   Reading guide (Mesh/Pure.v, Mesh/Case.v).  [row m i] is the tuple of ALL attribute values of vertex i
   (in key order); [corners m] = [map (row m) (indices m)] is the per-corner attribute content of the mesh;
   [prims m] cuts it into primitives (triples for triangles, quadruples for quads, single corners
   otherwise).  [rows m] lists the rows of all vertices 0..nverts-1.  Every law is for EVERY well-formed
   mesh (any index pattern, duplicated and unreferenced vertices, any attribute mix, empty meshes) and
   every parameter (predicate, box, area test, rounding key, vector, quaternion, TRS list).
   The model functions are tied to the Go code by the correspondence check on every run; the boolean
   form of these laws ([contract], Mesh/Case.v) is additionally evaluated on the implementation's own
   output, and [contract_sound] below shows that the model satisfies that boolean form on all inputs. *)
From Coq Require Import List NArith ZArith Bool Arith Permutation QArith Qcanon.
From PF Require Import Mesh.Pure Mesh.PureLemmas Mesh.PureProofs Mesh.Case Mesh.PureLaws Mesh.AreaLaws Mesh.Smooth Mesh.SmoothProofs Mesh.Normals Mesh.NormalsProofs.
Import ListNotations.
Close Scope Qc_scope.
Close Scope Q_scope.

(* ================================================================ THE PROPERTY, stated once
   Sentence 1: "Operations that only change layout or connectivity (unweld, weld-by-position, remove
   unreferenced vertices, remove degenerate faces, append/repeat, split by material, flip winding, to point
   cloud, attribute filters and crop) keep the per-corner attribute content of every surviving primitive
   exactly (weld: within its rounding cell) and drop or reorder only what their contract names."
   Sentence 2: "Operations that transform one attribute ... change exactly that attribute by the stated map
   and leave indices, topology and every other attribute untouched."

   Packaged: for all 22 modelled operations, every well-formed input and every parameter, the result of the
   operation satisfies its contract [contract o ins out] - the boolean conjunction, per operation, of exactly
   the clauses spelled out one by one below (corner content of the survivors, which primitives survive and
   in which order, identity / offset indices, no unreferenced vertex, key set, materials, the frame law of
   the single-attribute transforms with their pointwise maps) - and the composition laws hold.  The same
   boolean is evaluated on the implementation's own output on every run. *)
Theorem C03_operations_do_what_they_say :
  (forall o ins, length ins = op_arity o -> inputs_ok o ins = true -> contract o ins (step o ins) = true) /\
  (forall m, wf m ->
     law_ok LEq [unweld (unweld m); unweld m] = true
     /\ law_ok LEq [remove_unref (remove_unref m); remove_unref m] = true
     /\ (topology m = Triangle ->
         exists r, flip m = Ok [r] /\ exists r', flip r = Ok [r'] /\ law_ok LEq [r'; m] = true)) /\
  (forall a dv m d, wf m -> topology m = Triangle -> lookup (3%N, a) (attrs m) = Some d ->
     exists r1 r2, weld vec_eqb (round_key dv) a m = Ok [r1]
       /\ weld vec_eqb (round_key dv) a (unweld m) = Ok [r2]
       /\ law_ok (LWeldUnweld a dv) [r1; r2] = true).
Proof. split; [exact PureLaws.contract_sound|split; [exact law_eq_model|exact law_weld_unweld_model]]. Qed.
Print Assumptions C03_operations_do_what_they_say.

(* ================================================================ the clauses one by one *)
(* ------------------------------------------------------------------ layout / connectivity operations *)

(* Unweld: corner content unchanged, identity indices, nothing else touched *)
Theorem unweld_corners : forall m,
  corners (unweld m) = corners m
  /\ indices (unweld m) = seq 0 (length (indices m))
  /\ topology (unweld m) = topology m
  /\ materials (unweld m) = materials m
  /\ keys (unweld m) = keys m.
Proof. exact PureLaws.unweld_corners. Qed.
Print Assumptions unweld_corners.

(* RemovedUnreferencedVertices: corner content unchanged; afterwards every vertex is referenced; the kept
   vertices keep their relative order and complete rows; an attribute is dropped only when no vertex
   survives; topology and materials untouched; idempotent *)
Theorem remove_unref_corners : forall m, wf m ->
  corners (remove_unref m) = corners m
  /\ (forall v, v < nverts (remove_unref m) -> In v (indices (remove_unref m)))
  /\ (indices m <> [] -> rows (remove_unref m) = compact (used_mask (nverts m) (indices m)) (rows m))
  /\ (indices m <> [] -> keys (remove_unref m) = keys m)
  /\ topology (remove_unref m) = topology m /\ materials (remove_unref m) = materials m
  /\ remove_unref (remove_unref m) = remove_unref m.
Proof.
  intros m W. split; [apply PureLaws.remove_unref_corners, W|].
  split; [apply remove_unref_all_referenced, W|].
  split; [apply remove_unref_order, W|].
  split; [apply remove_unref_keys, W|].
  split; [apply remove_unref_shell|]. split; [apply remove_unref_shell|]. apply remove_unref_idem, W.
Qed.
Print Assumptions remove_unref_corners.

(* RemoveNullFaces3D, for an arbitrary test [keep] on the three corner values of attribute a (the
   geometric predicate "area > minArea" is not what this law is about): the surviving triangles are
   exactly those that pass, in order, with their corner content unchanged *)
Theorem remove_null_spec : forall a keep m d, wf m -> topology m = Triangle ->
  lookup (3%N, a) (attrs m) = Some d ->
  exists r, remove_null a keep m = Ok [r]
    /\ prims r = map (map (row m)) (filter (fun t => keep (gather t d)) (chunk3 (indices m)))
    /\ corners r = map (row m) (concat (filter (fun t => keep (gather t d)) (chunk3 (indices m))))
    /\ topology r = topology m /\ materials r = materials m
    /\ (r = m \/ forall v, v < nverts r -> In v (indices r)).
Proof. exact PureLaws.remove_null_spec. Qed.
Print Assumptions remove_null_spec.

(* ... and with the exact area test instantiated: MinArea enters as min4 = 4 MinArea^2 and a triangle
   survives iff its TRUE area exceeds MinArea, i.e. min4 < |cross (p2-p1) (p3-p1)|^2, decided in Z
   (integer / dyadic coordinates; this is what the needle stream of the check tests at scales 2^-40..2^20) *)
Theorem remove_null_area_spec : forall a min4 m d, wf m -> topology m = Triangle ->
  lookup (3%N, a) (attrs m) = Some d ->
  exists r, remove_null a (area_keep min4) m = Ok [r]
    /\ prims r = map (map (row m)) (filter (fun t => (min4 <? tri_cross_sq d t)%Z) (chunk3 (indices m)))
    /\ corners r = map (row m) (concat (filter (fun t => (min4 <? tri_cross_sq d t)%Z) (chunk3 (indices m))))
    /\ topology r = topology m /\ materials r = materials m
    /\ (r = m \/ forall v, v < nverts r -> In v (indices r)).
Proof. exact AreaLaws.remove_null_area_spec. Qed.
Print Assumptions remove_null_area_spec.

(* |cross|^2 in coordinates (= 4 area^2), non-negative, zero for a repeated corner *)
Theorem cross_sq_is_four_area_squared : forall x1 y1 z1 x2 y2 z2 x3 y3 z3,
  cross_sq [x1; y1; z1] [x2; y2; z2] [x3; y3; z3] =
  (let ux := x2 - x1 in let uy := y2 - y1 in let uz := z2 - z1 in
   let vx := x3 - x1 in let vy := y3 - y1 in let vz := z3 - z1 in
   (uy * vz - uz * vy) * (uy * vz - uz * vy) + (uz * vx - ux * vz) * (uz * vx - ux * vz)
   + (ux * vy - uy * vx) * (ux * vy - uy * vx))%Z
  /\ (0 <= cross_sq [x1; y1; z1] [x2; y2; z2] [x3; y3; z3])%Z.
Proof. intros. split; [apply cross_sq_coords|apply cross_sq_nonneg]. Qed.
Print Assumptions cross_sq_is_four_area_squared.

(* Append: indices of the second mesh offset by the first's vertex count, materials concatenated, key
   set = union, every corner of both meshes keeps its content ([rowk] zero-fills the attributes a mesh
   lacks), primitives of a followed by primitives of b *)
Theorem append_prims : forall a b, wf a -> wf b -> topology a = topology b ->
  exists r, append a b = Ok [r]
    /\ indices r = indices a ++ map (fun i => i + nverts a) (indices b)
    /\ materials r = materials a ++ materials b
    /\ (forall k, In k (keys r) <-> In k (keys a) \/ In k (keys b))
    /\ corners r = map (rowk (keys r) a) (indices a) ++ map (rowk (keys r) b) (indices b)
    /\ prims r = units (topology a) (map (rowk (keys r) a) (indices a))
                 ++ units (topology a) (map (rowk (keys r) b) (indices b)).
Proof.
  intros a b Wa Wb T. destruct (append_spec a b Wa Wb T) as [r [E [_ [I [M [K _]]]]]].
  exists r. split; [exact E|]. split; [exact I|]. split; [exact M|]. split; [exact K|].
  split; [apply append_corners; assumption|apply PureLaws.append_prims; assumption].
Qed.
Print Assumptions append_prims.

(* repeat.Mesh over a non-empty transform list: |ts| copies, copy j offset by j*nverts, the position
   attribute of copy j transformed by ts[j], every other attribute copied *)
Theorem repeat_prims : forall pos m d ts, wf m -> lookup (3%N, pos) (attrs m) = Some d -> d <> [] -> ts <> [] ->
  exists r, repeat_mesh pos m ts = Ok [r]
    /\ wf r /\ topology r = topology m
    /\ indices r = concat (map (fun j => map (fun i => i + j * nverts m) (indices m)) (seq 0 (length ts)))
    /\ materials r = concat (map (fun _ => materials m) ts)
    /\ keys r = keys m
    /\ nverts r = length ts * nverts m
    /\ (forall k dk, lookup k (attrs m) = Some dk ->
          lookup k (attrs r) =
          Some (if key_eqb k (3%N, pos) then concat (map (fun t => map (trs_v t) dk) ts)
                else concat (map (fun _ => dk) ts))).
Proof. intros pos m d ts W L D T. exact (repeat_spec pos m d W L D ts T). Qed.
Print Assumptions repeat_prims.

(* SplitOnUniqueMaterials (>= 2 ranges covering the triangles): one part per distinct material, in order
   of first appearance; each part carries exactly its material with the right count and exactly the
   triangles of that material, corner content unchanged, no unreferenced vertex; together the parts
   are a permutation of the input's triangles *)
Theorem split_partition : forall m c0 mat0 p2 rest, wf m -> topology m = Triangle ->
  materials m = (c0, mat0) :: p2 :: rest ->
  length (chunk3 (indices m)) <= length (tri_mats (materials m)) ->
  let ts := chunk3 (indices m) in
  let tm := firstn (length ts) (tri_mats (materials m)) in
  exists parts xs, split m = Ok parts
    /\ NoDup xs /\ (forall x, In x xs <-> x = mat0 \/ In x tm)
    /\ Forall2 (fun x p =>
         materials p = [(length (indices p) / 3, x)]
         /\ corners p = map (row m) (concat (tris_of_mat ts tm x))
         /\ prims p = map (map (row m)) (tris_of_mat ts tm x)
         /\ topology p = Triangle
         /\ (forall v, v < nverts p -> In v (indices p))
         /\ (indices p <> [] -> keys p = keys m)) xs parts
    /\ Permutation (concat (map prims parts)) (prims m).
Proof. exact PureLaws.split_partition. Qed.
Print Assumptions split_partition.

(* FlipTriangleWinding: corners 0 and 1 of every triangle swapped, nothing else; twice = identity *)
Theorem flip_spec : forall m, topology m = Triangle ->
  exists r, flip m = Ok [r]
    /\ corners r = flip3 (corners m)
    /\ indices r = flip3 (indices m)
    /\ attrs r = attrs m /\ materials r = materials m /\ topology r = topology m.
Proof. exact PureLaws.flip_spec. Qed.
Print Assumptions flip_spec.

Theorem flip_flip : forall m, wf m -> topology m = Triangle ->
  exists r, flip m = Ok [r] /\ flip r = Ok [m].
Proof. exact PureLaws.flip_flip. Qed.
Print Assumptions flip_flip.

(* ToPointCloud *)
Theorem to_points_spec : forall m,
  attrs (to_points m) = attrs m /\ materials (to_points m) = materials m
  /\ topology (to_points m) = Point
  /\ (topology m = Point -> to_points m = m)
  /\ (topology m <> Point -> indices (to_points m) = seq 0 (nverts m)).
Proof. exact PureLaws.to_points_spec. Qed.
Print Assumptions to_points_spec.

(* FilterFloat1..4, any predicate: the surviving primitives are exactly those all of whose vertices
   satisfy the predicate, in order, content unchanged, no unreferenced vertex left *)
Theorem filter_spec : forall k pred m d, wf m -> lookup k (attrs m) = Some d ->
  exists r, filter_attr k pred m = Ok [r]
    /\ prims r = map (map (row m))
                     (filter (forallb (fun i => pred (nth i d []))) (units (topology m) (indices m)))
    /\ corners r = map (row m)
                     (concat (filter (forallb (fun i => pred (nth i d []))) (units (topology m) (indices m))))
    /\ (forall v, v < nverts r -> In v (indices r))
    /\ topology r = topology m /\ materials r = materials m
    /\ (indices r <> [] -> keys r = keys m).
Proof. exact PureLaws.filter_spec. Qed.
Print Assumptions filter_spec.

(* CropFloat3Attribute (point clouds): exactly the points inside the box, in order, identity indices *)
Theorem crop_spec : forall a lo hi m d, wf m -> topology m = Point ->
  lookup (3%N, a) (attrs m) = Some d ->
  let kept := filter (fun i => inside lo hi (nth i d [])) (indices m) in
  exists r, crop a lo hi m = Ok [r]
    /\ corners r = map (row m) kept
    /\ indices r = seq 0 (length kept)
    /\ topology r = Point /\ materials r = materials m
    /\ (kept <> [] -> keys r = keys m /\ nverts r = length kept)
    /\ (kept = [] -> attrs r = []).
Proof. exact PureLaws.crop_spec. Qed.
Print Assumptions crop_spec.

(* WeldByFloat3Attribute, for EVERY rounding key [keyf] (so every decimal place): the result's triangles
   are the input triangles with three distinct keys, each corner replaced by the first vertex of its key
   class (content equal within the rounding cell: same key, and the representative is the first of the
   class), no unused vertex, result vertices have pairwise distinct keys, materials cleared *)
Theorem weld_spec : forall (K : Type) (keq : K -> K -> bool) (keyf : vec -> K),
  (forall a b, keq a b = true <-> a = b) ->
  forall a m d, wf m -> topology m = Triangle -> lookup (3%N, a) (attrs m) = Some d ->
    let surv := concat (filter (distinct3 keq keyf d) (chunk3 (indices m))) in
    exists r, weld keq keyf a m = Ok [r]
      /\ corners r = map (fun i => row m (rep keq keyf d i)) surv
      /\ (forall i, i < length d ->
            keyf (nth (rep keq keyf d i) d []) = keyf (nth i d []) /\ rep keq keyf d i <= i)
      /\ (forall v, v < nverts r -> In v (indices r))
      /\ keys r = keys m
      /\ materials r = [] /\ topology r = Triangle
      /\ NoDup (map keyf (data_or_nil (3%N, a) r)).
Proof. intros K keq keyf H. exact (PureLaws.weld_spec keq keyf H). Qed.
Print Assumptions weld_spec.

(* weld after unweld = weld, up to the rounding cell: the same key-rounded corner positions *)
Theorem weld_unweld : forall (K : Type) (keq : K -> K -> bool) (keyf : vec -> K),
  (forall a b, keq a b = true <-> a = b) ->
  forall a m d, wf m -> topology m = Triangle -> lookup (3%N, a) (attrs m) = Some d ->
    exists r1 r2, weld keq keyf a m = Ok [r1] /\ weld keq keyf a (unweld m) = Ok [r2]
      /\ map keyf (gather (indices r1) (data_or_nil (3%N, a) r1))
         = map keyf (gather (indices r2) (data_or_nil (3%N, a) r2)).
Proof. intros K keq keyf H. exact (PureLaws.weld_unweld keq keyf H). Qed.
Print Assumptions weld_unweld.

(* SliceByPlaneWithAttribute (not named in the sentence, same kind of contract), for EVERY side test: the
   first half holds exactly the triangles all of whose corners are clipped, the second those none of whose
   corners is, in order, corner content unchanged, no unreferenced vertex; no triangle is in both *)
Theorem slice_spec : forall a clip m d, wf m -> topology m = Triangle -> lookup (3%N, a) (attrs m) = Some d ->
  let above := filter (forallb (fun i => clip (nth i d []))) (chunk3 (indices m)) in
  let below := filter (forallb (fun i => negb (clip (nth i d [])))) (chunk3 (indices m)) in
  exists ra rb, slice a clip m = Ok [ra; rb]
    /\ prims ra = map (map (row m)) above /\ prims rb = map (map (row m)) below
    /\ corners ra = map (row m) (concat above) /\ corners rb = map (row m) (concat below)
    /\ (forall v, v < nverts ra -> In v (indices ra)) /\ (forall v, v < nverts rb -> In v (indices rb))
    /\ topology ra = Triangle /\ topology rb = Triangle
    /\ materials ra = materials m /\ materials rb = materials m
    /\ (forall t, In t above -> In t below -> t = []).
Proof. exact PureLaws.slice_spec. Qed.
Print Assumptions slice_spec.

(* ------------------------------------------------------------------ single-attribute transforms *)

(* the frame law: an operation that rewrites attribute k by the pointwise map g changes exactly that
   attribute, by g, and leaves indices, topology, materials, the key list and every other attribute
   untouched.  ([d <> []]: on a mesh without vertices SetFloatNAttribute deletes the key, see
   PureLaws.modify_attr_frame_nil.) *)
Theorem only_attr_changes : forall k (g : vec -> vec) f m d,
  f = map g -> lookup k (attrs m) = Some d -> d <> [] ->
  exists r d', modify_attr k f m = Ok [r]
    /\ topology r = topology m /\ indices r = indices m /\ materials r = materials m
    /\ lookup k (attrs r) = Some d' /\ length d' = length d
    /\ (forall i, i < length d -> nth i d' [] = g (nth i d []))
    /\ (forall k', k' <> k -> lookup k' (attrs r) = lookup k' (attrs m))
    /\ (ssortedb (keys m) = true -> keys r = keys m).
Proof. exact PureLaws.only_attr_changes. Qed.
Print Assumptions only_attr_changes.

(* its instances: translate v -> v + amount; scale v -> origin + (v - origin) * amount (3-D and 2-D);
   rotate v -> q v q* (polynomial form of quaternion.Rotate); ApplyTRS v -> rotate (scale * v) + position;
   each is [modify_attr] with [map] of the pointwise map, so [only_attr_changes] applies verbatim *)
Theorem transforms_are_pointwise : forall a,
  (forall amount, translate a amount = modify_attr (3%N, a) (map (translate_v amount))) /\
  (forall origin amount, scale3 a origin amount = modify_attr (3%N, a) (map (scale_v origin amount))) /\
  (forall origin amount, scale2 a origin amount = modify_attr (2%N, a) (map (scale_v origin amount))) /\
  (forall q, rotate a q = modify_attr (3%N, a) (map (rotate_v q))) /\
  (forall t, apply_trs a t = modify_attr (3%N, a) (map (trs_v t))).
Proof. intros a. repeat split. Qed.
Print Assumptions transforms_are_pointwise.

(* ScaleAttributeAlongNormal: exactly attribute a changes, v_i becomes v_i + amount * n_i with n the values
   of the normal attribute (polynomial: exact, compared in Coq - no longer a tolerance check) *)
Theorem scale_along_normal_spec : forall a nrm amt m d dn, wf m ->
  lookup (3%N, a) (attrs m) = Some d -> lookup (3%N, nrm) (attrs m) = Some dn -> d <> [] ->
  exists r d', scale_along_normal a nrm amt m = Ok [r]
    /\ topology r = topology m /\ indices r = indices m /\ materials r = materials m
    /\ lookup (3%N, a) (attrs r) = Some d' /\ length d' = length d
    /\ (forall i, i < length d -> nth i d' [] = vzip Z.add (nth i d []) (map (Z.mul amt) (nth i dn [])))
    /\ (forall k', k' <> (3%N, a) -> lookup k' (attrs r) = lookup k' (attrs m))
    /\ keys r = keys m.
Proof. exact PureLaws.scale_along_normal_spec. Qed.
Print Assumptions scale_along_normal_spec.

(* centre: one common vector (the bounding-box midpoint) is subtracted from every value *)
Theorem center_only_attr : forall a m d, lookup (3%N, a) (attrs m) = Some d -> d <> [] ->
  exists r d' mid, center a m = Ok [r]
    /\ topology r = topology m /\ indices r = indices m /\ materials r = materials m
    /\ lookup (3%N, a) (attrs r) = Some d' /\ length d' = length d
    /\ (forall i, i < length d -> nth i d' [] = vzip Z.sub (nth i d []) mid)
    /\ (forall k', k' <> (3%N, a) -> lookup k' (attrs r) = lookup k' (attrs m))
    /\ (ssortedb (keys m) = true -> keys r = keys m).
Proof. exact PureLaws.center_only_attr. Qed.
Print Assumptions center_only_attr.

(* ------------------------------------------------------------------ value laws over Q: Laplacian and centre
   Mesh/Smooth.v models LaplacianSmooth and CenterFloat3Attribute on ONE coordinate (the three evolve
   independently) over the canonical rationals Qc: [neighbours t idx v] is the duplicate-free neighbour set of
   VertexNeighborTable, [lap_sweep] the in-place (Gauss-Seidel) sweep over the vertices in order,
   [laplacian_mesh t idx f k d] k sweeps with factor f.  On every run the implementation's output values
   are handed to Coq as exact dyadic rationals and compared with [laplacian_mesh] (relative 1e-9, case CLap). *)

(* the stated map: vertex v moves towards the MEAN OF ITS DISTINCT NEIGHBOURS by the factor f; it sees the
   values already updated in this sweep for the vertices before it; a vertex without neighbours stays *)
Theorem laplacian_spec : forall nb f d v, (v < length d)%nat -> nb v <> [] ->
  nth v (lap_sweep nb f d) (Q2Qc 0) =
  (nth v d (Q2Qc 0) +
   (mean (map (fun j => if j <? v then nth j (lap_sweep nb f d) (Q2Qc 0) else nth j d (Q2Qc 0)) (nb v))
    - nth v d (Q2Qc 0)) * f)%Qc.
Proof. exact lap_sweep_gauss_seidel. Qed.
Print Assumptions laplacian_spec.

Theorem laplacian_iterates : forall nb f k d, laplacian nb f (S k) d = lap_sweep nb f (laplacian nb f k d).
Proof. exact laplacian_S. Qed.
Print Assumptions laplacian_iterates.

(* the neighbour sets: duplicate-free, symmetric, exactly the linked vertices, in range of the mesh *)
Theorem neighbours_spec : forall t idx v,
  NoDup (neighbours t idx v)
  /\ (forall w, In w (neighbours t idx v) <->
        exists a b, In (a, b) (links t idx) /\ ((a = v /\ b = w) \/ (b = v /\ a = w)))
  /\ (forall w, In w (neighbours t idx v) <-> In v (neighbours t idx w))
  /\ (forall n, Forall (fun i => (i < n)%nat) idx -> Forall (fun j => (j < n)%nat) (neighbours t idx v)).
Proof.
  intros t idx v. split; [apply neighbours_NoDup|]. split; [intros w; apply neighbours_iff|].
  split; [intros w; apply neighbours_sym|]. intros n H. apply neighbours_range, H.
Qed.
Print Assumptions neighbours_spec.

(* laws: unreferenced vertices never move; factor 0 is the identity; the map is linear in scale and
   equivariant under translation (hence commutes with every affine change of units x |-> c x + s);
   constant fields are fixed; for 0 <= f <= 1 every value stays within the bounds of the input *)
Theorem laplacian_laws : forall t idx f k d, Forall (fun i => (i < length d)%nat) idx ->
  (forall v, ~ In v idx -> nth v (laplacian_mesh t idx f k d) (Q2Qc 0) = nth v d (Q2Qc 0))
  /\ laplacian_mesh t idx (Q2Qc 0) k d = d
  /\ (forall c, laplacian_mesh t idx f k (map (Qcmult c) d) = map (Qcmult c) (laplacian_mesh t idx f k d))
  /\ (forall s, laplacian_mesh t idx f k (map (fun x => (x + s)%Qc) d)
              = map (fun x => (x + s)%Qc) (laplacian_mesh t idx f k d))
  /\ (forall c, (forall x, In x d -> x = c) -> laplacian_mesh t idx f k d = d)
  /\ ((Q2Qc 0 <= f)%Qc -> (f <= 1)%Qc ->
      forall x, In x (laplacian_mesh t idx f k d) -> (lmin d <= x <= lmax d)%Qc).
Proof.
  intros t idx f k d R.
  split; [intros v Hv; apply laplacian_mesh_unreferenced, Hv|].
  split; [apply laplacian_factor_0|].
  split; [intros c; apply laplacian_mesh_scale|].
  split; [intros s; apply laplacian_mesh_shift, R|].
  split; [intros c Hc; apply (laplacian_mesh_const t idx f k d R c Hc)|].
  intros F0 F1 x Hx. apply (laplacian_mesh_within_bounds t idx f k d x F0 F1 R Hx).
Qed.
Print Assumptions laplacian_laws.

(* centre: subtract the midpoint of the bounds - afterwards the bounds are symmetric about 0; invariant under
   translation of the input, linear under non-negative scaling, idempotent *)
Theorem centre_laws : forall d,
  (d <> [] -> (lmin (centre d) + lmax (centre d))%Qc = Q2Qc 0)
  /\ (forall t, centre (map (fun x => (x + t)%Qc) d) = centre d)
  /\ (forall c, (Q2Qc 0 <= c)%Qc -> centre (map (Qcmult c) d) = map (Qcmult c) (centre d))
  /\ centre (centre d) = centre d.
Proof.
  intros d. split; [apply centre_symmetric|]. split; [intros t; apply centre_shift|].
  split; [intros c Hc; apply centre_scale, Hc|apply centre_idempotent].
Qed.
Print Assumptions centre_laws.

(* ------------------------------------------------------------------ unit-vector value maps: normalise, normals
   NormalizeAttribute3D/2D, SmoothNormals, SmoothNormalsImplicitWeld and FlatNormals produce
   (integer vector) / sqrt(integer) on integer meshes.  Mesh/Normals.v computes the numerator vector
   ([smooth_sum]: every corner adds its face's cross product to its vertex; [implicit_sum]: vertices at one
   position share the sum; [flat_vec]: the cross product of the LAST face using the vertex, (1,1,1) when none does;
   normalise: the vector itself over the LARGEST squared length of the attribute) and the check hands the
   implementation's output to Coq as exact dyadic rationals (case CUnit): output o is accepted iff it has the
   sign of the numerator n and  (|o| - delta)+^2 len2 <= n^2 <= (|o| + delta)^2 len2  (delta = 2e-9), in Q. *)

(* what the squared test means: wherever the exact value n / sqrt(len2) is a rational r, an accepted output
   has the sign of n and lies within delta of r *)
Theorem unit_test_sound : forall (o : Q) (n len2 : Z) (r : Q),
  close_unit o n len2 = true -> (0 < len2)%Z -> (0 <= r)%Q ->
  (r * r * inject_Z len2 == inject_Z (n * n))%Q ->
  (0 <= o * inject_Z n)%Q /\ (Qabs.Qabs o - delta <= r)%Q /\ (r <= Qabs.Qabs o + delta)%Q.
Proof. exact close_unit_sound. Qed.
Print Assumptions unit_test_sound.

(* laws of the numerators: a face's cross product does not move with the mesh, scales with the square of a
   uniform scale (so the unit normal is invariant under both - what the scaled runs of the check rely on) and
   vanishes for a repeated corner; a vertex no triangle uses gets the zero sum (smooth: the zero normal stays)
   resp. the (1,1,1) default (flat); normalise divides by the largest length, so no output is longer than 1 *)
Local Open Scope Z_scope.
Theorem normal_numerator_laws :
  (forall ax ay az bx by_ bz cx cy cz tx ty tz : Z,
     cross (vsub [bx + tx; by_ + ty; bz + tz] [ax + tx; ay + ty; az + tz])
           (vsub [cx + tx; cy + ty; cz + tz] [ax + tx; ay + ty; az + tz])%Z
     = cross (vsub [bx; by_; bz] [ax; ay; az]) (vsub [cx; cy; cz] [ax; ay; az])) /\
  (forall k ax ay az bx by_ bz cx cy cz : Z,
     cross (vsub [k * bx; k * by_; k * bz] [k * ax; k * ay; k * az])
           (vsub [k * cx; k * cy; k * cz] [k * ax; k * ay; k * az])%Z
     = map (Z.mul (k * k)) (cross (vsub [bx; by_; bz] [ax; ay; az]) (vsub [cx; cy; cz] [ax; ay; az]))) /\
  (forall ax ay az cx cy cz : Z,
     cross (vsub [ax; ay; az] [ax; ay; az]) (vsub [cx; cy; cz] [ax; ay; az]) = zero3) /\
  (forall d idx v, ~ In v idx -> smooth_sum d idx v = zero3) /\
  (forall d idx v, ~ In v idx -> flat_vec d idx v = [1; 1; 1]%Z) /\
  (forall d idx v w, In w d -> (norm2 w <= unit_den2 NNormalize d idx v)%Z).
Proof.
  split; [exact cross_diff_translate|]. split; [exact cross_diff_scale|]. split; [exact cross_diff_degenerate|].
  split; [exact smooth_sum_unreferenced|]. split; [exact flat_vec_unreferenced|exact normalize_divisor_is_max].
Qed.
Print Assumptions normal_numerator_laws.
Local Close Scope Z_scope.

(* non-vacuity: the 3-4-5 triangle in the xy plane has the numerator (0,0,12) at every corner; the exact
   dyadic 1 = 4503599627370496 * 2^-52 is accepted for the z component, 0.9999 is not *)
Example unit_example :
  smooth_sum [[0; 0; 0]; [3; 0; 0]; [0; 4; 0]]%Z [0; 1; 2]%nat 1 = [0; 0; 12]%Z
  /\ close_unit (dyq (4503599627370496, -52)%Z) 12 144 = true
  /\ close_unit (Qmake 9999 10000) 12 144 = false.
Proof. vm_compute. repeat split. Qed.

(* Laplacian along an axis (step scaled by the irrational |axis| / ||axis||) stays a harness-side tolerance
   check (1e-9); its frame law, like that of the operations above, is [frame_ok] of Mesh/Case.v, evaluated in
   Coq on the implementation's output. *)

(* ------------------------------------------------------------------ the oracle is satisfied by the model *)

(* for all 22 modelled operations and all well-formed inputs the boolean contract that the check
   evaluates on the IMPLEMENTATION's output holds of the MODEL's output: so on every case where
   corr_ok (model = implementation) holds, prop_ok is implied, and a prop_ok failure can only come
   from the implementation *)
Theorem contract_sound : forall o ins, length ins = op_arity o ->
  inputs_ok o ins = true -> contract o ins (step o ins) = true.
Proof. exact PureLaws.contract_sound. Qed.
Print Assumptions contract_sound.

(* the composition laws of the check hold of the model: unweld twice, remove-unreferenced twice,
   flip twice, weld after unweld (any decimal place dv) *)
Theorem laws_model : forall m, wf m ->
  law_ok LEq [unweld (unweld m); unweld m] = true
  /\ law_ok LEq [remove_unref (remove_unref m); remove_unref m] = true
  /\ (topology m = Triangle -> exists r, flip m = Ok [r] /\ exists r', flip r = Ok [r'] /\ law_ok LEq [r'; m] = true).
Proof. exact law_eq_model. Qed.
Print Assumptions laws_model.

Theorem law_weld_unweld : forall a dv m d, wf m -> topology m = Triangle ->
  lookup (3%N, a) (attrs m) = Some d ->
  exists r1 r2, weld vec_eqb (round_key dv) a m = Ok [r1]
    /\ weld vec_eqb (round_key dv) a (unweld m) = Ok [r2]
    /\ law_ok (LWeldUnweld a dv) [r1; r2] = true.
Proof. exact law_weld_unweld_model. Qed.
Print Assumptions law_weld_unweld.

(* "... and nothing else", over time: a result is a value.  Whatever operations follow (on any mesh of the
   pool, the result itself included), every mesh of the pool is still there, unchanged.  (On the real Go
   values this is what the retained-value stream - case CKeep - re-reads after every later operation.) *)
Theorem results_are_values : forall h1 h2 pool i m,
  nth_error (run h1 pool) i = Some m -> nth_error (run (h1 ++ h2) pool) i = Some m.
Proof. intros h1 h2 pool i m H. rewrite run_app. apply run_keeps, H. Qed.
Print Assumptions results_are_values.

(* ------------------------------------------------------------------ non-vacuity *)
(* a mesh with an unreferenced vertex (3), duplicated vertices (0 and 4), two attributes and two material
   ranges meets every hypothesis above; the laws say something on it: welding merges vertex 4 into 0 and
   drops vertex 3, removing unreferenced vertices keeps 4 of 5 vertices, splitting gives two parts *)
Definition ex_mesh : mesh :=
  Mesh Triangle [0; 1; 2; 2; 1; 4]%nat [(1%nat, 7%N); (1%nat, 8%N)]
       [((3%N, 0%N), [[0; 0; 0]; [1; 0; 0]; [0; 1; 0]; [5; 5; 5]; [0; 0; 0]]%Z);
        ((1%N, 1%N), [[10]; [11]; [12]; [13]; [10]]%Z)].

Example c03_example :
  wf ex_mesh /\ topology ex_mesh = Triangle /\ lookup (3%N, 0%N) (attrs ex_mesh) <> None
  /\ nverts (remove_unref ex_mesh) = 4%nat
  /\ option_map (map nverts) (match weld vec_eqb (round_key 1%Z) 0%N ex_mesh with Ok ms => Some ms | _ => None end) = Some [3%nat]
  /\ option_map (@length mesh) (match split ex_mesh with Ok ms => Some ms | _ => None end) = Some 2%nat
  /\ corners (unweld ex_mesh) = corners ex_mesh /\ length (corners ex_mesh) = 6%nat.
Proof.
  split; [apply wfb_wf; vm_compute; reflexivity|].
  split; [reflexivity|]. split; [vm_compute; discriminate|].
  repeat split; vm_compute; reflexivity.
Qed.
