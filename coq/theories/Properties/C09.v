(* C09 — marching cubes yields a closed, outward-oriented surface on the isosurface.
   Statements only; proofs live in March/TableProps.v (finite facts about the GENERATED table
   PFGen.MarchTable, by vm_compute), March/GridProofs.v, March/SurfaceProofs.v, March/VolumeProofs.v (enclosed
   volume), March/IsoProofs.v (distance from the true isosurface), March/Canvas*.v, March/Weld*.v.

   Vocabulary (March/Grid.v): a lattice point is pt = Z*Z*Z; a grid edge (p, axis) joins p and
   p + axis_vec axis and names the output vertex lying on it; a triangle is three grid edges;
   s : pt -> bool is the sign grid (true = sample below the cutoff); surface s lo hi is the list of
   triangles the table emits for the cells lo <= c < hi; rows i is the table row of case i;
   lcount i (u, v) counts the directed triangle edge u -> v in case i of a cell at the origin. *)
From Coq Require Import List ZArith NArith Bool QArith.
From PFGen Require Import MarchTable.
From PF Require Import March.Grid March.TableProps March.GridProofs March.SurfaceProofs.
From PF Require Import March.VertexProofs March.Closed March.ClosedProofs March.Blocks March.BlocksProofs.
From PF Require Import March.Canvas March.CanvasProofs March.Weld March.WeldProofs.
From PF Require Import March.VolumeProofs March.IsoProofs March.Store March.StoreProofs.
From PF Require Geom.Vec Geom.SdfSpec.
From Coq Require Import Qabs Reals.
Import ListNotations.
Open Scope Z_scope.

(* All 256 cases of the generated table: (1) every triangle uses three different cube edges, which are
   three different grid edges; (2) a directed triangle edge between two cube edges that lie in no common
   cube face is cancelled by its reverse inside the cell, each at most once; (3) for a cell of case i and
   its neighbour at offset d of case i' that agree on the four shared corners, a directed edge lying in
   the shared face occurs in one of the two cells exactly when its reverse occurs in the other, and at
   most once in both together. *)
Theorem table_face_consistent : forall i, 0 <= i < 256 ->
  (forall a b c, In (a, b, c) (rows i) ->
     0 <= a < 12 /\ 0 <= b < 12 /\ 0 <= c < 12 /\
     ledge a <> ledge b /\ ledge b <> ledge c /\ ledge a <> ledge c) /\
  (forall u v, In u E12 -> In v E12 -> u <> v -> fdir u v = None ->
     lcount i (u, v) = lcount i (v, u) /\ (lcount i (u, v) <= 1)%nat) /\
  (forall d i' u v, In d face_dirs -> 0 <= i' < 256 -> compat d i i' = true ->
     In u E12 -> In v E12 -> u <> v -> In (gsub u d) E12 -> In (gsub v d) E12 ->
     lcount i (u, v) = lcount i' (gsub v d, gsub u d) /\
     lcount i' (gsub u d, gsub v d) = lcount i (v, u) /\
     (lcount i (u, v) + lcount i' (gsub u d, gsub v d) <= 1)%nat).
Proof. exact table_face_consistent_thm. Qed.
Print Assumptions table_face_consistent.

(* The unbounded lifting.  For EVERY sign grid whose below-cutoff points lie strictly inside the box
   lo..hi -- any extent, any resolution, negative coordinates -- every directed edge of the surface occurs
   at most once, and its reverse occurs exactly as often: each edge of each triangle is matched by the
   opposite edge of exactly one other triangle. *)
Theorem grid_closed : forall (s : pt -> bool) (lo hi : pt),
  (forall p, s p = true -> strictly_inside lo hi p) ->
  forall e : dedge,
    countd e (dedges (surface s lo hi)) = countd (swap e) (dedges (surface s lo hi)) /\
    (countd e (dedges (surface s lo hi)) <= 1)%nat.
Proof. exact grid_closed_thm. Qed.
Print Assumptions grid_closed.

(* the same through the executable oracle *)
Theorem grid_closedb : forall (s : pt -> bool) (lo hi : pt),
  (forall p, s p = true -> strictly_inside lo hi p) -> closedb (surface s lo hi) = true.
Proof. exact grid_closedb_thm. Qed.
Print Assumptions grid_closedb.

(* no triangle of any surface uses a grid edge (= output vertex before welding) twice *)
Theorem grid_no_degenerate : forall (s : pt -> bool) (lo hi : pt), no_degenerateb (surface s lo hi) = true.
Proof. exact grid_no_degenerate_thm. Qed.
Print Assumptions grid_no_degenerate.

(* Outwardness that is true of the table, with vertices at the edge midpoints: every vertex of every
   triangle lies on a cube edge with a sign change; with d_e = the unit vector along cube edge e from its
   below-cutoff corner to the other one and n = the triangle normal, the sum of n . d_e over the three
   edges of the triangle is positive; and for every cube edge with a sign change the sum of n . d_e over
   the triangles of the cell that touch it is positive, while edges without a sign change carry no vertex. *)
Theorem table_oriented : forall i, 0 <= i < 256 ->
  (forall a b c, In (a, b, c) (rows i) ->
     crossed i a = true /\ crossed i b = true /\ crossed i c = true /\
     0 < dot (tnormal (a, b, c)) (outdir i a) + dot (tnormal (a, b, c)) (outdir i b)
         + dot (tnormal (a, b, c)) (outdir i c)) /\
  (forall e, 0 <= e < 12 ->
     (crossed i e = true -> 0 < flux i e) /\
     (crossed i e = false -> forall t, In t (rows i) -> uses t e = false)).
Proof. exact table_oriented_thm. Qed.
Print Assumptions table_oriented.

(* the stronger per-edge statement n . d_e > 0 is NOT true of this table (skinny triangles) *)
Theorem table_per_edge_outward_refuted :
  exists i a b c, 0 <= i < 256 /\ In (a, b, c) (rows i) /\ dot (tnormal (a, b, c)) (outdir i a) <= 0.
Proof. exact table_per_edge_refuted_thm. Qed.
Print Assumptions table_per_edge_outward_refuted.

(* On the isosurface.  Every vertex of every triangle of the surface lies on a grid edge whose two end
   points are on different sides of the cutoff (so within one cell of a sign change of the samples). *)
Theorem surface_vertex_crossed : forall (s : pt -> bool) lo hi t g,
  In t (surface s lo hi) -> In g (tri_verts t) -> s (ge_lo g) <> s (ge_hi g).
Proof. exact surface_vertex_crossed_thm. Qed.
Print Assumptions surface_vertex_crossed.

(* With rational samples f and the sign grid "f p < cutoff": one end point of the vertex' grid edge is below
   the cutoff, the other at or above it, and the interpolation parameter of interpolationValueFromCutoff
   lies in [0,1] whichever end the code starts from -- the vertex is a point of that grid edge. *)
Theorem vertex_on_edge : forall (f : pt -> Q) (cutoff : Q) lo hi t g,
  In t (surface (sign_grid f cutoff) lo hi) -> In g (tri_verts t) ->
  let va := f (ge_lo g) in let vb := f (ge_hi g) in
  ((va < cutoff /\ cutoff <= vb) \/ (vb < cutoff /\ cutoff <= va))%Q /\
  (0 <= interp va vb cutoff <= 1)%Q /\ (0 <= interp vb va cutoff <= 1)%Q.
Proof. exact vertex_on_edge_thm. Qed.
Print Assumptions vertex_on_edge.

(* "Every vertex within one grid cell of the true isosurface" (March/IsoProofs.v; was iso_distance_partial).
   The step from the samples to the field between them needs a hypothesis on the field; the one the signed-distance
   constructors satisfy is a Lipschitz bound (C19 proves lipschitz1 of sdf.Sphere / Box / Line / ...; marching.Sphere
   etc. multiply by `strength`, which multiplies the bound).

   Over Q, no axioms.  fe g is the field along grid edge g (parameter 0 at the lower lattice point, 1 at the upper
   one); if it changes by at most K per unit of the parameter (K = Lipschitz constant * cell size) then at EVERY
   point of a grid edge that carries a vertex -- the interpolated position, the clamped one of the repaired weld --
   the field differs from the cutoff by at most K.  For a signed distance function (K = one cell) |field - cutoff| is
   the distance to the isosurface.  This is also the harness oracle "|reference - cutoff| <= strength * one cell". *)
Theorem iso_value_within_cell :
  forall (f : pt -> Q) (fe : gedge -> Q -> Q) (K cutoff : Q) (lo hi : pt),
  (forall g, fe g 0 == f (ge_lo g) /\ fe g 1 == f (ge_hi g))%Q ->
  (forall g t u, 0 <= t <= 1 -> 0 <= u <= 1 -> Qabs (fe g t - fe g u) <= K * Qabs (t - u))%Q ->
  forall t g, In t (surface (sign_grid f cutoff) lo hi) -> In g (tri_verts t) ->
  forall x, (0 <= x <= 1)%Q -> (Qabs (fe g x - cutoff) <= K)%Q.
Proof. exact iso_value_within_cell_thm. Qed.
Print Assumptions iso_value_within_cell.

(* Over R, with C19's vocabulary (Geom/SdfSpec.v: points of R^3, Euclidean dist, lipschitz1 F := |F p - F q| <= dist p q).
   F is sampled at the lattice points rpos h p = h * p (h = 1 / cubesPerUnit), s is its sign grid.  Then the grid edge
   of every vertex contains a point of the TRUE isosurface F = cutoff (intermediate value theorem; continuity follows
   from the Lipschitz bound), no farther than one cell from the vertex wherever on the edge the vertex sits, and
   |F(vertex) - cutoff| <= one cell.  Print Assumptions shows the axioms of Coq's classical real numbers (allowed). *)
Theorem iso_distance :
  forall (F : SdfSpec.pt -> R) (h cutoff : R) (s : pt -> bool) (lo hi : pt),
  (0 < h)%R -> SdfSpec.lipschitz1 F ->
  (forall p, s p = true <-> (F (rpos h p) < cutoff)%R) ->
  forall t g, In t (surface s lo hi) -> In g (tri_verts t) ->
  forall x, (0 <= x <= 1)%R ->
  exists x0, (0 <= x0 <= 1)%R /\ F (edge_point h g x0) = cutoff /\
             (SdfSpec.dist (edge_point h g x) (edge_point h g x0) <= h)%R /\
             (Rabs (F (edge_point h g x) - cutoff) <= h)%R.
Proof. exact iso_distance_thm. Qed.
Print Assumptions iso_distance.
(* non-vacuity of the two Lipschitz hypotheses: the plane field x - 1/2 *)
Example iso_hypotheses_inhabited :
  (forall t u, 0 <= t <= 1 -> 0 <= u <= 1 -> Qabs ((t - (1 # 2)) - (u - (1 # 2))) <= 1 * Qabs (t - u))%Q /\
  SdfSpec.lipschitz1 (fun p => (Vec.v3x p - / 2)%R).
Proof. split; [exact lip_linear|exact plane_field_lipschitz]. Qed.

(* "Oriented outward so that the enclosed volume is positive" (March/VolumeProofs.v).  Vertices at the midpoints of
   their grid edges, coordinates doubled: vol6 ts = sum over the triangles of det(a, b, c) = 48 x the signed volume
   enclosed.  wcase i is a function of the GENERATED table alone: 48 x the volume of the below-cutoff part of a cell
   of case i -- between 0 and 48, positive for every case but 0, 48 for case 255 (finite check over the 256 cases,
   together with: the area vector of every case is the difference of ONE function of the corner signs of its low and
   of its high face, i.e. both cells sharing a face agree on its below-cutoff part).
   For EVERY sign grid whose below-cutoff points lie strictly inside the box: the volume of the surface is the sum of
   the below-cutoff volumes of the cells ... *)
Theorem surface_volume_decomposition : forall (s : pt -> bool) (lo hi : pt),
  (forall p, s p = true -> strictly_inside lo hi p) ->
  vol6 (surface s lo hi) = zsuml (map (fun c => wcase (case_index s c)) (cells lo hi)) /\
  (forall i, 0 <= i < 256 -> 0 <= wcase i <= 48 /\ (i <> 0 -> 0 < wcase i) /\ (i = 255 -> wcase i = 48)).
Proof. intros s lo hi H. split; [exact (volume_decomposition s lo hi H)|exact wcase_facts]. Qed.
Print Assumptions surface_volume_decomposition.

(* ... hence positive as soon as one sample is below the cutoff (the triangles face outward: with the opposite
   orientation the same sum would be negative) ... *)
Theorem surface_volume_positive : forall (s : pt -> bool) (lo hi : pt),
  (forall p, s p = true -> strictly_inside lo hi p) -> (exists p, s p = true) -> 0 < vol6 (surface s lo hi).
Proof. exact volume_positive. Qed.
Print Assumptions surface_volume_positive.

(* ... and between the number of cells with eight and with at least one below-cutoff corner (the bracket the
   harness applies to the float volume of the real output). *)
Theorem surface_volume_bracket : forall (s : pt -> bool) (lo hi : pt),
  (forall p, s p = true -> strictly_inside lo hi p) ->
  zsuml (map (full_cell s) (cells lo hi)) <= vol6 (surface s lo hi) <= zsuml (map (touched_cell s) (cells lo hi)).
Proof. exact volume_bracket. Qed.
Print Assumptions surface_volume_bracket.
(* volume_interpolated_partial -- NOT proved: positivity of the volume with every vertex at its interpolated position
   t in [1/1000, 999/1000] instead of the midpoint.  (The volume is affine in each t separately, so it would follow
   from the per-cell identities at the corner values of the t's; not done.)  The harness evaluates the float volume
   of the real output and brackets it as above. *)

(* Storage blocks.  A lattice coordinate (negative ones included) splits uniquely into block = floor(x/100)
   and local index in 0..99 ... *)
Theorem chunk_local_spec : forall x, x = bs * chunk_of x + local_of x /\ 0 <= local_of x < bs.
Proof. exact chunk_local_spec_thm. Qed.
Print Assumptions chunk_local_spec.

(* ... and for every block b, local cell l in 0..99^3 and corner k, the block and index that
   marchFloat1BlockPosition computes (neighbour chosen by l = 99 per axis, local coordinate reset to 0 there)
   address lattice point 100*b + l + incr k, with the index inside the block read.  Given the storage layout of
   addFloat1Range, the value fetched is therefore that lattice point's sample. *)
Theorem block_fetch_correct : forall (A : Type) (sample : pt -> A) (store : pt -> Z -> A),
  (forall blk loc, in_block loc -> store blk (index loc) = sample (padd (pscale bs blk) loc)) ->
  forall b l k, in_block l -> 0 <= k < 8 ->
  fetched store b l k = sample (padd (padd (pscale bs b) l) (incr k)).
Proof. exact block_fetch_correct_thm. Qed.
Print Assumptions block_fetch_correct.
(* The canvas as a whole (March/Canvas.v).  `fields` are the fields added, each as the integers
   floor(Domain.Min*cpu), ceil(Domain.Max*cpu) that fieldBounds computes (its sample range is blo f .. bhi f, one
   lattice point of padding on each side); blocks fields are the storage blocks chunkSectionsInRange allocates
   (products of block ranges); stored p is the accumulated sample at lattice point p, below v is "v < cutoff";
   cell_processed mirrors the three `continue`s of marchFloat1BlockPosition (next z block missing on the last layer,
   next y block missing on the last row, any of the eight corner blocks missing).
   Hypothesis of the property: every below-cutoff sample lies strictly inside the sample box of one of the fields
   (implied by "strictly inside its declared domain"; with a cutoff <= 0 it also says that never-written samples,
   which are 0, are not below the cutoff).

   blocks_cover: every cell with a below-cutoff corner lies in an allocated block, is processed by that block (none of
   the `continue`s fires), and by no other (block, local cell) pair. *)
Theorem blocks_cover : forall (A : Type) (below : A -> bool) (stored : pt -> A) (fields : list fld),
  (forall p, below (stored p) = true -> exists f, In f fields /\ strictly_inside (blo f) (bhi f) p) ->
  forall c : pt, (exists k, 0 <= k < 8 /\ below (stored (padd c (incr k))) = true) ->
    In (chunk_pt c) (blocks fields) /\ in_block (local_pt c) /\
    c = global_cell (chunk_pt c) (local_pt c) /\
    cell_processed (blocks fields) (chunk_pt c) (local_pt c) = true /\
    (forall b l, in_block l -> c = global_cell b l -> b = chunk_pt c /\ l = local_pt c).
Proof. intros A below stored fields H c Hc. exact (blocks_cover_thm below stored fields H c Hc). Qed.
Print Assumptions blocks_cover.

(* canvas_eq_grid: with the storage layout of addFloat1Range (sample p in block chunk_pt p at index (local_pt p)) the
   triangles emitted by all blocks together are, as a multiset, exactly the surface of the sign grid of the stored
   samples (block_fetch_correct + blocks_cover; cells that are skipped or lie in blocks without data emit nothing). *)
Theorem canvas_eq_grid : forall (A : Type) (below : A -> bool) (store : pt -> Z -> A) (stored : pt -> A)
  (fields : list fld),
  (forall blk loc, present (blocks fields) blk = true -> in_block loc ->
     store blk (index loc) = stored (global_cell blk loc)) ->
  (forall p, below (stored p) = true -> exists f, In f fields /\ strictly_inside (blo f) (bhi f) p) ->
  forall lo hi : pt, (forall p, below (stored p) = true -> strictly_inside lo hi p) ->
  forall t : tri,
    count_occ tri_dec (canvas_surface below store (blocks fields)) t =
    count_occ tri_dec (surface (fun p => below (stored p)) lo hi) t.
Proof. exact @canvas_eq_grid_thm. Qed.
Print Assumptions canvas_eq_grid.

(* canvas_closed = block_fetch_correct + blocks_cover + grid_closed in one statement: whatever fields were added,
   wherever they sit relative to the storage blocks, the output of marchFloat1 (before the weld) has every directed
   edge at most once and its reverse exactly as often. *)
Theorem canvas_closed : forall (A : Type) (below : A -> bool) (store : pt -> Z -> A) (stored : pt -> A)
  (fields : list fld),
  (forall blk loc, present (blocks fields) blk = true -> in_block loc ->
     store blk (index loc) = stored (global_cell blk loc)) ->
  (forall p, below (stored p) = true -> exists f, In f fields /\ strictly_inside (blo f) (bhi f) p) ->
  forall e : dedge,
    countd e (dedges (canvas_surface below store (blocks fields))) =
    countd (swap e) (dedges (canvas_surface below store (blocks fields))) /\
    (countd e (dedges (canvas_surface below store (blocks fields))) <= 1)%nat.
Proof. exact canvas_closed_all_thm. Qed.
Print Assumptions canvas_closed.
(* storage_layout (March/Store.v, StoreProofs.v; was storage_layout_partial).  Model of AddField / addFloat1Range: the
   store starts as zeroed blocks; AddField visits the blocks of chunkSectionsInRange(fieldBounds) and, per block, the
   lattice points of the field's sample range clipped to the block (z outermost, x innermost), doing
   `data[d.index(shiftedPos)] += function(pos)`.  After ANY sequence of AddField calls, for values in any type with
   any `+`, block b holds at index (index loc) exactly the accumulated value of lattice point 100*b + loc: the values
   of the fields whose sample range contains the point, added in AddField order (stored_after) -- the layout that
   canvas_eq_grid / canvas_closed assume. *)
Theorem storage_layout : forall (V : Type) (vadd : V -> V -> V) (vzero : V) (fs : list (fld * (pt -> V))) (b loc : pt),
  in_block loc ->
  add_fields V vadd fs (fun _ _ => vzero) b (index loc) = stored_after V vadd fs vzero (global_cell b loc).
Proof. exact storage_layout_thm. Qed.
Print Assumptions storage_layout.

(* End to end, from the AddField calls to the triangles: whatever fields are added (any value type, any accumulation,
   any sample ranges, negative blocks), if every below-cutoff accumulated sample lies strictly inside the sample box
   of one of the fields, the triangles marchFloat1 emits from the store that AddField built have every directed edge
   at most once and its reverse exactly as often. *)
Theorem canvas_closed_end_to_end :
  forall (V : Type) (vadd : V -> V -> V) (vzero : V) (below : V -> bool) (fs : list (fld * (pt -> V))),
  (forall p, below (stored_after V vadd fs vzero p) = true ->
     exists f, In f (map fst fs) /\ strictly_inside (blo f) (bhi f) p) ->
  let ts := canvas_surface below (add_fields V vadd fs (fun _ _ => vzero)) (blocks (map fst fs)) in
  forall e : dedge, countd e (dedges ts) = countd (swap e) (dedges ts) /\ (countd e (dedges ts) <= 1)%nat.
Proof.
  intros V vadd vzero below fs H ts e.
  apply (canvas_closed V below (add_fields V vadd fs (fun _ _ => vzero)) (stored_after V vadd fs vzero) (map fst fs)).
  - intros blk loc _ Hloc. apply storage_layout_thm. exact Hloc.
  - exact H.
Qed.
Print Assumptions canvas_closed_end_to_end.

(* The oracle used on the implementation's output is sound: iclosedb ts = true implies that every directed
   edge of the index triangle list occurs at most once and its reverse exactly as often. *)
Theorem iclosedb_sound : forall ts : list itri, iclosedb ts = true ->
  forall e, icount e (iedges ts) = icount (ie_swap e) (iedges ts) /\ (icount e (iedges ts) <= 1)%nat.
Proof. exact iclosedb_sound_thm. Qed.
Print Assumptions iclosedb_sound.

(* The weld (any identification lab of vertices, then dropping triangles with two equal corners) keeps every
   directed edge between two different vertices balanced with its reverse.  What an ARBITRARY identification does
   NOT keep is "at most once": identifying the crossing points of two grid edges can make an edge with four
   incident triangles (found on the real code before 3a3ee8c at 400 cubes per unit, with samples exactly on the
   cutoff, and for ~1 % of ordinary unions at 10-25 cubes per unit).  The repaired weld is injective: weld_manifold. *)
Theorem weld_keeps_balance : forall (lab : N -> N) (ts : list itri),
  (forall e, icount e (iedges ts) = icount (ie_swap e) (iedges ts)) ->
  forall e, fst e <> snd e ->
  icount e (iedges (weld_tris lab ts)) = icount (ie_swap e) (iedges (weld_tris lab ts)).
Proof. exact weld_keeps_balance_thm. Qed.
Print Assumptions weld_keeps_balance.

(* The REPAIRED weld (3a3ee8c), over the rationals: the interpolation parameter is clamped to [1/1000, 999/1000], a
   vertex of grid edge g sits at vpos g t (cell units), and vertices are merged by bucket = math.Round(10^4 * coordinate)
   per coordinate.  Two vertices share a bucket iff they lie on the same grid edge ... *)
Theorem weld_bucket_iff_edge : forall (tpar : gedge -> Q) (g g' : gedge), valid_edge g -> valid_edge g' ->
  (bucket (vpos g (clampq (tpar g))) = bucket (vpos g' (clampq (tpar g'))) <-> g = g').
Proof. exact bucket_iff_thm. Qed.
Print Assumptions weld_bucket_iff_edge.

(* ... hence weld_manifold: replacing every vertex of the surface of any sign grid by its bucket (welded_edges = the
   directed edges of the welded mesh) keeps every directed edge at most once with its reverse exactly as often, and
   no face gets two equal corners -- at every resolution, also when samples equal the cutoff. *)
Theorem weld_manifold : forall (s : pt -> bool) (lo hi : pt),
  (forall p, s p = true -> strictly_inside lo hi p) ->
  forall (tpar : gedge -> Q) (a b : Z * Z * Z),
    count_occ kedge_dec (welded_edges s lo hi tpar) (a, b) = count_occ kedge_dec (welded_edges s lo hi tpar) (b, a) /\
    (count_occ kedge_dec (welded_edges s lo hi tpar) (a, b) <= 1)%nat /\
    (In (a, b) (welded_edges s lo hi tpar) -> a <> b).
Proof. exact weld_manifold_thm. Qed.
Print Assumptions weld_manifold.
(* float_weld_partial -- NOT proved: that the float64 computation of the position (a + (b-a)*t + offset, two
   neighbouring cells interpolating in opposite directions) lands in the bucket of the exact rational position; the
   copies differ by ~1e-15 cells against a bucket of 1e-4 (a crossing within 1e-15 of a bucket boundary is the only
   way to split a vertex; the harness counts such cases: 0 so far). *)

(* The clauses of the property for the sign-grid model in one statement: for every sign grid whose below-cutoff points
   lie strictly inside the box -- any extent, any position relative to the storage blocks, negative coordinates --
   the triangles form a closed, consistently oriented surface (every directed edge exactly matched by one opposite
   edge), no face is degenerate, the enclosed volume (midpoint vertices) is positive as soon as anything is below the
   cutoff, and every vertex lies on a grid edge whose end points are on different sides of the cutoff. *)
Theorem marching_surface_property : forall (s : pt -> bool) (lo hi : pt),
  (forall p, s p = true -> strictly_inside lo hi p) ->
  (forall e : dedge, countd e (dedges (surface s lo hi)) = countd (swap e) (dedges (surface s lo hi)) /\
                     (countd e (dedges (surface s lo hi)) <= 1)%nat) /\
  no_degenerateb (surface s lo hi) = true /\
  ((exists p, s p = true) -> 0 < vol6 (surface s lo hi)) /\
  (forall t g, In t (surface s lo hi) -> In g (tri_verts t) -> s (ge_lo g) <> s (ge_hi g)).
Proof.
  intros s lo hi H. split; [exact (grid_closed s lo hi H)|]. split; [exact (grid_no_degenerate s lo hi)|].
  split; [exact (surface_volume_positive s lo hi H)|]. intros t g. exact (surface_vertex_crossed s lo hi t g).
Qed.
Print Assumptions marching_surface_property.

(* non-vacuity: a single below-cutoff sample at the origin inside the box (-1,-1,-1)..(1,1,1) gives the
   octahedron of 8 triangles, closed and without degenerate faces *)
Example one_point_octahedron :
  let s := fun p => pt_eqb p (0, 0, 0) in
  length (surface s (-1, -1, -1) (1, 1, 1)) = 8%nat /\
  closedb (surface s (-1, -1, -1) (1, 1, 1)) = true /\
  no_degenerateb (surface s (-1, -1, -1) (1, 1, 1)) = true /\
  vol6 (surface s (-1, -1, -1) (1, 1, 1)) = 8.   (* 48 x the volume 1/6 of the octahedron with radius 1/2 *)
Proof. vm_compute. repeat split. Qed.
