(* C09 — storage_layout: after any sequence of AddField calls on a fresh canvas, block b holds at index (index loc)
   the accumulated sample of lattice point 100*b + loc -- the layout canvas_eq_grid / canvas_closed assume. *)
From Coq Require Import List ZArith Bool Lia FinFun.
From PFGen Require Import MarchTable.
From PF Require Import March.Grid March.TableProps March.GridProofs March.Blocks March.BlocksProofs.
From PF Require Import March.Canvas March.CanvasProofs March.Store.
Import ListNotations.
Open Scope Z_scope.

Lemma inrangeb_iff lo hi p : inrangeb lo hi p = true <-> In p (cells lo hi).
Proof.
  rewrite in_cells. destruct lo as [[lx ly] lz], hi as [[hx hy] hz], p as [[x y] z]. unfold inrangeb.
  rewrite !andb_true_iff, !Z.leb_le, !Z.ltb_lt. lia.
Qed.

Lemma global_sub b loc : psub (global_cell b loc) (pscale bs b) = loc.
Proof. destruct b as [[bx by_] bz], loc as [[x y] z]. unfold global_cell, psub, padd, pscale. pteq. Qed.
Lemma sub_global b p : global_cell b (psub p (pscale bs b)) = p.
Proof. destruct b as [[bx by_] bz], p as [[x y] z]. unfold global_cell, psub, padd, pscale. pteq. Qed.

Section Store.
Variable V : Type.
Variable vadd : V -> V -> V.
Variable vzero : V.
Notation store := (store V).
Notation upd := (upd V vadd).
Notation add_range := (add_range V vadd).
Notation add_field := (add_field V vadd).
Notation add_fields := (add_fields V vadd).
Notation stored_after := (stored_after V vadd).

(* one pass over a duplicate-free list of lattice points of block b *)
Lemma fold_upd_other (fn : pt -> V) b b' i L : b' <> b -> forall st : store,
  fold_left (fun st p => upd st b (index (psub p (pscale bs b))) (fn p)) L st b' i = st b' i.
Proof.
  intros Hb. induction L as [|p L IH]; intros st; [reflexivity|]. cbn [fold_left]. rewrite IH. unfold Store.upd.
  destruct (pt_eqb b b') eqn:E; [apply pt_eqb_eq in E; congruence|reflexivity].
Qed.

Lemma fold_upd_same (fn : pt -> V) b loc L : in_block loc -> NoDup L ->
  (forall p, In p L -> in_block (psub p (pscale bs b))) -> forall st : store,
  fold_left (fun st p => upd st b (index (psub p (pscale bs b))) (fn p)) L st b (index loc) =
  if in_dec pt_eq_dec (global_cell b loc) L then vadd (st b (index loc)) (fn (global_cell b loc)) else st b (index loc).
Proof.
  intros Hloc. induction L as [|p L IH]; intros Hnd Hin st.
  - cbn [fold_left]. destruct (in_dec pt_eq_dec (global_cell b loc) []) as [[]|_]. reflexivity.
  - cbn [fold_left]. inversion Hnd as [|? ? Hp HL]; subst.
    rewrite IH; [|exact HL|intros q Hq; apply Hin; right; exact Hq].
    unfold Store.upd. rewrite pt_eqb_refl. cbn [andb].
    destruct (pt_eq_dec p (global_cell b loc)) as [E|E].
    + subst p. rewrite global_sub, Z.eqb_refl.
      destruct (in_dec pt_eq_dec (global_cell b loc) L) as [X|_]; [contradiction|].
      destruct (in_dec pt_eq_dec (global_cell b loc) (global_cell b loc :: L)) as [_|X]; [reflexivity|].
      exfalso. apply X. left. reflexivity.
    + assert (index (psub p (pscale bs b)) =? index loc = false) as ->.
      { apply Z.eqb_neq. intros X. apply index_inj_thm in X; [|apply Hin; left; reflexivity|exact Hloc].
        apply E. rewrite <- X. symmetry. apply sub_global. }
      destruct (in_dec pt_eq_dec (global_cell b loc) L) as [X|X],
               (in_dec pt_eq_dec (global_cell b loc) (p :: L)) as [Y|Y]; try reflexivity.
      * exfalso. apply Y. right. exact X.
      * destruct Y as [Y|Y]; [congruence|contradiction].
Qed.

(* the clipped range of block b: the points of lo..hi that lie in block b *)
Lemma in_clipped b lo hi p : In p (cells (clip_lo b lo) (clip_hi b hi)) <->
  In p (cells lo hi) /\ in_block (psub p (pscale bs b)).
Proof.
  rewrite !in_cells. unfold clip_lo, clip_hi, pmax, pmin, in_block.
  destruct b as [[bx by_] bz], lo as [[lx ly] lz], hi as [[hx hy] hz], p as [[x y] z].
  unfold pscale, padd, psub. rewrite bs_100. lia.
Qed.

Lemma add_range_other st b b' lo hi fn i : b' <> b -> add_range st b lo hi fn b' i = st b' i.
Proof. intros H. unfold Store.add_range. apply fold_upd_other. exact H. Qed.

Lemma add_range_same st b lo hi fn loc : in_block loc ->
  add_range st b (clip_lo b lo) (clip_hi b hi) fn b (index loc) =
  if inrangeb lo hi (global_cell b loc) then vadd (st b (index loc)) (fn (global_cell b loc)) else st b (index loc).
Proof.
  intros Hloc. unfold Store.add_range. rewrite fold_upd_same; [|exact Hloc|apply nodup_cells|].
  - destruct (in_dec pt_eq_dec (global_cell b loc) (cells (clip_lo b lo) (clip_hi b hi))) as [X|X],
             (inrangeb lo hi (global_cell b loc)) eqn:R; try reflexivity.
    + apply in_clipped in X. destruct X as [X _]. apply inrangeb_iff in X. congruence.
    + exfalso. apply X. apply in_clipped. split; [apply inrangeb_iff; exact R|]. rewrite global_sub. exact Hloc.
  - intros p Hp. apply in_clipped in Hp. apply Hp.
Qed.

Lemma nodup_chunk_sections lo hi : NoDup (chunk_sections lo hi).
Proof.
  unfold chunk_sections. destruct (chunk_pt lo) as [[x0 y0] z0], (chunk_pt hi) as [[x1 y1] z1].
  apply nodup_flat_map; [apply nodup_zrange| |].
  - intros x _. apply nodup_flat_map; [apply nodup_zrange| |].
    + intros y _. apply Injective_map_NoDup; [|apply nodup_zrange]. intros a b E. inversion E. reflexivity.
    + intros a b x' _ _ Ha Hb. apply in_map_iff in Ha, Hb.
      destruct Ha as [? [<- _]], Hb as [? [E _]]. inversion E. reflexivity.
  - intros a b x' _ _ Ha Hb. apply in_flat_map in Ha, Hb.
    destruct Ha as [y1' [_ Ha]], Hb as [y2' [_ Hb]]. apply in_map_iff in Ha, Hb.
    destruct Ha as [? [<- _]], Hb as [? [E _]]. inversion E. reflexivity.
Qed.

Lemma fold_blocks fn lo hi b loc B : in_block loc -> NoDup B -> forall st : store,
  fold_left (fun st b => add_range st b (clip_lo b lo) (clip_hi b hi) fn) B st b (index loc) =
  if in_dec pt_eq_dec b B
  then (if inrangeb lo hi (global_cell b loc) then vadd (st b (index loc)) (fn (global_cell b loc)) else st b (index loc))
  else st b (index loc).
Proof.
  intros Hloc. induction B as [|c B IH]; intros Hnd st.
  - cbn [fold_left]. destruct (in_dec pt_eq_dec b []) as [[]|_]. reflexivity.
  - cbn [fold_left]. inversion Hnd as [|? ? Hc HB]; subst. rewrite (IH HB).
    destruct (pt_eq_dec c b) as [E|E].
    + subst c. destruct (in_dec pt_eq_dec b B) as [X|_]; [contradiction|].
      destruct (in_dec pt_eq_dec b (b :: B)) as [_|X]; [|exfalso; apply X; left; reflexivity].
      apply add_range_same. exact Hloc.
    + rewrite !(add_range_other st c b) by congruence.
      destruct (in_dec pt_eq_dec b B) as [X|X], (in_dec pt_eq_dec b (c :: B)) as [Y|Y]; try reflexivity.
      * exfalso. apply Y. right. exact X.
      * destruct Y as [Y|Y]; [congruence|contradiction].
Qed.

(* one AddField *)
Theorem add_field_spec st f fn b loc : in_block loc ->
  add_field st f fn b (index loc) =
  if inrangeb (blo f) (bhi f) (global_cell b loc) then vadd (st b (index loc)) (fn (global_cell b loc))
  else st b (index loc).
Proof.
  intros Hloc. unfold Store.add_field. rewrite fold_blocks; [|exact Hloc|apply nodup_chunk_sections].
  destruct (in_dec pt_eq_dec b (chunk_sections (blo f) (bhi f))) as [X|X]; [reflexivity|].
  destruct (inrangeb (blo f) (bhi f) (global_cell b loc)) eqn:R; [|reflexivity].
  exfalso. apply X. apply in_chunk_sections.
  apply inrangeb_iff, in_cells in R. pose proof (chunk_pt_global b loc Hloc) as C.
  destruct (blo f) as [[lx ly] lz], (bhi f) as [[hx hy] hz], (global_cell b loc) as [[x y] z].
  unfold chunk_pt in *. destruct b as [[bx by_] bz]. inversion C; subst.
  repeat split; apply chunk_mono; lia.
Qed.

(* any number of AddField calls: the invariant "block b, index (index loc) = value of lattice point 100 b + loc" *)
Theorem storage_layout_gen : forall (fs : list (fld * (pt -> V))) (st : store) (val : pt -> V),
  (forall b loc, in_block loc -> st b (index loc) = val (global_cell b loc)) ->
  forall b loc, in_block loc ->
  add_fields fs st b (index loc) = stored_after fs (val (global_cell b loc)) (global_cell b loc).
Proof.
  induction fs as [|[f fn] fs IH]; intros st val H b loc Hloc.
  - cbn. apply H. exact Hloc.
  - unfold Store.add_fields, Store.stored_after. cbn [fold_left fst snd].
    set (val' := fun p => if inrangeb (blo f) (bhi f) p then vadd (val p) (fn p) else val p).
    change (if inrangeb (blo f) (bhi f) (global_cell b loc)
            then vadd (val (global_cell b loc)) (fn (global_cell b loc)) else val (global_cell b loc))
      with (val' (global_cell b loc)).
    apply (IH (add_field st f fn) val'); [|exact Hloc].
    intros b' loc' Hl'. rewrite add_field_spec by exact Hl'. unfold val'. rewrite (H b' loc' Hl'). reflexivity.
Qed.

Theorem storage_layout_thm : forall (fs : list (fld * (pt -> V))) b loc, in_block loc ->
  add_fields fs (fun _ _ => vzero) b (index loc) = stored_after fs vzero (global_cell b loc).
Proof. intros fs b loc H. apply (storage_layout_gen fs (fun _ _ => vzero) (fun _ => vzero)); [reflexivity|exact H]. Qed.
End Store.
