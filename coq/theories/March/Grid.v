(* C09 — sign-grid model of marching cubes (modeling/marching/canvas.go, field.go).

   The lookup tables come from the GENERATED file PFGen.MarchTable (tools/tab2coq, rebuilt from
   table.go / canvas.go on every check run).  This file contains definitions only.

   Go                                                   here
   ---------------------------------------------------  ---------------------------------
   cubeDataIndexIncrements[k]                           incr k
   cornerIndexAFromEdge / cornerIndexBFromEdge          ledge e  (grid edge of the origin cell)
   cubeCorners[k] < cutoff, lookupIndex |= 1<<k         case_index s c
   for i := 0; triangulation[idx][i] != -1; i += 3      row_tris
   one cell of marchFloat1BlockPosition / Field.March   cell_tris s c
   all cells                                            surface s lo hi
   vertices: a point on the cube edge a-b               grid-edge id (lower corner, axis)        *)
From Coq Require Import List ZArith Bool Lia.
From PFGen Require Import MarchTable.
Import ListNotations.
Open Scope Z_scope.

(* ---- lattice points, grid edges ---- *)
Definition pt := (Z * Z * Z)%type.
Definition padd (a b : pt) : pt :=
  let '(ax, ay, az) := a in let '(bx, by_, bz) := b in (ax + bx, ay + by_, az + bz).
Definition psub (a b : pt) : pt :=
  let '(ax, ay, az) := a in let '(bx, by_, bz) := b in (ax - bx, ay - by_, az - bz).
Definition pmin (a b : pt) : pt :=
  let '(ax, ay, az) := a in let '(bx, by_, bz) := b in (Z.min ax bx, Z.min ay by_, Z.min az bz).
Definition pt_eqb (a b : pt) : bool :=
  let '(ax, ay, az) := a in let '(bx, by_, bz) := b in (ax =? bx) && (ay =? by_) && (az =? bz).

(* a grid edge: its lower lattice corner and its axis (0 = x, 1 = y, 2 = z) *)
Definition gedge := (pt * Z)%type.
Definition ge_eqb (a b : gedge) : bool := pt_eqb (fst a) (fst b) && (snd a =? snd b).
Definition gadd (c : pt) (g : gedge) : gedge := (padd c (fst g), snd g).
Definition gsub (g : gedge) (c : pt) : gedge := (psub (fst g) c, snd g).

(* unit vector of an axis; the grid edge (p, a) joins p and p + axis_vec a *)
Definition axis_vec (a : Z) : pt := if a =? 0 then (1, 0, 0) else if a =? 1 then (0, 1, 0) else (0, 0, 1).
Definition ge_lo (g : gedge) : pt := fst g.
Definition ge_hi (g : gedge) : pt := padd (fst g) (axis_vec (snd g)).

Definition tri := (gedge * gedge * gedge)%type.
Definition dedge := (gedge * gedge)%type.
Definition de_eqb (a b : dedge) : bool := ge_eqb (fst a) (fst b) && ge_eqb (snd a) (snd b).
Definition swap (e : dedge) : dedge := (snd e, fst e).
Definition tadd (c : pt) (t : tri) : tri := let '(a, b, d) := t in (gadd c a, gadd c b, gadd c d).
Definition dadd (c : pt) (e : dedge) : dedge := (gadd c (fst e), gadd c (snd e)).
Definition dsub (e : dedge) (c : pt) : dedge := (gsub (fst e) c, gsub (snd e) c).

(* ---- table access (Go slices indexed by int; out of range = default, Go would panic) ---- *)
Definition znth {A} (l : list A) (i : Z) (d : A) : A := if i <? 0 then d else nth (Z.to_nat i) l d.

Definition incr (k : Z) : pt :=
  match znth cubeDataIndexIncrements k [] with
  | [x; y; z] => (x, y, z)
  | _ => (0, 0, 0)
  end.

(* cube edge e joins corners cornerIndexAFromEdge[e] and cornerIndexBFromEdge[e] *)
Definition corner_a (e : Z) : Z := znth cornerIndexAFromEdge e 0.
Definition corner_b (e : Z) : Z := znth cornerIndexBFromEdge e 0.
Definition axis_of (a b : pt) : Z :=
  let '(ax, ay, _) := a in let '(bx, by_, _) := b in
  if negb (ax =? bx) then 0 else if negb (ay =? by_) then 1 else 2.
(* the grid edge (relative to the cell's lower corner) on which the vertex of cube edge e lies *)
Definition ledge (e : Z) : gedge :=
  let a := incr (corner_a e) in let b := incr (corner_b e) in (pmin a b, axis_of a b).

(* ---- one table row: `for i := 0; row[i] != -1; i += 3` ---- *)
Fixpoint row_tris (row : list Z) : list (Z * Z * Z) :=
  match row with
  | a :: b :: c :: rest => if a =? -1 then [] else (a, b, c) :: row_tris rest
  | _ => []
  end.
(* the loop meets a -1 at an index divisible by 3 before running off the row (else Go panics) *)
Fixpoint row_wf (row : list Z) : bool :=
  match row with
  | a :: rest => if a =? -1 then true else
      match rest with _ :: _ :: rest' => row_wf rest' | _ => false end
  | [] => false
  end.

(* triangles of case i in the cell at the origin, vertices named by grid edge *)
Definition ltris (i : Z) : list tri :=
  map (fun '(a, b, c) => (ledge a, ledge b, ledge c)) (row_tris (znth triangulation i [])).

(* ---- sign grid: s p = true iff sample(p) < cutoff ---- *)
Definition b2z (b : bool) : Z := if b then 1 else 0.
Definition idx8 (b0 b1 b2 b3 b4 b5 b6 b7 : bool) : Z :=
  b2z b0 + 2 * b2z b1 + 4 * b2z b2 + 8 * b2z b3 + 16 * b2z b4 + 32 * b2z b5 + 64 * b2z b6 + 128 * b2z b7.
Definition corner_sign (s : pt -> bool) (c : pt) (k : Z) : bool := s (padd c (incr k)).
Definition case_index (s : pt -> bool) (c : pt) : Z :=
  idx8 (corner_sign s c 0) (corner_sign s c 1) (corner_sign s c 2) (corner_sign s c 3)
       (corner_sign s c 4) (corner_sign s c 5) (corner_sign s c 6) (corner_sign s c 7).

Definition cell_tris (s : pt -> bool) (c : pt) : list tri := map (tadd c) (ltris (case_index s c)).

(* cells are named by their lower corner; the box lo..hi has lattice points lo <= p <= hi and
   cells lo <= c < hi *)
Definition zrange (lo hi : Z) : list Z := map (fun i => lo + Z.of_nat i) (seq 0 (Z.to_nat (hi - lo))).
Definition cells (lo hi : pt) : list pt :=
  let '(lx, ly, lz) := lo in let '(hx, hy, hz) := hi in
  flat_map (fun z => flat_map (fun y => map (fun x => (x, y, z)) (zrange lx hx)) (zrange ly hy)) (zrange lz hz).
Definition surface (s : pt -> bool) (lo hi : pt) : list tri := flat_map (cell_tris s) (cells lo hi).

(* ---- closedness oracle ---- *)
Definition tri_dedges (t : tri) : list dedge := let '(a, b, c) := t in [(a, b); (b, c); (c, a)].
Definition dedges (ts : list tri) : list dedge := flat_map tri_dedges ts.
Definition countd (e : dedge) (l : list dedge) : nat := length (filter (de_eqb e) l).

(* every directed edge occurs exactly once and so does its reverse *)
Definition closedb (ts : list tri) : bool :=
  let d := dedges ts in
  forallb (fun e => Nat.eqb (countd e d) 1 && Nat.eqb (countd (swap e) d) 1) d.
(* no triangle uses a vertex twice *)
Definition no_degenerateb (ts : list tri) : bool :=
  forallb (fun '(a, b, c) => negb (ge_eqb a b) && negb (ge_eqb b c) && negb (ge_eqb a c)) ts.

Definition strictly_inside (lo hi p : pt) : Prop :=
  let '(lx, ly, lz) := lo in let '(hx, hy, hz) := hi in let '(x, y, z) := p in
  lx < x < hx /\ ly < y < hy /\ lz < z < hz.

(* ---- finite data used by the table lemmas ---- *)
Definition idx256 : list Z := zrange 0 256.
Definition idx12 : list Z := zrange 0 12.
Definition idx8l : list Z := zrange 0 8.
Definition E12 : list gedge := map ledge idx12.
Definition in_e12 (g : gedge) : bool := existsb (ge_eqb g) E12.
Definition lcount (i : Z) (e : dedge) : nat := countd e (dedges (ltris i)).

Definition face_dirs : list pt := [(1, 0, 0); (-1, 0, 0); (0, 1, 0); (0, -1, 0); (0, 0, 1); (0, 0, -1)].
(* the neighbouring cell (if any) that also contains both grid edges *)
Definition fdir (u v : gedge) : option pt :=
  find (fun d => in_e12 (gsub u d) && in_e12 (gsub v d)) face_dirs.
(* corner k of a cell and corner k' of the cell at offset d are the same lattice point *)
Definition corner_pairs (d : pt) : list (Z * Z) :=
  filter (fun '(k, k') => pt_eqb (incr k) (padd (incr k') d)) (list_prod idx8l idx8l).
(* case indices i (cell c) and i' (cell c + d) agree on the shared corners *)
Definition compat (d : pt) (i i' : Z) : bool :=
  forallb (fun '(k, k') => Bool.eqb (Z.testbit i k) (Z.testbit i' k')) (corner_pairs d).
