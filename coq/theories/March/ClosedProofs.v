(* C09 — the n log n closedness test of March/Closed.v is sound: iclosedb ts = true implies that every
   directed edge occurs at most once and its reverse exactly as often; and the weld (relabelling +
   dropping collapsed triangles) keeps the balance between every directed edge and its reverse. *)
From Coq Require Import List NArith Bool Lia Permutation Sorted.
From PF Require Import March.Closed.
Import ListNotations.
Open Scope N_scope.

Lemma ie_eqb_eq a b : ie_eqb a b = true <-> a = b.
Proof.
  destruct a as [a1 a2], b as [b1 b2]. unfold ie_eqb. cbn [fst snd].
  rewrite andb_true_iff, !N.eqb_eq. split; [intros [-> ->]; reflexivity|intros H; inversion H; auto].
Qed.
Lemma ie_eqb_refl a : ie_eqb a a = true.
Proof. apply ie_eqb_eq. reflexivity. Qed.
Lemma ie_swap_swap e : ie_swap (ie_swap e) = e.
Proof. destruct e. reflexivity. Qed.
Lemma ie_eqb_swap a b : ie_eqb (ie_swap a) b = ie_eqb a (ie_swap b).
Proof. destruct a, b. unfold ie_eqb, ie_swap. cbn [fst snd]. apply andb_comm. Qed.

Lemma icount_perm e l l' : Permutation l l' -> icount e l = icount e l'.
Proof.
  unfold icount. induction 1 as [|x l l' _ IH|x y l|l l' l'' _ IH1 _ IH2]; cbn [filter].
  - reflexivity.
  - destruct (ie_eqb e x); cbn [length]; rewrite IH; reflexivity.
  - destruct (ie_eqb e x), (ie_eqb e y); reflexivity.
  - rewrite IH1. exact IH2.
Qed.
Lemma icount_map_swap e l : icount e (map ie_swap l) = icount (ie_swap e) l.
Proof.
  unfold icount. induction l as [|x l IH]; [reflexivity|]. cbn [map filter].
  rewrite <- ie_eqb_swap.
  destruct (ie_eqb (ie_swap e) x); cbn [length]; rewrite IH; reflexivity.
Qed.
Lemma icount_notin e l : ~ In e l -> icount e l = 0%nat.
Proof.
  unfold icount. induction l as [|x l IH]; [reflexivity|]. intros H. cbn [filter].
  destruct (ie_eqb e x) eqn:E.
  - apply ie_eqb_eq in E. subst. exfalso. apply H. left. reflexivity.
  - apply IH. intros Hin. apply H. right. exact Hin.
Qed.
Lemma icount_nodup e l : NoDup l -> (icount e l <= 1)%nat.
Proof.
  induction 1 as [|x l Hx _ IH]; [cbn; lia|]. unfold icount in *. cbn [filter].
  destruct (ie_eqb e x) eqn:E; [|exact IH].
  apply ie_eqb_eq in E. subst. cbn [length]. fold (icount x l). rewrite (icount_notin x l Hx). lia.
Qed.

Lemma ie_ltb_trans a b c : ie_ltb a b = true -> ie_ltb b c = true -> ie_ltb a c = true.
Proof.
  destruct a as [a1 a2], b as [b1 b2], c as [c1 c2]. unfold ie_ltb. cbn [fst snd].
  rewrite !orb_true_iff, !andb_true_iff, !N.ltb_lt, !N.eqb_eq. lia.
Qed.
Lemma ie_ltb_neq a b : ie_ltb a b = true -> a <> b.
Proof.
  destruct a as [a1 a2], b as [b1 b2]. unfold ie_ltb. cbn [fst snd].
  rewrite !orb_true_iff, !andb_true_iff, !N.ltb_lt, !N.eqb_eq. intros H E. inversion E. lia.
Qed.

Lemma strictly_inc_all a l : strictly_inc (a :: l) = true -> Forall (fun b => ie_ltb a b = true) l.
Proof.
  revert a. induction l as [|b l IH]; intros a H; [constructor|].
  cbn [strictly_inc] in H. apply andb_true_iff in H. destruct H as [Hab Hr].
  constructor; [exact Hab|]. specialize (IH b Hr).
  eapply Forall_impl; [|exact IH]. intros c Hbc. eapply ie_ltb_trans; eauto.
Qed.
Lemma strictly_inc_tail a l : strictly_inc (a :: l) = true -> strictly_inc l = true.
Proof. destruct l as [|b l]; [reflexivity|]. cbn [strictly_inc]. intros H. apply andb_true_iff in H. tauto. Qed.
Lemma strictly_inc_nodup l : strictly_inc l = true -> NoDup l.
Proof.
  induction l as [|a l IH]; intros H; [constructor|]. constructor.
  - pose proof (strictly_inc_all a l H) as F. rewrite Forall_forall in F. intros Hin.
    specialize (F a Hin). apply ie_ltb_neq in F. congruence.
  - apply IH. eapply strictly_inc_tail. exact H.
Qed.

Lemma ie_list_eqb_eq l1 l2 : ie_list_eqb l1 l2 = true -> l1 = l2.
Proof.
  revert l2. induction l1 as [|a l1 IH]; intros [|b l2] H; cbn [ie_list_eqb] in H; try discriminate; [reflexivity|].
  apply andb_true_iff in H. destruct H as [E H]. apply ie_eqb_eq in E. subst. f_equal. apply IH. exact H.
Qed.

(* soundness of the fast test *)
Theorem iclosedb_sound_thm : forall ts, iclosedb ts = true -> iclosed ts.
Proof.
  intros ts H e. unfold iclosedb in H. cbv zeta in H. apply andb_true_iff in H. destruct H as [Hinc Heq].
  set (d := iedges ts) in *.
  pose proof (IESort.Permuted_sort d) as P1.
  pose proof (IESort.Permuted_sort (map ie_swap d)) as P2.
  apply ie_list_eqb_eq in Heq. apply strictly_inc_nodup in Hinc.
  split.
  - rewrite (icount_perm e _ _ P1), Heq, <- (icount_perm e _ _ P2), icount_map_swap. reflexivity.
  - rewrite (icount_perm e _ _ P1). apply icount_nodup. exact Hinc.
Qed.

(* ---------- the weld keeps every directed edge balanced with its reverse ---------- *)
Definition ibalanced (ts : list itri) : Prop :=
  forall e, icount e (iedges ts) = icount (ie_swap e) (iedges ts).

Definition emap (lab : N -> N) (e : iedge) : iedge := (lab (fst e), lab (snd e)).

Lemma iedges_app a b : iedges (a ++ b) = iedges a ++ iedges b.
Proof. unfold iedges. apply flat_map_app. Qed.
Lemma icount_app e a b : icount e (a ++ b) = (icount e a + icount e b)%nat.
Proof. unfold icount. rewrite filter_app, app_length. reflexivity. Qed.

(* a collapsed triangle contributes equally to e and to its reverse, for every e that is not a loop *)
Lemma collapsed_balanced t e : itri_nondeg t = false -> fst e <> snd e ->
  icount e (itri_edges t) = icount (ie_swap e) (itri_edges t).
Proof.
  destruct t as [[a b] c], e as [x y]. unfold itri_nondeg. cbn [fst snd]. intros H Hxy.
  unfold icount, itri_edges, ie_swap, ie_eqb. cbn [filter fst snd].
  rewrite !andb_false_iff, !negb_false_iff, !N.eqb_eq in H.
  destruct H as [[H|H]|H]; subst;
  repeat match goal with |- context [N.eqb ?p ?q] => destruct (N.eqb_spec p q); subst end;
  cbn [andb length]; try reflexivity; try congruence.
Qed.

Lemma balance_filter ts e : fst e <> snd e ->
  (icount e (iedges ts) + icount (ie_swap e) (iedges (filter itri_nondeg ts)) =
   icount (ie_swap e) (iedges ts) + icount e (iedges (filter itri_nondeg ts)))%nat.
Proof.
  intros Hne. induction ts as [|t ts IH]; [reflexivity|].
  cbn [filter]. change (t :: ts) with ([t] ++ ts). rewrite iedges_app, !icount_app.
  destruct (itri_nondeg t) eqn:D.
  - change (t :: filter itri_nondeg ts) with ([t] ++ filter itri_nondeg ts). rewrite iedges_app, !icount_app. lia.
  - pose proof (collapsed_balanced t e D Hne) as C.
    assert (iedges [t] = itri_edges t) as -> by (unfold iedges; cbn; apply app_nil_r). lia.
Qed.

Lemma iedges_map_relabel lab ts : iedges (map (relabel lab) ts) = map (emap lab) (iedges ts).
Proof.
  unfold iedges. induction ts as [|[[a b] c] ts IH]; [reflexivity|].
  cbn [map flat_map]. rewrite map_app, IH. reflexivity.
Qed.

Lemma perm_of_counts : forall l l' : list iedge, (forall e, icount e l = icount e l') -> Permutation l l'.
Proof.
  induction l as [|a l IH]; intros l' H.
  - destruct l' as [|b l']; [constructor|]. specialize (H b). unfold icount in H. cbn [filter] in H.
    rewrite ie_eqb_refl in H. discriminate.
  - assert (In a l') as Hin.
    { specialize (H a). destruct (in_dec (fun x y : iedge => ltac:(decide equality; apply N.eq_dec)) a l') as [i|n]; [exact i|].
      rewrite (icount_notin a l' n) in H. unfold icount in H. cbn [filter] in H. rewrite ie_eqb_refl in H. discriminate. }
    destruct (in_split _ _ Hin) as [l1 [l2 ->]].
    apply Permutation_cons_app. apply IH. intros e. specialize (H e).
    rewrite icount_app in *. unfold icount in *. cbn [filter] in H.
    destruct (ie_eqb e a); cbn [length] in H; lia.
Qed.

Theorem weld_keeps_balance_thm : forall (lab : N -> N) ts,
  ibalanced ts -> forall e, fst e <> snd e ->
  icount e (iedges (weld_tris lab ts)) = icount (ie_swap e) (iedges (weld_tris lab ts)).
Proof.
  intros lab ts B e Hne. unfold weld_tris.
  assert (ibalanced (map (relabel lab) ts)) as B'.
  { intros x. rewrite iedges_map_relabel.
    assert (Permutation (iedges ts) (map ie_swap (iedges ts))) as P.
    { apply perm_of_counts. intros y. rewrite icount_map_swap. apply B. }
    rewrite (icount_perm x _ _ (Permutation_map (emap lab) P)).
    assert (map (emap lab) (map ie_swap (iedges ts)) = map ie_swap (map (emap lab) (iedges ts))) as ->.
    { rewrite !map_map. apply map_ext. intros [p q]. reflexivity. }
    apply icount_map_swap. }
  pose proof (balance_filter (map (relabel lab) ts) e Hne) as F. rewrite (B' e) in F. lia.
Qed.
