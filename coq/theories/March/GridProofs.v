(* C09 — lifting the finite table lemmas to every sign grid: grid_closed. *)
From Coq Require Import List ZArith Bool Lia FinFun.
From PFGen Require Import MarchTable.
From PF Require Import March.Grid March.TableProps.
Import ListNotations.
Open Scope Z_scope.

(* ---------- boolean equalities ---------- *)
Lemma pt_eqb_eq a b : pt_eqb a b = true <-> a = b.
Proof.
  destruct a as [[ax ay] az], b as [[bx by_] bz]. unfold pt_eqb.
  rewrite !andb_true_iff, !Z.eqb_eq. split.
  - intros [[-> ->] ->]. reflexivity.
  - intros H. inversion H. auto.
Qed.
Lemma ge_eqb_eq a b : ge_eqb a b = true <-> a = b.
Proof.
  destruct a as [p a], b as [q b]. unfold ge_eqb. cbn [fst snd].
  rewrite andb_true_iff, pt_eqb_eq, Z.eqb_eq. split.
  - intros [-> ->]. reflexivity.
  - intros H. inversion H. auto.
Qed.
Lemma de_eqb_eq a b : de_eqb a b = true <-> a = b.
Proof.
  destruct a as [a1 a2], b as [b1 b2]. unfold de_eqb. cbn [fst snd].
  rewrite andb_true_iff, !ge_eqb_eq. split.
  - intros [-> ->]. reflexivity.
  - intros H. inversion H. auto.
Qed.
Lemma pt_eqb_refl a : pt_eqb a a = true. Proof. apply pt_eqb_eq. reflexivity. Qed.
Lemma ge_eqb_refl a : ge_eqb a a = true. Proof. apply ge_eqb_eq. reflexivity. Qed.
Lemma de_eqb_refl a : de_eqb a a = true. Proof. apply de_eqb_eq. reflexivity. Qed.
Lemma ge_eqb_neq a b : ge_eqb a b = false <-> a <> b.
Proof. rewrite <- ge_eqb_eq. destruct (ge_eqb a b); split; congruence. Qed.
Lemma pt_eq_dec (a b : pt) : {a = b} + {a <> b}.
Proof. destruct (pt_eqb a b) eqn:E; [left; apply pt_eqb_eq; exact E | right; intro H; apply pt_eqb_eq in H; congruence]. Qed.

(* ---------- point arithmetic ---------- *)
Ltac pts := repeat match goal with p : pt |- _ => destruct p as [[? ?] ?] end;
            repeat match goal with g : gedge |- _ => destruct g as [[[? ?] ?] ?] end;
            unfold dsub, dadd, gsub, gadd, psub, padd in *; cbn [fst snd] in *.
Ltac pteq := apply (f_equal2 pair); [apply (f_equal2 pair)|]; lia.
Lemma psub_padd c q : psub (padd c q) c = q.
Proof. pts. pteq. Qed.
Lemma padd_psub c p : padd c (psub p c) = p.
Proof. pts. pteq. Qed.
Lemma psub_psub p c d : psub (psub p c) d = psub p (padd c d).
Proof. pts. pteq. Qed.
Lemma padd_assoc a b c : padd (padd a b) c = padd a (padd b c).
Proof. pts. pteq. Qed.
Lemma padd_comm a b : padd a b = padd b a.
Proof. pts. pteq. Qed.
Lemma psub_self_add c d : psub (padd c d) c = d.
Proof. apply psub_padd. Qed.
Lemma psub_zero c c0 : psub c c0 = (0, 0, 0) -> c = c0.
Proof. pts. intros H. inversion H. pteq. Qed.
Lemma padd_zero_inv c d : c = padd c d -> d = (0, 0, 0).
Proof. pts. intros H. inversion H. pteq. Qed.
Lemma gsub_gsub g c d : gsub (gsub g c) d = gsub g (padd c d).
Proof. destruct g as [p a]. unfold gsub. cbn [fst snd]. rewrite psub_psub. reflexivity. Qed.
Lemma dsub_swap e c : dsub (swap e) c = swap (dsub e c).
Proof. destruct e. reflexivity. Qed.

Lemma pt_eqb_shift p c q : pt_eqb p (padd c q) = pt_eqb (psub p c) q.
Proof.
  destruct (pt_eqb p (padd c q)) eqn:E.
  - apply pt_eqb_eq in E. subst. rewrite psub_padd. symmetry. apply pt_eqb_refl.
  - destruct (pt_eqb (psub p c) q) eqn:E2; [|reflexivity].
    apply pt_eqb_eq in E2. subst. rewrite padd_psub, pt_eqb_refl in E. discriminate.
Qed.
Lemma ge_eqb_shift g c h : ge_eqb g (gadd c h) = ge_eqb (gsub g c) h.
Proof. unfold ge_eqb, gadd, gsub. cbn [fst snd]. rewrite pt_eqb_shift. reflexivity. Qed.
Lemma de_eqb_shift e c x : de_eqb e (dadd c x) = de_eqb (dsub e c) x.
Proof. unfold de_eqb, dadd, dsub. cbn [fst snd]. rewrite !ge_eqb_shift. reflexivity. Qed.

(* ---------- counting ---------- *)
Definition sum (l : list nat) : nat := fold_right Nat.add 0%nat l.

Lemma countd_app e l1 l2 : countd e (l1 ++ l2) = (countd e l1 + countd e l2)%nat.
Proof. unfold countd. rewrite filter_app, app_length. reflexivity. Qed.
Lemma countd_flat_map {A} e (g : A -> list dedge) L :
  countd e (flat_map g L) = sum (map (fun c => countd e (g c)) L).
Proof. induction L as [|c L IH]; [reflexivity|]. cbn [flat_map map sum fold_right]. rewrite countd_app, IH. reflexivity. Qed.
Lemma dedges_flat_map {A} (f : A -> list tri) L : dedges (flat_map f L) = flat_map (fun c => dedges (f c)) L.
Proof. unfold dedges. induction L as [|c L IH]; [reflexivity|]. cbn [flat_map]. rewrite flat_map_app, IH. reflexivity. Qed.
Lemma dedges_map_tadd c T : dedges (map (tadd c) T) = map (dadd c) (dedges T).
Proof.
  unfold dedges. induction T as [|t T IH]; [reflexivity|]. cbn [map flat_map]. rewrite map_app, IH.
  destruct t as [[a b] d]. reflexivity.
Qed.
Lemma countd_dadd e c D : countd e (map (dadd c) D) = countd (dsub e c) D.
Proof.
  unfold countd. induction D as [|x D IH]; [reflexivity|]. cbn [map filter].
  rewrite de_eqb_shift. destruct (de_eqb (dsub e c) x); cbn [length]; rewrite IH; reflexivity.
Qed.
Lemma countd_pos e D : (0 < countd e D)%nat -> In e D.
Proof.
  unfold countd. induction D as [|x D IH]; cbn [filter length]; [lia|].
  destruct (de_eqb e x) eqn:E.
  - apply de_eqb_eq in E. subst. intros _. left. reflexivity.
  - intros H. right. auto.
Qed.
Lemma countd_in e D : In e D -> (0 < countd e D)%nat.
Proof.
  unfold countd. induction D as [|x D IH]; cbn [filter length In]; [tauto|].
  intros [->|H]; [rewrite de_eqb_refl; cbn; lia|].
  destruct (de_eqb e x); cbn [length]; auto with arith.
Qed.

(* count of a directed edge in the whole surface = sum over the cells of the table count *)
Lemma count_surface s lo hi e :
  countd e (dedges (surface s lo hi)) =
  sum (map (fun c => lcount (case_index s c) (dsub e c)) (cells lo hi)).
Proof.
  unfold surface. rewrite dedges_flat_map, countd_flat_map. f_equal.
  apply map_ext. intros c. unfold cell_tris, lcount. rewrite dedges_map_tadd, countd_dadd. reflexivity.
Qed.

(* ---------- sums with small support ---------- *)
Lemma sum_zero {A} (F : A -> nat) L : (forall c, In c L -> F c = 0%nat) -> sum (map F L) = 0%nat.
Proof.
  induction L as [|c L IH]; intros H; [reflexivity|]. cbn [map sum fold_right].
  rewrite (H c (or_introl eq_refl)). apply IH. intros; apply H; right; assumption.
Qed.
Lemma sum_app l1 l2 : sum (l1 ++ l2) = (sum l1 + sum l2)%nat.
Proof. induction l1; cbn [app sum fold_right] in *; [reflexivity|]. fold (sum (l1 ++ l2)). fold (sum l1). lia. Qed.
Lemma sum_support {A} (F : A -> nat) S : forall L, NoDup L -> NoDup S -> incl S L ->
  (forall c, In c L -> ~ In c S -> F c = 0%nat) -> sum (map F L) = sum (map F S).
Proof.
  induction S as [|a S IH]; intros L HL HS Hincl Hz.
  - cbn. apply sum_zero. intros c Hc. apply Hz; auto.
  - assert (Ha : In a L) by (apply Hincl; left; reflexivity).
    destruct (in_split _ _ Ha) as [L1 [L2 ->]].
    rewrite map_app, sum_app. cbn [map sum fold_right]. fold (sum (map F L2)). fold (sum (map F S)).
    inversion HS as [|? ? HaS HS']; subst.
    rewrite <- (IH (L1 ++ L2)); auto.
    + rewrite map_app, sum_app. lia.
    + eapply NoDup_remove_1; eauto.
    + intros x Hx. assert (In x (L1 ++ a :: L2)) as Hx' by (apply Hincl; right; assumption).
      apply in_app_or in Hx'. apply in_or_app. destruct Hx' as [|[->|]]; auto. contradiction.
    + intros c Hc HcS. apply Hz.
      * apply in_app_or in Hc. apply in_or_app. destruct Hc; [left|right; right]; assumption.
      * intros [->|]; [|contradiction]. apply NoDup_remove_2 in HL. contradiction.
Qed.

(* ---------- cells of a box ---------- *)
Lemma in_zrange lo hi x : In x (zrange lo hi) <-> lo <= x < hi.
Proof.
  unfold zrange. rewrite in_map_iff. split.
  - intros [i [<- Hi]]. apply in_seq in Hi. lia.
  - intros H. exists (Z.to_nat (x - lo)). split; [lia|]. apply in_seq. lia.
Qed.
Lemma nodup_zrange lo hi : NoDup (zrange lo hi).
Proof.
  unfold zrange. apply Injective_map_NoDup; [|apply seq_NoDup].
  intros a b H. lia.
Qed.
Lemma nodup_app {A} (l1 l2 : list A) :
  NoDup l1 -> NoDup l2 -> (forall x, In x l1 -> ~ In x l2) -> NoDup (l1 ++ l2).
Proof.
  induction l1 as [|a l1 IH]; cbn [app]; intros H1 H2 Hd; [exact H2|].
  inversion H1; subst. constructor.
  - rewrite in_app_iff. intros [|Hin]; [contradiction|]. eapply Hd; [left; reflexivity|exact Hin].
  - apply IH; auto. intros x Hx. apply Hd. right. exact Hx.
Qed.
Lemma nodup_flat_map {A B} (f : A -> list B) L :
  NoDup L -> (forall a, In a L -> NoDup (f a)) ->
  (forall a b x, In a L -> In b L -> In x (f a) -> In x (f b) -> a = b) -> NoDup (flat_map f L).
Proof.
  induction L as [|a L IH]; intros HL Hf Hd; [constructor|]. cbn [flat_map].
  inversion HL as [|? ? Ha HL']; subst.
  apply nodup_app.
  - apply Hf. left. reflexivity.
  - apply IH; auto.
    + intros; apply Hf; right; assumption.
    + intros a0 b x Ha0 Hb. apply Hd; right; assumption.
  - intros x Hx Hin. apply in_flat_map in Hin. destruct Hin as [b [Hb Hxb]].
    assert (a = b) by (apply (Hd a b x); auto; [left; reflexivity | right; assumption]).
    subst. contradiction.
Qed.

Lemma in_cells lo hi c : In c (cells lo hi) <->
  let '(lx, ly, lz) := lo in let '(hx, hy, hz) := hi in let '(x, y, z) := c in
  lx <= x < hx /\ ly <= y < hy /\ lz <= z < hz.
Proof.
  destruct lo as [[lx ly] lz], hi as [[hx hy] hz], c as [[x y] z]. unfold cells.
  rewrite in_flat_map. split.
  - intros [z' [Hz H]]. apply in_flat_map in H. destruct H as [y' [Hy H]].
    apply in_map_iff in H. destruct H as [x' [E Hx]]. inversion E; subst.
    apply in_zrange in Hx, Hy, Hz. tauto.
  - intros [Hx [Hy Hz]]. exists z. split; [apply in_zrange; exact Hz|].
    apply in_flat_map. exists y. split; [apply in_zrange; exact Hy|].
    apply in_map_iff. exists x. split; [reflexivity|apply in_zrange; exact Hx].
Qed.
Lemma nodup_cells lo hi : NoDup (cells lo hi).
Proof.
  destruct lo as [[lx ly] lz], hi as [[hx hy] hz]. unfold cells.
  apply nodup_flat_map; [apply nodup_zrange| |].
  - intros z _. apply nodup_flat_map; [apply nodup_zrange| |].
    + intros y _. apply Injective_map_NoDup; [|apply nodup_zrange]. intros a b E. inversion E. reflexivity.
    + intros a b x _ _ Ha Hb. apply in_map_iff in Ha, Hb.
      destruct Ha as [? [<- _]], Hb as [? [E _]]. inversion E. reflexivity.
  - intros a b x _ _ Ha Hb. apply in_flat_map in Ha, Hb.
    destruct Ha as [y1 [_ Ha]], Hb as [y2 [_ Hb]]. apply in_map_iff in Ha, Hb.
    destruct Ha as [? [<- _]], Hb as [? [E _]]. inversion E. reflexivity.
Qed.

(* ---------- case index ---------- *)
Lemma idx8_range b0 b1 b2 b3 b4 b5 b6 b7 : 0 <= idx8 b0 b1 b2 b3 b4 b5 b6 b7 < 256.
Proof. unfold idx8, b2z. destruct b0, b1, b2, b3, b4, b5, b6, b7; lia. Qed.
Lemma case_index_range s c : 0 <= case_index s c < 256.
Proof. apply idx8_range. Qed.
Lemma idx8_bits b0 b1 b2 b3 b4 b5 b6 b7 :
  let i := idx8 b0 b1 b2 b3 b4 b5 b6 b7 in
  Z.testbit i 0 = b0 /\ Z.testbit i 1 = b1 /\ Z.testbit i 2 = b2 /\ Z.testbit i 3 = b3 /\
  Z.testbit i 4 = b4 /\ Z.testbit i 5 = b5 /\ Z.testbit i 6 = b6 /\ Z.testbit i 7 = b7.
Proof. destruct b0, b1, b2, b3, b4, b5, b6, b7; vm_compute; repeat split; reflexivity. Qed.
Lemma in_idx8l k : In k idx8l <-> 0 <= k < 8.
Proof. apply in_zrange. Qed.
Lemma case_bit s c k : In k idx8l -> Z.testbit (case_index s c) k = corner_sign s c k.
Proof.
  intros H. apply in_idx8l in H. unfold case_index.
  pose proof (idx8_bits (corner_sign s c 0) (corner_sign s c 1) (corner_sign s c 2) (corner_sign s c 3)
                        (corner_sign s c 4) (corner_sign s c 5) (corner_sign s c 6) (corner_sign s c 7)) as B.
  cbv zeta in B. destruct B as (B0 & B1 & B2 & B3 & B4 & B5 & B6 & B7).
  assert (k = 0 \/ k = 1 \/ k = 2 \/ k = 3 \/ k = 4 \/ k = 5 \/ k = 6 \/ k = 7) as K by lia.
  destruct K as [->|[->|[->|[->|[->|[->|[->| ->]]]]]]]; assumption.
Qed.
Lemma in_idx256 i : In i idx256 <-> 0 <= i < 256.
Proof. apply in_zrange. Qed.

Lemma compat_cases s c d : compat d (case_index s c) (case_index s (padd c d)) = true.
Proof.
  unfold compat. apply forallb_forall. intros [k k'] Hin. unfold corner_pairs in Hin.
  apply filter_In in Hin. destruct Hin as [Hin E]. apply in_prod_iff in Hin. destruct Hin as [Hk Hk'].
  apply pt_eqb_eq in E. rewrite !case_bit by assumption. unfold corner_sign.
  rewrite E. rewrite padd_assoc, (padd_comm d). apply eqb_reflx.
Qed.

(* ---------- the finite checks as usable statements ---------- *)
Lemma in_e12_in g : in_e12 g = true <-> In g E12.
Proof.
  unfold in_e12. rewrite existsb_exists. split.
  - intros [x [Hx E]]. apply ge_eqb_eq in E. subst. exact Hx.
  - intros H. exists g. split; [exact H|apply ge_eqb_refl].
Qed.

Lemma dedges_facts i u v : 0 <= i < 256 -> In (u, v) (dedges (ltris i)) ->
  In u E12 /\ In v E12 /\ u <> v.
Proof.
  intros Hi Hin. pose proof (all1_spec _ _ dedges_ok i (proj2 (in_idx256 i) Hi)) as H.
  unfold dedges_pred in H. rewrite forallb_forall in H. specialize (H _ Hin).
  unfold dedge_pred in H. cbn [fst snd] in H.
  rewrite !andb_true_iff, negb_true_iff, ge_eqb_neq, !in_e12_in in H. tauto.
Qed.
Lemma lcount_pos_facts i u v : 0 <= i < 256 -> (0 < lcount i (u, v))%nat -> In u E12 /\ In v E12 /\ u <> v.
Proof. intros Hi H. apply countd_pos in H. eapply dedges_facts; eauto. Qed.

Lemma e12_coords x y z a : In ((x, y, z), a) E12 -> 0 <= x <= 1 /\ 0 <= y <= 1 /\ 0 <= z <= 1.
Proof.
  intros Hin. pose proof (all1_spec _ _ e12_unit_ok _ Hin) as H. unfold e12_unit_pred in H.
  rewrite !andb_true_iff, !orb_true_iff, !Z.eqb_eq in H. lia.
Qed.

Lemma in_cube27 x y z : -1 <= x <= 1 -> -1 <= y <= 1 -> -1 <= z <= 1 -> In (x, y, z) cube27.
Proof.
  intros Hx Hy Hz.
  assert (x = -1 \/ x = 0 \/ x = 1) as [->|[->| ->]] by lia;
  assert (y = -1 \/ y = 0 \/ y = 1) as [->|[->| ->]] by lia;
  assert (z = -1 \/ z = 0 \/ z = 1) as [->|[->| ->]] by lia; vm_compute; tauto.
Qed.

Lemma fdir_unique u v d : In u E12 -> In v E12 -> u <> v -> d <> (0, 0, 0) ->
  In (gsub u d) E12 -> In (gsub v d) E12 -> fdir u v = Some d.
Proof.
  intros Hu Hv Huv Hd Hu' Hv'.
  assert (In d cube27) as Hc.
  { destruct u as [[[x y] z] a], d as [[dx dy] dz]. unfold gsub, psub in Hu'. cbn [fst snd] in Hu'.
    apply e12_coords in Hu, Hu'. apply in_cube27; lia. }
  pose proof (all3_spec _ _ _ _ fdir_ok u v d Hu Hv Hc) as H. unfold fdir_pred in H.
  assert (negb (ge_eqb u v) && negb (pt_eqb d (0, 0, 0)) && in_e12 (gsub u d) && in_e12 (gsub v d) = true) as C.
  { rewrite !andb_true_iff, !negb_true_iff, ge_eqb_neq, !in_e12_in. repeat split; auto.
    destruct (pt_eqb d (0, 0, 0)) eqn:E; [|reflexivity]. apply pt_eqb_eq in E. contradiction. }
  rewrite C in H. destruct (fdir u v) as [d'|]; [|discriminate]. apply pt_eqb_eq in H. subst. reflexivity.
Qed.

Lemma fdir_some u v d : fdir u v = Some d -> In d face_dirs /\ In (gsub u d) E12 /\ In (gsub v d) E12.
Proof.
  unfold fdir. intros H. apply find_some in H. destruct H as [H1 H2].
  rewrite andb_true_iff, !in_e12_in in H2. tauto.
Qed.

Lemma interior_facts i u v : 0 <= i < 256 -> In u E12 -> In v E12 -> u <> v -> fdir u v = None ->
  lcount i (u, v) = lcount i (v, u) /\ (lcount i (u, v) <= 1)%nat.
Proof.
  intros Hi Hu Hv Huv Hf.
  pose proof (all3_spec _ _ _ _ interior_ok i u v (proj2 (in_idx256 i) Hi) Hu Hv) as H. unfold interior_pred in H.
  apply ge_eqb_neq in Huv. rewrite Huv, Hf in H. cbn [negb] in H.
  rewrite andb_true_iff, Nat.eqb_eq, Nat.leb_le in H. exact H.
Qed.

Lemma face_facts d i i' u v : In d face_dirs -> 0 <= i < 256 -> 0 <= i' < 256 -> compat d i i' = true ->
  In u E12 -> In v E12 -> u <> v -> In (gsub u d) E12 -> In (gsub v d) E12 ->
  lcount i (u, v) = lcount i' (gsub v d, gsub u d) /\
  lcount i' (gsub u d, gsub v d) = lcount i (v, u) /\
  (lcount i (u, v) + lcount i' (gsub u d, gsub v d) <= 1)%nat.
Proof.
  intros Hd Hi Hi' Hc Hu Hv Huv Hu' Hv'.
  pose proof (all1_spec _ _ face_check_ok d Hd) as H. unfold face_dir_pred in H.
  pose proof (all2_spec _ _ _ H i i' (proj2 (in_idx256 i) Hi) (proj2 (in_idx256 i') Hi')) as H2. clear H.
  unfold face_pred in H2. rewrite Hc in H2.
  assert (In (u, v) (face_pairs d)) as Hp.
  { unfold face_pairs. apply filter_In. split; [apply in_prod; assumption|]. unfold face_pair_pred.
    rewrite !andb_true_iff, negb_true_iff, ge_eqb_neq, !in_e12_in. auto. }
  pose proof (all1_spec _ _ H2 _ Hp) as H3. clear H2. unfold face_edge_pred in H3. cbv zeta in H3.
  rewrite !andb_true_iff, !Nat.eqb_eq, Nat.leb_le in H3. unfold lcount. tauto.
Qed.

Lemma ltris_0 : ltris 0 = [].
Proof. vm_compute. reflexivity. Qed.

Lemma incr_01 k : In k idx8l -> let '(x, y, z) := incr k in 0 <= x <= 1 /\ 0 <= y <= 1 /\ 0 <= z <= 1.
Proof.
  intros Hk. pose proof (all1_spec _ _ incr01_ok k Hk) as H. unfold incr01_pred in H.
  destruct (incr k) as [[x y] z]. rewrite !andb_true_iff, !orb_true_iff, !Z.eqb_eq in H. lia.
Qed.

(* ---------- the lifting ---------- *)
Section Lift.
Variable s : pt -> bool.
Variables lo hi : pt.
Hypothesis Hsup : forall p, s p = true -> strictly_inside lo hi p.

Lemma outside_case0 c : ~ In c (cells lo hi) -> case_index s c = 0.
Proof.
  intros Hout.
  assert (forall k, In k idx8l -> corner_sign s c k = false) as Hk.
  { intros k Hk. unfold corner_sign. destruct (s (padd c (incr k))) eqn:E; [|reflexivity].
    exfalso. apply Hout. apply Hsup in E. apply in_cells. pose proof (incr_01 k Hk) as I.
    destruct (incr k) as [[ix iy] iz], c as [[x y] z], lo as [[lx ly] lz], hi as [[hx hy] hz].
    unfold strictly_inside, padd in E. lia. }
  unfold case_index. rewrite !Hk by (apply in_idx8l; lia). reflexivity.
Qed.

Definition F (e : dedge) (c : pt) : nat := lcount (case_index s c) (dsub e c).

Lemma F_outside e c : ~ In c (cells lo hi) -> F e c = 0%nat.
Proof. intros H. unfold F, lcount. rewrite (outside_case0 c H), ltris_0. reflexivity. Qed.

Lemma F_pos_facts e c : (0 < F e c + F (swap e) c)%nat ->
  In (fst (dsub e c)) E12 /\ In (snd (dsub e c)) E12 /\ fst (dsub e c) <> snd (dsub e c).
Proof.
  unfold F. rewrite dsub_swap. destruct (dsub e c) as [u v]. cbn [swap fst snd]. intros H.
  destruct (Nat.eq_dec (lcount (case_index s c) (u, v)) 0) as [E0|E0].
  - assert (0 < lcount (case_index s c) (v, u))%nat as H1 by (rewrite E0 in H; exact H).
    apply lcount_pos_facts in H1; [|apply case_index_range]. destruct H1 as (A & B & C).
    repeat split; auto.
  - assert (0 < lcount (case_index s c) (u, v))%nat as H1 by (apply Nat.neq_0_lt_0; exact E0).
    apply lcount_pos_facts in H1; [|apply case_index_range]. exact H1.
Qed.

Lemma contributing e c0 c : (0 < F e c0 + F (swap e) c0)%nat -> (0 < F e c + F (swap e) c)%nat -> c <> c0 ->
  fdir (fst (dsub e c0)) (snd (dsub e c0)) = Some (psub c c0).
Proof.
  intros H0 H1 Hne. apply F_pos_facts in H0, H1. destruct H0 as (Hu & Hv & Huv), H1 as (Hu' & Hv' & _).
  assert (forall g, gsub g c = gsub (gsub g c0) (psub c c0)) as G.
  { intros g. rewrite gsub_gsub, padd_psub. reflexivity. }
  destruct e as [g1 g2]. unfold dsub in *. cbn [fst snd] in *.
  apply fdir_unique; auto.
  - intros E. apply Hne. apply psub_zero. exact E.
  - rewrite <- G. exact Hu'.
  - rewrite <- G. exact Hv'.
Qed.

Lemma sum_one_cell (H : pt -> nat) c0 : In c0 (cells lo hi) ->
  (forall c, In c (cells lo hi) -> c <> c0 -> H c = 0%nat) -> sum (map H (cells lo hi)) = H c0.
Proof.
  intros H0 Hz. rewrite (sum_support H [c0]).
  - cbn. lia.
  - apply nodup_cells.
  - constructor; [intros []|constructor].
  - intros x [<-|[]]. exact H0.
  - intros c Hc Hn. apply Hz; auto. intros ->. apply Hn. left. reflexivity.
Qed.
Lemma sum_two_cells (H : pt -> nat) c0 c1 : In c0 (cells lo hi) -> c0 <> c1 ->
  (~ In c1 (cells lo hi) -> H c1 = 0%nat) ->
  (forall c, In c (cells lo hi) -> c <> c0 -> c <> c1 -> H c = 0%nat) ->
  sum (map H (cells lo hi)) = (H c0 + H c1)%nat.
Proof.
  intros H0 Hne H1 Hz. destruct (in_dec pt_eq_dec c1 (cells lo hi)) as [Hin|Hout].
  - rewrite (sum_support H [c0; c1]).
    + cbn. lia.
    + apply nodup_cells.
    + constructor; [intros [E|[]]; congruence|constructor; [intros []|constructor]].
    + intros x [<-|[<-|[]]]; assumption.
    + intros c Hc Hn. apply Hz; auto; intros ->; apply Hn; cbn; auto.
  - rewrite (H1 Hout), Nat.add_0_r. apply sum_one_cell; auto.
    intros c Hc Hn. apply Hz; auto. intros ->. contradiction.
Qed.

Theorem grid_closed_count e :
  countd e (dedges (surface s lo hi)) = countd (swap e) (dedges (surface s lo hi)) /\
  (countd e (dedges (surface s lo hi)) <= 1)%nat.
Proof.
  rewrite !count_surface. fold (F e). fold (F (swap e)).
  set (L := cells lo hi).
  destruct (existsb (fun c => (0 <? F e c + F (swap e) c)%nat) L) eqn:Ex.
  - apply existsb_exists in Ex. destruct Ex as [c0 [Hc0 P0]]. apply Nat.ltb_lt in P0.
    pose proof (F_pos_facts e c0 P0) as (Hu & Hv & Huv).
    pose proof (contributing e c0) as Hcon. specialize (Hcon) with (1 := P0).
    assert (forall c, (F e c + F (swap e) c = 0)%nat \/ (0 < F e c + F (swap e) c)%nat) as Dec by (intros; lia).
    destruct (fdir (fst (dsub e c0)) (snd (dsub e c0))) as [d|] eqn:Fd.
    + (* the edge lies in the face shared with the cell c0 + d *)
      set (c1 := padd c0 d).
      assert (forall c, In c L -> c <> c0 -> c <> c1 -> (F e c + F (swap e) c = 0)%nat) as Hz.
      { intros c _ Hn0 Hn1. destruct (Dec c) as [Z0|P]; [exact Z0|]. exfalso. apply Hn1.
        specialize (Hcon c P Hn0). inversion Hcon; subst d. unfold c1. symmetry. apply padd_psub. }
      apply fdir_some in Fd. destruct Fd as (Hd & Hu' & Hv').
      assert (c0 <> c1) as Hne.
      { unfold c1. intros E. assert (d = (0, 0, 0)) as D0 by (apply (padd_zero_inv c0); exact E).
        subst d. vm_compute in Hd. intuition discriminate. }
      unfold L in *. rewrite (sum_two_cells (F e) c0 c1), (sum_two_cells (F (swap e)) c0 c1); auto;
        try (intros; apply F_outside; assumption);
        try (intros c Hc Hn0 Hn1; specialize (Hz c Hc Hn0 Hn1); lia).
      pose proof (face_facts d (case_index s c0) (case_index s c1) _ _ Hd (case_index_range s c0)
                    (case_index_range s c1) (compat_cases s c0 d) Hu Hv Huv Hu' Hv') as (A & B & C).
      assert (forall g, gsub g c1 = gsub (gsub g c0) d) as G by (intros; unfold c1; rewrite gsub_gsub; reflexivity).
      unfold F. rewrite !dsub_swap. destruct e as [g1 g2]. unfold dsub, swap in *. cbn [fst snd] in *.
      rewrite !G. lia.
    + (* interior edge: only c0 contributes *)
      assert (forall c, In c L -> c <> c0 -> (F e c + F (swap e) c = 0)%nat) as Hz.
      { intros c _ Hn0. destruct (Dec c) as [Z0|P]; [exact Z0|]. specialize (Hcon c P Hn0). discriminate. }
      unfold L in *. rewrite (sum_one_cell (F e) c0), (sum_one_cell (F (swap e)) c0); auto;
        try (intros c Hc Hn0; specialize (Hz c Hc Hn0); lia).
      pose proof (interior_facts (case_index s c0) _ _ (case_index_range s c0) Hu Hv Huv Fd) as (A & B).
      unfold F. rewrite !dsub_swap. destruct (dsub e c0) as [u v]. unfold swap. cbn [fst snd] in *. split; [exact A|exact B].
  - (* no cell emits the edge or its reverse *)
    assert (forall c, In c L -> (F e c + F (swap e) c = 0)%nat) as Hz.
    { intros c Hc. destruct (F e c + F (swap e) c)%nat eqn:E; [reflexivity|]. exfalso.
      assert (existsb (fun c => (0 <? F e c + F (swap e) c)%nat) L = true) as T.
      { apply existsb_exists. exists c. split; [exact Hc|]. apply Nat.ltb_lt. lia. }
      congruence. }
    rewrite (sum_zero (F e) L), (sum_zero (F (swap e)) L); try (intros c Hc; specialize (Hz c Hc); lia). lia.
Qed.
End Lift.
