(* C09 — every output vertex lies on a grid edge whose end points are on different sides of the cutoff,
   at an interpolation parameter in [0,1] (over Q). *)
From Coq Require Import List ZArith Bool Lia QArith Lqa.
From PFGen Require Import MarchTable.
From PF Require Import March.Grid March.TableProps March.GridProofs March.SurfaceProofs.
Import ListNotations.
Open Scope Z_scope.

(* finite: the grid edge of cube edge e joins exactly the two corners the table names, both in 0..7 *)
Definition ledge_ends_pred (e : Z) : bool :=
  let g := ledge e in let A := incr (corner_a e) in let B := incr (corner_b e) in
  (0 <=? corner_a e) && (corner_a e <? 8) && (0 <=? corner_b e) && (corner_b e <? 8) &&
  ((pt_eqb (ge_lo g) A && pt_eqb (ge_hi g) B) || (pt_eqb (ge_lo g) B && pt_eqb (ge_hi g) A)).
Lemma ledge_ends_ok : all1 ledge_ends_pred idx12 = true.
Proof. vm_compute. reflexivity. Qed.

Definition tri_verts (t : tri) : list gedge := let '(a, b, c) := t in [a; b; c].

Lemma ge_lo_gadd c g : ge_lo (gadd c g) = padd c (ge_lo g).
Proof. reflexivity. Qed.
Lemma ge_hi_gadd c g : ge_hi (gadd c g) = padd c (ge_hi g).
Proof. unfold ge_hi, gadd. cbn [fst snd]. apply padd_assoc. Qed.

Lemma crossed_vertex s c i e : i = case_index s c -> 0 <= e < 12 -> crossed i e = true ->
  s (ge_lo (gadd c (ledge e))) <> s (ge_hi (gadd c (ledge e))).
Proof.
  intros -> He Hc. pose proof (all1_spec _ _ ledge_ends_ok e (proj2 (in_idx12 e) He)) as H.
  unfold ledge_ends_pred in H. cbv zeta in H.
  rewrite !andb_true_iff, orb_true_iff, !andb_true_iff, !pt_eqb_eq, !Z.leb_le, !Z.ltb_lt in H.
  destruct H as [[[[A0 A1] B0] B1] Hends].
  unfold crossed in Hc.
  rewrite !case_bit in Hc by (apply in_idx8l; lia). unfold corner_sign in Hc.
  rewrite ge_lo_gadd, ge_hi_gadd.
  destruct Hends as [[-> ->]|[-> ->]]; intros E; rewrite E in Hc; rewrite xorb_nilpotent in Hc; discriminate.
Qed.

(* every vertex of every triangle of the surface sits on a grid edge with a sign change *)
Theorem surface_vertex_crossed_thm : forall (s : pt -> bool) lo hi t g,
  In t (surface s lo hi) -> In g (tri_verts t) -> s (ge_lo g) <> s (ge_hi g).
Proof.
  intros s lo hi t g Ht Hg. apply in_surface in Ht. destruct Ht as (c & a & b & d & _ & Hr & ->).
  destruct (row_facts _ a b d (case_index_range s c) Hr) as (Ha & Hb & Hd & _).
  destruct (table_oriented_thm _ (case_index_range s c)) as [O _]. destruct (O a b d Hr) as (Ca & Cb & Cd & _).
  unfold tadd, tri_verts in Hg. destruct Hg as [<-|[<-|[<-|[]]]]; eapply crossed_vertex; eauto.
Qed.

(* ---------- samples in Q ---------- *)
Open Scope Q_scope.
Definition sign_grid (f : pt -> Q) (cutoff : Q) : pt -> bool :=
  fun p => if Qlt_le_dec (f p) cutoff then true else false.
(* interpolationValueFromCutoff(v1v, v2v, cutoff) *)
Definition interp (v1 v2 cutoff : Q) : Q := (cutoff - v1) / (v2 - v1).

Lemma interp_unit va vb c : va < c -> c <= vb -> 0 <= interp va vb c <= 1 /\ 0 <= interp vb va c <= 1.
Proof.
  intros H1 H2. assert (0 < vb - va) as D by lra. unfold interp. split.
  - split.
    + apply Qle_shift_div_l; [exact D|]. lra.
    + apply Qle_shift_div_r; [exact D|]. lra.
  - assert ((c - vb) / (va - vb) == (vb - c) / (vb - va)) as -> by (field; lra).
    split.
    + apply Qle_shift_div_l; [exact D|]. lra.
    + apply Qle_shift_div_r; [exact D|]. lra.
Qed.

Theorem vertex_on_edge_thm : forall (f : pt -> Q) (cutoff : Q) lo hi t g,
  In t (surface (sign_grid f cutoff) lo hi) -> In g (tri_verts t) ->
  let va := f (ge_lo g) in let vb := f (ge_hi g) in
  ((va < cutoff /\ cutoff <= vb) \/ (vb < cutoff /\ cutoff <= va)) /\
  (0 <= interp va vb cutoff <= 1) /\ (0 <= interp vb va cutoff <= 1).
Proof.
  intros f cutoff lo hi t g Ht Hg va vb.
  pose proof (surface_vertex_crossed_thm _ lo hi t g Ht Hg) as X. unfold sign_grid in X.
  fold va vb in X.
  destruct (Qlt_le_dec va cutoff) as [A|A], (Qlt_le_dec vb cutoff) as [B|B]; try congruence.
  - split; [left; split; assumption|]. apply interp_unit; assumption.
  - split; [right; split; assumption|]. destruct (interp_unit vb va cutoff B A). split; assumption.
Qed.
