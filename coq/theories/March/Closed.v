(* C09 — executable oracles on an indexed triangle list (the implementation's output after its own
   weld): efficient closedness test, degenerate faces, and the weld as a relabelling.
   Definitions only (plus the totality fact the sorting functor asks for).

   Go                                                       here
   -------------------------------------------------------  ----------------------------
   Mesh.indices, three per triangle                         list itri
   WeldByFloat3Attribute: vertices with equal rounded        weld_tris lab ts
     position become one, triangles with two equal corners
     are dropped                                                                           *)
From Coq Require Import List NArith Bool Lia Orders Mergesort.
Import ListNotations.
Open Scope N_scope.

Definition itri := (N * N * N)%type.
Definition iedge := (N * N)%type.

Definition ie_eqb (a b : iedge) : bool := (fst a =? fst b) && (snd a =? snd b).
Definition ie_swap (e : iedge) : iedge := (snd e, fst e).
Definition itri_edges (t : itri) : list iedge := let '(a, b, c) := t in [(a, b); (b, c); (c, a)].
Definition iedges (ts : list itri) : list iedge := flat_map itri_edges ts.
Definition icount (e : iedge) (l : list iedge) : nat := length (filter (ie_eqb e) l).

(* no triangle uses a vertex twice *)
Definition itri_nondeg (t : itri) : bool :=
  let '(a, b, c) := t in negb (a =? b) && negb (b =? c) && negb (a =? c).
Definition inondeg (ts : list itri) : bool := forallb itri_nondeg ts.

(* ---- specification: every directed edge at most once, its reverse exactly as often ---- *)
Definition iclosed (ts : list itri) : Prop :=
  forall e, icount e (iedges ts) = icount (ie_swap e) (iedges ts) /\ (icount e (iedges ts) <= 1)%nat.

(* ---- lexicographic order on index pairs, merge sort ---- *)
Definition ie_ltb (a b : iedge) : bool := (fst a <? fst b) || ((fst a =? fst b) && (snd a <? snd b)).
Definition ie_leb (a b : iedge) : bool := (fst a <? fst b) || ((fst a =? fst b) && (snd a <=? snd b)).

Module IEOrder <: TotalLeBool.
  Definition t := iedge.
  Definition leb := ie_leb.
  Theorem leb_total : forall a b, leb a b = true \/ leb b a = true.
  Proof.
    intros [a1 a2] [b1 b2]. unfold leb, ie_leb. cbn [fst snd].
    destruct (N.ltb_spec a1 b1); [left; reflexivity|].
    destruct (N.ltb_spec b1 a1); [right; reflexivity|].
    assert (a1 = b1) as -> by lia. rewrite N.eqb_refl. cbn [orb andb].
    destruct (N.leb_spec a2 b2); [left; reflexivity|right]. apply N.leb_le. lia.
  Qed.
End IEOrder.
Module IESort := Sort IEOrder.

Fixpoint strictly_inc (l : list iedge) : bool :=
  match l with
  | a :: (b :: _) as r => ie_ltb a b && strictly_inc r
  | _ => true
  end.
Fixpoint ie_list_eqb (l1 l2 : list iedge) : bool :=
  match l1, l2 with
  | [], [] => true
  | a :: r1, b :: r2 => ie_eqb a b && ie_list_eqb r1 r2
  | _, _ => false
  end.

(* n log n closedness test: sorted edge list strictly increasing (no directed edge twice) and equal to
   the sorted list of reversed edges (each edge has its reverse) *)
Definition iclosedb (ts : list itri) : bool :=
  let d := iedges ts in
  let sd := IESort.sort d in
  strictly_inc sd && ie_list_eqb sd (IESort.sort (map ie_swap d)).

(* ---- the weld as a relabelling of vertices followed by dropping collapsed triangles ---- *)
Definition relabel (lab : N -> N) (t : itri) : itri := let '(a, b, c) := t in (lab a, lab b, lab c).
Definition weld_tris (lab : N -> N) (ts : list itri) : list itri := filter itri_nondeg (map (relabel lab) ts).

(* ---- triangle multisets up to rotation ---- *)
Definition rot_canon (t : itri) : itri :=
  let '(a, b, c) := t in
  if (a <=? b) && (a <=? c) then (a, b, c)
  else if (b <=? a) && (b <=? c) then (b, c, a)
  else (c, a, b).
Definition tcode (t : itri) : N := let '(a, b, c) := rot_canon t in N.shiftl (N.shiftl a 40 + b) 40 + c.

Module NOrd <: TotalLeBool.
  Definition t := N.
  Definition leb := N.leb.
  Theorem leb_total : forall a b, leb a b = true \/ leb b a = true.
  Proof. intros a b. unfold leb. destruct (N.leb_spec a b); [left; reflexivity|right]. apply N.leb_le. lia. Qed.
End NOrd.
Module NSort := Sort NOrd.

Fixpoint nlist_eqb (l1 l2 : list N) : bool :=
  match l1, l2 with
  | [], [] => true
  | a :: r1, b :: r2 => (a =? b) && nlist_eqb r1 r2
  | _, _ => false
  end.
Definition tri_multiset_eqb (t1 t2 : list itri) : bool :=
  nlist_eqb (NSort.sort (map tcode t1)) (NSort.sort (map tcode t2)).
Fixpoint n_strictly_inc (l : list N) : bool :=
  match l with
  | a :: (b :: _) as r => (a <? b) && n_strictly_inc r
  | _ => true
  end.
Definition n_nodupb (l : list N) : bool := n_strictly_inc (NSort.sort l).
