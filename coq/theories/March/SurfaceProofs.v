(* C09 — the headline statements about the sign-grid model: closedness of the surface of every sign grid,
   no degenerate faces, the table facts in readable form, orientation, vertices on crossed edges. *)
From Coq Require Import List ZArith Bool Lia.
From PFGen Require Import MarchTable.
From PF Require Import March.Grid March.TableProps March.GridProofs.
Import ListNotations.
Open Scope Z_scope.

Definition rows (i : Z) : list (Z * Z * Z) := row_tris (znth triangulation i []).

Lemma in_idx12 e : In e idx12 <-> 0 <= e < 12.
Proof. apply in_zrange. Qed.

Lemma row_facts i a b c : 0 <= i < 256 -> In (a, b, c) (rows i) ->
  0 <= a < 12 /\ 0 <= b < 12 /\ 0 <= c < 12 /\ a <> b /\ b <> c /\ a <> c.
Proof.
  intros Hi Hin. pose proof (all1_spec _ _ rows_ok i (proj2 (in_idx256 i) Hi)) as H.
  unfold rows_pred in H. rewrite forallb_forall in H. specialize (H _ Hin). unfold row_pred in H.
  rewrite !andb_true_iff, !negb_true_iff, !Z.leb_le, !Z.ltb_lt, !Z.eqb_neq in H. lia.
Qed.

Lemma ledge_inj a b : 0 <= a < 12 -> 0 <= b < 12 -> ledge a = ledge b -> a = b.
Proof.
  intros Ha Hb E. pose proof (all2_spec _ _ _ ledge_inj_ok a b (proj2 (in_idx12 a) Ha) (proj2 (in_idx12 b) Hb)) as H.
  unfold ledge_inj_pred in H. rewrite E, ge_eqb_refl in H. apply Z.eqb_eq. exact H.
Qed.

(* ---------- table_face_consistent ---------- *)
Theorem table_face_consistent_thm : forall i, 0 <= i < 256 ->
  (forall a b c, In (a, b, c) (rows i) ->
     0 <= a < 12 /\ 0 <= b < 12 /\ 0 <= c < 12 /\
     ledge a <> ledge b /\ ledge b <> ledge c /\ ledge a <> ledge c) /\
  (forall u v, In u E12 -> In v E12 -> u <> v -> fdir u v = None ->
     lcount i (u, v) = lcount i (v, u) /\ (lcount i (u, v) <= 1)%nat) /\
  (forall d i' u v, In d face_dirs -> 0 <= i' < 256 -> compat d i i' = true ->
     In u E12 -> In v E12 -> u <> v -> In (gsub u d) E12 -> In (gsub v d) E12 ->
     lcount i (u, v) = lcount i' (gsub v d, gsub u d) /\
     lcount i' (gsub u d, gsub v d) = lcount i (v, u) /\
     (lcount i (u, v) + lcount i' (gsub u d, gsub v d) <= 1)%nat).
Proof.
  intros i Hi. split; [|split].
  - intros a b c Hin. destruct (row_facts i a b c Hi Hin) as (Ha & Hb & Hc & Hab & Hbc & Hac).
    repeat split; try lia; intros E; apply ledge_inj in E; auto.
  - intros u v Hu Hv Huv Hf. apply interior_facts; assumption.
  - intros d i' u v Hd Hi' Hc Hu Hv Huv Hu' Hv'. apply face_facts; assumption.
Qed.

(* ---------- grid_closed ---------- *)
Theorem grid_closed_thm : forall (s : pt -> bool) (lo hi : pt),
  (forall p, s p = true -> strictly_inside lo hi p) ->
  forall e : dedge,
    countd e (dedges (surface s lo hi)) = countd (swap e) (dedges (surface s lo hi)) /\
    (countd e (dedges (surface s lo hi)) <= 1)%nat.
Proof. intros s lo hi H e. apply grid_closed_count. exact H. Qed.

Theorem grid_closedb_thm : forall (s : pt -> bool) (lo hi : pt),
  (forall p, s p = true -> strictly_inside lo hi p) -> closedb (surface s lo hi) = true.
Proof.
  intros s lo hi H. unfold closedb. apply forallb_forall. intros e He.
  destruct (grid_closed_count s lo hi H e) as [A B]. apply countd_in in He.
  rewrite andb_true_iff, !Nat.eqb_eq. lia.
Qed.

(* ---------- no degenerate faces (needs no hypothesis on the grid) ---------- *)
Lemma gadd_inj c g h : gadd c g = gadd c h -> g = h.
Proof.
  destruct g as [[[gx gy] gz] ga], h as [[[hx hy] hz] ha], c as [[cx cy] cz].
  unfold gadd, padd. cbn [fst snd]. intros E. inversion E. f_equal. f_equal; [f_equal|]; lia.
Qed.

Lemma in_ltris i t : In t (ltris i) -> exists a b c, In (a, b, c) (rows i) /\ t = (ledge a, ledge b, ledge c).
Proof.
  unfold ltris. intros H. apply in_map_iff in H. destruct H as [[[a b] c] [E Hin]].
  exists a, b, c. split; [exact Hin|symmetry; exact E].
Qed.

Lemma in_surface s lo hi t : In t (surface s lo hi) ->
  exists c a b d, In c (cells lo hi) /\ In (a, b, d) (rows (case_index s c)) /\
                  t = tadd c (ledge a, ledge b, ledge d).
Proof.
  unfold surface. intros H. apply in_flat_map in H. destruct H as [c [Hc Ht]].
  unfold cell_tris in Ht. apply in_map_iff in Ht. destruct Ht as [t0 [E Hin]].
  apply in_ltris in Hin. destruct Hin as (a & b & d & Hr & ->). exists c, a, b, d. auto.
Qed.

Theorem grid_no_degenerate_thm : forall (s : pt -> bool) (lo hi : pt), no_degenerateb (surface s lo hi) = true.
Proof.
  intros s lo hi. unfold no_degenerateb. apply forallb_forall. intros t Ht.
  apply in_surface in Ht. destruct Ht as (c & a & b & d & _ & Hr & ->).
  destruct (row_facts _ a b d (case_index_range s c) Hr) as (Ha & Hb & Hd & Hab & Hbd & Had).
  unfold tadd. rewrite !andb_true_iff, !negb_true_iff, !ge_eqb_neq.
  repeat split; intros E; apply gadd_inj in E; apply ledge_inj in E; auto.
Qed.

(* ---------- table_oriented ---------- *)
Theorem table_oriented_thm : forall i, 0 <= i < 256 ->
  (forall a b c, In (a, b, c) (rows i) ->
     crossed i a = true /\ crossed i b = true /\ crossed i c = true /\
     0 < dot (tnormal (a, b, c)) (outdir i a) + dot (tnormal (a, b, c)) (outdir i b)
         + dot (tnormal (a, b, c)) (outdir i c)) /\
  (forall e, 0 <= e < 12 ->
     (crossed i e = true -> 0 < flux i e) /\
     (crossed i e = false -> forall t, In t (rows i) -> uses t e = false)).
Proof.
  intros i Hi. split.
  - intros a b c Hin. pose proof (all1_spec _ _ oriented_tri_ok i (proj2 (in_idx256 i) Hi)) as H.
    unfold oriented_case_pred in H. rewrite forallb_forall in H. specialize (H _ Hin).
    unfold oriented_tri_pred in H. rewrite !andb_true_iff, Z.ltb_lt in H. tauto.
  - intros e He. pose proof (all2_spec _ _ _ oriented_flux_ok i e (proj2 (in_idx256 i) Hi) (proj2 (in_idx12 e) He)) as H.
    unfold oriented_flux_pred in H. split; intros C; rewrite C in H.
    + apply Z.ltb_lt. exact H.
    + intros t Ht. apply negb_true_iff in H. destruct (uses t e) eqn:U; [|reflexivity].
      assert (existsb (fun t => uses t e) (row_tris (znth triangulation i [])) = true) as X.
      { apply existsb_exists. exists t. split; [exact Ht|exact U]. }
      congruence.
Qed.

(* the per-edge form of outwardness is false for this table *)
Theorem table_per_edge_refuted_thm :
  exists i a b c, 0 <= i < 256 /\ In (a, b, c) (rows i) /\ dot (tnormal (a, b, c)) (outdir i a) <= 0.
Proof. exists 23, 2, 9, 7. vm_compute. intuition discriminate. Qed.
