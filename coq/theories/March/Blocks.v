(* C09 — the canvas' block storage (modeling/marching/canvas.go): 100^3 samples per block keyed by block
   coordinate, and the corner fetch of marchFloat1BlockPosition across neighbouring blocks.
   Definitions only; tables from the GENERATED PFGen.MarchTable.

   Go                                                      here
   ------------------------------------------------------  -------------------------------
   canvasPosToChunkPos: int(math.Floor(float64(x)/100))    chunk_of
   shiftedPos = x - chunkPos.X*marchingSectionSize          local_of
   d.index(x, y, z)                                         index
   xBlockPosition (+1 when x == marchingSectionSize-1)      next_block
   cubeDataBlockPositions[k]   (which block variable is     sel k a : 0 = blockPosition.<a>,
     used for axis a of corner k)                             1/2/3 = x/y/zBlockPosition
   newIndex (reset to 0 where pos differs from the block)   corner_index
   cubeData[k][cubeDataIndexes[k]]                          fetched                          *)
From Coq Require Import List ZArith Bool.
From PFGen Require Import MarchTable.
From PF Require Import March.Grid.
Import ListNotations.
Open Scope Z_scope.

Definition bs : Z := marchingSectionSize.
Definition chunk_of (x : Z) : Z := x / bs.
Definition local_of (x : Z) : Z := x - chunk_of x * bs.
Definition chunk_pt (p : pt) : pt := let '(x, y, z) := p in (chunk_of x, chunk_of y, chunk_of z).
Definition local_pt (p : pt) : pt := let '(x, y, z) := p in (local_of x, local_of y, local_of z).
Definition index (l : pt) : Z := let '(x, y, z) := l in z * (bs * bs) + y * bs + x.
Definition pscale (n : Z) (p : pt) : pt := let '(x, y, z) := p in (n * x, n * y, n * z).

Definition next_block (b l : Z) : Z := if l =? bs - 1 then b + 1 else b.
Definition sel (k a : Z) : Z := znth (znth cubeDataBlockPositions k []) a 0.
Definition pick (own xb yb zb e : Z) : Z :=
  if e =? 0 then own else if e =? 1 then xb else if e =? 2 then yb else zb.

(* block from which corner k of the cell with local coordinates l in block b is read *)
Definition corner_block (b l : pt) (k : Z) : pt :=
  let '(bx, by_, bz) := b in let '(lx, ly, lz) := l in
  let xb := next_block bx lx in let yb := next_block by_ ly in let zb := next_block bz lz in
  (pick bx xb yb zb (sel k 0), pick by_ xb yb zb (sel k 1), pick bz xb yb zb (sel k 2)).
(* local coordinates inside that block *)
Definition corner_index (b l : pt) (k : Z) : pt :=
  let '(px, py, pz) := corner_block b l k in
  let '(bx, by_, bz) := b in
  let '(nx, ny, nz) := padd l (incr k) in
  (if px =? bx then nx else 0, if py =? by_ then ny else 0, if pz =? bz then nz else 0).

Definition fetched {A} (store : pt -> Z -> A) (b l : pt) (k : Z) : A :=
  store (corner_block b l k) (index (corner_index b l k)).

Definition in_block (l : pt) : Prop :=
  let '(x, y, z) := l in 0 <= x < bs /\ 0 <= y < bs /\ 0 <= z < bs.
