(* C09 — weld_manifold for the repaired weld: two vertices share a weld bucket iff they lie on the same grid
   edge, hence the welded mesh is the grid surface relabelled injectively: closed, no degenerate face. *)
From Coq Require Import ZArith QArith Qround Qminmax Lqa Lia List Bool.
From PFGen Require Import MarchTable.
From PF Require Import March.Grid March.TableProps March.GridProofs March.SurfaceProofs March.Weld.
Import ListNotations.
Open Scope Q_scope.

Lemma qround_near x : inject_Z (qround x) <= x + (1 # 2) /\ x - (1 # 2) <= inject_Z (qround x).
Proof.
  unfold qround. destruct (Qle_bool 0 x).
  - pose proof (Qfloor_le (x + (1 # 2))) as L. pose proof (Qlt_floor (x + (1 # 2))) as U.
    rewrite inject_Z_plus in U. change (inject_Z 1) with 1 in U. split; lra.
  - pose proof (Qfloor_le (- x + (1 # 2))) as L. pose proof (Qlt_floor (- x + (1 # 2))) as U.
    rewrite inject_Z_plus in U. change (inject_Z 1) with 1 in U. rewrite inject_Z_opp. split; lra.
Qed.

Lemma inj_lin a n : inject_Z (10000 * n + a) == wscale * inject_Z n + inject_Z a.
Proof. rewrite inject_Z_plus, inject_Z_mult. unfold wscale. reflexivity. Qed.

(* a coordinate that is a lattice coordinate rounds to itself (times 10^4) *)
Lemma round_flat n : qround (wscale * (inject_Z n + 0)) = (10000 * n)%Z.
Proof.
  destruct (qround_near (wscale * (inject_Z n + 0))) as [U L]. set (R := qround _) in *.
  assert (R <= 10000 * n)%Z as A.
  { destruct (Z_le_gt_dec R (10000 * n)) as [H|H]; [exact H|exfalso].
    assert (10000 * n + 1 <= R)%Z as H' by lia. rewrite Zle_Qle, inj_lin in H'. change (inject_Z 1) with 1 in H'.
    unfold wscale in *. lra. }
  assert (10000 * n <= R)%Z as B.
  { destruct (Z_le_gt_dec (10000 * n) R) as [H|H]; [exact H|exfalso].
    assert (R <= 10000 * n + -1)%Z as H' by lia. rewrite Zle_Qle, inj_lin in H'. change (inject_Z (-1)) with (-1 # 1) in H'.
    unfold wscale in *. lra. }
  lia.
Qed.

(* the coordinate along the edge: between 10 and 9990 ten-thousandths above the lattice coordinate *)
Lemma round_axis n t : margin <= t -> t <= 1 - margin ->
  (10000 * n + 10 <= qround (wscale * (inject_Z n + t)) <= 10000 * n + 9990)%Z.
Proof.
  intros Ht1 Ht2. destruct (qround_near (wscale * (inject_Z n + t))) as [U L]. set (R := qround _) in *.
  unfold margin in *. split.
  - destruct (Z_le_gt_dec (10000 * n + 10) R) as [H|H]; [exact H|exfalso].
    assert (R <= 10000 * n + 9)%Z as H' by lia. rewrite Zle_Qle, inj_lin in H'. change (inject_Z 9) with (9 # 1) in H'.
    unfold wscale in *. lra.
  - destruct (Z_le_gt_dec R (10000 * n + 9990)) as [H|H]; [exact H|exfalso].
    assert (10000 * n + 9991 <= R)%Z as H' by lia. rewrite Zle_Qle, inj_lin in H'. change (inject_Z 9991) with (9991 # 1) in H'.
    unfold wscale in *. lra.
Qed.

Lemma clampq_range t : margin <= clampq t /\ clampq t <= 1 - margin.
Proof.
  unfold clampq, margin. split.
  - apply Q.min_glb; [apply Q.le_max_r|lra].
  - apply Q.le_min_r.
Qed.

(* the grid edge can be read off the bucket: lattice coordinates are the quotients by 10^4, the axis is the
   coordinate whose remainder is not zero *)
Definition decode (b : Z * Z * Z) : gedge :=
  let '(rx, ry, rz) := b in
  ((rx / 10000, ry / 10000, rz / 10000)%Z,
   if negb (rx mod 10000 =? 0)%Z then 0%Z else if negb (ry mod 10000 =? 0)%Z then 1%Z else 2%Z).

Lemma dec_flat n r : r = (10000 * n)%Z -> (r / 10000 = n /\ r mod 10000 = 0)%Z.
Proof. intros ->. rewrite Z.mul_comm, Z.div_mul, Z.mod_mul by lia. auto. Qed.
Lemma dec_axis n r : (10000 * n + 10 <= r <= 10000 * n + 9990)%Z -> (r / 10000 = n /\ r mod 10000 <> 0)%Z.
Proof.
  intros H. pose proof (Z.div_mod r 10000 ltac:(lia)). pose proof (Z.mod_pos_bound r 10000 ltac:(lia)).
  assert (r / 10000 = n)%Z by nia. split; [assumption|]. subst n. lia.
Qed.

Lemma decode_bucket g t : valid_edge g -> margin <= t -> t <= 1 - margin -> decode (bucket (vpos g t)) = g.
Proof.
  destruct g as [[[x y] z] a]. unfold valid_edge. cbn [snd]. intros Ha T1 T2.
  assert (a = 0 \/ a = 1 \/ a = 2)%Z as [->|[->| ->]] by lia;
  cbv beta iota delta [vpos bucket Z.eqb Pos.eqb]; unfold decode.
  - destruct (dec_axis x _ (round_axis x t T1 T2)) as [A1 A2].
    destruct (dec_flat y _ (round_flat y)) as [B1 B2]. destruct (dec_flat z _ (round_flat z)) as [C1 C2].
    rewrite A1, B1, C1. apply Z.eqb_neq in A2. rewrite A2. reflexivity.
  - destruct (dec_flat x _ (round_flat x)) as [A1 A2].
    destruct (dec_axis y _ (round_axis y t T1 T2)) as [B1 B2]. destruct (dec_flat z _ (round_flat z)) as [C1 C2].
    rewrite A1, B1, C1, A2. apply Z.eqb_neq in B2. rewrite B2. reflexivity.
  - destruct (dec_flat x _ (round_flat x)) as [A1 A2]. destruct (dec_flat y _ (round_flat y)) as [B1 B2].
    destruct (dec_axis z _ (round_axis z t T1 T2)) as [C1 C2].
    rewrite A1, B1, C1, A2, B2. reflexivity.
Qed.

(* two vertices share a weld bucket only if they lie on the same grid edge *)
Theorem bucket_injective_thm : forall g g' t t', valid_edge g -> valid_edge g' ->
  margin <= t -> t <= 1 - margin -> margin <= t' -> t' <= 1 - margin ->
  bucket (vpos g t) = bucket (vpos g' t') -> g = g'.
Proof.
  intros g g' t t' Hg Hg' T1 T2 T1' T2' E.
  rewrite <- (decode_bucket g t Hg T1 T2), <- (decode_bucket g' t' Hg' T1' T2'), E. reflexivity.
Qed.

(* conversely the copies of one vertex (same edge, same parameter) always share their bucket: trivially, bucket is
   a function of the position.  So: same bucket <-> same grid edge. *)
Theorem bucket_iff_thm : forall (tpar : gedge -> Q) g g', valid_edge g -> valid_edge g' ->
  (bucket (vpos g (clampq (tpar g))) = bucket (vpos g' (clampq (tpar g'))) <-> g = g').
Proof.
  intros tpar g g' Hg Hg'. split.
  - destruct (clampq_range (tpar g)), (clampq_range (tpar g')). apply bucket_injective_thm; assumption.
  - intros ->. reflexivity.
Qed.

(* ---------- the welded mesh ---------- *)
Definition dedge_dec (a b : dedge) : {a = b} + {a <> b}.
Proof. repeat decide equality. Defined.
Definition kedge := ((Z * Z * Z) * (Z * Z * Z))%type.
Definition kedge_dec (a b : kedge) : {a = b} + {a <> b}.
Proof. repeat decide equality. Defined.

Lemma countd_count_occ e l : countd e l = count_occ dedge_dec l e.
Proof.
  unfold countd. induction l as [|x l IH]; [reflexivity|]. cbn [filter count_occ].
  destruct (dedge_dec x e) as [->|N].
  - rewrite de_eqb_refl. cbn [length]. rewrite IH. reflexivity.
  - destruct (de_eqb e x) eqn:E; [apply de_eqb_eq in E; congruence|exact IH].
Qed.

Lemma count_map_inj_on {X Y} (dx : forall a b : X, {a = b} + {a <> b}) (dy : forall a b : Y, {a = b} + {a <> b})
  (f : X -> Y) l x : (forall y, In y l -> f y = f x -> y = x) ->
  count_occ dy (map f l) (f x) = count_occ dx l x.
Proof.
  induction l as [|a l IH]; intros H; [reflexivity|]. cbn [map count_occ].
  destruct (dx a x) as [->|N].
  - destruct (dy (f x) (f x)); [|congruence]. rewrite IH; [reflexivity|]. intros y Hy. apply H. right. exact Hy.
  - destruct (dy (f a) (f x)) as [E|_].
    + exfalso. apply N. apply H; [left; reflexivity|exact E].
    + apply IH. intros y Hy. apply H. right. exact Hy.
Qed.

Lemma e12_valid g : In g E12 -> valid_edge g.
Proof.
  intros Hin. pose proof (all1_spec _ _ e12_unit_ok _ Hin) as H. unfold e12_unit_pred in H.
  destruct g as [[[x y] z] a]. rewrite !andb_true_iff, Z.leb_le, Z.ltb_lt in H. unfold valid_edge. cbn [snd]. lia.
Qed.

Lemma surface_dedge_facts s lo hi u v : In (u, v) (dedges (surface s lo hi)) -> valid_edge u /\ valid_edge v /\ u <> v.
Proof.
  unfold surface. rewrite dedges_flat_map. intros H. apply in_flat_map in H. destruct H as [c [_ H]].
  unfold cell_tris in H. rewrite dedges_map_tadd in H. apply in_map_iff in H. destruct H as [[u0 v0] [E H]].
  apply dedges_facts in H; [|apply case_index_range]. destruct H as (Hu & Hv & Hne).
  unfold dadd in E. cbn [fst snd] in E. inversion E; subst. split; [|split].
  - apply e12_valid in Hu. unfold valid_edge, gadd in *. cbn [snd] in *. exact Hu.
  - apply e12_valid in Hv. unfold valid_edge, gadd in *. cbn [snd] in *. exact Hv.
  - intros X. apply gadd_inj in X. contradiction.
Qed.

Section Welded.
Variable s : pt -> bool.
Variables lo hi : pt.
Hypothesis Hbox : forall p, s p = true -> strictly_inside lo hi p.
Variable tpar : gedge -> Q.     (* interpolationValueFromCutoff of the edge, from its lower end point *)

Definition key (g : gedge) : Z * Z * Z := bucket (vpos g (clampq (tpar g))).
Definition kmap (e : dedge) : kedge := (key (fst e), key (snd e)).
(* directed edges of the welded mesh: every vertex replaced by its bucket *)
Definition welded_edges : list kedge := map kmap (dedges (surface s lo hi)).

Lemma key_inj g g' : valid_edge g -> valid_edge g' -> key g = key g' -> g = g'.
Proof. intros Hg Hg'. apply (bucket_iff_thm tpar g g' Hg Hg'). Qed.

Lemma welded_count u v : valid_edge u -> valid_edge v ->
  count_occ kedge_dec welded_edges (key u, key v) = countd (u, v) (dedges (surface s lo hi)).
Proof.
  intros Hu Hv. rewrite countd_count_occ. unfold welded_edges. change (key u, key v) with (kmap (u, v)).
  apply count_map_inj_on. intros [u' v'] Hin E. apply surface_dedge_facts in Hin. destruct Hin as (Hu' & Hv' & _).
  unfold kmap in E. cbn [fst snd] in E. inversion E as [[E1 E2]].
  apply key_inj in E1; [|assumption|assumption]. apply key_inj in E2; [|assumption|assumption]. subst. reflexivity.
Qed.

Lemma in_welded k : In k welded_edges -> exists u v, k = (key u, key v) /\ valid_edge u /\ valid_edge v /\ u <> v.
Proof.
  unfold welded_edges. intros H. apply in_map_iff in H. destruct H as [[u v] [E H]].
  apply surface_dedge_facts in H. exists u, v. split; [symmetry; exact E|exact H].
Qed.

(* weld_manifold: after the repaired weld every directed edge between two (welded) vertices occurs at most once
   and its reverse exactly as often, and no face has two equal corners *)
Theorem weld_manifold_thm : forall a b,
  count_occ kedge_dec welded_edges (a, b) = count_occ kedge_dec welded_edges (b, a) /\
  (count_occ kedge_dec welded_edges (a, b) <= 1)%nat /\
  (In (a, b) welded_edges -> a <> b).
Proof.
  intros a b.
  assert (forall a b, In (a, b) welded_edges ->
            count_occ kedge_dec welded_edges (a, b) = count_occ kedge_dec welded_edges (b, a) /\
            (count_occ kedge_dec welded_edges (a, b) <= 1)%nat /\ a <> b) as Main.
  { intros a0 b0 Hin. apply in_welded in Hin. destruct Hin as (u & v & E & Hu & Hv & Hne). inversion E; subst.
    rewrite (welded_count u v Hu Hv), (welded_count v u Hv Hu).
    destruct (grid_closed_count s lo hi Hbox (u, v)) as [C1 C2]. repeat split; [exact C1|exact C2|].
    intros K. apply Hne. apply key_inj; assumption. }
  destruct (in_dec kedge_dec (a, b) welded_edges) as [I|N].
  - destruct (Main a b I) as (A & B & C). repeat split; auto.
  - destruct (in_dec kedge_dec (b, a) welded_edges) as [I'|N'].
    + destruct (Main b a I') as (A & _). pose proof (proj1 (count_occ_In kedge_dec _ _) I') as P.
      pose proof (proj1 (count_occ_not_In kedge_dec _ _) N) as Z0. exfalso. lia.
    + rewrite (proj1 (count_occ_not_In kedge_dec _ _) N), (proj1 (count_occ_not_In kedge_dec _ _) N').
      repeat split; [lia|contradiction].
Qed.
End Welded.
