(* C09 — block arithmetic: block/local decomposition of a lattice coordinate (negative ones included) and
   correctness of the cross-block corner fetch. *)
From Coq Require Import List ZArith Bool Lia.
From PFGen Require Import MarchTable.
From PF Require Import March.Grid March.TableProps March.GridProofs March.Blocks.
Import ListNotations.
Open Scope Z_scope.

Lemma bs_100 : bs = 100.
Proof. reflexivity. Qed.

(* floor division: valid for negative coordinates as well *)
Theorem chunk_local_spec_thm : forall x, x = bs * chunk_of x + local_of x /\ 0 <= local_of x < bs.
Proof.
  intros x. unfold local_of, chunk_of. rewrite bs_100.
  pose proof (Z.div_mod x 100 ltac:(lia)). pose proof (Z.mod_pos_bound x 100 ltac:(lia)). lia.
Qed.
Theorem chunk_unique_thm : forall x c l, x = bs * c + l -> 0 <= l < bs -> c = chunk_of x /\ l = local_of x.
Proof.
  intros x c l E Hl. destruct (chunk_local_spec_thm x) as [E' Hl']. rewrite bs_100 in *. lia.
Qed.
Theorem index_inj_thm : forall l l', in_block l -> in_block l' -> index l = index l' -> l = l'.
Proof.
  intros [[x y] z] [[x' y'] z']. unfold in_block, index. rewrite bs_100. intros H H' E.
  assert (z = z') by lia. assert (y = y') by lia. assert (x = x') by lia. subst. reflexivity.
Qed.

(* finite: corner k reads axis a from the "next block" variable of that same axis exactly when its increment
   along a is 1, and from the cell's own block when it is 0 *)
Definition inc_a (k a : Z) : Z := let '(x, y, z) := incr k in if a =? 0 then x else if a =? 1 then y else z.
Definition sel_pred (k a : Z) : bool :=
  ((inc_a k a =? 0) && (sel k a =? 0)) || ((inc_a k a =? 1) && (sel k a =? a + 1)).
Lemma sel_ok : all2 sel_pred idx8l [0; 1; 2] = true.
Proof. vm_compute. reflexivity. Qed.

Lemma sel_facts k a : 0 <= k < 8 -> 0 <= a < 3 ->
  (inc_a k a = 0 /\ sel k a = 0) \/ (inc_a k a = 1 /\ sel k a = a + 1).
Proof.
  intros Hk Ha. assert (In a [0; 1; 2]) as Hin by (cbn; lia).
  pose proof (all2_spec _ _ _ sel_ok k a (proj2 (in_idx8l k) Hk) Hin) as H. unfold sel_pred in H.
  rewrite orb_true_iff, !andb_true_iff, !Z.eqb_eq in H. exact H.
Qed.

(* one axis of the fetch *)
Lemma axis_fetch b l i blk : 0 <= l < bs -> (i = 0 \/ i = 1) ->
  blk = (if i =? 1 then next_block b l else b) ->
  let idx := if blk =? b then l + i else 0 in
  bs * blk + idx = bs * b + l + i /\ 0 <= idx < bs.
Proof.
  intros Hl Hi ->. unfold next_block. rewrite bs_100 in *. cbv zeta.
  destruct Hi as [-> | ->]; cbn [Z.eqb Pos.eqb].
  - rewrite Z.eqb_refl. lia.
  - destruct (l =? 100 - 1) eqn:E.
    + apply Z.eqb_eq in E. replace (b + 1 =? b) with false by (symmetry; apply Z.eqb_neq; lia). lia.
    + apply Z.eqb_neq in E. rewrite Z.eqb_refl. lia.
Qed.

Lemma pick_own own xb yb zb : pick own xb yb zb 0 = own. Proof. reflexivity. Qed.
Lemma pick_x own xb yb zb : pick own xb yb zb 1 = xb. Proof. reflexivity. Qed.
Lemma pick_y own xb yb zb : pick own xb yb zb 2 = yb. Proof. reflexivity. Qed.
Lemma pick_z own xb yb zb : pick own xb yb zb 3 = zb. Proof. reflexivity. Qed.

(* the corner read for (block b, local cell l, corner k) is the sample at lattice point 100*b + l + incr k,
   and the index stays inside the block it is read from *)
Theorem block_fetch_coords_thm : forall b l k, in_block l -> 0 <= k < 8 ->
  padd (pscale bs (corner_block b l k)) (corner_index b l k) = padd (padd (pscale bs b) l) (incr k) /\
  in_block (corner_index b l k).
Proof.
  intros [[bx by_] bz] [[lx ly] lz] k Hl Hk. unfold in_block in Hl. destruct Hl as (Hx & Hy & Hz).
  destruct (sel_facts k 0 Hk ltac:(lia)) as [[I0 S0]|[I0 S0]];
  destruct (sel_facts k 1 Hk ltac:(lia)) as [[I1 S1]|[I1 S1]];
  destruct (sel_facts k 2 Hk ltac:(lia)) as [[I2 S2]|[I2 S2]];
  unfold corner_index, corner_block; rewrite S0, S1, S2; cbn [Z.add Pos.add];
  rewrite ?pick_own, ?pick_x, ?pick_y, ?pick_z;
  unfold inc_a in I0, I1, I2;
  destruct (incr k) as [[ix iy] iz]; cbn in I0, I1, I2; subst ix iy iz; unfold padd, pscale, in_block;
  match goal with |- context [next_block bx lx] =>
    pose proof (axis_fetch bx lx 1 (next_block bx lx) Hx (or_intror eq_refl) eq_refl) as AX | _ =>
    pose proof (axis_fetch bx lx 0 bx Hx (or_introl eq_refl) eq_refl) as AX end;
  match goal with |- context [next_block by_ ly] =>
    pose proof (axis_fetch by_ ly 1 (next_block by_ ly) Hy (or_intror eq_refl) eq_refl) as AY | _ =>
    pose proof (axis_fetch by_ ly 0 by_ Hy (or_introl eq_refl) eq_refl) as AY end;
  match goal with |- context [next_block bz lz] =>
    pose proof (axis_fetch bz lz 1 (next_block bz lz) Hz (or_intror eq_refl) eq_refl) as AZ | _ =>
    pose proof (axis_fetch bz lz 0 bz Hz (or_introl eq_refl) eq_refl) as AZ end;
  cbv zeta in AX, AY, AZ; destruct AX as [AX1 AX2], AY as [AY1 AY2], AZ as [AZ1 AZ2];
  (split; [f_equal; [f_equal|]; lia | repeat split; lia]).
Qed.

(* with the storage invariant of AddField (sample p is written to block chunk_pt p at index (local_pt p)),
   the value fetched for corner k is the sample at 100*b + l + incr k *)
Theorem block_fetch_correct_thm : forall (A : Type) (sample : pt -> A) (store : pt -> Z -> A),
  (forall blk loc, in_block loc -> store blk (index loc) = sample (padd (pscale bs blk) loc)) ->
  forall b l k, in_block l -> 0 <= k < 8 ->
  fetched store b l k = sample (padd (padd (pscale bs b) l) (incr k)).
Proof.
  intros A sample store Inv b l k Hl Hk. unfold fetched.
  destruct (block_fetch_coords_thm b l k Hl Hk) as [E Hin]. rewrite (Inv _ _ Hin), E. reflexivity.
Qed.
