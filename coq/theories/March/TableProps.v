(* C09 — finite facts about the GENERATED marching-cubes table (PFGen.MarchTable), each decided by
   vm_compute over all 256 cases.  A changed table row / corner table makes one of them fail.

   Every check has the shape  allN pred lists = true  with a named predicate, so that the lemmas
   using them (GridProofs) never ask the kernel to unfold a check over the whole table. *)
From Coq Require Import List ZArith Bool Lia.
From PFGen Require Import MarchTable.
From PF Require Import March.Grid.
Import ListNotations.
Open Scope Z_scope.

Definition all1 {A} (p : A -> bool) (la : list A) : bool := forallb p la.
Definition all2 {A B} (p : A -> B -> bool) (la : list A) (lb : list B) : bool :=
  forallb (fun a => forallb (p a) lb) la.
Definition all3 {A B C} (p : A -> B -> C -> bool) (la : list A) (lb : list B) (lc : list C) : bool :=
  forallb (fun a => forallb (fun b => forallb (p a b) lc) lb) la.

Lemma all1_spec {A} (p : A -> bool) la : all1 p la = true -> forall a, In a la -> p a = true.
Proof. unfold all1. intros H. apply forallb_forall. exact H. Qed.
Lemma all2_spec {A B} (p : A -> B -> bool) la lb :
  all2 p la lb = true -> forall a b, In a la -> In b lb -> p a b = true.
Proof.
  unfold all2. intros H a b Ha Hb.
  exact (proj1 (forallb_forall _ _) (proj1 (forallb_forall _ _) H a Ha) b Hb).
Qed.
Lemma all3_spec {A B C} (p : A -> B -> C -> bool) la lb lc :
  all3 p la lb lc = true -> forall a b c, In a la -> In b lb -> In c lc -> p a b c = true.
Proof.
  unfold all3. intros H a b c Ha Hb Hc.
  exact (proj1 (forallb_forall _ _) (proj1 (forallb_forall _ _) (proj1 (forallb_forall _ _) H a Ha) b Hb) c Hc).
Qed.

(* ---------- shape of the tables ---------- *)
Definition unit_edge (e : Z) : bool :=
  let '(ax, ay, az) := incr (corner_a e) in let '(bx, by_, bz) := incr (corner_b e) in
  (Z.abs (ax - bx) + Z.abs (ay - by_) + Z.abs (az - bz) =? 1).
Definition nodup_ge (l : list gedge) : bool :=
  (fix go l := match l with [] => true | x :: r => negb (existsb (ge_eqb x) r) && go r end) l.
Definition nodup_pt (l : list pt) : bool :=
  (fix go l := match l with [] => true | x :: r => negb (existsb (pt_eqb x) r) && go r end) l.

Definition incr01_pred (k : Z) : bool :=
  let '(x, y, z) := incr k in
  ((x =? 0) || (x =? 1)) && ((y =? 0) || (y =? 1)) && ((z =? 0) || (z =? 1)).
Lemma incr01_ok : all1 incr01_pred idx8l = true.
Proof. vm_compute. reflexivity. Qed.

Definition shape_check : bool :=
  (Z.of_nat (length triangulation) =? 256) &&
  (Z.of_nat (length cubeDataIndexIncrements) =? 8) &&
  (Z.of_nat (length cornerIndexAFromEdge) =? 12) && (Z.of_nat (length cornerIndexBFromEdge) =? 12) &&
  forallb row_wf triangulation &&
  (* the eight increments are the eight corners of the unit cube *)
  nodup_pt (map incr idx8l) &&
  forallb (fun e => (0 <=? corner_a e) && (corner_a e <? 8) && (0 <=? corner_b e) && (corner_b e <? 8)
                    && unit_edge e) idx12 &&
  nodup_ge E12.
Lemma shape_ok : shape_check = true.
Proof. vm_compute. reflexivity. Qed.

(* the 12 cube edges lie on 12 different grid edges *)
Definition ledge_inj_pred (a b : Z) : bool := if ge_eqb (ledge a) (ledge b) then a =? b else true.
Lemma ledge_inj_ok : all2 ledge_inj_pred idx12 idx12 = true.
Proof. vm_compute. reflexivity. Qed.

(* every triangle of every case: edge ids in 0..11, three distinct ids *)
Definition row_pred (t : Z * Z * Z) : bool :=
  let '(a, b, c) := t in
  (0 <=? a) && (a <? 12) && (0 <=? b) && (b <? 12) && (0 <=? c) && (c <? 12) &&
  negb (a =? b) && negb (b =? c) && negb (a =? c).
Definition rows_pred (i : Z) : bool := forallb row_pred (row_tris (znth triangulation i [])).
Lemma rows_ok : all1 rows_pred idx256 = true.
Proof. vm_compute. reflexivity. Qed.

(* hence every directed triangle edge joins two distinct grid edges of the cell *)
Definition dedge_pred (e : dedge) : bool := in_e12 (fst e) && in_e12 (snd e) && negb (ge_eqb (fst e) (snd e)).
Definition dedges_pred (i : Z) : bool := forallb dedge_pred (dedges (ltris i)).
Lemma dedges_ok : all1 dedges_pred idx256 = true.
Proof. vm_compute. reflexivity. Qed.

Definition e12_unit_pred (g : gedge) : bool :=
  let '((x, y, z), a) := g in
  ((x =? 0) || (x =? 1)) && ((y =? 0) || (y =? 1)) && ((z =? 0) || (z =? 1)) && (0 <=? a) && (a <? 3).
Lemma e12_unit_ok : all1 e12_unit_pred E12 = true.
Proof. vm_compute. reflexivity. Qed.

(* ---------- geometry of the unit cell ---------- *)
Definition cube27 : list pt :=
  flat_map (fun x => flat_map (fun y => map (fun z => (x, y, z)) [-1; 0; 1]) [-1; 0; 1]) [-1; 0; 1].
(* two distinct edges of a cell lie together in at most one other cell, a face neighbour *)
Definition fdir_pred (u v : gedge) (d : pt) : bool :=
  if negb (ge_eqb u v) && negb (pt_eqb d (0, 0, 0)) && in_e12 (gsub u d) && in_e12 (gsub v d)
  then match fdir u v with Some d' => pt_eqb d d' | None => false end else true.
Lemma fdir_ok : all3 fdir_pred E12 E12 cube27 = true.
Proof. vm_compute. reflexivity. Qed.

(* ---------- table_face_consistent ---------- *)
(* interior edges (no common cube face) cancel inside the cell *)
Definition interior_pred (i : Z) (u v : gedge) : bool :=
  if negb (ge_eqb u v) then
    match fdir u v with
    | None => Nat.eqb (lcount i (u, v)) (lcount i (v, u)) && Nat.leb (lcount i (u, v)) 1
    | Some _ => true
    end else true.
Lemma interior_ok : all3 interior_pred idx256 E12 E12 = true.
Proof. vm_compute. reflexivity. Qed.

(* face edges: for a cell with case i and its neighbour at offset d with case i', agreeing on the
   four shared corners, the directed edges in the shared face are each other's reverses, at most once *)
Definition face_pair_pred (d : pt) (p : gedge * gedge) : bool :=
  let '(u, v) := p in negb (ge_eqb u v) && in_e12 (gsub u d) && in_e12 (gsub v d).
Definition face_pairs (d : pt) : list (gedge * gedge) := filter (face_pair_pred d) (list_prod E12 E12).
Definition face_edge_pred (d : pt) (di di' : list dedge) (p : gedge * gedge) : bool :=
  let '(u, v) := p in
  let a := countd (u, v) di in let b := countd (gsub u d, gsub v d) di' in
  let a' := countd (v, u) di in let b' := countd (gsub v d, gsub u d) di' in
  Nat.eqb a b' && Nat.eqb b a' && Nat.leb (a + b) 1.
Definition face_pred (d : pt) (fp : list (gedge * gedge)) (i i' : Z) : bool :=
  if compat d i i' then all1 (face_edge_pred d (dedges (ltris i)) (dedges (ltris i'))) fp else true.
Definition face_dir_pred (d : pt) : bool := all2 (face_pred d (face_pairs d)) idx256 idx256.
Lemma face_check_ok : all1 face_dir_pred face_dirs = true.
Proof. vm_compute. reflexivity. Qed.

(* ---------- table_oriented ---------- *)
(* vertices at edge midpoints, doubled to stay in Z *)
Definition mid2 (e : Z) : pt := padd (incr (corner_a e)) (incr (corner_b e)).
Definition cross (a b : pt) : pt :=
  let '(ax, ay, az) := a in let '(bx, by_, bz) := b in (ay * bz - az * by_, az * bx - ax * bz, ax * by_ - ay * bx).
Definition dot (a b : pt) : Z := let '(ax, ay, az) := a in let '(bx, by_, bz) := b in ax * bx + ay * by_ + az * bz.
(* (twice the) normal of the triangle with vertices at the (doubled) midpoints of cube edges a, b, c *)
Definition tnormal (t : Z * Z * Z) : pt :=
  let '(a, b, c) := t in cross (psub (mid2 b) (mid2 a)) (psub (mid2 c) (mid2 a)).
Definition crossed (i e : Z) : bool := xorb (Z.testbit i (corner_a e)) (Z.testbit i (corner_b e)).
(* from the below-threshold corner to the other one *)
Definition outdir (i e : Z) : pt :=
  if Z.testbit i (corner_a e) then psub (incr (corner_b e)) (incr (corner_a e))
  else psub (incr (corner_a e)) (incr (corner_b e)).
Definition uses (t : Z * Z * Z) (e : Z) : bool := let '(a, b, c) := t in (a =? e) || (b =? e) || (c =? e).

(* every triangle vertex sits on an edge with a sign change, and the three-edge sum is positive *)
Definition oriented_tri_pred (i : Z) (t : Z * Z * Z) : bool :=
  let '(a, b, c) := t in
  crossed i a && crossed i b && crossed i c &&
  (0 <? dot (tnormal t) (outdir i a) + dot (tnormal t) (outdir i b) + dot (tnormal t) (outdir i c)).
Definition oriented_case_pred (i : Z) : bool := forallb (oriented_tri_pred i) (row_tris (znth triangulation i [])).
Lemma oriented_tri_ok : all1 oriented_case_pred idx256 = true.
Proof. vm_compute. reflexivity. Qed.

(* every edge with a sign change carries a vertex, and the flux through the triangles around it is outward *)
Definition flux (i e : Z) : Z :=
  fold_right Z.add 0 (map (fun t => if uses t e then dot (tnormal t) (outdir i e) else 0)
                          (row_tris (znth triangulation i []))).
Definition oriented_flux_pred (i e : Z) : bool :=
  if crossed i e then 0 <? flux i e
  else negb (existsb (fun t => uses t e) (row_tris (znth triangulation i []))).
Lemma oriented_flux_ok : all2 oriented_flux_pred idx256 idx12 = true.
Proof. vm_compute. reflexivity. Qed.

(* the per-edge form is NOT true of this table (skinny triangles) *)
Definition per_edge_pred (i : Z) (t : Z * Z * Z) : bool :=
  let '(a, b, c) := t in
  (0 <? dot (tnormal t) (outdir i a)) && (0 <? dot (tnormal t) (outdir i b)) && (0 <? dot (tnormal t) (outdir i c)).
Definition per_edge_case_pred (i : Z) : bool := forallb (per_edge_pred i) (row_tris (znth triangulation i [])).
Lemma per_edge_refuted : all1 per_edge_case_pred idx256 = false.
Proof. vm_compute. reflexivity. Qed.

(* the unused `edges` table of table.go: bit e of edges[i] is set iff cube edge e has a sign change *)
Definition edges_table_pred (i e : Z) : bool := Bool.eqb (Z.testbit (znth edges i 0) e) (crossed i e).
Lemma edges_table_ok : all2 edges_table_pred idx256 idx12 = true.
Proof. vm_compute. reflexivity. Qed.
