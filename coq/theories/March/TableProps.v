(* C09 — finite facts about the GENERATED marching-cubes table (PFGen.MarchTable), each decided by
   vm_compute over all 256 cases.  A changed table row / corner table makes one of them fail. *)
From Coq Require Import List ZArith Bool Lia.
From PFGen Require Import MarchTable.
From PF Require Import March.Grid.
Import ListNotations.
Open Scope Z_scope.

(* ---------- shape of the tables ---------- *)
Definition unit_edge (e : Z) : bool :=
  let '(ax, ay, az) := incr (corner_a e) in let '(bx, by_, bz) := incr (corner_b e) in
  (Z.abs (ax - bx) + Z.abs (ay - by_) + Z.abs (az - bz) =? 1).
Definition nodup_ge (l : list gedge) : bool :=
  (fix go l := match l with [] => true | x :: r => negb (existsb (ge_eqb x) r) && go r end) l.

Definition nodup_pt (l : list pt) : bool :=
  (fix go l := match l with [] => true | x :: r => negb (existsb (pt_eqb x) r) && go r end) l.

Definition shape_check : bool :=
  (Z.of_nat (length triangulation) =? 256) &&
  (Z.of_nat (length cubeDataIndexIncrements) =? 8) &&
  (Z.of_nat (length cornerIndexAFromEdge) =? 12) && (Z.of_nat (length cornerIndexBFromEdge) =? 12) &&
  forallb row_wf triangulation &&
  forallb (fun k => let '(x, y, z) := incr k in
                    ((x =? 0) || (x =? 1)) && ((y =? 0) || (y =? 1)) && ((z =? 0) || (z =? 1))) idx8l &&
  (* the eight increments are the eight corners of the unit cube *)
  nodup_pt (map incr idx8l) &&
  forallb (fun e => (0 <=? corner_a e) && (corner_a e <? 8) && (0 <=? corner_b e) && (corner_b e <? 8)
                    && unit_edge e) idx12 &&
  nodup_ge E12.

Lemma shape_ok : shape_check = true.
Proof. vm_compute. reflexivity. Qed.

(* every triangle of every case: edge ids in 0..11, three distinct grid edges *)
Definition rows_check : bool :=
  forallb (fun i => forallb (fun '(a, b, c) =>
      (0 <=? a) && (a <? 12) && (0 <=? b) && (b <? 12) && (0 <=? c) && (c <? 12) &&
      negb (a =? b) && negb (b =? c) && negb (a =? c))
    (row_tris (znth triangulation i []))) idx256.
Lemma rows_ok : rows_check = true.
Proof. vm_compute. reflexivity. Qed.

(* hence every directed triangle edge joins two distinct grid edges of the cell *)
Definition dedges_check : bool :=
  forallb (fun i => forallb (fun e => in_e12 (fst e) && in_e12 (snd e) && negb (ge_eqb (fst e) (snd e)))
                            (dedges (ltris i))) idx256.
Lemma dedges_ok : dedges_check = true.
Proof. vm_compute. reflexivity. Qed.

Definition e12_unit_check : bool :=
  forallb (fun g => let '((x, y, z), a) := g in
     ((x =? 0) || (x =? 1)) && ((y =? 0) || (y =? 1)) && ((z =? 0) || (z =? 1)) && (0 <=? a) && (a <? 3)) E12.
Lemma e12_unit_ok : e12_unit_check = true.
Proof. vm_compute. reflexivity. Qed.

(* ---------- geometry of the unit cell ---------- *)
Definition cube27 : list pt :=
  flat_map (fun x => flat_map (fun y => map (fun z => (x, y, z)) [-1; 0; 1]) [-1; 0; 1]) [-1; 0; 1].
(* two distinct edges of a cell lie together in at most one other cell, a face neighbour *)
Definition fdir_check : bool :=
  forallb (fun u => forallb (fun v => forallb (fun d =>
    if negb (ge_eqb u v) && negb (pt_eqb d (0, 0, 0)) && in_e12 (gsub u d) && in_e12 (gsub v d)
    then match fdir u v with Some d' => pt_eqb d d' | None => false end else true) cube27) E12) E12.
Lemma fdir_ok : fdir_check = true.
Proof. vm_compute. reflexivity. Qed.

(* ---------- table_face_consistent ---------- *)
(* interior edges (no common cube face) cancel inside the cell *)
Definition interior_check : bool :=
  forallb (fun i => forallb (fun u => forallb (fun v =>
    if negb (ge_eqb u v) then
      match fdir u v with
      | None => Nat.eqb (lcount i (u, v)) (lcount i (v, u)) && Nat.leb (lcount i (u, v)) 1
      | Some _ => true
      end else true) E12) E12) idx256.
Lemma interior_ok : interior_check = true.
Proof. vm_compute. reflexivity. Qed.

(* face edges: for a cell with case i and its neighbour at offset d with case i', agreeing on the
   four shared corners, the directed edges in the shared face are each other's reverses, at most once *)
Definition face_pairs (d : pt) : list (gedge * gedge) :=
  filter (fun '(u, v) => negb (ge_eqb u v) && in_e12 (gsub u d) && in_e12 (gsub v d)) (list_prod E12 E12).
Definition face_ok (d : pt) (fp : list (gedge * gedge)) (i i' : Z) : bool :=
  let di := dedges (ltris i) in let di' := dedges (ltris i') in
  forallb (fun '(u, v) =>
    let a := countd (u, v) di in let b := countd (gsub u d, gsub v d) di' in
    let a' := countd (v, u) di in let b' := countd (gsub v d, gsub u d) di' in
    Nat.eqb a b' && Nat.eqb b a' && Nat.leb (a + b) 1) fp.
Definition face_check : bool :=
  forallb (fun d => let fp := face_pairs d in
    forallb (fun i => forallb (fun i' => if compat d i i' then face_ok d fp i i' else true) idx256) idx256)
    face_dirs.
Lemma face_check_ok : face_check = true.
Proof. vm_compute. reflexivity. Qed.

(* ---------- table_oriented ---------- *)
(* vertices at edge midpoints, doubled to stay in Z *)
Definition mid2 (e : Z) : pt := padd (incr (corner_a e)) (incr (corner_b e)).
Definition cross (a b : pt) : pt :=
  let '(ax, ay, az) := a in let '(bx, by_, bz) := b in (ay * bz - az * by_, az * bx - ax * bz, ax * by_ - ay * bx).
Definition dot (a b : pt) : Z := let '(ax, ay, az) := a in let '(bx, by_, bz) := b in ax * bx + ay * by_ + az * bz.
Definition tnormal (t : Z * Z * Z) : pt :=
  let '(a, b, c) := t in cross (psub (mid2 b) (mid2 a)) (psub (mid2 c) (mid2 a)).
Definition crossed (i e : Z) : bool := xorb (Z.testbit i (corner_a e)) (Z.testbit i (corner_b e)).
(* from the below-threshold corner to the other one *)
Definition outdir (i e : Z) : pt :=
  if Z.testbit i (corner_a e) then psub (incr (corner_b e)) (incr (corner_a e))
  else psub (incr (corner_a e)) (incr (corner_b e)).
Definition uses (t : Z * Z * Z) (e : Z) : bool := let '(a, b, c) := t in (a =? e) || (b =? e) || (c =? e).

(* every triangle vertex sits on an edge with a sign change, and the three-edge sum is positive *)
Definition oriented_tri_check : bool :=
  forallb (fun i => forallb (fun t => let '(a, b, c) := t in
      crossed i a && crossed i b && crossed i c &&
      (0 <? dot (tnormal t) (outdir i a) + dot (tnormal t) (outdir i b) + dot (tnormal t) (outdir i c)))
    (row_tris (znth triangulation i []))) idx256.
Lemma oriented_tri_ok : oriented_tri_check = true.
Proof. vm_compute. reflexivity. Qed.

(* every edge with a sign change carries a vertex, and the flux through the triangles around it is outward *)
Definition flux (i e : Z) : Z :=
  fold_right Z.add 0 (map (fun t => if uses t e then dot (tnormal t) (outdir i e) else 0)
                          (row_tris (znth triangulation i []))).
Definition oriented_flux_check : bool :=
  forallb (fun i => forallb (fun e => if crossed i e then 0 <? flux i e else
                                        negb (existsb (fun t => uses t e) (row_tris (znth triangulation i [])))) idx12) idx256.
Lemma oriented_flux_ok : oriented_flux_check = true.
Proof. vm_compute. reflexivity. Qed.

(* the per-edge form is NOT true of this table (skinny triangles) *)
Definition per_edge_check : bool :=
  forallb (fun i => forallb (fun t => let '(a, b, c) := t in
      (0 <? dot (tnormal t) (outdir i a)) && (0 <? dot (tnormal t) (outdir i b)) && (0 <? dot (tnormal t) (outdir i c)))
    (row_tris (znth triangulation i []))) idx256.
Lemma per_edge_refuted : per_edge_check = false.
Proof. vm_compute. reflexivity. Qed.

(* the unused `edges` table of table.go: bit e of edges[i] is set iff cube edge e has a sign change *)
Definition edges_table_check : bool :=
  forallb (fun i => forallb (fun e => Bool.eqb (Z.testbit (znth edges i 0) e) (crossed i e)) idx12) idx256.
Lemma edges_table_ok : edges_table_check = true.
Proof. vm_compute. reflexivity. Qed.
