(* C09 — "every vertex within one grid cell of the true isosurface".

   Two forms of the clause, both for every vertex of every triangle of the surface of the sampled sign grid and for
   EVERY position of the vertex on its grid edge (parameter in [0,1]: the interpolated position, the clamped one of
   the repaired weld, the midpoint ...):

   * over Q, no axioms (iso_value_within_cell_thm): if the field restricted to each grid edge is K-Lipschitz in the
     edge parameter (for a field that is L-Lipschitz in world units, K = L * cell size; L = the `strength` of the
     marching constructors), then |field(vertex) - cutoff| <= K.  For a signed distance function |field - cutoff| IS
     the distance to the isosurface, so this is the clause; it is also exactly the harness oracle
     "|reference - cutoff| <= strength * one cell".

   * over R (iso_distance_thm): for a field F : R^3 -> R that is 1-Lipschitz in the sense of C19 (Geom/SdfSpec.v
     lipschitz1 -- C19 proves it of sdf.Sphere, Box, Line, ...) sampled at the lattice points h * (x, y, z), the grid
     edge of the vertex contains a point of the true isosurface F = cutoff (intermediate value theorem; continuity
     follows from the Lipschitz bound), at Euclidean distance <= h from the vertex.  Uses Coq's classical reals. *)
From Coq Require Import List ZArith Bool Lia QArith Qabs Lqa.
Ltac qlra := lra.
Ltac qnra := nra.
From Coq Require Import Reals Lra.
From PFGen Require Import MarchTable.
From PF Require Import March.Grid March.TableProps March.GridProofs March.SurfaceProofs March.VertexProofs.
From PF Require Geom.Vec Geom.SdfSpec.
Import ListNotations.

(* ------------------------------------------------------------------ over Q *)
Local Open Scope Q_scope.

(* g : the field along one grid edge, parameter 0 at the lower lattice point, 1 at the upper one *)
Definition lip_on_edge (K : Q) (g : Q -> Q) : Prop :=
  forall t u, 0 <= t <= 1 -> 0 <= u <= 1 -> Qabs (g t - g u) <= K * Qabs (t - u).

Lemma lip_K_nonneg K g : lip_on_edge K g -> 0 <= K.
Proof.
  intros L. pose proof (L 1 0 ltac:(qlra) ltac:(qlra)) as H.
  assert (Qabs (1 - 0) == 1) as E by (rewrite Qabs_pos; qlra).
  rewrite E in H. pose proof (Qabs_nonneg (g 1 - g 0)). qlra.
Qed.

Lemma crossed_edge_value K g c x : lip_on_edge K g ->
  (g 0 < c /\ c <= g 1) \/ (g 1 < c /\ c <= g 0) -> 0 <= x <= 1 -> Qabs (g x - c) <= K.
Proof.
  intros L Hc Hx. pose proof (lip_K_nonneg K g L) as HK.
  pose proof (L x 0 Hx ltac:(qlra)) as H0. pose proof (L 1 x ltac:(qlra) Hx) as H1.
  assert (Qabs (x - 0) == x) as E0 by (rewrite Qabs_pos; qlra).
  assert (Qabs (1 - x) == 1 - x) as E1 by (rewrite Qabs_pos; qlra).
  rewrite E0 in H0. rewrite E1 in H1.
  apply Qabs_Qle_condition in H0. apply Qabs_Qle_condition in H1. apply Qabs_Qle_condition.
  assert (K * x <= K) by qnra. assert (K * (1 - x) <= K) by qnra.
  destruct Hc as [[A B]|[A B]]; split; qlra.
Qed.

Theorem iso_value_within_cell_thm :
  forall (f : pt -> Q) (fe : gedge -> Q -> Q) (K cutoff : Q) (lo hi : pt),
  (forall g, fe g 0 == f (ge_lo g) /\ fe g 1 == f (ge_hi g)) ->
  (forall g, lip_on_edge K (fe g)) ->
  forall t g, In t (surface (sign_grid f cutoff) lo hi) -> In g (tri_verts t) ->
  forall x, 0 <= x <= 1 -> Qabs (fe g x - cutoff) <= K.
Proof.
  intros f fe K cutoff lo hi Hends HL t g Ht Hg x Hx.
  destruct (vertex_on_edge_thm f cutoff lo hi t g Ht Hg) as [Hc _]. cbv zeta in Hc.
  destruct (Hends g) as [E0 E1].
  apply crossed_edge_value; [apply HL| |exact Hx].
  destruct Hc as [[A B]|[A B]]; [left|right]; split; qlra.
Qed.

(* non-vacuity / sharpness: the linear field x - 1/2 along an x edge is 1-Lipschitz in the parameter and its value
   at the end of the edge is a whole K = 1 ... /2 away: the bound K cannot be replaced by anything below K/2 *)
Example lip_linear : lip_on_edge 1 (fun t => t - (1 # 2)).
Proof.
  intros t u _ _. assert (t - (1 # 2) - (u - (1 # 2)) == t - u) as -> by ring. qlra.
Qed.

(* ------------------------------------------------------------------ over R *)
Local Close Scope Q_scope.
Local Open Scope R_scope.

Definition rpt := SdfSpec.pt.
(* world position of lattice point p at cell size h (= 1 / cubesPerUnit) *)
Definition rpos (h : R) (p : Grid.pt) : rpt :=
  let '(x, y, z) := p in SdfSpec.P3 (h * IZR x) (h * IZR y) (h * IZR z).
Definition raxis (a : Z) : rpt :=
  if (a =? 0)%Z then SdfSpec.P3 1 0 0 else if (a =? 1)%Z then SdfSpec.P3 0 1 0 else SdfSpec.P3 0 0 1.
(* the point at parameter t of grid edge g *)
Definition edge_point (h : R) (g : gedge) (t : R) : rpt :=
  SdfSpec.padd (rpos h (ge_lo g)) (SdfSpec.smul (t * h) (raxis (snd g))).

Lemma edge_point_0 h g : edge_point h g 0 = rpos h (ge_lo g).
Proof.
  destruct g as [[[x y] z] a]. unfold edge_point, ge_lo, rpos, raxis, SdfSpec.padd, SdfSpec.smul, SdfSpec.P3.
  cbn [fst snd]. destruct (a =? 0)%Z, (a =? 1)%Z; cbn [Vec.v3x Vec.v3y Vec.v3z]; f_equal; ring.
Qed.
Lemma edge_point_1 h g : edge_point h g 1 = rpos h (ge_hi g).
Proof.
  destruct g as [[[x y] z] a].
  unfold edge_point, ge_hi, ge_lo, rpos, raxis, axis_vec, Grid.padd, SdfSpec.padd, SdfSpec.smul, SdfSpec.P3.
  cbn [fst snd]. destruct (a =? 0)%Z, (a =? 1)%Z; cbn [Vec.v3x Vec.v3y Vec.v3z]; rewrite ?plus_IZR; f_equal; ring.
Qed.

Lemma edge_point_dist h g t u : 0 < h ->
  SdfSpec.dist (edge_point h g t) (edge_point h g u) = Rabs (t - u) * h.
Proof.
  intros Hh. destruct g as [[[x y] z] a].
  unfold SdfSpec.dist, SdfSpec.norm.
  match goal with |- sqrt ?d = _ => assert (d = Rsqr ((t - u) * h)) as -> end.
  { unfold edge_point, ge_lo, rpos, raxis, SdfSpec.padd, SdfSpec.psub, SdfSpec.smul, SdfSpec.dot, SdfSpec.P3, Rsqr.
    cbn [fst snd]. destruct (a =? 0)%Z, (a =? 1)%Z; cbn [Vec.v3x Vec.v3y Vec.v3z]; ring. }
  rewrite sqrt_Rsqr_abs, Rabs_mult, (Rabs_pos_eq h) by lra. reflexivity.
Qed.

Lemma lip_continuity (phi : R -> R) (K : R) : 0 <= K ->
  (forall t u, Rabs (phi t - phi u) <= K * Rabs (t - u)) -> continuity phi.
Proof.
  intros HK L x. unfold continuity_pt, continue_in, limit1_in, limit_in. intros eps Heps.
  exists (eps / (K + 1)). split.
  - apply Rdiv_lt_0_compat; lra.
  - intros y [_ Hy]. simpl in Hy |- *. unfold R_dist in *.
    eapply Rle_lt_trans; [apply L|].
    assert (0 < eps / (K + 1)) as Hpos by (apply Rdiv_lt_0_compat; lra).
    remember (eps / (K + 1)) as e' eqn:He'.
    assert (eps = e' * (K + 1)) as Heps' by (subst e'; field; lra).
    pose proof (Rabs_pos (y - x)). nra.
Qed.

Theorem iso_distance_thm :
  forall (F : rpt -> R) (h cutoff : R) (s : Grid.pt -> bool) (lo hi : Grid.pt),
  0 < h -> SdfSpec.lipschitz1 F ->
  (forall p, s p = true <-> F (rpos h p) < cutoff) ->
  forall t g, In t (surface s lo hi) -> In g (tri_verts t) ->
  forall x, 0 <= x <= 1 ->
  exists x0, 0 <= x0 <= 1 /\ F (edge_point h g x0) = cutoff /\
             SdfSpec.dist (edge_point h g x) (edge_point h g x0) <= h /\
             Rabs (F (edge_point h g x) - cutoff) <= h.
Proof.
  intros F h cutoff s lo hi Hh HL Hs t g Ht Hg x Hx.
  pose proof (surface_vertex_crossed_thm s lo hi t g Ht Hg) as Hcross.
  set (phi := fun u => F (edge_point h g u) - cutoff).
  assert (continuity phi) as Hcont.
  { apply (lip_continuity phi h); [lra|]. intros a b. unfold phi.
    replace (F (edge_point h g a) - cutoff - (F (edge_point h g b) - cutoff))
      with (F (edge_point h g a) - F (edge_point h g b)) by ring.
    eapply Rle_trans; [apply HL|]. rewrite edge_point_dist by exact Hh. lra. }
  assert (phi 0 * phi 1 <= 0) as Hsign.
  { unfold phi. rewrite edge_point_0, edge_point_1.
    destruct (s (ge_lo g)) eqn:A, (s (ge_hi g)) eqn:B; try congruence.
    - apply Hs in A. assert (~ F (rpos h (ge_hi g)) < cutoff) as B' by (intros X; apply Hs in X; congruence). nra.
    - apply Hs in B. assert (~ F (rpos h (ge_lo g)) < cutoff) as A' by (intros X; apply Hs in X; congruence). nra. }
  destruct (IVT_cor phi 0 1 Hcont ltac:(lra) Hsign) as [x0 [Hx0 Hz]].
  exists x0. unfold phi in Hz.
  assert (SdfSpec.dist (edge_point h g x) (edge_point h g x0) <= h) as Hd.
  { rewrite edge_point_dist by exact Hh.
    assert (Rabs (x - x0) <= 1) by (apply Rabs_le; lra). nra. }
  repeat split; try lra; try exact Hd.
  replace cutoff with (F (edge_point h g x0)) by lra.
  eapply Rle_trans; [apply HL|exact Hd].
Qed.

(* non-vacuity of the hypothesis: the half space x < 1/2 (the plane field x - 1/2) is 1-Lipschitz *)
Example plane_field_lipschitz : SdfSpec.lipschitz1 (fun p => Vec.v3x p - / 2).
Proof.
  intros p q. unfold SdfSpec.dist, SdfSpec.norm, SdfSpec.dot, SdfSpec.psub. cbn [Vec.v3x Vec.v3y Vec.v3z].
  replace (Vec.v3x p - / 2 - (Vec.v3x q - / 2)) with (Vec.v3x p - Vec.v3x q) by ring.
  rewrite <- sqrt_Rsqr_abs. apply sqrt_le_1_alt. unfold Rsqr.
  pose proof (Rle_0_sqr (Vec.v3y p - Vec.v3y q)). pose proof (Rle_0_sqr (Vec.v3z p - Vec.v3z q)).
  unfold Rsqr in *. lra.
Qed.
