(* C09 — blocks_cover, canvas_eq_grid, canvas_closed: the triangles the canvas emits are, as a multiset, the
   surface of the sign grid of its stored samples; hence closed. *)
From Coq Require Import List ZArith Bool Lia.
From PFGen Require Import MarchTable.
From PF Require Import March.Grid March.TableProps March.GridProofs March.SurfaceProofs.
From PF Require Import March.Blocks March.BlocksProofs March.Canvas.
Import ListNotations.
Open Scope Z_scope.

Lemma flat_map_ext_in' {X Y} (f g : X -> list Y) l : (forall x, In x l -> f x = g x) -> flat_map f l = flat_map g l.
Proof.
  induction l as [|a l IH]; intros H; [reflexivity|]. cbn [flat_map].
  rewrite (H a (or_introl eq_refl)), IH; [reflexivity|]. intros x Hx. apply H. right. exact Hx.
Qed.

Lemma flat_map_map' {X Y W} (g : X -> Y) (f : Y -> list W) (L : list X) :
  flat_map f (map g L) = flat_map (fun x => f (g x)) L.
Proof. induction L as [|x L IH]; [reflexivity|]. cbn [map flat_map]. rewrite IH. reflexivity. Qed.

Lemma nodup_map_in {X Y} (f : X -> Y) (l : list X) :
  (forall a b, In a l -> In b l -> f a = f b -> a = b) -> NoDup l -> NoDup (map f l).
Proof.
  induction l as [|a l IH]; intros Hinj Hnd; [constructor|]. inversion Hnd as [|? ? Ha Hl]; subst.
  cbn [map]. constructor.
  - intros Hin. apply in_map_iff in Hin. destruct Hin as [b [E Hb]].
    assert (b = a) by (apply Hinj; [right; exact Hb|left; reflexivity|exact E]). subst. contradiction.
  - apply IH; [|exact Hl]. intros x y Hx Hy. apply Hinj; right; assumption.
Qed.

(* ---------- blocks ---------- *)
Lemma chunk_mono x y : x <= y -> chunk_of x <= chunk_of y.
Proof. unfold chunk_of. rewrite bs_100. intros. apply Z.div_le_mono; lia. Qed.
Lemma chunk_of_global b l : 0 <= l < bs -> chunk_of (bs * b + l) = b.
Proof. intros H. symmetry. apply (chunk_unique_thm (bs * b + l) b l eq_refl H). Qed.
Lemma local_of_global b l : 0 <= l < bs -> local_of (bs * b + l) = l.
Proof. intros H. symmetry. apply (chunk_unique_thm (bs * b + l) b l eq_refl H). Qed.
Lemma next_block_chunk b l : 0 <= l < bs -> next_block b l = chunk_of (bs * b + l + 1).
Proof.
  intros H. unfold next_block. rewrite bs_100 in *. destruct (l =? 100 - 1) eqn:E.
  - apply Z.eqb_eq in E. subst l. apply (chunk_unique_thm (100 * b + (100 - 1) + 1) (b + 1) 0); rewrite ?bs_100; lia.
  - apply Z.eqb_neq in E. apply (chunk_unique_thm (100 * b + l + 1) b (l + 1)); rewrite ?bs_100; lia.
Qed.

Lemma in_chunk_sections lo hi b : In b (chunk_sections lo hi) <->
  let '(x0, y0, z0) := chunk_pt lo in let '(x1, y1, z1) := chunk_pt hi in let '(x, y, z) := b in
  x0 <= x <= x1 /\ y0 <= y <= y1 /\ z0 <= z <= z1.
Proof.
  unfold chunk_sections. destruct (chunk_pt lo) as [[x0 y0] z0], (chunk_pt hi) as [[x1 y1] z1], b as [[x y] z].
  rewrite in_flat_map. split.
  - intros [x' [Hx H]]. apply in_flat_map in H. destruct H as [y' [Hy H]]. apply in_map_iff in H.
    destruct H as [z' [E Hz]]. inversion E; subst. apply in_zrange in Hx, Hy, Hz. lia.
  - intros (Hx & Hy & Hz). exists x. split; [apply in_zrange; lia|]. apply in_flat_map. exists y.
    split; [apply in_zrange; lia|]. apply in_map_iff. exists z. split; [reflexivity|apply in_zrange; lia].
Qed.

Lemma present_in bl b : present bl b = true <-> In b bl.
Proof.
  unfold present. rewrite existsb_exists. split.
  - intros [x [Hx E]]. apply pt_eqb_eq in E. subst. exact Hx.
  - intros H. exists b. split; [exact H|apply pt_eqb_refl].
Qed.

(* a lattice point between the (padded) bounds of a field lies in one of the field's blocks *)
Lemma block_of_point_present fields f q : In f fields ->
  (let '(lx, ly, lz) := blo f in let '(hx, hy, hz) := bhi f in let '(x, y, z) := q in
   lx <= x <= hx /\ ly <= y <= hy /\ lz <= z <= hz) ->
  present (blocks fields) (chunk_pt q) = true.
Proof.
  intros Hf H. apply present_in. unfold blocks. apply nodup_In. apply in_flat_map. exists f. split; [exact Hf|].
  apply in_chunk_sections. destruct (blo f) as [[lx ly] lz], (bhi f) as [[hx hy] hz], q as [[x y] z].
  unfold chunk_pt. destruct H as (Hx & Hy & Hz). repeat split; apply chunk_mono; lia.
Qed.

(* ---------- local / global cells ---------- *)
Lemma in_local_cells l : In l local_cells <-> in_block l.
Proof. unfold local_cells. rewrite in_cells. destruct l as [[x y] z]. unfold in_block. reflexivity. Qed.

Lemma chunk_pt_global b l : in_block l -> chunk_pt (global_cell b l) = b.
Proof.
  destruct b as [[bx by_] bz], l as [[lx ly] lz]. unfold in_block, global_cell, pscale, padd, chunk_pt.
  intros (Hx & Hy & Hz). rewrite !chunk_of_global by assumption. reflexivity.
Qed.
Lemma local_pt_global b l : in_block l -> local_pt (global_cell b l) = l.
Proof.
  destruct b as [[bx by_] bz], l as [[lx ly] lz]. unfold in_block, global_cell, pscale, padd, local_pt.
  intros (Hx & Hy & Hz). rewrite !local_of_global by assumption. reflexivity.
Qed.
Lemma global_of_chunk_local c : global_cell (chunk_pt c) (local_pt c) = c /\ in_block (local_pt c).
Proof.
  destruct c as [[x y] z]. unfold global_cell, chunk_pt, local_pt, pscale, padd, in_block.
  pose proof (chunk_local_spec_thm x). pose proof (chunk_local_spec_thm y). pose proof (chunk_local_spec_thm z).
  split; [f_equal; [f_equal|]; lia|lia].
Qed.

(* every block a cell reads is the block of one of the cell's eight lattice points *)
Definition near (p q : pt) : Prop :=
  let '(px, py, pz) := p in let '(qx, qy, qz) := q in
  -1 <= qx - px <= 1 /\ -1 <= qy - py <= 1 /\ -1 <= qz - pz <= 1.

Lemma corner_block_chunk b l k : in_block l -> 0 <= k < 8 ->
  corner_block b l k = chunk_pt (padd (global_cell b l) (incr k)).
Proof.
  intros Hl Hk. destruct (block_fetch_coords_thm b l k Hl Hk) as [E Hin]. unfold global_cell. rewrite <- E.
  generalize (corner_block b l k) (corner_index b l k) Hin. clear. intros cb ci Hin. symmetry. apply chunk_pt_global. exact Hin.
Qed.

Section Canvas.
Context {A : Type} (below : A -> bool) (store : pt -> Z -> A) (stored : pt -> A) (fields : list fld).
Let bl := blocks fields.
Let s : pt -> bool := fun p => below (stored p).

(* storage layout of addFloat1Range: sample p sits in block chunk_pt p at index (local_pt p) *)
Hypothesis Inv : forall blk loc, present bl blk = true -> in_block loc ->
  store blk (index loc) = stored (global_cell blk loc).
(* the property's hypothesis: every below-cutoff sample lies strictly inside the sampled box of one of the fields
   (implied by: strictly inside its declared domain) *)
Hypothesis Hdom : forall p, s p = true -> exists f, In f fields /\ strictly_inside (blo f) (bhi f) p.

Lemma present_near p q : s p = true -> near p q -> present bl (chunk_pt q) = true.
Proof.
  intros Hp Hn. destruct (Hdom p Hp) as [f [Hf Hin]]. apply (block_of_point_present fields f q Hf).
  destruct (blo f) as [[lx ly] lz], (bhi f) as [[hx hy] hz], p as [[px py] pz], q as [[qx qy] qz].
  unfold strictly_inside in Hin. unfold near in Hn. lia.
Qed.

Definition active (c : pt) : Prop := exists k, 0 <= k < 8 /\ s (padd c (incr k)) = true.

Lemma incr_bounds k : 0 <= k < 8 -> let '(x, y, z) := incr k in 0 <= x <= 1 /\ 0 <= y <= 1 /\ 0 <= z <= 1.
Proof. intros H. apply incr_01. apply in_idx8l. exact H. Qed.

Lemma near_corners c k d : 0 <= k < 8 ->
  (let '(x, y, z) := d in 0 <= x <= 1 /\ 0 <= y <= 1 /\ 0 <= z <= 1) -> near (padd c (incr k)) (padd c d).
Proof.
  intros Hk Hd. pose proof (incr_bounds k Hk) as I. destruct (incr k) as [[ix iy] iz], c as [[cx cy] cz], d as [[dx dy] dz].
  unfold near, padd. cbv beta iota in Hd, I. lia.
Qed.

(* ---------- blocks_cover ---------- *)
Lemma active_processed b l : in_block l -> active (global_cell b l) -> cell_processed bl b l = true.
Proof.
  intros Hl [k [Hk Hs]]. set (c := global_cell b l) in *.
  assert (forall d, (let '(x, y, z) := d in 0 <= x <= 1 /\ 0 <= y <= 1 /\ 0 <= z <= 1) ->
                    present bl (chunk_pt (padd c d)) = true) as P.
  { intros d Hd. apply (present_near _ _ Hs). apply near_corners; assumption. }
  unfold cell_processed. destruct b as [[bx by_] bz] eqn:Eb, l as [[lx ly] lz] eqn:El.
  destruct Hl as (Hx & Hy & Hz).
  assert (present bl (bx, by_, next_block bz lz) = true) as P1.
  { specialize (P (0, 0, 1) ltac:(cbv beta iota; lia)). unfold c, global_cell, pscale, padd, chunk_pt in P.
    rewrite !Z.add_0_r, !chunk_of_global in P by assumption. rewrite next_block_chunk by assumption. exact P. }
  assert (present bl (bx, next_block by_ ly, next_block bz lz) = true) as P2.
  { specialize (P (0, 1, 1) ltac:(cbv beta iota; lia)). unfold c, global_cell, pscale, padd, chunk_pt in P.
    rewrite !Z.add_0_r, !chunk_of_global in P by assumption. rewrite !next_block_chunk by assumption. exact P. }
  rewrite P1, P2. cbn [negb andb]. rewrite !andb_false_r. cbn [negb andb].
  apply forallb_forall. intros k' Hk'. apply in_idx8l in Hk'.
  rewrite <- Eb, <- El. rewrite corner_block_chunk; [|subst l; unfold in_block; lia|exact Hk'].
  subst b l. fold c. apply P. apply (incr_bounds k' Hk').
Qed.

(* every cell with a below-cutoff corner is processed, by the block it lies in and by no other *)
Theorem blocks_cover_thm : forall c, active c ->
  In (chunk_pt c) bl /\ in_block (local_pt c) /\ c = global_cell (chunk_pt c) (local_pt c) /\
  cell_processed bl (chunk_pt c) (local_pt c) = true /\
  (forall b l, in_block l -> c = global_cell b l -> b = chunk_pt c /\ l = local_pt c).
Proof.
  intros c Hc. destruct (global_of_chunk_local c) as [E Hl]. repeat split.
  - destruct Hc as [k [Hk Hs]]. apply present_in. apply (present_near _ _ Hs).
    replace c with (padd c (0, 0, 0)) at 2 by (destruct c as [[x y] z]; unfold padd; f_equal; [f_equal|]; lia).
    apply near_corners; [exact Hk|lia].
  - exact Hl.
  - symmetry. exact E.
  - apply active_processed; [exact Hl|]. rewrite E. exact Hc.
  - subst c. symmetry. apply chunk_pt_global. assumption.
  - subst c. symmetry. apply local_pt_global. assumption.
Qed.

(* ---------- what a processed cell emits ---------- *)
Lemma fetched_stored b l k : in_block l -> 0 <= k < 8 -> cell_processed bl b l = true ->
  fetched store b l k = stored (padd (global_cell b l) (incr k)).
Proof.
  intros Hl Hk Hp. unfold fetched. destruct (block_fetch_coords_thm b l k Hl Hk) as [E Hin].
  assert (present bl (corner_block b l k) = true) as Pk.
  { unfold cell_processed in Hp. destruct b as [[bx by_] bz], l as [[lx ly] lz].
    rewrite !andb_true_iff in Hp. destruct Hp as [_ Hp]. rewrite forallb_forall in Hp. apply Hp. apply in_idx8l. exact Hk. }
  rewrite (Inv _ _ Pk Hin). unfold global_cell. rewrite E. reflexivity.
Qed.

Lemma processed_case b l : in_block l -> cell_processed bl b l = true ->
  fetched_case below store b l = case_index s (global_cell b l).
Proof.
  intros Hl Hp. unfold fetched_case, case_index, corner_sign, s.
  rewrite !(fetched_stored b l) by (assumption || lia). reflexivity.
Qed.

Lemma inactive_case0 c : ~ active c -> case_index s c = 0.
Proof.
  intros H. assert (forall k, 0 <= k < 8 -> corner_sign s c k = false) as F.
  { intros k Hk. unfold corner_sign. destruct (s (padd c (incr k))) eqn:E; [|reflexivity]. exfalso. apply H. exists k. auto. }
  unfold case_index. rewrite !F by lia. reflexivity.
Qed.
Lemma case_active c : case_index s c <> 0 -> active c.
Proof.
  intros H. destruct (existsb (fun k => s (padd c (incr k))) idx8l) eqn:E.
  - apply existsb_exists in E. destruct E as [k [Hk Hs]]. apply in_idx8l in Hk. exists k. auto.
  - exfalso. apply H. apply inactive_case0. intros [k [Hk Hs]].
    assert (existsb (fun k => s (padd c (incr k))) idx8l = true) as T
      by (apply existsb_exists; exists k; split; [apply in_idx8l; exact Hk|exact Hs]).
    congruence.
Qed.

Lemma cell_tris_case0 c : case_index s c = 0 -> cell_tris s c = [].
Proof. intros H. unfold cell_tris. rewrite H, ltris_0. reflexivity. Qed.

Lemma block_tris_eq b : block_tris below store bl b = flat_map (fun l => cell_tris s (global_cell b l)) local_cells.
Proof.
  unfold block_tris. apply flat_map_ext_in'. intros l Hl. apply in_local_cells in Hl.
  destruct (cell_processed bl b l) eqn:P.
  - rewrite (processed_case b l Hl P). reflexivity.
  - symmetry. apply cell_tris_case0. apply inactive_case0. intros Ha.
    rewrite (active_processed b l Hl Ha) in P. discriminate.
Qed.

Definition global_cells : list pt := flat_map (fun b => map (global_cell b) local_cells) bl.

Lemma canvas_surface_cells : canvas_surface below store bl = flat_map (cell_tris s) global_cells.
Proof.
  unfold canvas_surface, global_cells.
  assert (forall L, flat_map (block_tris below store bl) L =
                    flat_map (cell_tris s) (flat_map (fun b => map (global_cell b) local_cells) L)) as G.
  { induction L as [|b r IH]; [reflexivity|].
    cbn [flat_map]. rewrite flat_map_app, <- IH, block_tris_eq, flat_map_map'. reflexivity. }
  apply G.
Qed.

Lemma nodup_global_cells : NoDup global_cells.
Proof.
  unfold global_cells. apply nodup_flat_map.
  - unfold bl, blocks. apply NoDup_nodup.
  - intros b _. apply nodup_map_in; [|apply nodup_cells].
    intros l l' Hl Hl' E. apply in_local_cells in Hl, Hl'.
    rewrite <- (local_pt_global b l Hl), <- (local_pt_global b l' Hl'), E. reflexivity.
  - intros b b' c _ _ Hc Hc'. apply in_map_iff in Hc, Hc'. destruct Hc as [l [E Hl]], Hc' as [l' [E' Hl']].
    apply in_local_cells in Hl, Hl'.
    rewrite <- (chunk_pt_global b l Hl), <- (chunk_pt_global b' l' Hl'), E, E'. reflexivity.
Qed.

Lemma active_in_global_cells c : active c -> In c global_cells.
Proof.
  intros Hc. destruct (blocks_cover_thm c Hc) as (Hb & Hl & E & _). unfold global_cells.
  apply in_flat_map. exists (chunk_pt c). split; [exact Hb|]. apply in_map_iff. exists (local_pt c).
  split; [symmetry; exact E|apply in_local_cells; exact Hl].
Qed.

(* ---------- sums over any duplicate-free list of cells that contains the active ones ---------- *)
Section Box.
Variables lo hi : pt.
Hypothesis Hbox : forall p, s p = true -> strictly_inside lo hi p.

Lemma sum_over_cover (G : pt -> nat) (L : list pt) :
  (forall c, case_index s c = 0 -> G c = 0%nat) -> NoDup L -> (forall c, active c -> In c L) ->
  sum (map G L) = sum (map G (cells lo hi)).
Proof.
  intros G0 HL Hcov.
  set (S := filter (fun c => negb (case_index s c =? 0)) (cells lo hi)).
  assert (NoDup S) as HS by (apply NoDup_filter; apply nodup_cells).
  assert (forall c, In c S -> case_index s c <> 0) as Snz.
  { intros c Hc. apply filter_In in Hc. destruct Hc as [_ Hc]. apply negb_true_iff, Z.eqb_neq in Hc. exact Hc. }
  rewrite (sum_support G S L HL HS), (sum_support G S (cells lo hi) (nodup_cells lo hi) HS).
  - reflexivity.
  - intros c Hc. apply filter_In in Hc. tauto.
  - intros c Hc Hn. apply G0. destruct (Z.eq_dec (case_index s c) 0) as [E|E]; [exact E|].
    exfalso. apply Hn. apply filter_In. split; [exact Hc|]. apply negb_true_iff, Z.eqb_neq. exact E.
  - intros c Hc. apply Hcov. apply case_active. apply Snz. exact Hc.
  - intros c Hc Hn. apply G0. destruct (Z.eq_dec (case_index s c) 0) as [E|E]; [exact E|].
    exfalso. apply Hn. apply filter_In. split.
    + destruct (in_dec pt_dec c (cells lo hi)) as [i|n]; [exact i|].
      exfalso. apply E. apply (outside_case0 s lo hi Hbox c n).
    + apply negb_true_iff, Z.eqb_neq. exact E.
Qed.

Definition tri_dec (a b : tri) : {a = b} + {a <> b}.
Proof. repeat decide equality. Defined.

Lemma count_occ_flat_map_cells (L : list pt) t :
  count_occ tri_dec (flat_map (cell_tris s) L) t = sum (map (fun c => count_occ tri_dec (cell_tris s c) t) L).
Proof.
  induction L as [|c L IH]; [reflexivity|]. cbn [flat_map map sum fold_right].
  rewrite count_occ_app, IH. reflexivity.
Qed.

(* canvas_eq_grid: the canvas emits exactly the triangles of the grid surface, as a multiset *)
Theorem canvas_eq_grid_thm : forall t,
  count_occ tri_dec (canvas_surface below store bl) t = count_occ tri_dec (surface s lo hi) t.
Proof.
  intros t. rewrite canvas_surface_cells. unfold surface. rewrite !count_occ_flat_map_cells.
  apply sum_over_cover.
  - intros c H. rewrite (cell_tris_case0 c H). reflexivity.
  - apply nodup_global_cells.
  - apply active_in_global_cells.
Qed.

Lemma count_cells e (L : list pt) :
  countd e (dedges (flat_map (cell_tris s) L)) = sum (map (fun c => lcount (case_index s c) (dsub e c)) L).
Proof.
  rewrite dedges_flat_map, countd_flat_map. f_equal.
  apply map_ext. intros c. unfold cell_tris, lcount. rewrite dedges_map_tadd, countd_dadd. reflexivity.
Qed.

Lemma canvas_count e :
  countd e (dedges (canvas_surface below store bl)) = countd e (dedges (surface s lo hi)).
Proof.
  rewrite canvas_surface_cells. unfold surface. rewrite !count_cells. apply sum_over_cover.
  - intros c H. rewrite H. unfold lcount. rewrite ltris_0. reflexivity.
  - apply nodup_global_cells.
  - apply active_in_global_cells.
Qed.

(* canvas_closed: every directed edge of the canvas' output occurs at most once, its reverse equally often *)
Theorem canvas_closed_thm : forall e,
  countd e (dedges (canvas_surface below store bl)) = countd (swap e) (dedges (canvas_surface below store bl)) /\
  (countd e (dedges (canvas_surface below store bl)) <= 1)%nat.
Proof. intros e. rewrite !canvas_count. apply grid_closed_count. exact Hbox. Qed.
End Box.
End Canvas.

(* ---------- a box around all fields: canvas_closed without a box in the statement ---------- *)
Definition pmax (a b : pt) : pt :=
  let '(ax, ay, az) := a in let '(bx, by_, bz) := b in (Z.max ax bx, Z.max ay by_, Z.max az bz).
Definition bbox (fields : list fld) : pt * pt :=
  fold_right (fun f acc => (pmin (fst acc) (blo f), pmax (snd acc) (bhi f))) ((0, 0, 0), (0, 0, 0)) fields.

Lemma bbox_contains fields f p : In f fields -> strictly_inside (blo f) (bhi f) p ->
  strictly_inside (fst (bbox fields)) (snd (bbox fields)) p.
Proof.
  induction fields as [|g r IH]; intros Hin Hp; [destruct Hin|]. cbn [bbox fold_right fst snd]. fold (bbox r).
  destruct Hin as [->|Hin].
  - destruct (fst (bbox r)) as [[ax ay] az], (snd (bbox r)) as [[cx cy] cz], (blo f) as [[lx ly] lz],
      (bhi f) as [[hx hy] hz], p as [[x y] z]. unfold strictly_inside, pmin, pmax in *. lia.
  - specialize (IH Hin Hp).
    destruct (fst (bbox r)) as [[ax ay] az], (snd (bbox r)) as [[cx cy] cz], (blo g) as [[lx ly] lz],
      (bhi g) as [[hx hy] hz], p as [[x y] z]. unfold strictly_inside, pmin, pmax in *. lia.
Qed.

Theorem canvas_closed_all_thm : forall (A : Type) (below : A -> bool) (store : pt -> Z -> A) (stored : pt -> A)
  (fields : list fld),
  (forall blk loc, present (blocks fields) blk = true -> in_block loc ->
     store blk (index loc) = stored (global_cell blk loc)) ->
  (forall p, below (stored p) = true -> exists f, In f fields /\ strictly_inside (blo f) (bhi f) p) ->
  forall e : dedge,
    countd e (dedges (canvas_surface below store (blocks fields))) =
    countd (swap e) (dedges (canvas_surface below store (blocks fields))) /\
    (countd e (dedges (canvas_surface below store (blocks fields))) <= 1)%nat.
Proof.
  intros A below store stored fields Inv Hdom e.
  apply (canvas_closed_thm below store stored fields Inv Hdom (fst (bbox fields)) (snd (bbox fields))).
  intros p Hp. destruct (Hdom p Hp) as [f [Hf Hin]]. eapply bbox_contains; eauto.
Qed.
