(* C09 — AddField / addFloat1Range (modeling/marching/canvas.go): how the samples get into the block storage.
   Definitions only.

   Go                                                              here
   --------------------------------------------------------------  ---------------------------------------
   d.float1Data[section.positions[chunkPos]][i]                    st chunkPos i      (store := pt -> Z -> V)
   make(float1MarchingSection, 100^3) on first use                 the initial store is constantly vzero
   data[d.index(shiftedPos)] += function(pos)                      upd st b (index (psub p (pscale bs b))) (fn p)
   for z := min.Z; z < max.Z ... for y ... for x ...               fold_left over cells lo hi (z outermost, x innermost)
   canvasSpaceChunkPos = max(chunkPos*100, min), endPos = min(..)  clip_lo, clip_hi
   for _, chunkPos := range chunkSections { addFloat1Range(..) }   add_field
   one AddField call after the other                               add_fields                                  *)
From Coq Require Import List ZArith Bool.
From PFGen Require Import MarchTable.
From PF Require Import March.Grid March.Blocks March.Canvas.
Import ListNotations.
Open Scope Z_scope.

Definition pmax (a b : pt) : pt :=
  let '(ax, ay, az) := a in let '(bx, by_, bz) := b in (Z.max ax bx, Z.max ay by_, Z.max az bz).
Definition inrangeb (lo hi p : pt) : bool :=
  let '(lx, ly, lz) := lo in let '(hx, hy, hz) := hi in let '(x, y, z) := p in
  (lx <=? x) && (x <? hx) && (ly <=? y) && (y <? hy) && (lz <=? z) && (z <? hz).

Section Store.
Variable V : Type.
Variable vadd : V -> V -> V.
Variable vzero : V.

Definition store := pt -> Z -> V.
Definition upd (st : store) (b : pt) (i : Z) (v : V) : store :=
  fun b' i' => if pt_eqb b b' && (i =? i') then vadd (st b' i') v else st b' i'.

Definition clip_lo (b lo : pt) : pt := pmax (pscale bs b) lo.
Definition clip_hi (b hi : pt) : pt := pmin (padd (pscale bs b) (bs, bs, bs)) hi.

(* addFloat1Range(section, chunkPos = b, min = lo, max = hi, function = fn) *)
Definition add_range (st : store) (b lo hi : pt) (fn : pt -> V) : store :=
  fold_left (fun st p => upd st b (index (psub p (pscale bs b))) (fn p)) (cells lo hi) st.

(* AddField(field): fn is the field function at lattice point p (function(pos) with pos = p / cubesPerUnit) *)
Definition add_field (st : store) (f : fld) (fn : pt -> V) : store :=
  fold_left (fun st b => add_range st b (clip_lo b (blo f)) (clip_hi b (bhi f)) fn)
            (chunk_sections (blo f) (bhi f)) st.

Definition add_fields (fs : list (fld * (pt -> V))) (st : store) : store :=
  fold_left (fun st ff => add_field st (fst ff) (snd ff)) fs st.

(* what lattice point p holds afterwards: the values of the fields whose sample range contains p, in AddField order *)
Definition stored_after (fs : list (fld * (pt -> V))) (acc : V) (p : pt) : V :=
  fold_left (fun acc ff => if inrangeb (blo (fst ff)) (bhi (fst ff)) p then vadd acc (snd ff p) else acc) fs acc.
End Store.
