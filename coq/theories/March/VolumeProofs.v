(* C09 — "oriented outward so that the enclosed volume is positive", as a theorem about the table.

   Vertices are put at the midpoints of their grid edges (coordinates doubled to stay in Z), vol6 ts is the sum of
   det(a, b, c) over the triangles = 6 * 8 * (signed volume enclosed by the mesh).  For EVERY sign grid whose
   below-cutoff points lie strictly inside the box (any extent, negative coordinates included)

       vol6 (surface s lo hi) = sum over the cells c of  wcase (case_index s c)

   where wcase i (a function of the GENERATED table, between 0 and 48, positive for every case but 0, 48 for case
   255) is 48 times the volume of the below-cutoff part of a cell of case i.  Hence the enclosed volume is positive as
   soon as one sample is below the cutoff, and lies between the number of cells with eight and with at least one
   below-cutoff corner.

   Proof: det(2c + a, 2c + b, 2c + d) = det(a, b, d) + 2c . N(a, b, d)  (N = a x b + b x d + d x a, the area vector),
   so a cell contributes  vloc i + 2 c . A i.  By a finite check over all 256 cases the k-th component of A i is
   g_k(signs on the cell's low face normal to k) - g_k(signs on its high face) for ONE function g_k of four signs
   (the area of the below-cutoff part of a face, seen alike from both cells sharing it); the high face of c is the low
   face of c + e_k, so the c-dependent part is a telescoping sum over the box, which vanishes because all signs are
   false on the boundary. *)
From Coq Require Import List ZArith Bool Lia.
From PFGen Require Import MarchTable.
From PF Require Import March.Grid March.TableProps March.GridProofs March.SurfaceProofs.
Import ListNotations.
Open Scope Z_scope.

(* ---------- vectors ---------- *)
Definition pscale2 (p : pt) : pt := let '(x, y, z) := p in (2 * x, 2 * y, 2 * z).
(* doubled midpoint of a grid edge *)
Definition mid (g : gedge) : pt := padd (pscale2 (fst g)) (axis_vec (snd g)).
Definition det3 (a b c : pt) : Z := dot a (cross b c).
Definition narea (a b c : pt) : pt := padd (padd (cross a b) (cross b c)) (cross c a).
Definition tvol (t : tri) : Z := let '(a, b, c) := t in det3 (mid a) (mid b) (mid c).
Definition tarea (t : tri) : pt := let '(a, b, c) := t in narea (mid a) (mid b) (mid c).
Definition zsuml (l : list Z) : Z := fold_right Z.add 0 l.
Definition psum (l : list pt) : pt := fold_right padd (0, 0, 0) l.
Definition vol6 (ts : list tri) : Z := zsuml (map tvol ts).
Definition area_sum (ts : list tri) : pt := psum (map tarea ts).

Lemma det3_shift e a b d : det3 (padd e a) (padd e b) (padd e d) = det3 a b d + dot e (narea a b d).
Proof.
  destruct e as [[ex ey] ez], a as [[ax ay] az], b as [[bx by_] bz], d as [[dx dy] dz].
  unfold det3, narea, dot, cross, padd. ring.
Qed.
Lemma dot_padd c u v : dot c (padd u v) = dot c u + dot c v.
Proof. destruct c as [[cx cy] cz], u as [[ux uy] uz], v as [[vx vy] vz]. unfold dot, padd. ring. Qed.
Lemma dot_scale2 c v : dot (pscale2 c) v = 2 * dot c v.
Proof. destruct c as [[cx cy] cz], v as [[vx vy] vz]. unfold dot, pscale2. ring. Qed.
Lemma mid_gadd c g : mid (gadd c g) = padd (pscale2 c) (mid g).
Proof.
  destruct g as [[[x y] z] a], c as [[cx cy] cz]. unfold mid, gadd, pscale2, padd. cbn [fst snd].
  destruct (axis_vec a) as [[ux uy] uz]. pteq.
Qed.

Lemma tvol_tadd c t : tvol (tadd c t) = tvol t + 2 * dot c (tarea t).
Proof.
  destruct t as [[a b] d]. unfold tvol, tarea, tadd. rewrite !mid_gadd, det3_shift, dot_scale2. reflexivity.
Qed.

Lemma zsuml_app l1 l2 : zsuml (l1 ++ l2) = zsuml l1 + zsuml l2.
Proof. induction l1 as [|x l IH]; simpl; [reflexivity|rewrite IH; ring]. Qed.
Lemma vol6_app l1 l2 : vol6 (l1 ++ l2) = vol6 l1 + vol6 l2.
Proof. unfold vol6. rewrite map_app. apply zsuml_app. Qed.

Lemma vol6_map_tadd c l : vol6 (map (tadd c) l) = vol6 l + 2 * dot c (area_sum l).
Proof.
  induction l as [|t l IH].
  - destruct c as [[cx cy] cz]. unfold vol6, area_sum, dot. cbn [map zsuml psum fold_right]. lia.
  - change (vol6 (map (tadd c) (t :: l))) with (tvol (tadd c t) + vol6 (map (tadd c) l)).
    change (vol6 (t :: l)) with (tvol t + vol6 l).
    change (area_sum (t :: l)) with (padd (tarea t) (area_sum l)).
    rewrite IH, tvol_tadd, dot_padd. ring.
Qed.

Lemma vol6_flat_map {A} (f : A -> list tri) L : vol6 (flat_map f L) = zsuml (map (fun a => vol6 (f a)) L).
Proof. induction L as [|a L IH]; simpl; [reflexivity|rewrite vol6_app, IH; reflexivity]. Qed.

(* ---------- per case ---------- *)
Definition vloc (i : Z) : Z := vol6 (ltris i).
Definition acase (i : Z) : pt := area_sum (ltris i).

Lemma cell_vol s c : vol6 (cell_tris s c) = vloc (case_index s c) + 2 * dot c (acase (case_index s c)).
Proof. unfold cell_tris. apply vol6_map_tadd. Qed.

(* ---------- faces ---------- *)
Definition ek (k : Z) : pt := axis_vec k.
Definition uk (k : Z) : pt := axis_vec ((k + 1) mod 3).
Definition wk (k : Z) : pt := axis_vec ((k + 2) mod 3).
Definition comp (k : Z) (v : pt) : Z := let '(x, y, z) := v in if k =? 0 then x else if k =? 1 then y else z.
Definition axes : list Z := [0; 1; 2].

Definition bits4 := (bool * bool * bool * bool)%type.
(* the signs at the four corners of the unit square at p normal to axis k *)
Definition fbits (k : Z) (sg : pt -> bool) (p : pt) : bits4 :=
  (sg p, sg (padd p (uk k)), sg (padd p (wk k)), sg (padd p (padd (uk k) (wk k)))).
(* the cell that has the given signs on its low face normal to k and nothing on the high face *)
Definition tau (k : Z) (b : bits4) (q : pt) : bool :=
  let '(b00, b10, b01, b11) := b in
  if pt_eqb q (0, 0, 0) then b00 else if pt_eqb q (uk k) then b10 else if pt_eqb q (wk k) then b01
  else if pt_eqb q (padd (uk k) (wk k)) then b11 else false.
(* g_k: (scaled) area of the below-cutoff part of a face with these corner signs, read off the table *)
Definition af (k : Z) (b : bits4) : Z := comp k (acase (case_index (tau k b) (0, 0, 0))).
Definition Fk (k : Z) (sg : pt -> bool) (p : pt) : Z := af k (fbits k sg p).

(* corner number of a point of the unit cube, and the signs of a case as a function on the unit cube *)
Definition cidx (q : pt) : Z := match find (fun k => pt_eqb (incr k) q) idx8l with Some k => k | None => 0 end.
Definition sgn (i : Z) (q : pt) : bool := Z.testbit i (cidx q).
Definition cube8 : list pt :=
  [(0, 0, 0); (1, 0, 0); (0, 1, 0); (1, 1, 0); (0, 0, 1); (1, 0, 1); (0, 1, 1); (1, 1, 1)].

Definition cidx_pred (q : pt) : bool := (0 <=? cidx q) && (cidx q <? 8) && pt_eqb (incr (cidx q)) q.
Lemma cidx_ok : all1 cidx_pred cube8 = true.
Proof. vm_compute. reflexivity. Qed.

(* 48 x the below-cutoff volume of a cell of case i *)
Definition wcase (i : Z) : Z :=
  vloc i + 2 * (Fk 0 (sgn i) (ek 0) + Fk 1 (sgn i) (ek 1) + Fk 2 (sgn i) (ek 2)).

(* FINITE CHECK 1: the area vector of every case is (low face) - (high face) of one function of the face signs *)
Definition area_pred (i k : Z) : bool :=
  comp k (acase i) =? Fk k (sgn i) (0, 0, 0) - Fk k (sgn i) (ek k).
Lemma area_ok : all2 area_pred idx256 axes = true.
Proof. vm_compute. reflexivity. Qed.
(* FINITE CHECK 2: a face without below-cutoff corners has no below-cutoff area *)
Definition af0_pred (k : Z) : bool := af k (false, false, false, false) =? 0.
Lemma af0_ok : all1 af0_pred axes = true.
Proof. vm_compute. reflexivity. Qed.
(* FINITE CHECK 3: the per-cell volume is between 0 and a whole cell, positive unless no corner is below *)
Definition wcase_pred (i : Z) : bool :=
  (0 <=? wcase i) && (wcase i <=? 48) && ((i =? 0) || (0 <? wcase i)) && ((negb (i =? 255)) || (wcase i =? 48)).
Lemma wcase_ok : all1 wcase_pred idx256 = true.
Proof. vm_compute. reflexivity. Qed.

Lemma in_axes k : In k axes <-> k = 0 \/ k = 1 \/ k = 2.
Proof. unfold axes. simpl. intuition. Qed.

(* ---------- a case seen from the grid ---------- *)
Lemma sgn_case s c q : In q cube8 -> sgn (case_index s c) q = s (padd c q).
Proof.
  intros Hq. pose proof (all1_spec _ _ cidx_ok q Hq) as H. unfold cidx_pred in H.
  rewrite !andb_true_iff, pt_eqb_eq, Z.leb_le, Z.ltb_lt in H. destruct H as [[H0 H1] H2].
  unfold sgn. rewrite case_bit by (apply in_idx8l; lia). unfold corner_sign. rewrite H2. reflexivity.
Qed.

Lemma Fk_shift k s c p : Fk k (fun q => s (padd c q)) p = Fk k s (padd c p).
Proof. unfold Fk, fbits. rewrite !padd_assoc. reflexivity. Qed.

Ltac axes_simpl :=
  change (uk 0) with (0, 1, 0) in *; change (wk 0) with (0, 0, 1) in *; change (ek 0) with (1, 0, 0) in *;
  change (uk 1) with (0, 0, 1) in *; change (wk 1) with (1, 0, 0) in *; change (ek 1) with (0, 1, 0) in *;
  change (uk 2) with (1, 0, 0) in *; change (wk 2) with (0, 1, 0) in *; change (ek 2) with (0, 0, 1) in *.

Lemma Fk_case_low k s c : In k axes -> Fk k (sgn (case_index s c)) (0, 0, 0) = Fk k s c.
Proof.
  intros Hk. assert (padd c (0, 0, 0) = c) as Ec by (destruct c as [[x y] z]; unfold padd; pteq).
  transitivity (Fk k (fun q => s (padd c q)) (0, 0, 0)); [|rewrite Fk_shift, Ec; reflexivity].
  unfold Fk, fbits. apply in_axes in Hk.
  destruct Hk as [->|[->| ->]]; axes_simpl; cbn [padd Z.add];
    rewrite !(sgn_case s c) by (simpl; tauto); reflexivity.
Qed.
Lemma Fk_case_high k s c : In k axes -> Fk k (sgn (case_index s c)) (ek k) = Fk k s (padd c (ek k)).
Proof.
  intros Hk. rewrite <- (Fk_shift k s c (ek k)).
  unfold Fk, fbits. apply in_axes in Hk.
  destruct Hk as [->|[->| ->]]; axes_simpl; cbn [padd Z.add];
    rewrite !(sgn_case s c) by (simpl; tauto); reflexivity.
Qed.

(* ---------- sums over a box ---------- *)
Definition zsum (f : Z -> Z) (lo hi : Z) : Z := zsuml (map f (zrange lo hi)).

Lemma zsuml_ext {A} (f g : A -> Z) L : (forall a, In a L -> f a = g a) -> zsuml (map f L) = zsuml (map g L).
Proof.
  induction L as [|a L IH]; intros H; simpl; [reflexivity|].
  rewrite (H a (or_introl eq_refl)), IH; [reflexivity|]. intros b Hb. apply H. right. exact Hb.
Qed.
Lemma zsuml_map_add {A} (f g : A -> Z) L : zsuml (map (fun a => f a + g a) L) = zsuml (map f L) + zsuml (map g L).
Proof. induction L as [|a L IH]; simpl; [reflexivity|rewrite IH; ring]. Qed.
Lemma zsuml_map_sub {A} (f g : A -> Z) L : zsuml (map (fun a => f a - g a) L) = zsuml (map f L) - zsuml (map g L).
Proof. induction L as [|a L IH]; simpl; [reflexivity|rewrite IH; ring]. Qed.
Lemma zsuml_zero {A} (f : A -> Z) L : (forall a, In a L -> f a = 0) -> zsuml (map f L) = 0.
Proof.
  induction L as [|a L IH]; intros H; simpl; [reflexivity|].
  rewrite (H a (or_introl eq_refl)), IH; [reflexivity|]. intros b Hb. apply H. right. exact Hb.
Qed.
Lemma zsuml_flat_map {A B} (f : B -> Z) (g : A -> list B) L :
  zsuml (map f (flat_map g L)) = zsuml (map (fun a => zsuml (map f (g a))) L).
Proof. induction L as [|a L IH]; simpl; [reflexivity|rewrite map_app, zsuml_app, IH; reflexivity]. Qed.

Lemma zsum_ext f g lo hi : (forall x, lo <= x < hi -> f x = g x) -> zsum f lo hi = zsum g lo hi.
Proof. intros H. apply zsuml_ext. intros x Hx. apply H. apply in_zrange. exact Hx. Qed.
Lemma zsum_sub f g lo hi : zsum (fun x => f x - g x) lo hi = zsum f lo hi - zsum g lo hi.
Proof. apply zsuml_map_sub. Qed.
Lemma zsum_zero f lo hi : (forall x, lo <= x < hi -> f x = 0) -> zsum f lo hi = 0.
Proof. intros H. apply zsuml_zero. intros x Hx. apply H. apply in_zrange. exact Hx. Qed.

Lemma tele_nat (h : nat -> Z) n : zsuml (map (fun i => h i - h (S i)) (seq 0 n)) = h 0%nat - h n.
Proof.
  induction n as [|n IH]; [simpl; ring|].
  rewrite seq_S, map_app, zsuml_app, IH. simpl. ring.
Qed.
Lemma tele_seq (g : Z -> Z) n lo :
  zsuml (map (fun x => g x - g (x + 1)) (map (fun i => lo + Z.of_nat i) (seq 0 n))) = g lo - g (lo + Z.of_nat n).
Proof.
  rewrite map_map.
  rewrite (map_ext _ (fun i => (fun i => g (lo + Z.of_nat i)) i - (fun i => g (lo + Z.of_nat i)) (S i))).
  - rewrite tele_nat. replace (lo + Z.of_nat 0) with lo by lia. reflexivity.
  - intros i. cbv beta. do 2 f_equal. lia.
Qed.
Lemma zsum_tele g lo hi : g lo = 0 -> g hi = 0 -> zsum (fun x => g x - g (x + 1)) lo hi = 0.
Proof.
  intros Hl Hh. unfold zsum, zrange. rewrite tele_seq.
  destruct (Z_le_gt_dec hi lo) as [L|L].
  - replace (Z.to_nat (hi - lo)) with 0%nat by lia. replace (lo + Z.of_nat 0) with lo by lia. lia.
  - replace (lo + Z.of_nat (Z.to_nat (hi - lo))) with hi by lia. lia.
Qed.

Lemma zsuml_cells (f : pt -> Z) lx ly lz hx hy hz :
  zsuml (map f (cells (lx, ly, lz) (hx, hy, hz))) =
  zsum (fun z => zsum (fun y => zsum (fun x => f (x, y, z)) lx hx) ly hy) lz hz.
Proof.
  unfold cells, zsum. rewrite zsuml_flat_map. apply zsuml_ext. intros z _.
  rewrite zsuml_flat_map. apply zsuml_ext. intros y _. rewrite map_map. reflexivity.
Qed.

(* telescoping along each axis: P vanishes on the two boundary planes normal to the axis *)
Section Tele.
Variable P : pt -> Z.
Variables lx ly lz hx hy hz : Z.

Lemma tele_x : (forall y z, P (lx, y, z) = 0) -> (forall y z, P (hx, y, z) = 0) ->
  zsuml (map (fun c => P c - P (padd c (1, 0, 0))) (cells (lx, ly, lz) (hx, hy, hz))) = 0.
Proof.
  intros Hl Hh. rewrite zsuml_cells. apply zsum_zero. intros z _. apply zsum_zero. intros y _.
  unfold padd. rewrite (zsum_ext _ (fun x => (fun x => P (x, y, z)) x - (fun x => P (x, y, z)) (x + 1)));
    [|intros x _; repeat f_equal; lia].
  apply zsum_tele; [apply Hl|apply Hh].
Qed.
Lemma tele_y : (forall x z, P (x, ly, z) = 0) -> (forall x z, P (x, hy, z) = 0) ->
  zsuml (map (fun c => P c - P (padd c (0, 1, 0))) (cells (lx, ly, lz) (hx, hy, hz))) = 0.
Proof.
  intros Hl Hh. rewrite zsuml_cells. apply zsum_zero. intros z _.
  set (H := fun y => zsum (fun x => P (x, y, z)) lx hx).
  rewrite (zsum_ext _ (fun y => H y - H (y + 1))).
  - apply zsum_tele; unfold H; apply zsum_zero; intros x _; [apply Hl|apply Hh].
  - intros y _. unfold H. rewrite <- zsum_sub. apply zsum_ext. intros x _. unfold padd. repeat f_equal; lia.
Qed.
Lemma tele_z : (forall x y, P (x, y, lz) = 0) -> (forall x y, P (x, y, hz) = 0) ->
  zsuml (map (fun c => P c - P (padd c (0, 0, 1))) (cells (lx, ly, lz) (hx, hy, hz))) = 0.
Proof.
  intros Hl Hh. rewrite zsuml_cells.
  set (G := fun z => zsum (fun y => zsum (fun x => P (x, y, z)) lx hx) ly hy).
  rewrite (zsum_ext _ (fun z => G z - G (z + 1))).
  - apply zsum_tele; unfold G; apply zsum_zero; intros y _; apply zsum_zero; intros x _; [apply Hl|apply Hh].
  - intros z _. unfold G. rewrite <- zsum_sub. apply zsum_ext. intros y _. rewrite <- zsum_sub.
    apply zsum_ext. intros x _. unfold padd. repeat f_equal; lia.
Qed.
End Tele.

Lemma not_inside_false (s : pt -> bool) lo hi : (forall p, s p = true -> strictly_inside lo hi p) ->
  forall p, ~ strictly_inside lo hi p -> s p = false.
Proof. intros Hsup p H. destruct (s p) eqn:E; [exfalso; apply H, Hsup, E|reflexivity]. Qed.

(* ---------- the theorem ---------- *)
Section Volume.
Variable s : pt -> bool.
Variables lo hi : pt.
Hypothesis Hsup : forall p, s p = true -> strictly_inside lo hi p.

Definition Pk (k : Z) (p : pt) : Z := 2 * comp k p * Fk k s p.

Lemma cell_decomp c :
  vol6 (cell_tris s c) = wcase (case_index s c)
    + ((Pk 0 c - Pk 0 (padd c (1, 0, 0))) + ((Pk 1 c - Pk 1 (padd c (0, 1, 0))) + (Pk 2 c - Pk 2 (padd c (0, 0, 1))))).
Proof.
  rewrite cell_vol. set (i := case_index s c).
  assert (0 <= i < 256) as Hi by apply case_index_range.
  assert (forall k, In k axes -> comp k (acase i) = Fk k s c - Fk k s (padd c (ek k))) as HA.
  { intros k Hk. pose proof (all2_spec _ _ _ area_ok i k (proj2 (in_idx256 i) Hi) Hk) as H.
    unfold area_pred in H. apply Z.eqb_eq in H. rewrite H. unfold i.
    rewrite Fk_case_low, Fk_case_high by exact Hk. reflexivity. }
  pose proof (HA 0 ltac:(simpl; tauto)) as A0. pose proof (HA 1 ltac:(simpl; tauto)) as A1.
  pose proof (HA 2 ltac:(simpl; tauto)) as A2.
  assert (forall k, In k axes -> Fk k (sgn i) (ek k) = Fk k s (padd c (ek k))) as HH
    by (intros; apply Fk_case_high; assumption).
  unfold wcase. rewrite (HH 0), (HH 1), (HH 2) by (simpl; tauto). clear HH HA.
  change (ek 0) with (1, 0, 0) in *. change (ek 1) with (0, 1, 0) in *. change (ek 2) with (0, 0, 1) in *.
  unfold Pk. destruct (acase i) as [[ax ay] az]. destruct c as [[x y] z].
  change (comp 0 (ax, ay, az)) with ax in A0. change (comp 1 (ax, ay, az)) with ay in A1.
  change (comp 2 (ax, ay, az)) with az in A2. unfold padd, dot.
  repeat match goal with
  | |- context [comp 0 (?a, ?b, ?d)] => change (comp 0 (a, b, d)) with a
  | |- context [comp 1 (?a, ?b, ?d)] => change (comp 1 (a, b, d)) with b
  | |- context [comp 2 (?a, ?b, ?d)] => change (comp 2 (a, b, d)) with d
  end.
  unfold padd in A0, A1, A2. subst ax ay az.
  set (L0 := Fk 0 s (x, y, z)). set (L1 := Fk 1 s (x, y, z)). set (L2 := Fk 2 s (x, y, z)).
  set (H0 := Fk 0 s (x + 1, y + 0, z + 0)). set (H1 := Fk 1 s (x + 0, y + 1, z + 0)).
  set (H2 := Fk 2 s (x + 0, y + 0, z + 1)). ring.
Qed.

(* all four corners of a face false => no area *)
Lemma Fk_false k p : In k axes ->
  s p = false -> s (padd p (uk k)) = false -> s (padd p (wk k)) = false -> s (padd p (padd (uk k) (wk k))) = false ->
  Fk k s p = 0.
Proof.
  intros Hk A B C D. unfold Fk, fbits. rewrite A, B, C, D.
  pose proof (all1_spec _ _ af0_ok k Hk) as H. unfold af0_pred in H. apply Z.eqb_eq in H. exact H.
Qed.


Theorem volume_decomposition :
  vol6 (surface s lo hi) = zsuml (map (fun c => wcase (case_index s c)) (cells lo hi)).
Proof.
  unfold surface. rewrite vol6_flat_map.
  rewrite (zsuml_ext _ _ _ (fun c _ => cell_decomp c)).
  rewrite !zsuml_map_add.
  destruct lo as [[lx ly] lz], hi as [[hx hy] hz].
  assert (forall P Q R S : Z, Q = 0 -> R = 0 -> S = 0 -> P + (Q + (R + S)) = P) as X by (intros; lia).
  apply X; clear X.
  - apply tele_x; intros y z; unfold Pk; rewrite Fk_false; try ring; try (simpl; tauto);
      apply (not_inside_false s _ _ Hsup); axes_simpl; unfold strictly_inside, padd; lia.
  - apply tele_y; intros x z; unfold Pk; rewrite Fk_false; try ring; try (simpl; tauto);
      apply (not_inside_false s _ _ Hsup); axes_simpl; unfold strictly_inside, padd; lia.
  - apply tele_z; intros x y; unfold Pk; rewrite Fk_false; try ring; try (simpl; tauto);
      apply (not_inside_false s _ _ Hsup); axes_simpl; unfold strictly_inside, padd; lia.
Qed.

Lemma wcase_facts i : 0 <= i < 256 -> 0 <= wcase i <= 48 /\ (i <> 0 -> 0 < wcase i) /\ (i = 255 -> wcase i = 48).
Proof.
  intros Hi. pose proof (all1_spec _ _ wcase_ok i (proj2 (in_idx256 i) Hi)) as H. unfold wcase_pred in H.
  rewrite !andb_true_iff, !orb_true_iff, negb_true_iff, !Z.leb_le, !Z.eqb_eq, Z.eqb_neq, Z.ltb_lt in H. lia.
Qed.

Lemma zsuml_nonneg {A} (f : A -> Z) L : (forall a, In a L -> 0 <= f a) -> 0 <= zsuml (map f L).
Proof.
  induction L as [|a L IH]; intros H; simpl; [lia|].
  pose proof (H a (or_introl eq_refl)). assert (0 <= zsuml (map f L)) by (apply IH; intros b Hb; apply H; right; exact Hb).
  lia.
Qed.
Lemma zsuml_pos {A} (f : A -> Z) L a : (forall b, In b L -> 0 <= f b) -> In a L -> 0 < f a -> 0 < zsuml (map f L).
Proof.
  induction L as [|b L IH]; intros H Ha Hp; [destruct Ha|]. simpl.
  pose proof (H b (or_introl eq_refl)).
  assert (0 <= zsuml (map f L)) by (apply zsuml_nonneg; intros d Hd; apply H; right; exact Hd).
  destruct Ha as [->|Ha]; [lia|].
  assert (0 < zsuml (map f L)) by (apply IH; [intros d Hd; apply H; right; exact Hd|exact Ha|exact Hp]). lia.
Qed.

Theorem volume_positive : (exists p, s p = true) -> 0 < vol6 (surface s lo hi).
Proof.
  intros [p Hp]. rewrite volume_decomposition.
  apply (zsuml_pos _ _ p).
  - intros c _. apply (wcase_facts _ (case_index_range s c)).
  - apply Hsup in Hp. apply in_cells.
    destruct lo as [[lx ly] lz], hi as [[hx hy] hz], p as [[x y] z]. unfold strictly_inside in Hp. lia.
  - apply (wcase_facts _ (case_index_range s p)). intros E.
    pose proof (case_bit s p 0 ltac:(apply in_idx8l; lia)) as B. rewrite E in B. unfold corner_sign in B.
    assert (incr 0 = (0, 0, 0)) as I0 by (vm_compute; reflexivity). rewrite I0 in B.
    assert (padd p (0, 0, 0) = p) as Ep by (destruct p as [[x y] z]; unfold padd; pteq).
    rewrite Ep, Hp in B. discriminate.
Qed.

(* the volume bracket: between the number of cells with 8 and with >= 1 below-cutoff corners (in units of 1/48 cell) *)
Definition full_cell (c : pt) : Z := if case_index s c =? 255 then 48 else 0.
Definition touched_cell (c : pt) : Z := if case_index s c =? 0 then 0 else 48.
Lemma zsuml_le {A} (f g : A -> Z) L : (forall a, In a L -> f a <= g a) -> zsuml (map f L) <= zsuml (map g L).
Proof.
  induction L as [|a L IH]; intros H; simpl; [lia|].
  pose proof (H a (or_introl eq_refl)). assert (zsuml (map f L) <= zsuml (map g L)) by (apply IH; intros b Hb; apply H; right; exact Hb).
  lia.
Qed.
Theorem volume_bracket :
  zsuml (map full_cell (cells lo hi)) <= vol6 (surface s lo hi) <= zsuml (map touched_cell (cells lo hi)).
Proof.
  rewrite volume_decomposition. split; apply zsuml_le; intros c _;
    pose proof (wcase_facts _ (case_index_range s c)) as (W1 & W2 & W3); unfold full_cell, touched_cell.
  - destruct (case_index s c =? 255) eqn:E; [apply Z.eqb_eq in E; rewrite (W3 E); lia|lia].
  - destruct (case_index s c =? 0) eqn:E; [apply Z.eqb_eq in E|lia].
    rewrite E. assert (wcase 0 = 0) as -> by (vm_compute; reflexivity). lia.
Qed.
End Volume.
