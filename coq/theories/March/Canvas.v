(* C09 — the canvas as a whole (modeling/marching/canvas.go): which blocks exist after AddField, which cells
   marchFloat1BlockPosition processes, and the triangles it emits.  Definitions only.

   Go                                                        here
   --------------------------------------------------------  ------------------------------------
   fieldBounds: floor(min*cpu)-1 .. ceil(max*cpu)+1 (excl.)   blo f, bhi f  (f = floor / ceil values)
   chunkSectionsInRange(min, max)                            chunk_sections lo hi
   section.positions after AddField of every field           blocks fields  (each block once: map keys)
   `if z == 99 { zBlockPosition++; if !ok { continue } }`,     cell_processed
     the same for y, `allValid` over the eight corner blocks
   cubeCorners[k] < cutoff, lookupIndex                      fetched_case
   triangles of one block / of marchFloat1                    block_tris / canvas_surface          *)
From Coq Require Import List ZArith Bool.
From PFGen Require Import MarchTable.
From PF Require Import March.Grid March.Blocks.
Import ListNotations.
Open Scope Z_scope.

(* a field as the canvas sees it: floor(Domain.Min * cubesPerUnit) and ceil(Domain.Max * cubesPerUnit) *)
Record fld := { dmin : pt; dmax : pt }.
Definition blo (f : fld) : pt := psub (dmin f) (1, 1, 1).
Definition bhi (f : fld) : pt := padd (dmax f) (1, 1, 1).   (* exclusive *)

(* chunkSectionsInRange: the product of the block ranges of the three axes (the early return for
   minChunkPos == maxChunkPos is the same product) *)
Definition chunk_sections (lo hi : pt) : list pt :=
  let '(x0, y0, z0) := chunk_pt lo in let '(x1, y1, z1) := chunk_pt hi in
  flat_map (fun x => flat_map (fun y => map (fun z => (x, y, z)) (zrange z0 (z1 + 1))) (zrange y0 (y1 + 1)))
           (zrange x0 (x1 + 1)).

Definition pt_dec (a b : pt) : {a = b} + {a <> b}.
Proof. repeat decide equality. Defined.

Definition blocks (fields : list fld) : list pt :=
  nodup pt_dec (flat_map (fun f => chunk_sections (blo f) (bhi f)) fields).
Definition present (bl : list pt) (b : pt) : bool := existsb (pt_eqb b) bl.

Definition is_last (x : Z) : bool := x =? bs - 1.
Definition cell_processed (bl : list pt) (b l : pt) : bool :=
  let '(bx, by_, bz) := b in let '(lx, ly, lz) := l in
  let zb := next_block bz lz in let yb := next_block by_ ly in
  negb (is_last lz && negb (present bl (bx, by_, zb))) &&
  negb (is_last ly && negb (present bl (bx, yb, zb))) &&
  forallb (fun k => present bl (corner_block b l k)) idx8l.

Definition local_cells : list pt := cells (0, 0, 0) (bs, bs, bs).
Definition global_cell (b l : pt) : pt := padd (pscale bs b) l.

Section Values.
Context {A : Type} (below : A -> bool) (store : pt -> Z -> A).

Definition fetched_case (b l : pt) : Z :=
  idx8 (below (fetched store b l 0)) (below (fetched store b l 1)) (below (fetched store b l 2))
       (below (fetched store b l 3)) (below (fetched store b l 4)) (below (fetched store b l 5))
       (below (fetched store b l 6)) (below (fetched store b l 7)).

Definition block_tris (bl : list pt) (b : pt) : list tri :=
  flat_map (fun l => if cell_processed bl b l
                     then map (tadd (global_cell b l)) (ltris (fetched_case b l)) else []) local_cells.

Definition canvas_surface (bl : list pt) : list tri := flat_map (block_tris bl) bl.
End Values.
