(* C09 — the repaired weld (canvas.go after 3a3ee8c) over the rationals.  Definitions only.

   Go                                                              here
   --------------------------------------------------------------  ------------------------------
   t = math.Min(math.Max(t, vertexCornerMargin), 1-vertexCornerMargin)  clampq
   vertex = corner a + t (corner b - corner a) + block offset, in cells   vpos g t (g = grid edge, t from
                                                                          its lower end point)
   modeling.Vector3ToInt(v, weldDecimalPlaces): math.Round(x * 1e4)       bucket
   LookupOrAdd / WeldByFloat3Attribute(attribute, weldDecimalPlaces):      two vertices become one iff
     map keyed by that integer vector                                      their buckets are equal      *)
From Coq Require Import ZArith QArith Qround Qminmax List.
From PF Require Import March.Grid.
Open Scope Q_scope.

Definition margin : Q := 1 # 1000.        (* vertexCornerMargin *)
Definition wscale : Q := 10000 # 1.       (* 10 ^ weldDecimalPlaces *)
Definition clampq (t : Q) : Q := Qmin (Qmax t margin) (1 - margin).

(* math.Round: nearest integer, halves away from zero *)
Definition qround (x : Q) : Z :=
  if Qle_bool 0 x then Qfloor (x + (1 # 2)) else (- Qfloor (- x + (1 # 2)))%Z.

Definition vpos (g : gedge) (t : Q) : Q * Q * Q :=
  let '((x, y, z), a) := g in
  (inject_Z x + (if (a =? 0)%Z then t else 0),
   inject_Z y + (if (a =? 1)%Z then t else 0),
   inject_Z z + (if (a =? 0)%Z then 0 else if (a =? 1)%Z then 0 else t)).

Definition bucket (v : Q * Q * Q) : Z * Z * Z :=
  let '(x, y, z) := v in (qround (wscale * x), qround (wscale * y), qround (wscale * z)).

Definition valid_edge (g : gedge) : Prop := (0 <= snd g < 3)%Z.
