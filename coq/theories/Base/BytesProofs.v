From PF Require Import Base.Bytes.
From Coq Require Import ZifyN ZifyNat ZifyBool.
Open Scope N_scope.
Ltac Zify.zify_post_hook ::= Z.div_mod_to_equations.

Lemma some_inj {A} (a b : A) : Some a = Some b -> a = b.
Proof. congruence. Qed.

Lemma le32_length w : length (le32 w) = 4%nat.  Proof. reflexivity. Qed.
Lemma be32_length w : length (be32 w) = 4%nat.  Proof. reflexivity. Qed.
Lemma le16_length w : length (le16 w) = 2%nat.  Proof. reflexivity. Qed.
Lemma le64_length w : length (le64 w) = 8%nat.  Proof. reflexivity. Qed.

Lemma le32_bytes w : bytes_ok (le32 w).
Proof. unfold bytes_ok, le32, is_byte. repeat constructor; apply N.mod_lt; discriminate. Qed.

Lemma le16_bytes w : bytes_ok (le16 w).
Proof. unfold bytes_ok, le16, is_byte. repeat constructor; apply N.mod_lt; discriminate. Qed.

Lemma de_le32_le32 w : word32 w -> de_le32 (le32 w) = Some w.
Proof. unfold word32, de_le32, le32. intros H. f_equal. lia. Qed.

Lemma de_be32_be32 w : word32 w -> de_be32 (be32 w) = Some w.
Proof. unfold de_be32, be32. rewrite rev_involutive. apply de_le32_le32. Qed.

Lemma de_le16_le16 w : word16 w -> de_le16 (le16 w) = Some w.
Proof. unfold word16, de_le16, le16. intros H. f_equal. lia. Qed.

Lemma le32_de_le32 a b c d :
  is_byte a -> is_byte b -> is_byte c -> is_byte d ->
  le32 (a + 256 * b + 65536 * c + 16777216 * d) = [a; b; c; d].
Proof. unfold is_byte, le32. intros. repeat f_equal; lia. Qed.

Lemma de_le32_word32 l w : bytes_ok l -> de_le32 l = Some w -> word32 w.
Proof.
  unfold de_le32, word32. destruct l as [|a [|b [|c [|d [|? ?]]]]]; try discriminate.
  intros H E. apply some_inj in E. subst w. unfold bytes_ok in H.
  repeat rewrite Forall_cons_iff in H. unfold is_byte in *. lia.
Qed.

Lemma le32_of_de_le32 l w : bytes_ok l -> de_le32 l = Some w -> le32 w = l.
Proof.
  unfold de_le32. destruct l as [|a [|b [|c [|d [|? ?]]]]]; try discriminate.
  intros H E. apply some_inj in E. subst w. unfold bytes_ok in H.
  repeat rewrite Forall_cons_iff in H. apply le32_de_le32; tauto.
Qed.

Lemma take_app {A} (a b : list A) : take (length a) (a ++ b) = Some (a, b).
Proof. induction a as [|x a IH]; simpl; [reflexivity|]. rewrite IH. reflexivity. Qed.

Lemma take_spec {A} n (l a r : list A) : take n l = Some (a, r) -> l = a ++ r /\ length a = n.
Proof.
  revert l a r. induction n as [|n IH]; intros l a r; simpl.
  - intros E; inversion E; subst; auto.
  - destruct l as [|x xs]; [discriminate|].
    destruct (take n xs) as [[a' r']|] eqn:E'; [|discriminate].
    intros E; inversion E; subst. apply IH in E'. destruct E' as [-> <-]. auto.
Qed.

Lemma take_none {A} n (l : list A) : take n l = None <-> (length l < n)%nat.
Proof.
  revert l. induction n as [|n IH]; intros l; simpl.
  - split; [discriminate|lia].
  - destruct l as [|x xs]; simpl; [split; [lia|reflexivity]|].
    destruct (take n xs) as [[a r]|] eqn:E.
    + split; [discriminate|]. intros H. assert (length xs < n)%nat by lia.
      apply IH in H0. congruence.
    + split; [|reflexivity]. intros _. apply IH in E. lia.
Qed.

Lemma bytes_ok_app a b : bytes_ok (a ++ b) <-> bytes_ok a /\ bytes_ok b.
Proof. apply Forall_app. Qed.

Lemma bytes_okb_iff l : bytes_okb l = true <-> bytes_ok l.
Proof.
  unfold bytes_okb, bytes_ok. rewrite forallb_forall, Forall_forall.
  unfold is_byteb, is_byte. split; intros H x Hx; specialize (H x Hx); lia.
Qed.
