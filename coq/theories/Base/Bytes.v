(* Bytes and little/big-endian words: shared by the binary codecs (C04 C06 C07 C08 C14 C15). *)
From Coq Require Export List NArith ZArith Lia Bool.
From Coq Require Import ZifyN ZifyNat ZifyBool.
Export ListNotations.
Open Scope N_scope.

Ltac Zify.zify_post_hook ::= Z.div_mod_to_equations.

Definition byte := N.
Definition is_byte (b : N) : Prop := b < 256.
Definition is_byteb (b : N) : bool := b <? 256.
Definition bytes_ok (l : list N) : Prop := Forall is_byte l.
Definition bytes_okb (l : list N) : bool := forallb is_byteb l.

Definition le16 (w : N) : list N := [w mod 256; (w / 256) mod 256].
Definition le32 (w : N) : list N :=
  [w mod 256; (w / 256) mod 256; (w / 65536) mod 256; (w / 16777216) mod 256].
Definition be32 (w : N) : list N := rev (le32 w).
Definition le64 (w : N) : list N := le32 (w mod 4294967296) ++ le32 (w / 4294967296).
Definition be64 (w : N) : list N := rev (le64 w).

Definition de_le16 (l : list N) : option N :=
  match l with [a; b] => Some (a + 256 * b) | _ => None end.
Definition de_le32 (l : list N) : option N :=
  match l with [a; b; c; d] => Some (a + 256 * b + 65536 * c + 16777216 * d) | _ => None end.
Definition de_be32 (l : list N) : option N := de_le32 (rev l).
Definition de_le64 (l : list N) : option N :=
  match l with
  | [a; b; c; d; e; f; g; h] =>
      Some (a + 256 * b + 65536 * c + 16777216 * d
            + 4294967296 * (e + 256 * f + 65536 * g + 16777216 * h))
  | _ => None end.
Definition de_be64 (l : list N) : option N := de_le64 (rev l).

(* take exactly n elements or fail: the primitive every "read what the header promised" decoder is built on *)
Fixpoint take {A} (n : nat) (l : list A) : option (list A * list A) :=
  match n with
  | O => Some ([], l)
  | S n' => match l with
            | [] => None
            | x :: xs => match take n' xs with
                         | Some (a, r) => Some (x :: a, r)
                         | None => None end
            end
  end.

(* split a list into consecutive chunks of k; trailing partial chunk kept (callers check lengths) *)
Fixpoint chunks_fuel {A} (fuel k : nat) (l : list A) : list (list A) :=
  match fuel with
  | O => []
  | S f => match l with
           | [] => []
           | _ => firstn k l :: chunks_fuel f k (skipn k l)
           end
  end.
Definition chunks {A} (k : nat) (l : list A) : list (list A) := chunks_fuel (length l) k l.

Definition word32 (w : N) : Prop := w < 4294967296.
Definition word32b (w : N) : bool := w <? 4294967296.
Definition word16 (w : N) : Prop := w < 65536.

(* option monad *)
Definition bind {A B} (o : option A) (f : A -> option B) : option B :=
  match o with Some a => f a | None => None end.
Notation "'do' x <- o ; k" := (bind o (fun x => k))
  (at level 200, x name, o at level 100, k at level 200, right associativity).
Notation "'do' ' p <- o ; k" := (bind o (fun x => match x with p => k end))
  (at level 200, p pattern, o at level 100, k at level 200, right associativity).
