(* More byte/word lemmas (owner: C04/C08 builder): 64-bit words, skipn/take slices. *)
From PF Require Import Base.Bytes Base.BytesProofs.
From Coq Require Import ZifyN ZifyNat ZifyBool.
Open Scope N_scope.
Ltac Zify.zify_post_hook ::= Z.div_mod_to_equations.

Definition word64 (w : N) : Prop := w < 18446744073709551616.

Lemma le64_bytes w : bytes_ok (le64 w).
Proof. unfold le64. apply bytes_ok_app. split; apply le32_bytes. Qed.

Lemma de_le64_le64 w : word64 w -> de_le64 (le64 w) = Some w.
Proof.
  unfold word64, de_le64, le64, le32. cbn [app]. intros H. f_equal.
  assert (A : forall v, v < 4294967296 ->
            v mod 256 + 256 * ((v / 256) mod 256) + 65536 * ((v / 65536) mod 256) + 16777216 * ((v / 16777216) mod 256) = v)
    by (intros v Hv; lia).
  rewrite (A (w mod 4294967296)) by (apply N.mod_lt; discriminate).
  rewrite (A (w / 4294967296)) by lia.
  lia.
Qed.

Lemma de_be64_be64 w : word64 w -> de_be64 (be64 w) = Some w.
Proof. unfold de_be64, be64. rewrite rev_involutive. apply de_le64_le64. Qed.

Lemma skipn_app_length {A} (a b : list A) : skipn (length a) (a ++ b) = b.
Proof. induction a; simpl; auto. Qed.

Lemma take_app_exact {A} (a b : list A) n : n = length a -> take n (a ++ b) = Some (a, b).
Proof. intros ->. apply take_app. Qed.
