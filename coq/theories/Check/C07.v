(* C07 correspondence: cases written by harness/cmd/c07 are evaluated here by vm_compute. *)
From PF Require Export Base.Bytes Formats.Stl Check.Common.
Open Scope N_scope.

Inductive case :=
| CMesh (idx : list nat) (pos : option (list vec)) (fns : list vec)
        (impl_bytes : list N) (impl_read : option rmesh)
| CBytes (input : list N) (impl_out : option (list N))
| CRead (input : list N) (impl_read : option rmesh).

Definition bytes_eqb := list_eqb N.eqb.

(* model vs implementation *)
Definition corr_ok (c : case) : bool :=
  match c with
  | CMesh idx pos fns ib ir =>
      opt_eqb bytes_eqb (write_mesh idx pos fns) (Some ib) && opt_eqb rmesh_eqb (read_mesh ib) ir
  | CBytes input out =>
      opt_eqb bytes_eqb (match read input with Some (h, ts) => Some (write h ts) | None => None end) out
  | CRead input ir => opt_eqb rmesh_eqb (read_mesh input) ir
  end.

(* the property itself, evaluated on what the implementation returned (direct oracle) *)
Definition prop_ok (c : case) : bool :=
  match c with
  | CMesh idx pos fns ib ir =>
      let n := match pos with Some _ => (length idx / 3)%nat | None => O end in
      Nat.eqb (length ib) (84 + 50 * n) &&
      match ir, pos with
      | Some m, Some p =>
          let k := (3 * n)%nat in
          Nat.eqb (r_nverts m) k &&
          (Nat.eqb n 0 || (list_eqb Nat.eqb (r_idx m) (seq 0 k)
                           && list_eqb vec_eqb (r_pos m) (map (fun i => nth i p vzero) (firstn k idx))))
      | Some m, None => Nat.eqb (r_nverts m) 0
      | None, _ => false
      end
  | CBytes input out =>
      (* well-formed input of exact length: Write (Read b) = b *)
      match out with Some o => bytes_eqb o input | None => false end
  | CRead input ir =>
      (* complete file: 3n vertices with identity indices; truncated file: rejected *)
      match de_le32 (firstn 4 (skipn 80 input)) with
      | Some n => if (N.of_nat (length input) <? 84 + 50 * n)
                  then match ir with None => true | Some _ => false end
                  else match ir with
                       | Some m => (r_nverts m =? N.to_nat (3 * n))%nat && list_eqb Nat.eqb (r_idx m) (seq 0 (N.to_nat (3 * n)))
                       | None => false end
      | None => match ir with None => true | Some _ => false end
      end
  end.
