(* C07 correspondence: cases written by harness/cmd/c07 are evaluated here by vm_compute.

   Small cases (CMesh / CBytes / CRead) carry every byte and are compared list against list.
   Large cases (CBigFile / CBigMesh: up to ~20000 records, around the reader's chunk size and powers of two)
   carry only the parameters of a synthetic input — both sides derive the same records from (n, seed, ...) —
   and order-sensitive fingerprints (two polynomial hashes modulo 2^63 over Coq's machine integers) of what the
   implementation returned; the fingerprints of the expected lists are computed here. *)
From PF Require Export Base.Bytes Formats.Stl Formats.StlNormal Formats.StlIo Check.Common.
From Coq Require Import Uint63.
Open Scope N_scope.

(* what stl.ReadMesh returned on a large input: counts + fingerprints *)
Record bigmesh := { b_nverts : N; b_nidx : N; b_idx_fp : Z * Z; b_pos_fp : Z * Z; b_nrm_fp : option (Z * Z) }.

Inductive case :=
(* nrm: the vertex normals as integer triples (common power-of-two scale dropped; None: the mesh has no Normal
   attribute, or its normals are not handed over exactly and the harness judges the value with a tolerance) *)
| CMesh (idx : list nat) (pos : option (list vec)) (nrm : option (list zvec)) (fns : list vec)
        (impl_bytes : list N) (impl_read : option rmesh)
(* stl.Write / stl.WriteMesh of a file of [total] bytes into a writer that accepts [cap] bytes and then fails:
   did the call report an error? *)
| CWriteFail (total cap : N) (reported : bool)
| CBytes (input : list N) (impl_out : option (list N))
| CRead (input : list N) (impl_read : option rmesh)
(* synthetic file of n records (zn: all stored normals zero), followed by [extra] trailing bytes or cut short by
   [cut] bytes; in_fp: fingerprint of the uncut bytes the harness built (generator agreement);
   rd: stl.Read -> (number of records, fp of header bytes ++ 13 words per record);
   wr: stl.Write (stl.Read input) -> (number of bytes, fp of the bytes); rm: stl.ReadMesh input *)
| CBigFile (n seed : N) (zn : bool) (extra cut : N) (in_fp : Z * Z)
           (rd : option (N * (Z * Z))) (wr : option (N * (Z * Z))) (rm : option bigmesh)
(* synthetic mesh: nv vertices, 3n + part indices, index j = (a*j + b*(j/3) + c) mod nv, every vertex normal the
   axis direction ndir (None: no Normal attribute);
   wr: stl.WriteMesh -> (number of bytes, fp of the bytes); rm: stl.ReadMesh of those bytes *)
| CBigMesh (n nv a b c part seed : N) (ndir : option N)
           (wr : option (N * (Z * Z))) (rm : option bigmesh).

Definition bytes_eqb := list_eqb N.eqb.

(* ---------- fingerprints ---------- *)
Definition int_of_N (n : N) : int := match n with N0 => 0%uint63 | Npos p => of_pos p end.
Definition fp0 : int * int := (0, 0)%uint63.
Definition fp_step (h : int * int) (x : N) : int * int :=
  let '(h1, h2) := h in
  let v := (int_of_N x + 1)%uint63 in
  ((h1 * 1000003 + v)%uint63, (h2 * 998244353 + v)%uint63).
Definition fp_list (h : int * int) (l : list N) : int * int := fold_left fp_step l h.
Definition fp_out (h : int * int) : Z * Z := (to_Z (fst h), to_Z (snd h)).
Definition fp_eqb (a b : Z * Z) : bool := (fst a =? fst b)%Z && (snd a =? snd b)%Z.
Definition fp (l : list N) : Z * Z := fp_out (fp_list fp0 l).

Definition vec_words (v : vec) : list N := let '(x, y, z) := v in [x; y; z].
Definition tri_words (t : tri) : list N :=
  vec_words (tn t) ++ vec_words (ta t) ++ vec_words (tb t) ++ vec_words (tc t) ++ [tattr t].

(* le32 / rec50 with shifts and masks instead of N division (20x faster under vm_compute);
   StlBigProofs.rec50f_eq: rec50f t = rec50 t *)
Definition le32f (w : N) : list N :=
  [N.land w 255; N.land (N.shiftr w 8) 255; N.land (N.shiftr w 16) 255; N.land (N.shiftr w 24) 255].
Definition le16f (w : N) : list N := [N.land w 255; N.land (N.shiftr w 8) 255].
Definition vec12f (v : vec) : list N := let '(x, y, z) := v in le32f x ++ le32f y ++ le32f z.
Definition rec50f (t : tri) : list N :=
  vec12f (tn t) ++ vec12f (ta t) ++ vec12f (tb t) ++ vec12f (tc t) ++ le16f (tattr t).

(* streamed: never materialises the byte list of a large file.
   StlBigProofs.fp_file_spec: fp_file hdr ts extra = fp (write hdr ts ++ extra) *)
Definition fp_recs (h : int * int) (ts : list tri) : int * int := fold_left (fun h t => fp_list h (rec50f t)) ts h.
Definition fp_file (hdr : list N) (ts : list tri) (extra : list N) : Z * Z :=
  fp_out (fp_list (fp_recs (fp_list (fp_list fp0 hdr) (le32f (N.of_nat (length ts)))) ts) extra).
(* [write] through the fast encoders; StlBigProofs.writef_eq: writef hdr ts = write hdr ts *)
Definition writef (hdr : list N) (ts : list tri) : list N :=
  hdr ++ le32f (N.of_nat (length ts)) ++ flat_map rec50f ts.
Definition fp_records (hdr : list N) (ts : list tri) : Z * Z :=
  fp_out (fold_left (fun h t => fp_list h (tri_words t)) ts (fp_list fp0 hdr)).
Definition fp_vecs (vs : list vec) : Z * Z := fp_out (fold_left (fun h v => fp_list h (vec_words v)) vs fp0).

(* ---------- synthetic inputs (the harness computes the same in uint64 arithmetic) ---------- *)

(* a finite, normal, non-zero float32 bit pattern: sign | exponent 120..135 | 23 mantissa bits, all simple
   functions of v = 13 i + k + seed (shifts and masks only: N division is slow under vm_compute) *)
Definition synth_word (seed i k : N) : N :=
  let v := 13 * i + k + seed in
  let mant := N.land (5 * v + N.shiftl v 9 + N.shiftl (N.land v 127) 16) 8388607 in
  let ex := 120 + N.land (v + N.shiftr v 5) 15 in
  let sg := N.land (N.shiftr v 2) 1 in
  N.shiftl sg 31 + N.shiftl ex 23 + mant.
Definition synth_vec (seed v : N) : vec := (synth_word seed v 0, synth_word seed v 1, synth_word seed v 2).
Definition synth_tri (seed : N) (zn : bool) (i : N) : tri :=
  {| tn := if zn then (if N.land i 1 =? 0 then vzero else (2147483648, 0, 2147483648)) else synth_vec seed (4 * i);
     ta := synth_vec seed (4 * i + 1); tb := synth_vec seed (4 * i + 2); tc := synth_vec seed (4 * i + 3);
     tattr := N.land (7 * i + seed) 65535 |}.
Definition synth_tris (seed : N) (zn : bool) (n : N) : list tri := map (synth_tri seed zn) (iotaN (N.to_nat n) 0).
Definition synth_hdr (seed : N) : list N := map (fun j => N.land (j * 11 + seed) 255) (iotaN 80 0).
Definition synth_extra (seed k : N) : list N := map (fun j => N.land (j * 37 + seed) 255) (iotaN (N.to_nat k) 0).

Definition idxf (nv a b c j : N) : N := (a * j + b * (j / 3) + c) mod nv.
(* +-x, +-y, +-z as float32 words: the facet normal of a triangle whose three corner normals are that axis *)
Definition axis (d : N) : vec :=
  let one := 1065353216 in let mone := 3212836864 in
  match d with
  | 0 => (one, 0, 0) | 1 => (mone, 0, 0) | 2 => (0, one, 0) | 3 => (0, mone, 0) | 4 => (0, 0, one) | _ => (0, 0, mone)
  end.
Definition mesh_fn (ndir : option N) : vec := match ndir with Some d => axis d | None => vzero end.
(* vertex v of a large mesh carries the normal  vsign v * (odd magnitude) * 2^(seed mod 3)  along axis ndir: the sum
   of three odd numbers is never zero, so the facet normal of a triangle is exactly + or - that axis, by the sign
   of the sum over its three corners — it varies from triangle to triangle with no power-of-two period *)
Definition vnum (seed v : N) : Z :=
  let mag := Z.of_N (2 * N.land (v / 3 + seed) 3 + 1) in
  let h := v mod 7 + 2 * (v mod 11) + v / 1000 + seed in
  if N.land h 1 =? 0 then mag else (- mag)%Z.
Definition mesh_fn_at (ndir : option N) (seed nv a b c : N) (t : N) : vec :=
  match ndir with
  | None => vzero
  | Some d =>
      let s := (vnum seed (idxf nv a b c (3 * t)) + vnum seed (idxf nv a b c (3 * t + 1))
                + vnum seed (idxf nv a b c (3 * t + 2)))%Z in
      if (0 <? s)%Z then axis d else axis (N.lxor d 1)
  end.

(* ---------- expected observables of a large ReadMesh result, from the records it should be made of ---------- *)
Definition triple {A} (x : A) : list A := [x; x; x].
Definition bigmesh_matches (ts : list tri) (m : bigmesh) : bool :=
  let n := N.of_nat (length ts) in
  (b_nverts m =? 3 * n) && (b_nidx m =? 3 * n)
  && fp_eqb (b_idx_fp m) (fp (iotaN (3 * length ts) 0))
  && fp_eqb (b_pos_fp m) (fp_vecs (flat_map (fun t => [ta t; tb t; tc t]) ts))
  && opt_eqb fp_eqb (b_nrm_fp m)
       (if existsb (fun t => negb (vec_zero (tn t))) ts
        then Some (fp_vecs (flat_map (fun t => triple (tn t)) ts)) else None).

Definition opt_none {A} (o : option A) : bool := match o with None => true | Some _ => false end.
Definition opt_all {A} (f : A -> bool) (o : option A) : bool := match o with None => false | Some x => f x end.
Definition opt_any {A} (f : A -> bool) (o : option A) : bool := match o with None => true | Some x => f x end.

(* number of records a byte string announces *)
Definition announced (input : list N) : option N := de_le32 (firstn 4 (skipn 80 input)).

(* records of a large synthetic mesh, as the property describes them: corner j is vertex idxf j *)
Definition bigmesh_tris (n nv a b c seed : N) (ndir : option N) : list tri :=
  tris_from (N.to_nat n) 0 (mesh_fn_at ndir seed nv a b c) (fun j => synth_vec seed (idxf nv a b c j)).

(* the model is executed on the materialised bytes of a large file up to this many records; beyond, the
   model's answer is taken from the theorems read_write_trailing / read_prefix_rejected (StlProofs) *)
Definition exec_limit : N := 4200.

(* ---------- signalling NaNs ----------
   encoding/binary decodes a float32 struct field as float32 -> float64 -> float32 (reflection path), and
   stl.ReadMesh widens to float64: both set the quiet bit (bit 22) of a signalling NaN and leave every other
   pattern (incl. quiet NaN payloads, infinities, -0, subnormals) alone.  The model of Formats/Stl.v is
   bit-transparent; words are compared modulo this canonicalisation (finding F1 in notes/C07.md). *)
Definition quiet (w : N) : N :=
  if (N.land (N.shiftr w 23) 255 =? 255) && negb (N.land w 8388607 =? 0) && (N.land (N.shiftr w 22) 1 =? 0)
  then w + 4194304 else w.
Definition quiet_vec (v : vec) : vec := let '(x, y, z) := v in (quiet x, quiet y, quiet z).
Definition quiet_tri (t : tri) : tri :=
  {| tn := quiet_vec (tn t); ta := quiet_vec (ta t); tb := quiet_vec (tb t); tc := quiet_vec (tc t); tattr := tattr t |}.
Definition quiet_nrm (x : nrm) : nrm := match x with Stored v => Stored (quiet_vec v) | Flat => Flat end.
Definition quiet_rmesh (m : rmesh) : rmesh :=
  {| r_nverts := r_nverts m; r_idx := r_idx m; r_pos := map quiet_vec (r_pos m);
     r_nrm := option_map (map quiet_nrm) (r_nrm m) |}.
(* the same on the bytes of a file, without the record parser: third byte of each of the 12 float words of every
   50-byte record after the 84-byte preamble *)
Definition quiet_b2 (b0 b1 b2 b3 : N) : N :=
  if (N.land b3 127 =? 127) && (N.land b2 192 =? 128) && negb ((N.land b2 63 =? 0) && (b1 =? 0) && (b0 =? 0))
  then b2 + 64 else b2.
Fixpoint quiet_words (k : nat) (l : list N) : list N :=
  match k with
  | O => l
  | S k' => match l with
            | b0 :: b1 :: b2 :: b3 :: r => b0 :: b1 :: quiet_b2 b0 b1 b2 b3 :: b3 :: quiet_words k' r
            | _ => l
            end
  end.
Fixpoint quiet_recs (fuel : nat) (l : list N) : list N :=
  match fuel with
  | O => l
  | S f => match l with
           | [] => []
           | _ => quiet_words 12 (firstn 50 l) ++ quiet_recs f (skipn 50 l)
           end
  end.
Definition quiet_file (l : list N) : list N := firstn 84 l ++ quiet_recs (length l) (skipn 84 l).

(* ---------- independent look at a file: little-endian word at a byte offset (no record parser) ---------- *)
Definition word_at (l : list N) (off : nat) : N :=
  match skipn off l with
  | b0 :: b1 :: b2 :: b3 :: _ => b0 + 256 * b1 + 65536 * b2 + 16777216 * b3
  | _ => 0
  end.
Definition vec_at (l : list N) (off : nat) : vec := (word_at l off, word_at l (off + 4), word_at l (off + 8)).
(* corner positions and per-corner normals of the n records of a file, by offsets *)
Definition file_pos (l : list N) (n : nat) : list vec :=
  flat_map (fun t => [vec_at l (96 + 50 * t); vec_at l (108 + 50 * t); vec_at l (120 + 50 * t)]) (seq 0 n).
Definition file_nrm (l : list N) (n : nat) : option (list nrm) :=
  let ns := map (fun t => vec_at l (84 + 50 * t)) (seq 0 n) in
  if existsb (fun v => negb (vec_zero v)) ns then Some (flat_map (fun v => triple (vec_nrm v)) ns) else None.

(* ---------- model vs implementation ---------- *)
Definition corr_ok (c : case) : bool :=
  match c with
  | CMesh idx pos nrm fns ib ir =>
      opt_eqb bytes_eqb (write_mesh idx pos fns) (Some ib) && opt_eqb rmesh_eqb (read_mesh ib) ir
      (* the facet-normal words handed to the model are the normalised means of the corner normals *)
      && match nrm with Some nz => mesh_normals_ok idx nz fns | None => true end
  | CWriteFail total cap reported =>
      Bool.eqb reported (snd (write_to (N.to_nat cap) (repeat 0 (N.to_nat total))))
  | CBytes input out =>
      opt_eqb bytes_eqb (match read_chunked stl_chunk input with Some (h, ts) => Some (write h (map quiet_tri ts)) | None => None end) out
  | CRead input ir => opt_eqb rmesh_eqb (option_map quiet_rmesh (read_mesh input)) ir
  | CBigFile n seed zn extra cut in_fp rd wr rm =>
      let hdr := synth_hdr seed in
      let ts := synth_tris seed zn n in
      let ex := synth_extra seed extra in
      (* the harness built the same bytes; they are [write hdr ts ++ ex] with well-formed records *)
      fp_eqb in_fp (fp_file hdr ts ex) && forallb tri_okb ts &&
      (if n <=? exec_limit then
         (* the model (chunked reader, chunk 4096) is executed on the materialised bytes *)
         match read_chunked stl_chunk
                 (firstn (84 + 50 * N.to_nat n + N.to_nat extra - N.to_nat cut) (writef hdr ts ++ ex)) with
         | None => opt_none rd && opt_none wr && opt_none rm
         | Some (h, ts') =>
             opt_all (fun '(cnt, f) => (cnt =? N.of_nat (length ts')) && fp_eqb f (fp_records h ts')) rd
             && opt_all (fun '(len, f) => (len =? 84 + 50 * N.of_nat (length ts')) && fp_eqb f (fp_file h ts' [])) wr
             && opt_all (bigmesh_matches ts') rm
         end
       else
         (* beyond exec_limit the model is not executed: by StlProofs.big_file_model its answer on these bytes
            is Some (hdr, ts) (None when cut short), i.e. exactly what prop_ok compares the implementation with *)
         true)
  | CBigMesh n nv a b c part seed ndir wr rm =>
      (* StlProofs.big_mesh_model: gather_tris on the index list (map idxf) and position list (map synth_vec)
         yields bigmesh_tris; the bytes are [write zero_hdr] of them; what ReadMesh returns is judged by prop_ok *)
      let ts := bigmesh_tris n nv a b c seed ndir in
      opt_all (fun '(len, f) => (len =? 84 + 50 * n) && fp_eqb f (fp_file zero_hdr ts [])) wr
  end.

(* ---------- the property itself, evaluated on what the implementation returned (direct oracle) ---------- *)
Definition prop_ok (c : case) : bool :=
  match c with
  | CWriteFail total cap reported => Bool.eqb reported (cap <? total)
  | CMesh idx pos nrm fns ib ir =>
      let n := match pos with Some _ => (length idx / 3)%nat | None => O end in
      Nat.eqb (length ib) (84 + 50 * n) &&
      (* facet-normal VALUE, exactly: the three words at offset 84 + 50 t of the implementation's bytes are the
         float32 roundings of s / |s|, s = sum of the corner normals of triangle t (integer arithmetic, StlNormal.v);
         independently of that: the stored vector has unit length up to float32 rounding *)
      match nrm, pos with
      | Some nz, Some _ =>
          let stored := map (fun t => (word_at ib (84 + 50 * t), word_at ib (88 + 50 * t), word_at ib (92 + 50 * t))) (seq 0 n) in
          mesh_normals_ok idx nz stored && forallb unit_ok stored
      | _, _ => true
      end &&
      (* record layout, by the independent record parser [read] on the implementation's bytes: count field n,
         12 little-endian float words per record = the corner positions gathered through the index *)
      match pos with
      | Some p => opt_all (fun '(_, ts) => Nat.eqb (length ts) n &&
                             list_eqb vec_eqb (rm_pos ts) (map (fun i => nth i p vzero) (firstn (3 * n) idx))) (read ib)
      | None => opt_all (fun '(_, ts) => Nat.eqb (length ts) 0) (read ib)
      end &&
      match ir, pos with
      | Some m, Some p =>
          let k := (3 * n)%nat in
          Nat.eqb (r_nverts m) k &&
          (Nat.eqb n 0 || (list_eqb Nat.eqb (r_idx m) (seq 0 k)
                           && list_eqb vec_eqb (r_pos m) (map (fun i => nth i p vzero) (firstn k idx))
                           (* every corner carries the facet normal stored for its triangle (its value is judged
                              by the harness against the normalised mean); no normals stored: no Normal attribute *)
                           && opt_eqb (list_eqb nrm_eqb) (r_nrm m)
                                (if existsb (fun f => negb (vec_zero f)) fns
                                 then Some (flat_map (fun f => triple (vec_nrm f)) fns) else None)))
      | Some m, None => Nat.eqb (r_nverts m) 0
      | None, _ => false
      end
  | CBytes input out =>
      (* complete file: Write (Read b) = b (signalling NaNs quieted: F1); trailing bytes (not a well-formed file): if accepted, the announced
         records are reproduced; truncated: rejected *)
      match announced input with
      | Some n =>
          let want := 84 + 50 * n in
          let len := N.of_nat (length input) in
          if len <? want then opt_none out
          else if len =? want then opt_all (fun o => bytes_eqb o (quiet_file input)) out
          else opt_any (fun o => bytes_eqb o (quiet_file (firstn (N.to_nat want) input))) out
      | None => opt_none out
      end
  | CRead input ir =>
      (* complete file: 3n vertices with identity indices; truncated file: rejected *)
      match announced input with
      | Some n =>
          let len := N.of_nat (length input) in
          (* same n triangles in order: corner positions and stored facet normals are the words found at the record
             offsets of the (quieted: F1) input; Flat where the stored normal is +-0; no Normal attribute without one *)
          let q := quiet_file input in
          let ok := fun m => (r_nverts m =? N.to_nat (3 * n))%nat && list_eqb Nat.eqb (r_idx m) (seq 0 (N.to_nat (3 * n)))
                             && ((n =? 0) || (list_eqb vec_eqb (r_pos m) (file_pos q (N.to_nat n))
                                              && opt_eqb (list_eqb nrm_eqb) (r_nrm m) (file_nrm q (N.to_nat n)))) in
          if len <? 84 + 50 * n then opt_none ir
          else if len =? 84 + 50 * n then opt_all ok ir
          else opt_any ok ir     (* trailing bytes: not a well-formed file; if accepted, the announced records *)
      | None => match ir with None => true | Some _ => false end
      end
  | CBigFile n seed zn extra cut in_fp rd wr rm =>
      let hdr := synth_hdr seed in
      let ts := synth_tris seed zn n in
      (* same n records in order; the rewritten file is the 84 + 50 n bytes of header, count and records *)
      let rd_ok := fun '(cnt, f) => (cnt =? n) && fp_eqb f (fp_records hdr ts) in
      let wr_ok := fun '(len, f) => (len =? 84 + 50 * n) && fp_eqb f (fp_file hdr ts []) in
      let rm_ok := bigmesh_matches ts in
      (* the input has 84 + 50 n + extra - cut bytes: cut into the records: rejected; exactly the records: accepted *)
      if extra <? cut then opt_none rd && opt_none wr && opt_none rm
      else if extra =? cut then opt_all rd_ok rd && opt_all wr_ok wr && opt_all rm_ok rm
      else opt_any rd_ok rd && opt_any wr_ok wr && opt_any rm_ok rm
  | CBigMesh n nv a b c part seed ndir wr rm =>
      opt_all (fun '(len, _) => len =? 84 + 50 * n) wr
      && opt_all (bigmesh_matches (bigmesh_tris n nv a b c seed ndir)) rm
  end.
