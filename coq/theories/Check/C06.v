(* C06 correspondence: cases written by harness/cmd/c06 are evaluated here by vm_compute. *)
From PF Require Export Base.Bytes Formats.Gltf Check.Common.
From Coq Require String.
Import String.StringSyntax.
Delimit Scope string_scope with string.
Open Scope string_scope.
Open Scope list_scope.
Open Scope N_scope.

Inductive case :=
(* a scene and what an independent reader extracted from gltf.WriteBinary / gltf.WriteText output *)
| CScene (sc : scene) (glb : obs) (txt : obs)
(* component alignment of every accessor of a written document (own case: known finding gltf:unaligned-view) *)
| CAlign (views : list view) (accs : list accessor)
(* a scene both writers refused (error return) *)
| CReject (sc : scene) (glb_failed txt_failed : bool)
(* GLB container of a small scene, byte for byte: JSON chunk text, buffer, whole file *)
| CGlb (json bin file : list N).

Definition obs_matches (st : state) (o : obs) : bool :=
  summary_eqb (to_summary st) (o_sum o)
  && match o_payload o with
     | Some p => listN_eqb (firstn (N.to_nat (b_written (st_b st))) p) (buf st)
                 && forallb (N.eqb 0) (skipn (N.to_nat (b_written (st_b st))) p)
     | None => true end
  && match o_glb o with
     | Some g => glb_eqb g (glb_info_of (g_json_len g) (b_written (st_b st)))
                 && (o_bin_len o =? b_written (st_b st) + pad4 (b_written (st_b st)))
     | None => o_bin_len o =? b_written (st_b st)
     end.

(* model vs implementation *)
Definition corr_ok (c : case) : bool :=
  match c with
  | CScene sc glb txt =>
      negb (scene_rejected sc) && (let st := run sc in obs_matches st glb && obs_matches st txt)
  | CAlign vs accs => true
  | CReject sc g t => scene_rejected sc && g && t
  | CGlb json bin file =>
      listN_eqb (glb_frame json bin) file
      && match glb_parse file with
         | Some (j, b) => listN_eqb (firstn (length json) j) json
                          && match b with Some b' => listN_eqb (firstn (length bin) b') bin | None => Nat.eqb (length bin) 0 end
         | None => false end
  end.

(* the property itself, evaluated on what the implementation produced (direct oracle) *)
Definition prop_ok (c : case) : bool :=
  match c with
  | CScene sc glb txt => gltf_validb sc glb && gltf_validb sc txt
  | CAlign vs accs => aligned_ok vs accs
  | CReject sc g t =>
      (* refusing to write is allowed only for the documented invalid input: alphaCutoff without MASK *)
      g && t && existsb (fun mo => match mo_mat mo with Some pm => mat_invalid pm | None => false end) (sc_models sc)
  | CGlb json bin file =>
      match glb_parse file with
      | Some (j, b) => listN_eqb (firstn (length json) j) json
                       && forallb (N.eqb 32) (skipn (length json) j)
                       && match b with
                          | Some b' => listN_eqb (firstn (length bin) b') bin && forallb (N.eqb 0) (skipn (length bin) b')
                                       && negb (Nat.eqb (length bin) 0)
                          | None => Nat.eqb (length bin) 0 end
      | None => false end
  end.

(* diagnosis helpers (not used by the driver) *)
Definition why (c : case) : list string :=
  match c with
  | CScene sc glb txt => gltf_check sc glb ++ gltf_check sc txt
                         ++ summary_diff (to_summary (run sc)) (o_sum glb) ++ summary_diff (to_summary (run sc)) (o_sum txt)
  | _ => []
  end.
