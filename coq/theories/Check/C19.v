(* C19 — correspondence evaluator.  The GENERATED definitions (coq/gen/Sdf.v) are instantiated over Q and
   evaluated by vm_compute on the very inputs the Go harness gave to the real sdf constructors (every float64
   is a dyadic rational, passed exactly as mantissa * 2^exponent):
     corr_ok  translator validation — exact stream (dyadic inputs on which every Go operation is exact,
              square roots of perfect squares only): the Q value must EQUAL Go's result; float stream: the Q
              value (sqrt to 160 bits) must agree with Go's result within the tolerance the harness states
              (1e-9 relative);
     prop_ok  the property itself on the implementation's output, judged without the generated formulas:
              the sign of Go's value against a closed-form membership test of the shape (squared distances,
              no square roots except the cylinder's radial coordinate), set algebra for the operators,
              p - t for Translate; and |f p - f q| <= |p - q| (1 + 1e-9) on point pairs.                     *)
From Coq Require Import ZArith QArith Qabs List Bool.
From PF Require Export Geom.Vec Check.Common.
From PFGen Require Export Sdf SdfGeo.
Import ListNotations.

(* The same field Q as Geom/Vec.v's Q_carrier, with every result kept in lowest terms (Qred): the inputs are
   dyadic, so numerators and denominators stay small instead of doubling in size at every operation. *)
#[local] Instance Qr_carrier : Carrier Q | 0 := {|
  c0 := 0%Q; c1 := 1%Q;
  cadd := fun a b => Qred (a + b); cmul := fun a b => Qred (a * b); csub := fun a b => Qred (a - b);
  copp := Qopp; cdiv := fun a b => Qred (a / b);
  csqrt := Qsqrt; cabs := Qabs; cmax := Qmaxb; cmin := Qminb;
  csin := Qsin; ccos := Qcos; cpi := Qpi;
  cltb := Qltb; cleb := Qle_bool; ceqb := Qeq_bool;
  cofZ := inject_Z;
  cofQ := fun n d => Qred (Qmake n d)
|}.

(* m * 2^e *)
Definition fq (m e : Z) : Q :=
  if (0 <=? e)%Z then inject_Z (m * 2 ^ e) else Qmake m (Z.to_pos (2 ^ (- e))).
Arguments fq (m e)%Z.
Definition V (x y z : Q) : vec3 Q := mkV3 x y z.

Inductive shape :=
| SSphere (c : vec3 Q) (r : Q)
| SBox (c b : vec3 Q)
| SRBox (c b : vec3 Q) (r : Q)
| SLine (a b : vec3 Q) (r : Q)
| SPlane (pos n : vec3 Q) (h : Q)
| SRCyl (pos : vec3 Q) (rad th bh : Q)
| SRCone (a b : vec3 Q) (r1 r2 : Q)
| SUnion (l : list shape)
| SIntersect (l : list shape)
| SSubtract (a b : shape)
| STranslate (s : shape) (t : vec3 Q)
| SVLine (pts : list (vec3 Q * Q)).              (* sdf.VarryingThicknessLine: points with radii *)

(* the model: the generated functions at the carrier Q *)
Fixpoint eval (s : shape) : vec3 Q -> Q :=
  match s with
  | SSphere c r => Sphere c r
  | SBox c b => Box c b
  | SRBox c b r => RoundedBox c b r
  | SLine a b r => Line a b r
  | SPlane pos n h => Plane pos n h
  | SRCyl pos rad th bh => RoundedCylinder pos rad th bh
  | SRCone a b r1 r2 => RoundedCone a b r1 r2
  | SUnion l => Union (map eval l)
  | SIntersect l => Intersect (map eval l)
  | SSubtract a b => Subtract (eval a) (eval b)
  | STranslate s t => Translate (eval s) t
  | SVLine pts => VarryingThicknessLine (map (fun pr => mkLinePoint (fst pr) (snd pr)) pts)
  end.

(* ---- closed-form membership, independent of the generated formulas.  Lt inside, Eq on the surface, Gt outside *)
Definition qsq (x : Q) : Q := Qred (x * x).
Definition d2 (p c : vec3 Q) : Q := Qred (qsq (v3x p - v3x c) + qsq (v3y p - v3y c) + qsq (v3z p - v3z c)).
Definition qmax (a b : Q) : Q := if Qle_bool a b then b else a.
Definition qmin (a b : Q) : Q := if Qle_bool a b then a else b.
Definition qpos (a : Q) : Q := qmax a 0.
Definition cmp_max (a b : comparison) : comparison :=
  match a, b with Gt, _ | _, Gt => Gt | Eq, _ | _, Eq => Eq | _, _ => Lt end.
Definition cmp_min (a b : comparison) : comparison :=
  match a, b with Lt, _ | _, Lt => Lt | Eq, _ | _, Eq => Eq | _, _ => Gt end.
Definition cmp_opp (a : comparison) : comparison := match a with Lt => Gt | Gt => Lt | Eq => Eq end.

(* minimum over s in [0,1] of |p - (a + s (b-a))|^2 - (r1 + s (r2-r1))^2, compared with 0
   (all radii along the axis positive: the point is in one of the swept balls iff the minimum is negative) *)
Definition cone_side (a b : vec3 Q) (r1 r2 : Q) (p : vec3 Q) : comparison :=
  let dx := v3x b - v3x a in let dy := v3y b - v3y a in let dz := v3z b - v3z a in
  let wx := v3x p - v3x a in let wy := v3y p - v3y a in let wz := v3z p - v3z a in
  let dr := r2 - r1 in
  let A := Qred (dx * dx + dy * dy + dz * dz - dr * dr) in
  let B := Qred (- (2 # 1) * (wx * dx + wy * dy + wz * dz) - (2 # 1) * r1 * dr) in
  let C := Qred (wx * wx + wy * wy + wz * wz - r1 * r1) in
  let g0 := C in let g1 := A + B + C in
  let m := qmin g0 g1 in
  let m := if Qle_bool A 0 then m
           else let s := Qred (- B / ((2 # 1) * A)) in
                if Qle_bool s 0 || Qle_bool 1 s then m else qmin m (A * s * s + B * s + C) in
  m ?= 0.

(* polyline with radii: inside one of the rounded cones between consecutive points (no operator code involved) *)
Fixpoint vline_side (pts : list (vec3 Q * Q)) (p : vec3 Q) : comparison :=
  match pts with
  | u :: ((w :: _) as rest) => cmp_min (cone_side (fst u) (fst w) (snd u) (snd w) p) (vline_side rest p)
  | _ => Gt
  end.

Fixpoint side (s : shape) (p : vec3 Q) : comparison :=
  match s with
  | SSphere c r => d2 p c ?= qsq r
  | SBox c b =>
      cmp_max (Qabs (v3x p - v3x c) ?= v3x b / (2 # 1))
        (cmp_max (Qabs (v3y p - v3y c) ?= v3y b / (2 # 1)) (Qabs (v3z p - v3z c) ?= v3z b / (2 # 1)))
  | SRBox c b r =>
      qsq (qpos (Qabs (v3x p - v3x c) - v3x b / (2 # 1))) + qsq (qpos (Qabs (v3y p - v3y c) - v3y b / (2 # 1)))
        + qsq (qpos (Qabs (v3z p - v3z c) - v3z b / (2 # 1))) ?= qsq r
  | SLine a b r =>
      let dx := v3x b - v3x a in let dy := v3y b - v3y a in let dz := v3z b - v3z a in
      let l2 := Qred (dx * dx + dy * dy + dz * dz) in
      let t := Qred (((v3x p - v3x a) * dx + (v3y p - v3y a) * dy + (v3z p - v3z a) * dz) / l2) in
      let t := qmax 0 (qmin 1 t) in
      d2 p (V (v3x a + t * dx) (v3y a + t * dy) (v3z a + t * dz)) ?= qsq r
  | SPlane pos n h =>
      (v3x p - v3x pos) * v3x n + (v3y p - v3y pos) * v3y n + (v3z p - v3z pos) * v3z n + h ?= 0
  | SRCyl pos rad th bh =>
      let rho := Qsqrt (qsq (v3x p - v3x pos) + qsq (v3z p - v3z pos)) in
      qsq (qpos (rho - ((2 # 1) * rad - th))) + qsq (qpos (Qabs (v3y p - v3y pos) - bh)) ?= qsq th
  | SRCone a b r1 r2 => cone_side a b r1 r2 p
  | SUnion l => fold_right (fun x acc => cmp_min (side x p) acc) Gt l
  | SIntersect l => fold_right (fun x acc => cmp_max (side x p) acc) Lt l
  | SSubtract a b => cmp_max (side a p) (cmp_opp (side b p))
  | STranslate s t => side s (V (v3x p - v3x t) (v3y p - v3y t) (v3z p - v3z t))
  | SVLine pts => vline_side pts p
  end.

Inductive case :=
| CEval (exact : bool) (s : shape) (p : vec3 Q) (out tol : Q)   (* Go: out = shape(p) *)
| CPair (s : shape) (p q : vec3 Q) (fp fq' : Q)                  (* Go: fp = shape(p), fq' = shape(q) *)
| CPanics (op n : nat) (panicked : bool)   (* Go: Union (op 0) / Intersect (1) of n fields, VarryingThicknessLine (2) of n
                                             points panicked with its own message (true) or returned a field (false) *)
| CGo.                                                           (* judged by the harness only (float search) *)

(* the generated <f>_panics companions on n arbitrary operands *)
Definition model_panics (op n : nat) : bool :=
  match op with
  | 0%nat => Union_panics (repeat (Sphere (V 0 0 0) 1) n)
  | 1%nat => Intersect_panics (repeat (Sphere (V 0 0 0) 1) n)
  | _ => VarryingThicknessLine_panics (map (fun i => mkLinePoint (V (inject_Z (Z.of_nat i)) 0 0) 1) (seq 0 n))
  end.

Definition close (a b tol : Q) : bool := Qle_bool (Qabs (a - b)) tol.

Definition corr_ok (c : case) : bool :=
  match c with
  | CEval ex s p out tol => if ex then Qeq_bool (eval s p) out else close (eval s p) out tol
  | CPair _ _ _ _ _ => true
  | CPanics op n b => Bool.eqb (model_panics op n) b
  | CGo => true
  end.

Definition prop_ok (c : case) : bool :=
  match c with
  | CEval _ s p out tol =>
      (* within tol of the surface the float sign is not significant *)
      Qle_bool (Qabs out) tol ||
      match side s p with
      | Lt => negb (Qle_bool 0 out)
      | Gt => negb (Qle_bool out 0)
      | Eq => Qeq_bool out 0
      end
  | CPair s p q fp fq' =>
      (* |fp - fq| <= |p - q| (1 + 1e-9) + 1e-12, compared through squares *)
      let a := Qabs (fp - fq') - (1 # 1000000000000) in
      Qle_bool a 0 || Qle_bool (a * a) (d2 p q * qsq (1 + (1 # 1000000000)))
  | CPanics op n b =>
      (* the operators are defined on every non-empty operand list, the polyline on two or more points *)
      Bool.eqb b (match op with 0%nat | 1%nat => Nat.eqb n 0 | _ => Nat.ltb n 2 end)
  | CGo => true
  end.
