(* C02 correspondence: cases written by harness/cmd/c02 (via harness/meshgen) are evaluated here by vm_compute. *)
From PF Require Export Mesh.Pure Mesh.Case Check.Common.
(* corr_ok : model (Mesh/Pure.v step) = implementation, see Mesh/Case.v *)
(* the property itself on the implementation's output: every returned mesh is well-formed (wfb),
   a declared failure is allowed, a runtime crash is not *)
Definition prop_ok : case -> bool := prop_c02.
