(* C17 correspondence: cases written by harness/cmd/c17 are evaluated here by vm_compute.

   Numbers are exact rationals (every finite float64 is one): the harness prints each float64 the Go code
   consumed or produced as  m # 2^k.  The GENERATED definitions (coq/gen/{Mat,Quat,Trs,Aabb}.v) are
   instantiated at the executable carrier Q ([Q_carrier]) — the same constants the theorems are about.
     corr_ok : generated code on the inputs  ==  what the Go code returned   (translator validation;
               exactly when [tol] = 0, i.e. integer / dyadic inputs on which float64 arithmetic is exact,
               otherwise within the absolute tolerance [tol] the harness derived from the magnitudes)
     prop_ok : the law itself (hand-written specifications of Geom/AlgebraSpec.v only — entry accessor,
               row-by-column sums, Hamilton product, Laplace determinant, box membership) evaluated on the
               IMPLEMENTATION's outputs.  No generated function is called by prop_ok. *)
From Coq Require Export QArith.
From Coq Require Import ZArith Qabs List Bool.
From PF Require Export Geom.Vec Geom.AlgebraSpec Check.Common.
From PFGen Require Mat Quat Trs Aabb.
Import ListNotations.
Local Open Scope nat_scope.

Notation "a # b" := (Qmake a b) (at level 55, no associativity) : Q_scope.

(* ------------------------------------------------------------------ executable carrier
   Geom.Vec.Q_carrier with faster sin / cos: the prelude's Taylor sums keep exact rationals whose size grows
   by ~400 bits per term (gcd-bound, minutes per call); here 16 terms (|x| <= pi: remainder < 1e-20), every term and partial sum is truncated to
   72 binary digits (total error < 2^-64, far below the 1e-9 tolerance of the cases that use them).
   The generated definitions are carrier-generic, so this instance runs the very same constants. *)
Definition Qtr (q : Q) : Q := (Qnum q * 2 ^ 72 / Zpos (Qden q)) # (2 ^ 72).   (* 72 binary digits, no gcd *)
Fixpoint Qtaylor_t (fuel : nat) (x2 term : Q) (k : Z) (acc : Q) : Q :=
  match fuel with
  | O => acc
  | S f =>
      let t := Qtr (- term * x2 / inject_Z ((k + 1) * (k + 2))) in
      Qtaylor_t f x2 t (k + 2) (Qtr (acc + t))
  end.
Definition Qcos_t (x : Q) : Q := let x := Qtr x in Qtaylor_t 16 (Qtr (x * x)) 1 0 1.
Definition Qsin_t (x : Q) : Q := let x := Qtr x in Qtaylor_t 16 (Qtr (x * x)) x 1 x.
(* floor(sqrt(x * 4^72)) / 2^72: absolute error below 2^-72, no gcd *)
Definition Qsqrt_t (x : Q) : Q :=
  if (Qnum x <=? 0)%Z then 0%Q else Z.sqrt (Qnum x * 2 ^ 144 / Zpos (Qden x)) # (2 ^ 72).

(* a/d + b/d = (a+b)/d: sums of terms with a common denominator keep it (Qplus would square it); the harness
   prints the components of one vector / matrix over a common power of two, so sums of products stay small *)
Definition Qadd_s (x y : Q) : Q :=
  if Pos.eqb (Qden x) (Qden y) then (Qnum x + Qnum y) # Qden x else Qplus x y.
Definition Qsub_s (x y : Q) : Q :=
  if Pos.eqb (Qden x) (Qden y) then (Qnum x - Qnum y) # Qden x else Qminus x y.

Definition Qx_carrier : Carrier Q := {|
  c0 := 0%Q; c1 := 1%Q;
  cadd := Qadd_s; cmul := Qmult; csub := Qsub_s; copp := Qopp; cdiv := Qdiv;
  csqrt := Qsqrt_t; cabs := Qabs; cmax := Qmaxb; cmin := Qminb;
  csin := Qsin_t; ccos := Qcos_t; cpi := Qpi;
  cltb := Qltb; cleb := Qle_bool; ceqb := Qeq_bool;
  cofZ := inject_Z;
  cofQ := fun n d => Qmake n d
|}.
#[export] Existing Instance Qx_carrier | 0.

(* ------------------------------------------------------------------ conversions *)
Definition qn (l : list Q) (i : nat) : Q := nth i l 0%Q.
Definition v3_of (l : list Q) : vec3 Q := mkV3 (qn l 0) (qn l 1) (qn l 2).
Definition v3_to (v : vec3 Q) : list Q := [v3x v; v3y v; v3z v].
Definition mat_of_list (l : list Q) : Mat.Matrix4x4 Q := mat_of (fun i j => qn l (4 * i + j)).
Definition mat_to (m : Mat.Matrix4x4 Q) : list Q :=
  [get m 0 0; get m 0 1; get m 0 2; get m 0 3; get m 1 0; get m 1 1; get m 1 2; get m 1 3;
   get m 2 0; get m 2 1; get m 2 2; get m 2 3; get m 3 0; get m 3 1; get m 3 2; get m 3 3].
(* quaternions as [x; y; z; w] *)
Definition quat_of (l : list Q) : Quat.Quaternion Q := Quat.mkQuaternion (v3_of l) (qn l 3).
Definition quat_to (q : Quat.Quaternion Q) : list Q :=
  [v3x (Quat.Quaternion_v q); v3y (Quat.Quaternion_v q); v3z (Quat.Quaternion_v q); Quat.Quaternion_w q].
Definition box_of (c e : list Q) : Aabb.AABB Q := Aabb.mkAABB (v3_of c) (v3_of e).

(* ------------------------------------------------------------------ comparisons *)
Definition close (tol x y : Q) : bool := Qle_bool (Qabs (x - y)) tol.
Fixpoint closel (tol : Q) (a b : list Q) : bool :=
  match a, b with
  | [], [] => true
  | x :: a', y :: b' => close tol x y && closel tol a' b'
  | _, _ => false
  end.
Fixpoint closell (tol : Q) (a b : list (list Q)) : bool :=
  match a, b with
  | [], [] => true
  | x :: a', y :: b' => closel tol x y && closell tol a' b'
  | _, _ => false
  end.
Definition lenb (n : nat) (l : list Q) : bool := Nat.eqb (length l) n.
Fixpoint map2q (f : Q -> Q -> Q) (a b : list Q) : list Q :=
  match a, b with x :: a', y :: b' => f x y :: map2q f a' b' | _, _ => [] end.

(* ------------------------------------------------------------------ cases *)
Inductive case :=
(* a non-finite implementation result cannot be written as a rational: reported by the harness (GoFail) *)
| CSkip
(* Add and Multiply of two matrices (16 entries, row-major) *)
| CMat2 (tol : Q) (a b sum prod : list Q)
(* Determinant, Inverse (only meaningful when has_inv), MulPosition a v *)
| CMat1 (tol : Q) (a v : list Q) (det : Q) (has_inv : bool) (inv mp : list Q)
(* prod = Multiply q1 q2; r2 = Rotate q2 v; r12 = Rotate prod v; r1 = Rotate q1 r2 *)
| CQuat (tol : Q) (q1 q2 v prod r2 r12 r1 : list Q)
(* q = RotationTo a b; ra = Rotate q a; want: what a must be mapped to (b, or -a / a in the near-degenerate branches) *)
| CRotTo (tol : Q) (a b q ra want : list Q)
(* out = Normalize q (q non-zero, of any magnitude); tolq = tolerance scaled by |q| for the direction test *)
| CNorm (tol tolq : Q) (q out : list Q)
(* q = FromTheta theta axis; rv = Rotate q v; rax = Rotate q axis *)
| CTheta (tol : Q) (theta : Q) (axis v q rv rax : list Q)
(* out = trs.New(p, q, s).Transform(v); viaCtor = the same through Position/Scale/Rotation-only constructors when applicable *)
| CTrs (tol : Q) (p s q v out : list Q)
(* the single-purpose constructors and Translate: oP = Position(p).Transform(v), oS = Scale(s).Transform(v),
   oR = Rotation(q).Transform(v), oT = New(p,q,s).Translate(d).Transform(v) *)
| CTrsCtor (tol : Q) (p s q d v oP oS oR oT : list Q)
(* mesh-level: op 0 Rotate(q) | 1 Translate(p) | 2 Scale(s) | 3 ApplyTRS(p,q,s);
   out = Position of the transformed mesh, pointwise = the point function applied by the harness to each position *)
| CMesh (tol : Q) (op : nat) (p s q : list Q) (ps out pointwise : list (list Q)) (rest_same : bool)
(* box (c,e) grown by point pt -> (c2,e2); probes: points with the implementation's Contains on old and new box *)
| CBoxPt (tol : Q) (c e pt c2 e2 : list Q) (probes : list (list Q * (bool * bool))) (contains_pt : bool)
(* box (c,e) grown by box (bc,be) -> (c2,e2) *)
| CBoxBox (tol : Q) (c e bc be c2 e2 : list Q) (probes : list (list Q * (bool * (bool * bool))))
(* cp = ClosestPoint (c,e) v; inside = Contains (c,e) cp; probes: points of the box *)
| CClosest (tol : Q) (c e v cp : list Q) (inside : bool) (probes : list (list Q))
(* (c,e) = NewAABBFromPoints pts (at least one point); contains = the implementation's Contains on every point *)
| CBoxFrom (tol : Q) (pts : list (list Q)) (c e : list Q) (contains : list bool)
(* array-level entry points on LARGE arrays (size-dependent code paths: chunking, worker pools).  The harness ran
   the array-level function (op as in CMesh; which of Mesh.*, TRS.TransformArray/InPlace, Quaternion.RotateArray is in
   the case description) on n points and compared EVERY element with the scalar entry point in Go:
   mismatches = number of differing elements, len_ok = output length = n.  samples = (input point, array output)
   at a few indices (first, last, chunk boundaries, first mismatch) — evaluated here against the translated code:
   entry 1 = TRS.TransformArray, 2 = TRS.TransformInPlace, 3 = Quaternion.RotateArray run the GENERATED array function
   on the list of sampled inputs (it is element-wise, so a sub-list gives the same elements); entry 0 = mesh level
   (Mesh.ApplyTRS hands the Position array to TransformArray: generated; Rotate/Translate/Scale: hand-written mesh_map).
   fingerprint (round 4 follow-up): wsum = sum of the weights w_i = i mod 1024 + 1, sum_in = sum_i w_i * input_i,
   sum_out = sum_i w_i * output_i over ALL n elements (exact integers; empty lists when the parameters are not integers).
   Every entry point is affine per element, f v = L v + t, so  sum_out = f(sum_in) + (wsum - 1) t  — one evaluation. *)
| CBig (tol : Q) (op entry : nat) (n mismatches : N) (len_ok : bool) (p s q : list Q) (samples : list (list Q * list Q))
       (wsum : N) (sum_in sum_out : list Q)
(* NewAABBFromPoints on n distinct points (size ladder): lo / hi = componentwise min / max computed by the harness's own
   scan of all points, (c,e) = the box returned, all_in = every point passed the implementation's Contains and the
   harness's interval test, samples = some of the points incl. one attaining each of the six extremes *)
| CBigBox (tol : Q) (n : N) (lo hi c e : list Q) (all_in : bool) (samples : list (list Q))
(* the remaining exported AABB methods (round 4): mn mx sz vol = Min / Max / Size / Volume of box (c,e); inter = Intersects
   with box (oc,oe); (c3,e3) = the box after Expand(amount) *)
| CBoxMisc (tol : Q) (c e oc oe : list Q) (amount : Q) (mn mx sz : list Q) (vol : Q) (inter : bool) (c3 e3 : list Q)
(* m = MatFromDirs up forward offset (16 entries, row-major) *)
| CMatDirs (tol : Q) (up fwd off m : list Q).

(* the model of an array-level entry point (see CBig) *)
Definition array_model (op entry : nat) (p s q : list Q) (xs : list (vec3 Q)) : list (vec3 Q) :=
  let T := Trs.New (v3_of p) (quat_of q) (v3_of s) in
  match entry with
  | 1 => Trs.TRS_TransformArray T xs
  | 2 => Trs.TRS_TransformInPlace T xs
  | 3 => Quat.Quaternion_RotateArray (quat_of q) xs
  | _ => match op with
         | 0 => mesh_map (Quat.Quaternion_Rotate (quat_of q)) xs
         | 1 => mesh_map (fun x => v3_add x (v3_of p)) xs
         | 2 => mesh_map (fun x => v3_mult_by_vector x (v3_of s)) xs
         | _ => Trs.TRS_TransformArray T xs
         end
  end.

(* (wsum - 1) * t, t = the translation part of the per-element map (p for Translate / ApplyTRS, else 0) *)
Definition fp_shift (op : nat) (p : list Q) (wsum : N) : vec3 Q :=
  let k := (inject_Z (Z.of_N wsum) - 1)%Q in
  match op with
  | 0 | 2 => mkV3 0%Q 0%Q 0%Q
  | _ => mkV3 (k * qn p 0)%Q (k * qn p 1)%Q (k * qn p 2)%Q
  end.

(* ------------------------------------------------------------------ model vs implementation *)
Definition corr_ok (k : case) : bool :=
  match k with
  | CSkip => true
  | CMat2 tol a b sum prod =>
      let A := mat_of_list a in let B := mat_of_list b in
      closel tol (mat_to (Mat.Matrix4x4_Add A B)) sum && closel tol (mat_to (Mat.Matrix4x4_Multiply A B)) prod
  | CMat1 tol a v det has_inv inv mp =>
      let A := mat_of_list a in
      close tol (Mat.Matrix4x4_Determinant A) det &&
      (if has_inv then closel tol (mat_to (Mat.Matrix4x4_Inverse A)) inv else true) &&
      closel tol (v3_to (Mat.Matrix4x4_MulPosition A (v3_of v))) mp
  | CQuat tol q1 q2 v prod r2 r12 r1 =>
      let Q1 := quat_of q1 in let Q2 := quat_of q2 in let V := v3_of v in
      let P := Quat.Quaternion_Multiply Q1 Q2 in
      let R2 := Quat.Quaternion_Rotate Q2 V in
      closel tol (quat_to P) prod && closel tol (v3_to R2) r2 &&
      closel tol (v3_to (Quat.Quaternion_Rotate P V)) r12 && closel tol (v3_to (Quat.Quaternion_Rotate Q1 R2)) r1
  | CRotTo tol a b q ra want =>
      let Qm := Quat.RotationTo (v3_of a) (v3_of b) in
      closel tol (quat_to Qm) q && closel tol (v3_to (Quat.Quaternion_Rotate Qm (v3_of a))) ra
  | CNorm tol tolq q out => closel tol (quat_to (Quat.Quaternion_Normalize (quat_of q))) out
  | CTheta tol theta axis v q rv rax =>
      let Qm := Quat.FromTheta theta (v3_of axis) in
      closel tol (quat_to Qm) q && closel tol (v3_to (Quat.Quaternion_Rotate Qm (v3_of v))) rv
  | CTrs tol p s q v out =>
      closel tol (v3_to (Trs.TRS_Transform (Trs.New (v3_of p) (quat_of q) (v3_of s)) (v3_of v))) out
  | CTrsCtor tol p s q d v oP oS oR oT =>
      let V := v3_of v in
      closel tol (v3_to (Trs.TRS_Transform (Trs.Position (v3_of p)) V)) oP &&
      closel tol (v3_to (Trs.TRS_Transform (Trs.Scale (v3_of s)) V)) oS &&
      closel tol (v3_to (Trs.TRS_Transform (Trs.Rotation (quat_of q)) V)) oR &&
      closel tol (v3_to (Trs.TRS_Transform (Trs.TRS_Translate (Trs.New (v3_of p) (quat_of q) (v3_of s)) (v3_of d)) V)) oT
  | CMesh tol op p s q ps out pointwise rest_same =>
      closell tol (map v3_to (array_model op 0 p s q (map v3_of ps))) out
  | CBoxPt tol c e pt c2 e2 probes contains_pt =>
      let B := box_of c e in
      let B2 := Aabb.AABB_EncapsulatePoint B (v3_of pt) in
      closel tol (v3_to (Aabb.AABB_center B2)) c2 && closel tol (v3_to (Aabb.AABB_extents B2)) e2 &&
      (* Contains is a discrete answer: compared exactly on exact cases only *)
      (if Qeq_bool tol 0 then
         Bool.eqb (Aabb.AABB_Contains B2 (v3_of pt)) contains_pt &&
         forallb (fun pr => Bool.eqb (Aabb.AABB_Contains B (v3_of (fst pr))) (fst (snd pr)) &&
                            Bool.eqb (Aabb.AABB_Contains B2 (v3_of (fst pr))) (snd (snd pr))) probes
       else true)
  | CBoxBox tol c e bc be c2 e2 probes =>
      let B2 := Aabb.AABB_EncapsulateBounds (box_of c e) (box_of bc be) in
      closel tol (v3_to (Aabb.AABB_center B2)) c2 && closel tol (v3_to (Aabb.AABB_extents B2)) e2 &&
      (if Qeq_bool tol 0 then
         forallb (fun pr => Bool.eqb (Aabb.AABB_Contains B2 (v3_of (fst pr))) (snd (snd (snd pr)))) probes
       else true)
  | CClosest tol c e v cp inside probes =>
      closel tol (v3_to (Aabb.AABB_ClosestPoint (box_of c e) (v3_of v))) cp
  | CBoxFrom tol pts c e contains =>
      (* hand-written model of the loop (AlgebraSpec.box_from_points: componentwise min / max folds, then the TRANSLATED
         NewAABB(area/2 + min, area)) — the definition box_from_points_contains is proved about *)
      match map v3_of pts with
      | [] => true
      | p0 :: rest =>
          let B := box_from_points p0 rest in
          closel tol (v3_to (Aabb.AABB_center B)) c && closel tol (v3_to (Aabb.AABB_extents B)) e
      end
  | CBig tol op entry n mismatches len_ok p s q samples wsum sum_in sum_out =>
      closell tol (map v3_to (array_model op entry p s q (map (fun io => v3_of (fst io)) samples))) (map snd samples) &&
      match sum_in with
      | [] => true
      | _ => closell tol (map (fun fx => v3_to (v3_add fx (fp_shift op p wsum))) (array_model op entry p s q [v3_of sum_in])) [sum_out]
      end
  | CBigBox tol n lo hi c e all_in samples =>
      let B := box_from_points (v3_of lo) [v3_of hi] in
      closel tol (v3_to (Aabb.AABB_center B)) c && closel tol (v3_to (Aabb.AABB_extents B)) e
  | CBoxMisc tol c e oc oe amount mn mx sz vol inter c3 e3 =>
      let B := box_of c e in
      let B3 := Aabb.AABB_Expand B amount in
      closel tol (v3_to (Aabb.AABB_Min B)) mn && closel tol (v3_to (Aabb.AABB_Max B)) mx &&
      closel tol (v3_to (Aabb.AABB_Size B)) sz && close tol (Aabb.AABB_Volume B) vol &&
      closel tol (v3_to (Aabb.AABB_center B3)) c3 && closel tol (v3_to (Aabb.AABB_extents B3)) e3 &&
      (if Qeq_bool tol 0 then Bool.eqb (Aabb.AABB_Intersects B (box_of oc oe)) inter else true)
  | CMatDirs tol up fwd off m =>
      closel tol (mat_to (Mat.MatFromDirs (v3_of up) (v3_of fwd) (v3_of off))) m
  end.

(* ------------------------------------------------------------------ the property on the implementation's output *)
Definition qdot (a b : list Q) : Q := (qn a 0 * qn b 0 + qn a 1 * qn b 1 + qn a 2 * qn b 2)%Q.
Definition qnorm2l (q : list Q) : Q := (qdot q q + qn q 3 * qn q 3)%Q.
Definition qdist2 (a b : list Q) : Q :=
  ((qn a 0 - qn b 0) * (qn a 0 - qn b 0) + (qn a 1 - qn b 1) * (qn a 1 - qn b 1) + (qn a 2 - qn b 2) * (qn a 2 - qn b 2))%Q.
(* p in [c - e - tol, c + e + tol] *)
Definition in_box_tol (tol : Q) (c e p : list Q) : bool :=
  forallb (fun i => Qle_bool (qn c i - qn e i - tol) (qn p i) && Qle_bool (qn p i) (qn c i + qn e i + tol))%Q [0; 1; 2].
Definition in_box_strict (tol : Q) (c e p : list Q) : bool :=
  forallb (fun i => Qle_bool (qn c i - qn e i + tol) (qn p i) && Qle_bool (qn p i) (qn c i + qn e i - tol))%Q [0; 1; 2].

Definition prop_ok (k : case) : bool :=
  match k with
  | CSkip => true
  | CMat2 tol a b sum prod =>
      let A := mat_of_list a in let B := mat_of_list b in
      lenb 16 sum && lenb 16 prod &&
      closel tol sum (mat_to (add_spec A B)) && closel tol prod (mat_to (mul_spec A B))
  | CMat1 tol a v det has_inv inv mp =>
      let A := mat_of_list a in
      close tol det (det_spec A) && lenb 3 mp && closel tol mp (v3_to (mulpos_spec A (v3_of v))) &&
      (if has_inv then
         lenb 16 inv &&
         closel tol (mat_to (mul_spec (mat_of_list inv) A)) (mat_to id_spec) &&
         closel tol (mat_to (mul_spec A (mat_of_list inv))) (mat_to id_spec)
       else true)
  | CQuat tol q1 q2 v prod r2 r12 r1 =>
      lenb 4 prod && lenb 3 r2 && lenb 3 r12 && lenb 3 r1 &&
      (* Hamilton product *)
      closel tol prod (quat_to (hamilton (quat_of q1) (quat_of q2))) &&
      (* q1*q2 rotates like q2 followed by q1 *)
      closel tol r12 r1 &&
      (* |Rotate q v|^2 = (|q|^2)^2 |v|^2 *)
      close tol (qdot r2 r2) (qnorm2l q2 * qnorm2l q2 * qdot v v)%Q &&
      (* sandwich product *)
      closel tol r2 (v3_to (rotate_spec (quat_of q2) (v3_of v)))
  | CRotTo tol a b q ra want =>
      lenb 4 q && lenb 3 ra && closel tol ra want && close tol (qnorm2l q) 1
  | CNorm tol tolq q out =>
      (* unit length, same direction: out_i q_j = out_j q_i and out . q > 0 *)
      lenb 4 out && close tol (qnorm2l out) 1 &&
      forallb (fun i => forallb (fun j => close tolq (qn out i * qn q j) (qn out j * qn q i))%Q [0; 1; 2; 3]) [0; 1; 2; 3] &&
      Qltb 0 (qdot out q + qn out 3 * qn q 3)%Q
  | CTheta tol theta axis v q rv rax =>
      lenb 4 q && lenb 3 rv && close tol (qnorm2l q) 1 && close tol (qdot rv rv) (qdot v v) && closel tol rax axis
  | CTrs tol p s q v out =>
      lenb 3 out && closel tol out (v3_to (trs_spec (v3_of p) (v3_of s) (quat_of q) (v3_of v)))
  | CTrsCtor tol p s q d v oP oS oR oT =>
      let V := v3_of v in
      lenb 3 oP && lenb 3 oS && lenb 3 oR && lenb 3 oT &&
      closel tol oP (v3_to (v3_add V (v3_of p))) &&
      closel tol oS (v3_to (v3_mult_by_vector (v3_of s) V)) &&
      closel tol oR (v3_to (rotate_spec (quat_of q) V)) &&
      closel tol oT (v3_to (v3_add (trs_spec (v3_of p) (v3_of s) (quat_of q) V) (v3_of d)))
  | CMesh tol op p s q ps out pointwise rest_same =>
      (* positions move exactly as the underlying transform moves points; nothing else changes *)
      Nat.eqb (length out) (length ps) && closell 0 out pointwise && rest_same
  | CBoxPt tol c e pt c2 e2 probes contains_pt =>
      in_box_tol tol c2 e2 pt &&
      (if Qeq_bool tol 0 then contains_pt else true) &&
      forallb (fun pr =>
        (* a point of the old box (by the specification, resp. by the implementation's own Contains) is in the new one *)
        implb (in_box_tol 0 c e (fst pr)) (in_box_tol tol c2 e2 (fst pr)) &&
        (* exact cases: the implementation's Contains IS membership in [centre - extents, centre + extents] *)
        (if Qeq_bool tol 0 then implb (fst (snd pr)) (snd (snd pr)) &&
                                Bool.eqb (fst (snd pr)) (in_box_tol 0 c e (fst pr)) &&
                                Bool.eqb (snd (snd pr)) (in_box_tol 0 c2 e2 (fst pr)) else true)) probes
  | CBoxBox tol c e bc be c2 e2 probes =>
      forallb (fun pr =>
        implb (in_box_tol 0 c e (fst pr) || in_box_tol 0 bc be (fst pr)) (in_box_tol tol c2 e2 (fst pr)) &&
        (if Qeq_bool tol 0 then implb (fst (snd pr) || fst (snd (snd pr))) (snd (snd (snd pr))) &&
                                Bool.eqb (fst (snd pr)) (in_box_tol 0 c e (fst pr)) &&
                                Bool.eqb (fst (snd (snd pr))) (in_box_tol 0 bc be (fst pr)) &&
                                Bool.eqb (snd (snd (snd pr))) (in_box_tol 0 c2 e2 (fst pr)) else true)) probes
  | CClosest tol c e v cp inside probes =>
      lenb 3 cp && in_box_tol tol c e cp && (if Qeq_bool tol 0 then inside else true) &&
      (if in_box_strict tol c e v then closel tol cp v else true) &&
      forallb (fun pr => implb (in_box_tol 0 c e pr) (Qle_bool (qdist2 v cp) (qdist2 v pr + tol))) probes
  | CBoxFrom tol pts c e contains =>
      lenb 3 c && lenb 3 e && negb (Nat.eqb (length pts) 0) &&
      (* every point is in the box (by the specification and by the implementation's own Contains) ... *)
      forallb (in_box_tol tol c e) pts &&
      (if Qeq_bool tol 0 then Nat.eqb (length contains) (length pts) && forallb (fun b => b) contains else true) &&
      (* ... and the box is tight: every face touches a point *)
      forallb (fun i => existsb (fun pt => close tol (qn pt i) (qn c i - qn e i)) pts &&
                        existsb (fun pt => close tol (qn pt i) (qn c i + qn e i)) pts)%Q [0; 1; 2]
  | CBig tol op entry n mismatches len_ok p s q samples wsum sum_in sum_out =>
      (* array-level = pointwise scalar entry point on every element, nothing dropped *)
      let f x := match op with
                 | 0 => rotate_spec (quat_of q) x
                 | 1 => v3_add x (v3_of p)
                 | 2 => v3_mult_by_vector x (v3_of s)
                 | _ => trs_spec (v3_of p) (v3_of s) (quat_of q) x
                 end in
      len_ok && N.eqb mismatches 0 &&
      forallb (fun io => closel tol (snd io) (v3_to (f (v3_of (fst io))))) samples &&
      (* weighted fingerprint over all n elements *)
      match sum_in with
      | [] => true
      | _ => closel tol sum_out (v3_to (v3_add (f (v3_of sum_in)) (fp_shift op p wsum)))
      end
  | CBigBox tol n lo hi c e all_in samples =>
      lenb 3 c && lenb 3 e && all_in &&
      (* the box is exactly [lo, hi] of the harness's scan, every sampled point is inside, every face touches a sample *)
      closel tol (map2q Qminus c e) lo && closel tol (map2q Qplus c e) hi &&
      forallb (in_box_tol tol c e) samples &&
      forallb (fun i => existsb (fun pt => close tol (qn pt i) (qn lo i)) samples &&
                        existsb (fun pt => close tol (qn pt i) (qn hi i)) samples) [0; 1; 2]
  | CBoxMisc tol c e oc oe amount mn mx sz vol inter c3 e3 =>
      lenb 3 mn && lenb 3 mx && lenb 3 sz && lenb 3 c3 && lenb 3 e3 &&
      (* Min = centre - extents, Max = centre + extents, Size = Max - Min, Volume = product of the sizes *)
      closel tol mn (map2q Qminus c e) && closel tol mx (map2q Qplus c e) && closel tol sz (map2q Qminus mx mn) &&
      close tol vol (qn sz 0 * qn sz 1 * qn sz 2)%Q &&
      (* Expand(amount) keeps the centre and moves every face outwards by amount/2 *)
      closel tol c3 c && closel tol e3 (map (fun x => x + amount * (1 # 2))%Q e) &&
      (* Intersects: the closed intervals overlap on every axis (exact cases) *)
      (if Qeq_bool tol 0 then
         Bool.eqb inter (forallb (fun i => Qle_bool (qn c i - qn e i) (qn oc i + qn oe i) &&
                                           Qle_bool (qn oc i - qn oe i) (qn c i + qn e i))%Q [0; 1; 2])
       else true)
  | CMatDirs tol up fwd off m =>
      (* an affine matrix (last row 0 0 0 1) whose translation column is the offset and whose second column is up;
         the first and third columns are unit vectors perpendicular to up *)
      lenb 16 m &&
      closel tol [qn m 12; qn m 13; qn m 14; qn m 15] [0; 0; 0; 1]%Q &&
      closel tol [qn m 3; qn m 7; qn m 11] off && closel tol [qn m 1; qn m 5; qn m 9] up &&
      (let col j := [qn m j; qn m (4 + j); qn m (8 + j)] in
       close tol (qdot (col 0) (col 0)) 1 && close tol (qdot (col 2) (col 2)) 1 &&
       close tol (qdot (col 0) up) 0 && close tol (qdot (col 2) up) 0 && close tol (qdot (col 0) (col 2)) 0)
  end.
