(* C04 correspondence: cases written by harness/cmd/c04 are evaluated here by vm_compute.
   One case = one mesh + one writer configuration, written by polyform in ASCII, little- and big-endian, each
   file tokenised by the harness' independent tokenizer and read back with ply.ReadMesh. *)
From PF Require Export Base.Bytes Formats.PlyRead Formats.PlyWrite Check.Common.
From Coq Require Import String.
Open Scope list_scope.
Open Scope N_scope.

Inductive outcome := OMesh (m : mesh) | ODeclared | OCrash | OHang.          (* what ply.ReadMesh did *)
Inductive wres := WFile (f : plyfile) | WDeclared | WCrash.                   (* what MeshWriter.Write did *)

(* large synthetic meshes (see the section at the end of the file): parameters and what the implementation did *)
Record bigp := { bp_tri : bool; bp_n : N; bp_nf : N; bp_mask : N; bp_seed : N; bp_unspec : bool }.
Record bigfile := { bf_header : list (list string); bf_len : N; bf_fp : Z * Z;
                    bf_vtoks : N * N; bf_ftoks : N * N (* min, max tokens per vertex / face line, ASCII *) }.
Inductive bigw := BFile (f : bigfile) | BWDeclared | BWCrash.
Inductive bigout := BMesh (tri : bool) (nidx : N) (idxfp : Z * Z) (nattrs : N) (attrfp : Z * Z) | BDeclared | BCrash | BHang.
Inductive case :=
| CW (o : wopts) (m : wmesh) (wa wl wb : wres) (oa ol ob : outcome)           (* ascii, little, big *)
(* the two binary encodings alone: emitted next to a CW case that carries a known-finding key (both known
   findings are ASCII-only), so that every other failure on such a mesh stays visible *)
| CWbin (o : wopts) (m : wmesh) (wl wb : wres) (ol ob : outcome)
| CBig (p : bigp) (wa wl wb : bigw) (oa ol ob : bigout).

(* ================= model vs implementation ================= *)
Definition tok_eqb (a b : tok) : bool :=
  match a, b with
  | TI z f, TI z' f' => Z.eqb z z' && (f =? f')
  | TF f, TF f' => f =? f'
  | TBad, TBad => true
  | _, _ => false
  end.
Definition body_eqb (a b : body) : bool :=
  match a, b with
  | BodyBin x, BodyBin y => list_eqb N.eqb x y
  | BodyAscii x, BodyAscii y => list_eqb (list_eqb tok_eqb) x y
  | _, _ => false
  end.
Definition file_matches (r : result plyfile) (w : wres) : bool :=
  match r, w with
  | Ok a, WFile b => list_eqb (list_eqb seqb) (pf_header a) (pf_header b) && body_eqb (pf_body a) (pf_body b)
  | Err EDeclared, WDeclared => true
  | Err ECrash, WCrash => true
  | Err EUnsupported, _ => true
  | _, _ => false
  end.
Definition outcome_matches (r : result mesh) (o : outcome) : bool :=
  match r, o with
  | Ok m, OMesh m' => mesh_eqb m m'
  | Err EEof, ODeclared | Err EDeclared, ODeclared => true
  | Err ECrash, OCrash => true
  | Err EUnsupported, _ => true
  | _, _ => false
  end.
Definition pw_eqb (a b : pw) : bool :=
  Nat.eqb (pw_dim a) (pw_dim b) && seqb (pw_attr a) (pw_attr b) && list_eqb seqb (pw_names a) (pw_names b) && sty_eqb (pw_ty a) (pw_ty b).
Definition is_default_table (o : wopts) : bool := list_eqb pw_eqb (o_writers o) default_writers.
(* (1) the writer model produces the implementation's file; (2) the reader model, run on that file, returns
   what ply.ReadMesh returned; (3) for ply.Write's table on a well-formed mesh, [expected] is what came back *)
Definition corr_one (o : wopts) (m : wmesh) (f : fmt) (w : wres) (out : outcome) : bool :=
  file_matches (write o f m) w
  && match w with WFile file => outcome_matches (read_mesh file) out | _ => true end
  && (if is_default_table o && wf_mesh m
         && negb (match f with ASCII => match effective_writers o m with [] => negb (Nat.eqb (w_n m) 0) | _ => false end | _ => false end)
      then outcome_matches (expected o m) out else true).
(* corr_ok: at the end of the file *)

(* ================= the property itself, on the implementation's output ================= *)
(* which attributes the configuration promises to carry: a property writer names it, or unspecified
   properties are written; texture coordinates of a triangle mesh always travel in the face element *)
Definition carried (o : wopts) (m : wmesh) (x : wattr) : bool :=
  claimed (o_writers o) (wa_dim x) (wa_name x) || o_unspec o
  || (is_attr 2 "TexCoord" x && match w_topo m with TTriangle => true | TPoint => false end).
Definition first_writer (o : wopts) (x : wattr) : option pw :=
  find (fun w => Nat.eqb (pw_dim w) (wa_dim x) && seqb (pw_attr w) (wa_name x)) (o_writers o).
(* where the reader puts properties with these names: a recognised group -> its attribute, else scalars *)
Definition group_for (names : list string) : option group :=
  find (fun g => list_eqb seqb (g_members g) names
                 || (g_ignorable_w g && list_eqb seqb (firstn 3 (g_members g)) names)) default_groups.
(* component j of vertex i of the located attribute, as float64 bits *)
Definition lookup (r : mesh) (d : nat) (a : string) (i j : nat) : option N :=
  do rows <- get_attr d a (m_attrs r); do row <- nth_error rows i; nth_error row j.
(* Where the reader puts a vertex property, judged from the header of the file itself ([ps]: the vertex properties the
   implementation declared): a property that is a member of a recognised group lands in that group's attribute, at its
   position, only when the group is complete and uniformly typed in the file (PlyRead.accepted: all members present with
   one type; colour groups also without their alpha); every other property is a scalar attribute under its own name. *)
Fixpoint name_index (n : string) (l : list string) (k : nat) : option nat :=
  match l with [] => None | x :: r => if seqb n x then Some k else name_index n r (S k) end.
Fixpoint locate_in (gs : list group) (ps : list (sty * string)) (n : string) : option (nat * string * nat) :=
  match gs with
  | [] => None
  | g :: rest =>
      match accepted g ps with
      | Some (names, _, _) =>
          match name_index n names 0 with
          | Some k => Some (List.length names, g_attr g, k)
          | None => locate_in rest ps n
          end
      | None => locate_in rest ps n
      end
  end.
Definition lookup_prop (ps : list (sty * string)) (r : mesh) (n : string) (i : nat) : option N :=
  match locate_in default_groups ps n with
  | Some (d, a, k) => lookup r d a i k
  | None => lookup r 1 n i 0
  end.
Definition read_component (ps : list (sty * string)) (o : wopts) (m : wmesh) (r : mesh) (x : wattr) (i j : nat) : option N * sty :=
  (* texture coordinates no writer names come back as the TexCoord attribute (face element of a triangle mesh;
     per vertex as s/t otherwise) *)
  if is_attr 2 "TexCoord" x
     && (negb (claimed (o_writers o) 2 "TexCoord")
         (* a triangle mesh with at least one face: whatever a writer stored per vertex, the reader takes the
            per-corner float list of the face element *)
         || (match w_topo m with TTriangle => negb (Nat.eqb (nprims m) 0) | TPoint => false end))
  then (lookup r 2 "TexCoord" i j, Float) else
  match first_writer o x with
  | Some w => (lookup_prop ps r (nth j (pw_names w) EmptyString) i, pw_ty w)
  | None => (lookup_prop ps r (nth j (unspec_names (wa_dim x) (wa_name x)) EmptyString) i, Float)
  end.
(* a read-back value against the original float32 word at the precision of the stored type *)
Fixpoint index_of (v : N) (l : list N) (k : N) : option N :=
  match l with [] => None | x :: r => if x =? v then Some k else index_of v r (N.succ k) end.
(* v is b/255 up to one unit in the last place (vector2.DivByConstant multiplies by the reciprocal, the other
   readers divide; positive float64 bit patterns are ordered like the values) *)
Fixpoint index_near (v : N) (l : list N) (k : N) : option N :=
  match l with [] => None | x :: r => if (x <=? v + 1) && (v <=? x + 1) then Some k else index_near v r (N.succ k) end.
Definition close255 (w v : N) : bool :=
  (* v = b/255 for a byte b with |b - 255 x| < 1, x the value of w (0 <= x <= 1) *)
  match index_near v div255_tab 0 with
  | None => false
  | Some b =>
      let e := (w / 2 ^ 23) mod 256 in let m := w mod 2 ^ 23 in
      if w mod 2 ^ 31 =? 0 then b =? 0
      else if e =? 0 then b =? 0
      else let num := (2 ^ 23 + m) * 255 in let sh := 150 - e in
           (b * 2 ^ sh <? num + 2 ^ sh) && (num <? b * 2 ^ sh + 2 ^ sh)
  end.
Definition value_ok (t : sty) (w : N) (v : option N) : bool :=
  match v with
  | None => false
  | Some f => match t with
              | UChar => close255 w f
              | _ => match as_f64 w with Some e => f =? e | None => false end     (* the value itself, as a float64 *)
              end
  end.
Definition corner_ok (ps : list (sty * string)) (o : wopts) (m : wmesh) (r : mesh) (i : nat) (i' : Z) : bool :=
  (0 <=? i')%Z &&
  forallb (fun x => negb (carried o m x) ||
             match nth_error (wa_rows x) i with
             | None => false
             | Some row => forallb (fun j => let '(v, t) := read_component ps o m r x (Z.to_nat i') j in value_ok t (nth j row 0) v)
                                   (seq 0 (wa_dim x))
             end) (w_attrs m).
Definition same_topo (m : wmesh) (r : mesh) : bool := topo_eqb (w_topo m) (m_topo r).
(* the vertex properties the written file declares (independent of the writer model) *)
Definition declared_props (w : wres) : list (sty * string) :=
  match w with
  | WFile file =>
      match parse_header (pf_header file) with
      | Ok h => match find_last_elem "vertex" (h_elems h) None with
                | Some ve => flat_map (fun p => match p with PScalar t n => [(t, n)] | PList _ _ _ => [] end) (e_props ve)
                | None => []
                end
      | Err _ => []
      end
  | _ => []
  end.
Definition roundtrip_okb (o : wopts) (m : wmesh) (w : wres) (out : outcome) : bool :=
  let ps := declared_props w in
  match out with
  | OMesh r =>
      same_topo m r && Nat.eqb (List.length (m_idx r)) (List.length (w_idx m))       (* topology, primitive count *)
      && forallb (fun '(i, i') => corner_ok ps o m r i i') (combine (w_idx m) (m_idx r))
  | _ => false
  end.
Definition outcomes_agree (a b : outcome) : bool :=
  match a, b with OMesh x, OMesh y => mesh_eqb x y | _, _ => false end.

(* the header describes the body that follows *)
Definition list_item_count (p : prop) : nat := if is_texcoord p then 6%nat else 3%nat.
Definition face_rec_size (ps : list prop) : nat :=
  fold_right (fun p acc => match p with PList ct lt _ => (sty_size ct + list_item_count p * sty_size lt + acc)%nat | _ => acc end) O ps.
Definition face_rec_toks (ps : list prop) : nat := fold_right (fun p acc => (1 + list_item_count p + acc)%nat) O ps.
Definition header_okb (m : wmesh) (f : fmt) (w : wres) : bool :=
  match w with
  | WFile file =>
      match parse_header (pf_header file) with
      | Ok h =>
          fmt_eqb (h_fmt h) f &&
          match find_last_elem "vertex" (h_elems h) None with
          | None => false
          | Some ve =>
              let fe := find_last_elem "face" (h_elems h) None in
              let fcount := match fe with Some e => Z.to_nat (e_count e) | None => O end in
              let fprops := match fe with Some e => e_props e | None => [] end in
              Z.eqb (e_count ve) (Z.of_nat (w_n m))
              && match w_topo m, fe with
                 | TTriangle, Some e => Z.eqb (e_count e) (Z.of_nat (nprims m))
                 | TPoint, None => true
                 | _, _ => false
                 end
              && match pf_body file with
                 | BodyBin bytes => Nat.eqb (List.length bytes) (w_n m * record_size (e_props ve) + fcount * face_rec_size fprops)
                 | BodyAscii lines =>
                     let nv := w_n m in
                     Nat.eqb (List.length lines) (nv + fcount)
                     && forallb (fun l => Nat.eqb (List.length l) (List.length (e_props ve))) (firstn nv lines)
                     && forallb (fun l => Nat.eqb (List.length l) (face_rec_toks fprops)) (skipn nv lines)
                 end
          end
      | Err _ => false
      end
  | _ => false
  end.

(* ================= large synthetic meshes (sizes past internal block limits; the whole float32 range) =================
   A case carries only parameters: topology, vertex count n, face count nf, attribute mask, seed, unspecified on/off.
   The harness and this file derive the same mesh from them ([sval]: finite float32 words over every exponent 0..254,
   both signs, zero / dense / single-bit / low-bit mantissas, so -0, denormals, 1e-38 .. 3e38 and whole numbers above 2^63
   all occur; [cword]: colours on exact dyadics; [bidx]: indices).  What the implementation wrote and read back comes
   as lengths, the header lines, and order-sensitive fingerprints (two polynomial hashes modulo 2^63 on Coq's machine
   integers) of the body bytes / tokens and of the returned mesh (index list in order; attributes as an order-free
   sum of per-attribute hashes seeded with dimension and name). *)
From Coq Require Import Uint63 Ascii.
Definition int_of_N (n : N) : int := match n with N0 => 0%uint63 | Npos p => of_pos p end.
Definition fpt := (int * int)%type.
Definition fp0 : fpt := (0, 0)%uint63.
Definition fps (h : fpt) (x : int) : fpt :=
  let '(h1, h2) := h in let v := (x + 1)%uint63 in ((h1 * 1000003 + v)%uint63, (h2 * 998244353 + v)%uint63).
Definition fp_add (a b : fpt) : fpt := ((fst a + fst b)%uint63, (snd a + snd b)%uint63).
Definition fp_out (h : fpt) : Z * Z := (to_Z (fst h), to_Z (snd h)).
Definition fp_eqb (a b : Z * Z) : bool := (fst a =? fst b)%Z && (snd a =? snd b)%Z.
Definition fp_N (h : fpt) (x : N) : fpt := fps h (int_of_N x).
(* a 64-bit pattern as two 32-bit halves *)
Definition fp_f64 (h : fpt) (x : N) : fpt := fp_N (fp_N h (x / 4294967296)) (x mod 4294967296).
Fixpoint fp_name (h : fpt) (s : string) : fpt :=
  match s with EmptyString => h | String c r => fp_name (fp_N h (N_of_ascii c)) r end.
Definition fp_tok (h : fpt) (t : tok) : fpt :=
  match t with
  | TI z f => fp_f64 (fp_N (fp_N h 1) (Z.to_N (z + 2147483648))) f
  | TF f => fp_f64 (fp_N h 2) f
  | TBad => fp_N h 3
  end.
Definition fp_body (b : body) : Z * Z :=
  match b with
  | BodyBin bytes => fp_out (fold_left fp_N bytes fp0)
  | BodyAscii lines => fp_out (fold_left (fun h l => fold_left fp_tok l (fp_N h (N.of_nat (List.length l)))) lines fp0)
  end.
Definition fp_attr (a : attr) : fpt :=
  let '(d, n, rows) := a in
  fold_left (fun h r => fold_left fp_f64 r h) rows (fp_N (fp_name (fp_N fp0 (N.of_nat d)) n) (N.of_nat (List.length rows))).
Definition fp_attrs (l : list attr) : Z * Z := fp_out (fold_left (fun s a => fp_add s (fp_attr a)) l fp0).
Definition fp_idx (l : list Z) : Z * Z := fp_out (fold_left (fun h z => fp_N h (Z.to_N z)) l fp0).

(* the synthetic float32 word, on machine integers (all intermediate values stay far below 2^62) *)
Definition svali (seed i k : int) : int :=
  (let v := 13 * i + 7 * k + seed in
   let e := (v + v / 255) mod 255 in
   let sel := (v / 3) mod 4 in
   let mant := if sel =? 0 then 0 else if sel =? 1 then (v * 2654435761) mod 8388608 else if sel =? 2 then 4194304 else v mod 7 + 1 in
   (((v / 2) mod 2) << 31) + (e << 23) + mant)%uint63.
Definition N_of_int (x : int) : N := Z.to_N (to_Z x).
Definition sval (seed i k : N) : N := N_of_int (svali (int_of_N seed) (int_of_N i) (int_of_N k)).
Definition cseli (seed i k : int) : int := ((13 * i + 7 * k + seed) mod 5)%uint63.
Definition csel (seed i k : N) : nat := N.to_nat (N_of_int (cseli (int_of_N seed) (int_of_N i) (int_of_N k))).
Definition cword (seed i k : N) : N := nth (csel seed i k) [0; 1048576000; 1056964608; 1061158912; 1065353216] 0.
Definition cbyte (seed i k : N) : N := nth (csel seed i k) [0; 64; 128; 191; 255] 0.
Definition bidxi (n seed c : int) : int := ((7919 * c + seed + c / 3) mod n)%uint63.
Definition bidx (p : bigp) (c : N) : N := N_of_int (bidxi (int_of_N (bp_n p)) (int_of_N (bp_seed p)) (int_of_N c)).
(* 0, 1, ..., k-1 as binary numbers *)
Fixpoint nseq (k : nat) (start : N) : list N := match k with O => [] | S k' => start :: nseq k' (N.succ start) end.
(* attribute universe: (mask bit, dimension, name), in the order Float4/3/2/1Attributes report them *)
Definition big_universe : list (N * nat * string) :=
  [(5, 4%nat, "Rotation"); (2, 3%nat, "Color"); (1, 3%nat, "Normal"); (0, 3%nat, "Position");
   (7, 2%nat, "Foo"); (3, 2%nat, "TexCoord"); (6, 1%nat, "Intensity"); (4, 1%nat, "Opacity")]%string.
Definition big_has (p : bigp) (bit : N) : bool := N.testbit (bp_mask p) bit.
Definition big_word (p : bigp) (bit i : N) (j : nat) : N :=
  if bit =? 2 then cword (bp_seed p) i (N.of_nat j) else sval (bp_seed p) i (10 * bit + N.of_nat j).
Definition big_verts (p : bigp) : list N := nseq (N.to_nat (bp_n p)) 0.
Definition big_corners (p : bigp) : list N := map (bidx p) (nseq (3 * N.to_nat (bp_nf p)) 0).
Definition big_mesh (p : bigp) : wmesh :=
  {| w_topo := if bp_tri p then TTriangle else TPoint;
     w_idx := if bp_tri p then map N.to_nat (big_corners p) else seq 0 (N.to_nat (bp_n p));
     w_n := N.to_nat (bp_n p);
     w_attrs := flat_map (fun '(bit, d, name) =>
                  if big_has p bit
                  then [{| wa_dim := d; wa_name := name;
                           wa_rows := map (fun i => map (big_word p bit i) (seq 0 d)) (big_verts p) |}]
                  else []) big_universe |}.
Definition big_opts (p : bigp) : wopts := {| o_writers := default_writers; o_unspec := bp_unspec p |}.

(* The mesh the property promises, straight from the parameters (no writer model, no lists: sizes up to 10^5
   vertices are judged in linear time on machine integers).  Float storage returns the value itself: the float64
   widening of a normal float32 word (sign, exponent + 896, mantissa shifted by 29 bits) is hashed as its two 32-bit
   halves; zeros likewise; denormals go through [cvF].  Colours return b/255 for the byte b of the dyadic.  User
   attributes travel only with unspecified properties on, a user vector as scalars name_k; TexCoord of a triangle mesh
   per corner (unweld) when there is a face, dropped when there is none; TexCoord of a point cloud per vertex with
   unspecified properties on. *)
Definition fp_widen (h : fpt) (w : int) : fpt :=
  (let s := w >> 31 in let e := (w >> 23) land 255 in let m := w land 8388607 in
   if e =? 0 then
     if m =? 0 then fps (fps h (s << 31)) 0 else fp_f64 h (cvF (N_of_int w))
   else fps (fps h ((s << 31) + ((e + 896) << 20) + (m >> 3))) ((m land 7) << 29))%uint63.
Definition fp_value (seed bit i : int) (h : fpt) (j : nat) : fpt :=
  let ji := int_of_N (N.of_nat j) in
  if (bit =? 2)%uint63
  then fp_f64 h (nth (N.to_nat (nth (N.to_nat (N_of_int (cseli seed i ji))) [0; 64; 128; 191; 255] 0)) div255_tab 0)
  else fp_widen h (svali seed i (10 * bit + ji)%uint63).
(* positions 0..k-1, each mapped to a vertex by [at_] *)
Fixpoint fp_rows (k : nat) (c : int) (at_ : int -> int) (row : int -> fpt -> fpt) (h : fpt) : fpt :=
  match k with O => h | S k' => fp_rows k' (c + 1)%uint63 at_ row (row (at_ c) h) end.
(* expected attributes: (dimension, name, universe bit, components) *)
Definition big_expect_descr (p : bigp) : list (nat * string * N * list nat) :=
  flat_map (fun '(bit, d, name) =>
    if negb (big_has p bit) then [] else
    if bit =? 3 then
      (if bp_tri p then (if bp_nf p =? 0 then [] else [(2%nat, name, bit, [0; 1]%nat)])
       else if bp_unspec p then [(2%nat, name, bit, [0; 1]%nat)] else [])
    else if (bit =? 6) || (bit =? 7) then
      (if bp_unspec p then
         match d with
         | 1%nat => [(1%nat, name, bit, [0%nat])]
         | _ => map (fun j => (1%nat, suffixed name j, bit, [j])) (seq 0 d)
         end
       else [])
    else [(d, name, bit, seq 0 d)]) big_universe.
Definition big_unweld (p : bigp) : bool := bp_tri p && big_has p 3 && negb (bp_nf p =? 0).
Definition big_expect_fp (p : bigp) : N * (Z * Z) :=
  let seed := int_of_N (bp_seed p) in let n := int_of_N (bp_n p) in
  let count := if big_unweld p then 3 * bp_nf p else bp_n p in
  let at_ := if big_unweld p then bidxi n seed else (fun c => c) in
  let ds := big_expect_descr p in
  (N.of_nat (List.length ds),
   fp_out (fold_left (fun s '(d, name, bit, js) =>
             fp_add s (fp_rows (N.to_nat count) 0%uint63 at_
                         (fun i h => fold_left (fp_value seed (int_of_N bit) i) js h)
                         (fp_N (fp_name (fp_N fp0 (N.of_nat d)) name) count))) ds fp0)).
Definition big_expect_idx_fp (p : bigp) : N * (Z * Z) :=
  let seed := int_of_N (bp_seed p) in let n := int_of_N (bp_n p) in
  let count := if bp_tri p then 3 * bp_nf p else bp_n p in
  let at_ := if bp_tri p && negb (big_unweld p) then bidxi n seed else (fun c => c) in
  (count, fp_out (fp_rows (N.to_nat count) 0%uint63 at_ (fun i h => fps h i) fp0)).

Definition big_out_eqb (a b : bigout) : bool :=
  match a, b with
  | BMesh t n i k f, BMesh t' n' i' k' f' => Bool.eqb t t' && (n =? n') && fp_eqb i i' && (k =? k') && fp_eqb f f'
  | _, _ => false
  end.
Definition big_of_mesh (r : mesh) : bigout :=
  BMesh (match m_topo r with TTriangle => true | TPoint => false end) (N.of_nat (List.length (m_idx r))) (fp_idx (m_idx r))
        (N.of_nat (List.length (m_attrs r))) (fp_attrs (m_attrs r)).
Definition big_oracle (p : bigp) : bigout :=
  let '(ni, fi) := big_expect_idx_fp p in let '(na, fa) := big_expect_fp p in BMesh (bp_tri p) ni fi na fa.
Definition body_len (b : body) : N :=
  match b with BodyBin x => N.of_nat (List.length x) | BodyAscii x => N.of_nat (List.length x) end.
(* model side, only up to [big_model_cap] vertices (the writer model indexes rows by position: quadratic) *)
Definition big_model_cap : N := 400.
Definition big_corr_one (p : bigp) (f : fmt) (w : bigw) (out : bigout) : bool :=
  if (big_model_cap <? bp_n p) || (big_model_cap <? bp_nf p) then true else
  let m := big_mesh p in let o := big_opts p in
  match write o f m, w with
  | Ok file, BFile bf =>
      list_eqb (list_eqb seqb) (pf_header file) (bf_header bf) && (body_len (pf_body file) =? bf_len bf)
      && fp_eqb (fp_body (pf_body file)) (bf_fp bf)
  | Err EDeclared, BWDeclared | Err ECrash, BWCrash | Err EUnsupported, _ => true
  | _, _ => false
  end
  && (if wf_mesh m then match expected o m with Ok r => big_out_eqb (big_of_mesh r) out | Err _ => false end else true).
(* header of the written file against the parameters and the body that follows *)
Definition big_header_okb (p : bigp) (f : fmt) (w : bigw) : bool :=
  match w with
  | BFile bf =>
      match parse_header (bf_header bf) with
      | Ok h =>
          fmt_eqb (h_fmt h) f &&
          match find_last_elem "vertex" (h_elems h) None with
          | None => false
          | Some ve =>
              let fe := find_last_elem "face" (h_elems h) None in
              let fcount := match fe with Some e => Z.to_N (e_count e) | None => 0 end in
              let fprops := match fe with Some e => e_props e | None => [] end in
              Z.eqb (e_count ve) (Z.of_N (bp_n p))
              && match bp_tri p, fe with
                 | true, Some e => Z.eqb (e_count e) (Z.of_N (bp_nf p))
                 | false, None => true
                 | _, _ => false
                 end
              && match f with
                 | ASCII =>
                     let np := N.of_nat (List.length (e_props ve)) in let nt := N.of_nat (face_rec_toks fprops) in
                     (bf_len bf =? bp_n p + fcount)
                     && ((bp_n p =? 0) || ((fst (bf_vtoks bf) =? np) && (snd (bf_vtoks bf) =? np)))
                     && ((fcount =? 0) || ((fst (bf_ftoks bf) =? nt) && (snd (bf_ftoks bf) =? nt)))
                 | _ => bf_len bf =? bp_n p * N.of_nat (record_size (e_props ve)) + fcount * N.of_nat (face_rec_size fprops)
                 end
          end
      | Err _ => false
      end
  | _ => false
  end.

(* ================= the two judgements ================= *)
Definition corr_ok (c : case) : bool :=
  match c with CW o m wa wl wb oa ol ob =>
    corr_one o m ASCII wa oa && corr_one o m BinLE wl ol && corr_one o m BinBE wb ob
  | CWbin o m wl wb ol ob => corr_one o m BinLE wl ol && corr_one o m BinBE wb ob
  | CBig p wa wl wb oa ol ob => big_corr_one p ASCII wa oa && big_corr_one p BinLE wl ol && big_corr_one p BinBE wb ob
  end.

Definition prop_ok (c : case) : bool :=
  match c with CW o m wa wl wb oa ol ob =>
    roundtrip_okb o m wa oa && roundtrip_okb o m wl ol && roundtrip_okb o m wb ob
    && outcomes_agree oa ol && outcomes_agree ol ob
    && header_okb m ASCII wa && header_okb m BinLE wl && header_okb m BinBE wb
  | CWbin o m wl wb ol ob =>
    roundtrip_okb o m wl ol && roundtrip_okb o m wb ob && outcomes_agree ol ob
    && header_okb m BinLE wl && header_okb m BinBE wb
  | CBig p wa wl wb oa ol ob =>
    let e := big_oracle p in
    big_out_eqb e oa && big_out_eqb e ol && big_out_eqb e ob
    && big_header_okb p ASCII wa && big_header_okb p BinLE wl && big_header_okb p BinBE wb
  end.
