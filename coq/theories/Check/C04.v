(* C04 correspondence: cases written by harness/cmd/c04 are evaluated here by vm_compute.
   One case = one mesh + one writer configuration, written by polyform in ASCII, little- and big-endian, each
   file tokenised by the harness' independent tokenizer and read back with ply.ReadMesh. *)
From PF Require Export Base.Bytes Formats.PlyRead Formats.PlyWrite Check.Common.
From Coq Require Import String.
Open Scope list_scope.
Open Scope N_scope.

Inductive outcome := OMesh (m : mesh) | ODeclared | OCrash | OHang.          (* what ply.ReadMesh did *)
Inductive wres := WFile (f : plyfile) | WDeclared | WCrash.                   (* what MeshWriter.Write did *)
Inductive case :=
| CW (o : wopts) (m : wmesh) (wa wl wb : wres) (oa ol ob : outcome)           (* ascii, little, big *)
(* the two binary encodings alone: emitted next to a CW case that carries a known-finding key (both known
   findings are ASCII-only), so that every other failure on such a mesh stays visible *)
| CWbin (o : wopts) (m : wmesh) (wl wb : wres) (ol ob : outcome).

(* ================= model vs implementation ================= *)
Definition tok_eqb (a b : tok) : bool :=
  match a, b with
  | TI z f, TI z' f' => Z.eqb z z' && (f =? f')
  | TF f, TF f' => f =? f'
  | TBad, TBad => true
  | _, _ => false
  end.
Definition body_eqb (a b : body) : bool :=
  match a, b with
  | BodyBin x, BodyBin y => list_eqb N.eqb x y
  | BodyAscii x, BodyAscii y => list_eqb (list_eqb tok_eqb) x y
  | _, _ => false
  end.
Definition file_matches (r : result plyfile) (w : wres) : bool :=
  match r, w with
  | Ok a, WFile b => list_eqb (list_eqb seqb) (pf_header a) (pf_header b) && body_eqb (pf_body a) (pf_body b)
  | Err EDeclared, WDeclared => true
  | Err ECrash, WCrash => true
  | Err EUnsupported, _ => true
  | _, _ => false
  end.
Definition outcome_matches (r : result mesh) (o : outcome) : bool :=
  match r, o with
  | Ok m, OMesh m' => mesh_eqb m m'
  | Err EEof, ODeclared | Err EDeclared, ODeclared => true
  | Err ECrash, OCrash => true
  | Err EUnsupported, _ => true
  | _, _ => false
  end.
Definition pw_eqb (a b : pw) : bool :=
  Nat.eqb (pw_dim a) (pw_dim b) && seqb (pw_attr a) (pw_attr b) && list_eqb seqb (pw_names a) (pw_names b) && sty_eqb (pw_ty a) (pw_ty b).
Definition is_default_table (o : wopts) : bool := list_eqb pw_eqb (o_writers o) default_writers.
(* (1) the writer model produces the implementation's file; (2) the reader model, run on that file, returns
   what ply.ReadMesh returned; (3) for ply.Write's table on a well-formed mesh, [expected] is what came back *)
Definition corr_one (o : wopts) (m : wmesh) (f : fmt) (w : wres) (out : outcome) : bool :=
  file_matches (write o f m) w
  && match w with WFile file => outcome_matches (read_mesh file) out | _ => true end
  && (if is_default_table o && wf_mesh m
         && negb (match f with ASCII => match effective_writers o m with [] => negb (Nat.eqb (w_n m) 0) | _ => false end | _ => false end)
      then outcome_matches (expected o m) out else true).
Definition corr_ok (c : case) : bool :=
  match c with CW o m wa wl wb oa ol ob =>
    corr_one o m ASCII wa oa && corr_one o m BinLE wl ol && corr_one o m BinBE wb ob
  | CWbin o m wl wb ol ob => corr_one o m BinLE wl ol && corr_one o m BinBE wb ob
  end.

(* ================= the property itself, on the implementation's output ================= *)
(* which attributes the configuration promises to carry: a property writer names it, or unspecified
   properties are written; texture coordinates of a triangle mesh always travel in the face element *)
Definition carried (o : wopts) (m : wmesh) (x : wattr) : bool :=
  claimed (o_writers o) (wa_dim x) (wa_name x) || o_unspec o
  || (is_attr 2 "TexCoord" x && match w_topo m with TTriangle => true | TPoint => false end).
Definition first_writer (o : wopts) (x : wattr) : option pw :=
  find (fun w => Nat.eqb (pw_dim w) (wa_dim x) && seqb (pw_attr w) (wa_name x)) (o_writers o).
(* where the reader puts properties with these names: a recognised group -> its attribute, else scalars *)
Definition group_for (names : list string) : option group :=
  find (fun g => list_eqb seqb (g_members g) names
                 || (g_ignorable_w g && list_eqb seqb (firstn 3 (g_members g)) names)) default_groups.
(* component j of vertex i of the located attribute, as float64 bits *)
Definition lookup (r : mesh) (d : nat) (a : string) (i j : nat) : option N :=
  do rows <- get_attr d a (m_attrs r); do row <- nth_error rows i; nth_error row j.
(* Where the reader puts a vertex property, judged from the header of the file itself ([ps]: the vertex properties the
   implementation declared): a property that is a member of a recognised group lands in that group's attribute, at its
   position, only when the group is complete and uniformly typed in the file (PlyRead.accepted: all members present with
   one type; colour groups also without their alpha); every other property is a scalar attribute under its own name. *)
Fixpoint name_index (n : string) (l : list string) (k : nat) : option nat :=
  match l with [] => None | x :: r => if seqb n x then Some k else name_index n r (S k) end.
Fixpoint locate_in (gs : list group) (ps : list (sty * string)) (n : string) : option (nat * string * nat) :=
  match gs with
  | [] => None
  | g :: rest =>
      match accepted g ps with
      | Some (names, _, _) =>
          match name_index n names 0 with
          | Some k => Some (List.length names, g_attr g, k)
          | None => locate_in rest ps n
          end
      | None => locate_in rest ps n
      end
  end.
Definition lookup_prop (ps : list (sty * string)) (r : mesh) (n : string) (i : nat) : option N :=
  match locate_in default_groups ps n with
  | Some (d, a, k) => lookup r d a i k
  | None => lookup r 1 n i 0
  end.
Definition read_component (ps : list (sty * string)) (o : wopts) (m : wmesh) (r : mesh) (x : wattr) (i j : nat) : option N * sty :=
  (* texture coordinates no writer names come back as the TexCoord attribute (face element of a triangle mesh;
     per vertex as s/t otherwise) *)
  if is_attr 2 "TexCoord" x
     && (negb (claimed (o_writers o) 2 "TexCoord")
         (* a triangle mesh with at least one face: whatever a writer stored per vertex, the reader takes the
            per-corner float list of the face element *)
         || (match w_topo m with TTriangle => negb (Nat.eqb (nprims m) 0) | TPoint => false end))
  then (lookup r 2 "TexCoord" i j, Float) else
  match first_writer o x with
  | Some w => (lookup_prop ps r (nth j (pw_names w) EmptyString) i, pw_ty w)
  | None => (lookup_prop ps r (nth j (unspec_names (wa_dim x) (wa_name x)) EmptyString) i, Float)
  end.
(* a read-back value against the original float32 word at the precision of the stored type *)
Fixpoint index_of (v : N) (l : list N) (k : N) : option N :=
  match l with [] => None | x :: r => if x =? v then Some k else index_of v r (N.succ k) end.
(* v is b/255 up to one unit in the last place (vector2.DivByConstant multiplies by the reciprocal, the other
   readers divide; positive float64 bit patterns are ordered like the values) *)
Fixpoint index_near (v : N) (l : list N) (k : N) : option N :=
  match l with [] => None | x :: r => if (x <=? v + 1) && (v <=? x + 1) then Some k else index_near v r (N.succ k) end.
Definition close255 (w v : N) : bool :=
  (* v = b/255 for a byte b with |b - 255 x| < 1, x the value of w (0 <= x <= 1) *)
  match index_near v div255_tab 0 with
  | None => false
  | Some b =>
      let e := (w / 2 ^ 23) mod 256 in let m := w mod 2 ^ 23 in
      if w mod 2 ^ 31 =? 0 then b =? 0
      else if e =? 0 then b =? 0
      else let num := (2 ^ 23 + m) * 255 in let sh := 150 - e in
           (b * 2 ^ sh <? num + 2 ^ sh) && (num <? b * 2 ^ sh + 2 ^ sh)
  end.
Definition value_ok (t : sty) (w : N) (v : option N) : bool :=
  match v with
  | None => false
  | Some f => match t with
              | UChar => close255 w f
              | _ => match as_f64 w with Some e => f =? e | None => false end     (* the value itself, as a float64 *)
              end
  end.
Definition corner_ok (ps : list (sty * string)) (o : wopts) (m : wmesh) (r : mesh) (i : nat) (i' : Z) : bool :=
  (0 <=? i')%Z &&
  forallb (fun x => negb (carried o m x) ||
             match nth_error (wa_rows x) i with
             | None => false
             | Some row => forallb (fun j => let '(v, t) := read_component ps o m r x (Z.to_nat i') j in value_ok t (nth j row 0) v)
                                   (seq 0 (wa_dim x))
             end) (w_attrs m).
Definition same_topo (m : wmesh) (r : mesh) : bool := topo_eqb (w_topo m) (m_topo r).
(* the vertex properties the written file declares (independent of the writer model) *)
Definition declared_props (w : wres) : list (sty * string) :=
  match w with
  | WFile file =>
      match parse_header (pf_header file) with
      | Ok h => match find_last_elem "vertex" (h_elems h) None with
                | Some ve => flat_map (fun p => match p with PScalar t n => [(t, n)] | PList _ _ _ => [] end) (e_props ve)
                | None => []
                end
      | Err _ => []
      end
  | _ => []
  end.
Definition roundtrip_okb (o : wopts) (m : wmesh) (w : wres) (out : outcome) : bool :=
  let ps := declared_props w in
  match out with
  | OMesh r =>
      same_topo m r && Nat.eqb (List.length (m_idx r)) (List.length (w_idx m))       (* topology, primitive count *)
      && forallb (fun '(i, i') => corner_ok ps o m r i i') (combine (w_idx m) (m_idx r))
  | _ => false
  end.
Definition outcomes_agree (a b : outcome) : bool :=
  match a, b with OMesh x, OMesh y => mesh_eqb x y | _, _ => false end.

(* the header describes the body that follows *)
Definition list_item_count (p : prop) : nat := if is_texcoord p then 6%nat else 3%nat.
Definition face_rec_size (ps : list prop) : nat :=
  fold_right (fun p acc => match p with PList ct lt _ => (sty_size ct + list_item_count p * sty_size lt + acc)%nat | _ => acc end) O ps.
Definition face_rec_toks (ps : list prop) : nat := fold_right (fun p acc => (1 + list_item_count p + acc)%nat) O ps.
Definition header_okb (m : wmesh) (f : fmt) (w : wres) : bool :=
  match w with
  | WFile file =>
      match parse_header (pf_header file) with
      | Ok h =>
          fmt_eqb (h_fmt h) f &&
          match find_last_elem "vertex" (h_elems h) None with
          | None => false
          | Some ve =>
              let fe := find_last_elem "face" (h_elems h) None in
              let fcount := match fe with Some e => Z.to_nat (e_count e) | None => O end in
              let fprops := match fe with Some e => e_props e | None => [] end in
              Z.eqb (e_count ve) (Z.of_nat (w_n m))
              && match w_topo m, fe with
                 | TTriangle, Some e => Z.eqb (e_count e) (Z.of_nat (nprims m))
                 | TPoint, None => true
                 | _, _ => false
                 end
              && match pf_body file with
                 | BodyBin bytes => Nat.eqb (List.length bytes) (w_n m * record_size (e_props ve) + fcount * face_rec_size fprops)
                 | BodyAscii lines =>
                     let nv := w_n m in
                     Nat.eqb (List.length lines) (nv + fcount)
                     && forallb (fun l => Nat.eqb (List.length l) (List.length (e_props ve))) (firstn nv lines)
                     && forallb (fun l => Nat.eqb (List.length l) (face_rec_toks fprops)) (skipn nv lines)
                 end
          end
      | Err _ => false
      end
  | _ => false
  end.

Definition prop_ok (c : case) : bool :=
  match c with CW o m wa wl wb oa ol ob =>
    roundtrip_okb o m wa oa && roundtrip_okb o m wl ol && roundtrip_okb o m wb ob
    && outcomes_agree oa ol && outcomes_agree ol ob
    && header_okb m ASCII wa && header_okb m BinLE wl && header_okb m BinBE wb
  | CWbin o m wl wb ol ob =>
    roundtrip_okb o m wl ol && roundtrip_okb o m wb ob && outcomes_agree ol ob
    && header_okb m BinLE wl && header_okb m BinBE wb
  end.
