(* C08 correspondence: cases written by harness/cmd/c08 are evaluated here by vm_compute. *)
From PF Require Export Base.Bytes Formats.PlyRead Formats.PlyReadV2 Formats.PlyText Formats.PlyBig Check.Common.
From Coq Require Import String.
Open Scope list_scope.
Open Scope N_scope.

(* what ply.ReadMesh did *)
Inductive outcome := OMesh (m : mesh) | ODeclared | OCrash | OHang.

(* ... on a file past the internal block sizes: only fingerprints come back (Formats/PlyBig.v) *)
Inductive bigout := BMesh (f : meshfp) | BDeclared | BCrash | BHang.

Inductive case :=
| CBig (g : bigspec) (hdr : list (list string)) (bodyfp : N) (out : bigout)
                                                      (* a file given by a formula (Formats/PlyBig.v: [big_expand g] is the
                                                         abstract file); hdr: the header lines the tokenizer found in the bytes
                                                         given to polyform; bodyfp: fingerprint of the body bytes (binary) or of
                                                         the body's tokens (ascii) of that file; out: fingerprints of the mesh *)
| CSpec (a : absfile) (f : plyfile) (out : outcome)   (* a: abstract file the harness' reference encoder started from;
                                                         f: what an independent tokenizer sees in the bytes given to polyform *)
| CElems (a : absfile) (f : plyfile) (out : outcome)  (* as CSpec, but the file also holds elements the abstract file does
                                                         not mention (before / between vertex and face): the agreement of
                                                         header and body with the Coq reference encoder is not checked *)
| CMisplaced (a : absfile) (out : outcome)            (* records of another element stand before / between the vertex and face
                                                         records: outside the property's quantifier (only vertex and face
                                                         elements are quantified over); the reader decodes foreign bytes, so
                                                         nothing but "it comes back" is asked (harness flag -misplaced only) *)
| CHeader (text : list N) (lines : list (list string)) (* the header bytes given to polyform (up to and including the
                                                         end_header line) and the fields per line the harness' tokenizer
                                                         found in them: ties Formats/PlyText.v (readLine, strings.Fields) *)
| CRaw (f : plyfile) (out : outcome).                 (* malformed stream or file outside the property's quantifier:
                                                         model vs implementation only *)

(* uchar (s, t) files: the implementation's TexCoord values are float64(b) * (1/255) (vector2.DivByConstant); they are
   translated to the division table the model and [describe] use (Formats/PlyReadV2.v).  Not when the face element has
   a texcoord list AND at least one face: then TexCoord holds the per-corner coordinates of the faces. *)
Definition has_face_tex (a : absfile) : bool :=
  match a_fprops a with
  | Some fps => existsb (fun p : sty * sty * string => seqb (snd p) "texcoord") fps
  | None => false
  end.
(* the face element's texture coordinates replace TexCoord only when there is at least one face (MeshReader.Read:
   len(uvs) > 0); with an empty face list the TexCoord attribute is still the vertex element's (s, t) pair *)
Definition face_tex_applied (a : absfile) : bool :=
  has_face_tex a && match a_faces a with [] => false | _ => true end.
Definition adjust (a : absfile) (o : outcome) : outcome :=
  match o with
  | OMesh m => if uchar_st (a_vprops a) && negb (face_tex_applied a) then OMesh (st_to_div m) else o
  | _ => o
  end.

Definition outcome_matches (r : result mesh) (o : outcome) : bool :=
  match r, o with
  | Ok m, OMesh m' => mesh_eqb m m'
  | Err EEof, ODeclared | Err EDeclared, ODeclared => true
  | Err ECrash, OCrash => true
  | Err EUnsupported, _ => true
  | _, _ => false
  end.

(* a model token against the token found in the file: same float value; same integer when the model says integer *)
Definition tok_agrees (m t : tok) : bool :=
  match tok_f64 m, tok_f64 t with Some a, Some b => a =? b | _, _ => false end &&
  match tok_int m with Some z => match tok_int t with Some z' => Z.eqb z z' | None => false end | None => true end.
Fixpoint prefix_eqb {A} (eqb : A -> A -> bool) (a b : list A) : bool :=
  match a, b with
  | [], _ => true
  | x :: a', y :: b' => eqb x y && prefix_eqb eqb a' b'
  | _, _ => false
  end.
Definition nonblank {A} (l : list (list A)) : list (list A) := filter (fun x => match x with [] => false | _ => true end) l.
(* the file's body starts with the body the Coq reference encoder produces for the abstract file *)
Definition body_agrees (m f : body) : bool :=
  match m, f with
  | BodyBin a, BodyBin b => prefix_eqb N.eqb a b
  | BodyAscii a, BodyAscii b => prefix_eqb (list_eqb tok_agrees) a (nonblank b)
  | _, _ => false
  end.
Definition header_agrees (a : absfile) (f : plyfile) : bool :=
  match parse_header (pf_header f) with
  | Ok h => let want := header_of a in
            fmt_eqb (h_fmt h) (h_fmt want) && prefix_eqb elem_eqb (h_elems want) (h_elems h)
  | Err _ => false
  end.

Definition big_matches (r : result mesh) (o : bigout) : bool :=
  match r, o with
  | Ok m, BMesh f => mesh_matches_fp m f
  | Err EEof, BDeclared | Err EDeclared, BDeclared => true
  | Err ECrash, BCrash => true
  | Err EUnsupported, _ => true
  | _, _ => false
  end.

(* model vs implementation; also ties the Coq reference encoder to the harness' Go reference encoder *)
Definition corr_ok (c : case) : bool :=
  match c with
  | CBig g hdr bodyfp out =>
      let a := big_expand g in
      let f := {| pf_header := hdr; pf_body := enc_body a |} in
      header_agrees a f && fp_is (fp_body (enc_body a)) bodyfp && big_matches (read_mesh f) out
  | CSpec a f out => header_agrees a f && body_agrees (enc_body a) (pf_body f) && outcome_matches (read_mesh f) (adjust a out)
  | CElems a f out => outcome_matches (read_mesh f) (adjust a out)
  | CMisplaced _ _ => true
  | CHeader text lines => list_eqb (list_eqb seqb) (header_lines text) (lines ++ [[]])
  | CRaw f out => outcome_matches (read_mesh f) out
  end.

(* the property itself on the implementation's output: the file loads, to the mesh the abstract file describes *)
Definition prop_ok (c : case) : bool :=
  match c with
  | CBig g _ _ out =>
      match describe (big_expand g), out with
      | Ok m, BMesh f => mesh_matches_fp m f
      | _, _ => false
      end
  | CSpec a _ out | CElems a _ out =>
      match describe a, adjust a out with
      | Ok m, OMesh m' => mesh_eqb m m'
      | _, _ => false
      end
  | CMisplaced _ out => match out with OHang => false | _ => true end
  | CHeader _ _ => true
  | CRaw _ out => match out with OHang => false | _ => true end
  end.
