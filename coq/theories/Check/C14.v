(* C14 correspondence: every strict prefix of generated valid files was decoded by the real decoders;
   the observations are judged here.  class: 0 Ok, 1 reported error, 2 runtime crash, 3 hang. *)
From PF Require Export Base.Bytes Formats.Stl Formats.Pts Check.Common.
From Coq Require Export String.
Open Scope N_scope.

Inductive case :=
| CStl (file : list N) (obs : list (N * N * bool))                    (* cut, class, result == full decode *)
| CSplat (len : N) (obs : list (N * N * (N * bool * bool)))       (* cut, class, (#splats, error?, first #splats equal) *)
| CPts (count : Z) (lines : list line) (obs : list ((bool * nat * nat) * N * option pts_result))
                                                                        (* (count present, complete lines, tokens of partial line) *)
| CGeneric (format : string) (len : N) (obs : list (N * N * bool)). (* cut, class, result == full decode *)

Definition count_of (has : bool) (c : Z) : option Z := if has then Some c else None.

(* model vs implementation *)
Definition corr_ok (c : case) : bool :=
  match c with
  | CStl file obs =>
      forallb (fun '(k, cls, _) =>
        match read_mesh (firstn (N.to_nat k) file) with Some _ => cls =? 0 | None => cls =? 1 end) obs
  | CSplat len obs => true      (* byte model of .splat: Check.C15 *)
  | CPts count lines obs =>
      forallb (fun '((has, j, m), cls, res) =>
        match pts_read (count_of has count) (pts_prefix lines j m), res with
        | Some r, Some r' => (cls =? 0) && pts_result_eqb r r'
        | None, None => cls =? 1
        | _, _ => false
        end) obs
  | CGeneric _ _ _ => true      (* PLY / SPZ byte models: Check.C04 / C08 / C15 *)
  end.

(* the property on the implementation's behaviour: a strict prefix is rejected with a reported error,
   or what is returned is wholly present in the prefix; never a crash or a hang *)
Definition prop_ok (c : case) : bool :=
  match c with
  | CStl file obs => forallb (fun '(k, cls, eq) => (cls =? 1) || ((cls =? 0) && eq)) obs
  | CGeneric _ _ obs => forallb (fun '(k, cls, eq) => (cls =? 1) || ((cls =? 0) && eq)) obs
  | CSplat len obs =>
      forallb (fun '(k, cls, (n, err, eq)) =>
        (cls =? 0) && (n =? k / 32) && eq && Bool.eqb err (negb (k mod 32 =? 0))) obs
  | CPts count lines obs =>
      forallb (fun '((has, j, m), cls, res) =>
        match res with
        | None => cls =? 1
        | Some r => (cls =? 0) && no_placeholderb (count_of has count) (pts_prefix lines j m) r
        end) obs
  end.
