(* C14 correspondence: every strict prefix of generated valid files was decoded by the real decoders (in child
   processes, under a deadline and an address-space cap); the observations are judged here.
   class: 0 Ok, 1 reported error, 2 runtime crash / process death (out of memory), 3 deadline exceeded,
   4 the result depends on the kind of io.Reader (every decode is repeated with seven reader kinds: bytes.Reader,
   bytes.Buffer, strings.Reader, an opaque reader without Len, one-byte, half and data-with-EOF readers); prop_ok accepts
   only classes 0 and 1. *)
From PF Require Export Base.Bytes Formats.Stl Formats.Pts Formats.PlyRead Check.Common.
From PF Require Formats.Splat Formats.Spz.
From Coq Require Export String.
Open Scope list_scope.
Open Scope N_scope.

(* where a cut of a PLY file lies: inside a header line that follows [j] complete ones, after [j] complete header
   lines, after [j] body bytes, after [j] complete body lines and [m] tokens of the next one; [NoModel]: the harness
   has no token view of the file *)
Inductive cutpos := NoModel | HMid (j : N) | HLines (j : N) | BBin (j : N) | BTok (j m : N).

Inductive case :=
| CStl (file : list N) (obs : list (N * N * bool))                    (* cut, class, result == full decode *)
| CSplat (file : list N) (obs : list (N * N * (N * bool * bool)))     (* cut, class, (#splats, error?, first #splats equal) *)
| CPts (count : Z) (lines : list line) (obs : list ((bool * nat * nat * ptok) * N * option pts_result))
       (* EVERY byte cut: (count present, complete lines, complete tokens of the next line, what a number cut in the
          middle reads as) *)
| CSpz (len need : N) (plain : list N) (obs : list (N * N * bool * N))
       (* need: first cut at which compress/flate yields the whole plaintext; per cut: class, == full decode,
          number of plaintext bytes the compressed prefix inflates to *)
| CPly (len need : N) (f : plyfile) (obs : list (N * N * bool * cutpos))
       (* need: end of the last byte / token the header promises *)
| CHostile (format : string) (len declared : N) (cls ms peak_mb : N)
       (* a short stream whose header announces [declared] records: class, CPU time of the decoding process, peak
          resident memory *)
| CFramed (what : string) (len need : N) (obs : list (N * N * bool))
       (* observations without a model view: files past the readers' internal block thresholds (a megabyte of bytes
          is not turned into a Coq term) and the other readers of the anchored files (ply.MeshReader with a
          caller-made configuration through Read and Load, spz.ReadHeader).  need: end of the last byte / token the
          reader needs; per cut: class, result == result on the complete file *)
| CSplatBig (len : N) (obs : list (N * N * (N * bool * bool))).
       (* .splat past the thresholds: cut, class, (#splats, error?, first #splats equal to those of the full decode) *)

Definition count_of (has : bool) (c : Z) : option Z := if has then Some c else None.
(* a shorter spelling that does not read as a number, at column m of its line (m complete fields before it), is a
   strconv error only if the reader parses that column: x y z and the intensity always, the colour columns only on a
   line of more than six fields -- so of columns 4..6 only the seventh *)
Definition pbad_read (p : ptok) (m : nat) : bool :=
  match p with PBad => (m <=? 3)%nat || (m =? 6)%nat | _ => false end.

Definition ascii_prefix (ls : list (list tok)) (j m : nat) : list (list tok) :=
  firstn j ls ++ (match m with O => [] | _ => [firstn m (nth j ls [])] end).
Definition ply_prefix (f : plyfile) (p : cutpos) : option plyfile :=
  match p, pf_body f with
  | NoModel, _ => None
  (* readLine (reader.go:18-40) returns ("", io.EOF) for a line that is not terminated by '\n': a header cut inside
     a line is the header cut after the preceding line *)
  | HMid j, BodyBin _ => Some {| pf_header := firstn (N.to_nat j) (pf_header f); pf_body := BodyBin [] |}
  | HMid j, BodyAscii _ => Some {| pf_header := firstn (N.to_nat j) (pf_header f); pf_body := BodyAscii [] |}
  | HLines j, BodyBin _ => Some {| pf_header := firstn (N.to_nat j) (pf_header f); pf_body := BodyBin [] |}
  | HLines j, BodyAscii _ => Some {| pf_header := firstn (N.to_nat j) (pf_header f); pf_body := BodyAscii [] |}
  | BBin j, BodyBin b => Some {| pf_header := pf_header f; pf_body := BodyBin (firstn (N.to_nat j) b) |}
  | BTok j m, BodyAscii ls => Some {| pf_header := pf_header f; pf_body := BodyAscii (ascii_prefix ls (N.to_nat j) (N.to_nat m)) |}
  | _, _ => None
  end.
Definition class_matches {A} (r : result A) (cls : N) : bool :=
  match r with
  | Ok _ => cls =? 0
  | Err EEof | Err EDeclared => cls =? 1
  | Err ECrash => cls =? 2
  | Err EUnsupported => true
  end.

(* model vs implementation *)
Definition corr_ok (c : case) : bool :=
  match c with
  | CStl file obs =>
      forallb (fun '(k, cls, _) =>
        match Stl.read_mesh (firstn (N.to_nat k) file) with Some _ => cls =? 0 | None => cls =? 1 end) obs
  | CSplat file obs =>
      forallb (fun '(k, cls, (n, err, _)) =>
        let p := firstn (N.to_nat k) file in
        let '(rs, ok) := Splat.read_raw (List.length p) p in
        (N.of_nat (List.length rs) =? n) && Bool.eqb ok (negb err)) obs
  | CPts count lines obs =>
      forallb (fun '((has, j, m, p), cls, res) =>
        match pbad_read p m, pts_read (count_of has count) (pts_prefix_p lines j m p), res with
        | true, _, None => cls =? 1                 (* a field the reader parses is not a number: strconv error *)
        | true, _, Some _ => false
        | _, Some r, Some r' => (cls =? 0) && pts_result_eqb r r'
        | _, None, None => cls =? 1
        | _, _, _ => false
        end) obs
  | CSpz _ _ plain obs =>
      forallb (fun '(k, cls, _, plen) =>
        match Spz.decode (firstn (N.to_nat plen) plain) with Some _ => cls =? 0 | None => cls =? 1 end) obs
  | CPly _ _ f obs =>
      (* read_mesh g = parse_header, then read_body: the header of a body cut is parsed once *)
      let hd := parse_header (pf_header f) in
      forallb (fun '(k, cls, _, pos) =>
        match pos, ply_prefix f pos with
        | HLines _, Some g | HMid _, Some g => class_matches (PlyRead.read_mesh g) cls
        | _, Some g => class_matches (dor h <- hd; read_body default_groups true h (pf_body g)) cls
        | _, None => true
        end) obs
  | CHostile _ _ _ _ _ _ => true
  | CFramed _ _ _ _ => true
  | CSplatBig _ _ => true
  end.

(* the property on the implementation's behaviour alone: a cut that removes anything the header promised is
   rejected with a reported error; a cut that removes only trailing framing is rejected or yields the complete
   mesh; the record-streamed .splat format yields exactly the splats wholly present (and an error when a record
   was cut); never a crash, a process death or a missed deadline *)
Definition framed_ok (need : N) (o : N * N * bool) : bool :=
  let '(k, cls, eq) := o in (cls =? 1) || ((need <=? k) && (cls =? 0) && eq).
Definition prop_ok (c : case) : bool :=
  match c with
  | CStl file obs => forallb (framed_ok (N.of_nat (List.length file))) obs
  | CSpz _ need _ obs => forallb (fun '(k, cls, eq, _) => framed_ok need (k, cls, eq)) obs
  | CPly _ need _ obs => forallb (fun '(k, cls, eq, _) => framed_ok need (k, cls, eq)) obs
  | CSplat file obs =>
      forallb (fun '(k, cls, (n, err, eq)) =>
        (cls =? 0) && (n =? k / 32) && eq && Bool.eqb err (negb (k mod 32 =? 0))) obs
  | CPts count lines obs =>
      (* accepted only if every value is a token PRESENT in the prefix (a number cut in the middle that still reads
         as a number is such a token: the prefix is a valid file of its own; one that does not must be rejected) *)
      forallb (fun '((has, j, m, p), cls, res) =>
        match res with
        | None => cls =? 1
        | Some r => (cls =? 0) && negb (pbad_read p m) &&
                    no_placeholderb (count_of has count) (pts_prefix_p lines j m p) r
        end) obs
  | CHostile _ len _ cls ms peak =>
      (* resources follow the input present, not the count the header announces *)
      (cls =? 1) && (ms <=? 2000 + len / 1000) && (peak <=? 256)
  | CFramed _ _ need obs => forallb (framed_ok need) obs
  | CSplatBig _ obs =>
      forallb (fun '(k, cls, (n, err, eq)) =>
        (cls =? 0) && (n =? k / 32) && eq && Bool.eqb err (negb (k mod 32 =? 0))) obs
  end.
