(* C20 correspondence: cases written by harness/cmd/c20 are evaluated here by vm_compute. *)
From Coq Require Import List ZArith QArith Bool Arith.
From PF Require Export Tri.Delaunay Tri.BowyerWatson Tri.DelaunayChar Check.Common.
Import ListNotations.

(* points: integer coordinates (unit = the harness's dyadic grid step); tris / pos: what
   triangulation.BowyerWatson returned (index triples in map order, Position in the same unit);
   an input that reproduces the known finding (hull triangles dropped) is written as two cases:
   first need_spec = true, need_cover = false (everything except coverage must hold), then
   need_spec = false, need_cover = true under the finding's FailKey; all other cases have both;
   sup = what triangulation.SuperTriangle returned for the same input, in HALF units (the middle
   of the bounding box may be a half integer); attr_lens = the length of every vertex attribute of
   the returned mesh (Position, TexCoord, ...); caller_after = the caller's own point slice as it is
   after the call (the slice may have spare capacity; pts is the harness' private copy of the input);
   gp = the harness (exact integers, its own code) found input ++ super triangle in STRONG general position
   (no 3 of the n+3 points collinear, no 4 concyclic) and the input is small enough to re-decide that
   here: then gp_strongb — the decidable hypothesis of the unconditional theorem bw_delaunay — must
   hold, i.e. on that input the model's output is PROVED to meet the statement *)
Inductive case :=
| CTri (use_model need_spec need_cover gp : bool) (pts : list (Z * Z)) (tris : list (nat * nat * nat))
       (pos : list (Z * Z * Z)) (sup : list (Z * Z)) (attr_lens : list nat) (caller_after : list (Z * Z))
(* the exported predicates on their own: Triangle{0,1,2}.InsideCircumcircle(p, [a,b,c]),
   Triangle{0,1,2}.CounterClockwise([a,b,c]) and Triangle(t).Edges() as the implementation answered *)
| CPred (a b c p : Z * Z) (inside ccw : bool) (t : nat * nat * nat) (es : list (nat * nat))
(* a rung of the size ladder (1100-4200 points): the triangles are judged by the harness' exact integer
   oracle (the certified checker is too expensive here); Coq sees vertex identity only *)
| CBig (pts : list (Z * Z)) (pos : list (Z * Z * Z)) (attr_lens : list nat) (caller_after : list (Z * Z)).

Definition qpts (pts : list (Z * Z)) : list pt := map (fun p => (inject_Z (fst p), inject_Z (snd p))) pts.
Definition tri_inb (t : tri) (l : list tri) : bool := existsb (tri_eqb t) l.

(* a triangle is a cyclic triple: rotate the smallest index to the front (keeps the winding) *)
Definition canon (t : tri) : tri :=
  let '(a, b, c) := t in
  if ((a <=? b) && (a <=? c))%nat then t
  else if ((b <=? a) && (b <=? c))%nat then (b, c, a) else (c, a, b).

Fixpoint sup_okb (m : list pt) (sup : list (Z * Z)) : bool :=
  match m, sup with
  | [], [] => true
  | (x, y) :: ms, (a, b) :: ss =>
      Qeq_bool (2 * x) (inject_Z a) && Qeq_bool (2 * y) (inject_Z b) && sup_okb ms ss
  | _, _ => false
  end.

(* model vs implementation: the same super triangle, the same set of wound triangles (the order of the index buffer is the
   map order and the rotation of a triple is not an observable the statement talks about), and the
   run of the model meets the hypothesis of bw_delaunay_partial (closed_run, decided by closed_runb)
   on this input — by cavities_from_edge_closure this implies the two cavity facts at every step *)
Definition mirror (t : tri) : tri := let '(a, b, c) := t in (a, c, b).
Definition same_trisb (ts tris : list tri) : bool :=
  (length ts =? length tris)%nat &&
  forallb (fun t => tri_inb t tris) ts && forallb (fun t => tri_inb t ts) tris.

(* the statement asks for ONE winding for all triangles, not for a particular one: the implementation's set
   may be the model's (clockwise) set or its mirror image as a whole *)
Definition qpt (p : Z * Z) : pt := (inject_Z (fst p), inject_Z (snd p)).
(* the centre of the circle through a, b, c (orient a b c <> 0), by the perpendicular-bisector equations —
   independent of the in-circle determinant *)
Definition centre (a b c : pt) : pt :=
  let o := orient a b c in
  let A := fst a * fst a + snd a * snd a in
  let B := fst b * fst b + snd b * snd b in
  let C := fst c * fst c + snd c * snd c in
  ((A * (snd b - snd c) + B * (snd c - snd a) + C * (snd a - snd b)) / (2 * o),
   (A * (fst c - fst b) + B * (fst a - fst c) + C * (fst b - fst a)) / (2 * o)).

Definition corr_ok (c : case) : bool :=
  match c with
  | CBig _ _ _ _ => true
  | CPred a b c p inside ccw t es =>
      (* InsideCircumcircle is compared where the algorithm uses it — on clockwise triangles (all values of
         the determinant, zero included); what it answers for the other winding is not part of any contract.
         Edges: the same three directed edges, in any order *)
      let P := [qpt a; qpt b; qpt c] in
      (if Qltb (orient (qpt a) (qpt b) (qpt c)) 0
       then Bool.eqb inside (in_circb P (0, 1, 2)%nat (qpt p)) else true) &&
      Bool.eqb ccw (ccwb P (0, 1, 2)%nat) &&
      (length es =? 3)%nat && forallb (fun e => existsb (edge_eqb e) es) (edges t)
  | CTri m _ _ gp pts tris _ sup _ _ =>
      if m then
        match bw (qpts pts) with
        | Some ts => let ts := map canon ts in
                     (same_trisb ts (map canon tris) || same_trisb ts (map (fun t => canon (mirror t)) tris)) &&
                     closed_runb super_fixed (qpts pts) && sup_okb (super_fixed (qpts pts)) sup &&
                     (if gp then gp_strongb (qpts pts ++ super_fixed (qpts pts)) else true)
        | None => false
        end
      else true
  end.

Fixpoint pos_okb (pts : list (Z * Z)) (pos : list (Z * Z * Z)) : bool :=
  match pts, pos with
  | [], [] => true
  | (x, y) :: ps, (a, b, c) :: qs => (a =? x)%Z && (b =? 0)%Z && (c =? y)%Z && pos_okb ps qs
  | _, _ => false
  end.

(* the input the caller still holds is the input it passed (vertex i = input point i is a statement
   about the caller's points) *)
Fixpoint same_ptsb (pts after : list (Z * Z)) : bool :=
  match pts, after with
  | [], [] => true
  | (x, y) :: ps, (a, b) :: qs => (a =? x)%Z && (b =? y)%Z && same_ptsb ps qs
  | _, _ => false
  end.

(* the property on the implementation's output: certified 4-conjunct checker, vertex i = input
   point i at (x,0,y) with exactly one vertex per input point in every attribute, and
   "triangulation of the input": every point used, 2n-2-h triangles, and
   the triangle areas add up to the area of the convex hull (exact in Q) *)
Definition prop_ok (c : case) : bool :=
  match c with
  | CBig pts pos alens after =>
      pos_okb pts pos && forallb (Nat.eqb (length pts)) alens && same_ptsb pts after
  | CPred a b c p inside ccw _ _ =>
      (* what the algorithm relies on: for a clockwise triangle the answer is "strictly inside the circle",
         judged by distances to the centre; the winding test is the sign of twice the signed area.  On the
         zero sets (p exactly on the circle, corners on a line) either answer is compatible with the
         statement — general position excludes them — so only corr_ok looks at them *)
      let '(a, b, c, p) := (qpt a, qpt b, qpt c, qpt p) in
      let area2 := cross a b + cross b c + cross c a in
      (if Qeq_bool area2 0 then true else Bool.eqb ccw (Qltb 0 area2)) &&
      (if Qltb (orient a b c) 0
       then let u := centre a b c in
            if Qeq_bool (dist2 p u) (dist2 a u) then true
            else Bool.eqb inside (Qltb (dist2 p u) (dist2 a u))
       else true)
  | CTri _ spec cover _ pts tris pos _ alens after =>
      let q := qpts pts in
      (if spec then pos_okb pts pos && forallb (Nat.eqb (length pts)) alens && same_ptsb pts after &&
                    delaunayb q tris else true) &&
      (if cover then completeb q tris && coverb q tris else true)
  end.
