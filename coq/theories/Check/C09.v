(* C09 correspondence: cases written by harness/cmd/c09 are evaluated here by vm_compute.

   A case carries
     - the lattice box lo..hi (inclusive) and the lattice points whose sample, as accumulated by
       the implementation's own field functions, is below the cutoff (linear codes),
     - what MarchingCanvas.March returned: the triangle index list and, for every output vertex,
       the id of its weld bucket (Vector3ToInt(position, 3), numbered by the harness),
     - for every grid edge with a sign change the weld bucket of its crossing point.
   corr_ok : the model's surface on that sign grid, pushed through the weld (relabel by bucket,
             drop collapsed triangles), equals the implementation's triangles as a multiset of
             rotation classes.
   prop_ok : the property on the implementation's own output: closed (every directed edge at
             most once, reverse present), no degenerate face, every vertex in the weld bucket
             of a crossing point of a grid edge whose end points have different signs. *)
From Coq Require Import List ZArith NArith Bool MSetPositive FMapPositive.
From PF Require Export March.Grid March.Closed Check.Common.
Import ListNotations.
Open Scope Z_scope.

Inductive case :=
| CGrid (lo hi : pt)                 (* lattice points lo <= p <= hi, cells lo <= c < hi *)
        (inside : list Z)            (* point codes with sample < cutoff *)
        (ecodes : list Z)            (* grid edges with a sign change: 3 * point code + axis *)
        (ebuckets : list N)          (* weld bucket of the crossing point, same order *)
        (vbuckets : list N)          (* weld bucket of output vertex 0, 1, ... *)
        (tris : list N)              (* output indices, three per triangle *)
        (skip_corr : bool)           (* harness: two crossings closer than the in-block dedupe radius
                                        fall in different final buckets -- order dependent *)
| CGoOnly.                           (* too large to evaluate here: harness-side oracles only *)

(* the harness writes its long lists as first differences (smaller numerals parse much faster) *)
Fixpoint undz_from (acc : Z) (l : list Z) : list Z :=
  match l with
  | [] => []
  | d :: r => let a := acc + d in a :: undz_from a r
  end.
Definition undz (l : list Z) : list Z := undz_from 0 l.
Definition undn (l : list Z) : list N := map Z.to_N (undz l).

(* ---- linear codes ---- *)
Definition inbox (lo hi p : pt) : bool :=
  let '(lx, ly, lz) := lo in let '(hx, hy, hz) := hi in let '(x, y, z) := p in
  (lx <=? x) && (x <=? hx) && (ly <=? y) && (y <=? hy) && (lz <=? z) && (z <=? hz).
Definition pcode (lo hi p : pt) : Z :=
  let '(lx, ly, lz) := lo in let '(hx, hy, hz) := hi in let '(x, y, z) := p in
  (x - lx) + (hx - lx + 1) * ((y - ly) + (hy - ly + 1) * (z - lz)).
Definition pdecode (lo hi : pt) (c : Z) : pt :=
  let '(lx, ly, lz) := lo in let '(hx, hy, hz) := hi in
  let w := hx - lx + 1 in let h := hy - ly + 1 in
  (lx + c mod w, ly + (c / w) mod h, lz + c / (w * h)).
Definition gcode (lo hi : pt) (g : gedge) : Z := 3 * pcode lo hi (fst g) + snd g.
Definition gdecode (lo hi : pt) (c : Z) : gedge := (pdecode lo hi (c / 3), c mod 3).

Definition key (c : Z) : positive := Z.to_pos (c + 1).
Definition set_of (l : list Z) : PositiveSet.t :=
  fold_left (fun s c => PositiveSet.add (key c) s) l PositiveSet.empty.
Definition sign_of (lo hi : pt) (set : PositiveSet.t) (p : pt) : bool :=
  inbox lo hi p && PositiveSet.mem (key (pcode lo hi p)) set.
Definition strictly_insideb (lo hi p : pt) : bool :=
  let '(lx, ly, lz) := lo in let '(hx, hy, hz) := hi in let '(x, y, z) := p in
  (lx <? x) && (x <? hx) && (ly <? y) && (y <? hy) && (lz <? z) && (z <? hz).

Fixpoint zip_map (ks : list Z) (vs : list N) (m : PositiveMap.t N) : PositiveMap.t N :=
  match ks, vs with
  | k :: ks', v :: vs' => zip_map ks' vs' (PositiveMap.add (key k) v m)
  | _, _ => m
  end.

Fixpoint triples (l : list N) : list itri :=
  match l with
  | a :: b :: c :: r => (a, b, c) :: triples r
  | _ => []
  end.

(* ---- model side ---- *)
Definition bucket_tri (lo hi : pt) (m : PositiveMap.t N) (t : tri) : option itri :=
  let '(a, b, c) := t in
  match PositiveMap.find (key (gcode lo hi a)) m, PositiveMap.find (key (gcode lo hi b)) m,
        PositiveMap.find (key (gcode lo hi c)) m with
  | Some x, Some y, Some z => Some (x, y, z)
  | _, _, _ => None
  end.
Fixpoint all_some {A} (l : list (option A)) : option (list A) :=
  match l with
  | [] => Some []
  | Some x :: r => match all_some r with Some r' => Some (x :: r') | None => None end
  | None :: _ => None
  end.

(* vertex index -> bucket, through a map (nth would make the relabelling quadratic) *)
Fixpoint index_map (vb : list N) (i : N) (m : PositiveMap.t N) : PositiveMap.t N :=
  match vb with
  | [] => m
  | b :: r => index_map r (N.succ i) (PositiveMap.add (N.succ_pos i) b m)
  end.
Definition vlabel_of (m : PositiveMap.t N) (i : N) : N :=
  match PositiveMap.find (N.succ_pos i) m with Some b => b | None => 0%N end.
Definition vlabel (vb : list N) : N -> N := vlabel_of (index_map vb 0%N (PositiveMap.empty N)).

Definition corr_ok (c : case) : bool :=
  match c with
  | CGoOnly => true
  | CGrid lo hi inside ecodes ebuckets vbuckets tris skip =>
      let set := set_of inside in
      let s := sign_of lo hi set in
      (* hypothesis of grid_closed: below-cutoff samples strictly inside the box *)
      forallb (fun c => strictly_insideb lo hi (pdecode lo hi c)) inside &&
      (skip ||
       match all_some (map (bucket_tri lo hi (zip_map ecodes ebuckets (PositiveMap.empty N))) (surface s lo hi)) with
       | Some mts =>
           let lab := vlabel vbuckets in
           tri_multiset_eqb (filter itri_nondeg mts) (map (relabel lab) (triples tris))
       | None => false
       end)
  end.

(* ---- the property on the implementation's output ---- *)
Definition nset_of (l : list N) : PositiveSet.t :=
  fold_left (fun s c => PositiveSet.add (N.succ_pos c) s) l PositiveSet.empty.

Definition prop_ok (c : case) : bool :=
  match c with
  | CGoOnly => true
  | CGrid lo hi inside ecodes ebuckets vbuckets tris skip =>
      let ts := triples tris in
      let nv := N.of_nat (length vbuckets) in
      let set := set_of inside in
      let s := sign_of lo hi set in
      let eb := nset_of ebuckets in
      (Nat.eqb (length tris mod 3) 0) &&
      forallb (fun i => (i <? nv)%N) tris &&
      inondeg ts && iclosedb ts &&
      (* distinct vertices are in distinct weld buckets *)
      n_nodupb vbuckets &&
      (* the listed grid edges do have a sign change ... *)
      Nat.eqb (length ecodes) (length ebuckets) &&
      forallb (fun e => let g := gdecode lo hi e in
                        negb (Bool.eqb (s (fst g)) (s (padd (fst g) (axis_vec (snd g)))))) ecodes &&
      (* ... and every output vertex is (up to the weld) the crossing point of one of them *)
      forallb (fun b => PositiveSet.mem (N.succ_pos b) eb) vbuckets
  end.
