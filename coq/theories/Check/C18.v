(* C18 correspondence: cases written by harness/cmd/c18 are evaluated here by vm_compute. *)
From PF Require Export Gen.Closed Gen.Sphere Gen.Hemisphere Gen.Cylinder Gen.Cube Check.Common.
From Coq Require Import FMapPositive Uint63.
Open Scope N_scope.

Inductive fam :=
| FSphere (r c : N) | FSphereU (r c : N) | FHemi (r c : N) | FCyl (sides : N) | FCubeW | FCubeQ.

Definition m_idx (f : fam) : list N :=
  match f with
  | FSphere r c => sphere_idx r c | FSphereU r c => sphereU_idx r c | FHemi r c => hemi_idx r c
  | FCyl n => cyl_idx n | FCubeW => cubeW_idx | FCubeQ => cubeQ_idx
  end.
Definition m_nverts (f : fam) : N :=
  match f with
  | FSphere r c => sphere_nverts r c | FSphereU r c => sphereU_nverts r c | FHemi r c => hemi_nverts r c
  | FCyl n => cyl_nverts n | FCubeW => cubeW_nverts | FCubeQ => cubeQ_nverts
  end.
Definition m_cls (f : fam) : N -> N :=
  match f with
  | FSphere _ _ => sphere_cls | FSphereU r c => sphereU_cls r c | FHemi _ _ => hemi_cls
  | FCyl n => cyl_cls n | FCubeW => cubeW_cls | FCubeQ => cubeQ_cls
  end.

Inductive case :=
(* small counts: the implementation's index list and, per vertex, the smallest vertex id with the same position *)
| CFull (f : fam) (nverts : N) (idx rep : list N)
(* boxes with even integer extents: additionally the (exact, integer) positions *)
| CCube (welded : bool) (hw hh hd : Z) (nverts : N) (idx rep : list N) (pos : list vec)
(* large counts: two hashes of the implementation's index list and of its class list *)
| CHash (f : fam) (nverts nidx : N) (hidx hrep : Z * Z)
(* very large counts (around 2^14 … 2^16 vertices, where size-dependent code paths of an implementation would start):
   fingerprints only; closedness, volume and orientation of the implementation's output are judged by the harness,
   closedness of the model's list for these parameters is a theorem (Properties/C18.v), not re-evaluated here *)
| CBig (f : fam) (nverts nidx : N) (hidx hrep : Z * Z)
(* parameters outside the accepted range: did the constructor reject them (panic with an error)? *)
| CReject (kind : N) (r c : Z) (rejected : bool)
(* purely numerical observation (convergence of the volume), judged by the harness *)
| CGoOnly.

Definition listN_eqb := leqb N.eqb.

(* canonical class list of a class map on 0..n-1: smallest index with the same class *)
Definition canon_reps (cls : N -> N) (n : N) : list N :=
  let step (acc : PositiveMap.t N * list N) (v : N) :=
    let '(m, out) := acc in
    let k := N.succ_pos (cls v) in
    match PositiveMap.find k m with
    | Some r => (m, r :: out)
    | None => (PositiveMap.add k v m, v :: out)
    end in
  rev_append (snd (fold_left step (nseq n) (PositiveMap.empty N, []))) []. (* List.rev is quadratic *)

Definition table (l : list N) : PositiveMap.t N :=
  snd (fold_left (fun '(k, m) x => (N.succ k, PositiveMap.add (N.succ_pos k) x m)) l (0, PositiveMap.empty N)).
Definition lookup (t : PositiveMap.t N) (k : N) : N :=
  match PositiveMap.find (N.succ_pos k) t with Some x => x | None => k end.

(* two polynomial fingerprints modulo 2^63 (kernel machine integers: N division made hashing the bottleneck) *)
Definition int_of_N (n : N) : int := match n with N0 => 0%uint63 | Npos p => of_pos p end.
Definition hash1 (m : int) (l : list N) : Z :=
  to_Z (fold_left (fun h x => (h * m + int_of_N x + 1)%uint63) l 0%uint63).
Definition hash2 (l : list N) : Z * Z := (hash1 1000003%uint63 l, hash1 998244353%uint63 l).
Definition pairN_eqb (a b : Z * Z) : bool := (fst a =? fst b)%Z && (snd a =? snd b)%Z.

Definition rejects (kind : N) (r c : Z) : bool :=
  match kind with
  | 0 | 1 => (r <? 0)%Z || (c <? 0)%Z || negb (sphere_accepts (Z.to_N r) (Z.to_N c))
  | 2 => (r <? 0)%Z || (c <? 0)%Z || negb (hemi_accepts (Z.to_N r) (Z.to_N c))
  | _ => false
  end.

(* model vs implementation *)
Definition corr_ok (c : case) : bool :=
  match c with
  | CFull f nv idx rep =>
      (m_nverts f =? nv) && listN_eqb (m_idx f) idx && listN_eqb (canon_reps (m_cls f) nv) rep
  | CCube w hw hh hd nv idx rep pos =>
      let f := if w then FCubeW else FCubeQ in
      (m_nverts f =? nv) && listN_eqb (m_idx f) idx && listN_eqb (canon_reps (m_cls f) nv) rep
      && leqb vec_eqb ((if w then cubeW_pos else cubeQ_pos) hw hh hd) pos
      && listN_eqb (pos_classes pos) rep
  | CHash f nv ni hi hr =>
      (m_nverts f =? nv) && (N.of_nat (length (m_idx f)) =? ni)
      && pairN_eqb (hash2 (m_idx f)) hi && pairN_eqb (hash2 (canon_reps (m_cls f) nv)) hr
  | CBig f nv ni hi hr =>
      let l := m_idx f in
      (m_nverts f =? nv) && (N.of_nat (length l) =? ni)
      && pairN_eqb (hash2 l) hi && pairN_eqb (hash2 (canon_reps (m_cls f) nv)) hr
  | CReject k r c rej => Bool.eqb (rejects k r c) rej
  | CGoOnly => true
  end.

(* the property itself, evaluated on what the implementation returned (direct oracle):
   well-formed indices, and closed + consistently oriented once coincident positions are merged;
   boxes: additionally exact volume and outward faces *)
Definition prop_ok (c : case) : bool :=
  match c with
  | CFull f nv idx rep =>
      (N.of_nat (length rep) =? nv) && wf_idxb nv idx && closed_idxb (lookup (table rep)) idx
  | CCube w hw hh hd nv idx rep pos =>
      (N.of_nat (length rep) =? nv) && (N.of_nat (length pos) =? nv) && wf_idxb nv idx
      && closed_idxb (lookup (table rep)) idx
      && let ts := tris_of (map (fun i => nth (N.to_nat i) pos vzero) idx) in
         (vol6 ts =? 6 * ((2 * hw) * (2 * hh) * (2 * hd)))%Z && forallb (faces_awayb vzero) ts
  | CHash f nv ni hi hr =>
      (* only hashes of the implementation's lists are available here: closedness of the list they
         hash equal to; the implementation's own list is judged by the harness (closedGo) *)
      wf_idxb nv (m_idx f) && closed_idxb (m_cls f) (m_idx f)
  | CBig f nv ni hi hr => (ni mod 3 =? 0) && (0 <? nv)      (* whole triangles; the rest is the harness oracle *)
  | CReject _ _ _ _ => true
  | CGoOnly => true
  end.
