(* C05 correspondence: cases written by harness/cmd/c05 are evaluated here by vm_compute. *)
From PF Require Export Base.Bytes Formats.Obj Formats.ObjText Formats.ObjFiles Check.Common.
Open Scope nat_scope.

Definition rd := (list mesh * name)%type.
Inductive case :=
(* stream 1: meshes -> obj.WriteMeshes (tokenised) -> obj.ReadMesh *)
| CWrite (mtl : option name) (ms : list mesh) (impl_lines : res (list line)) (impl_read : res rd)
(* stream 2: OBJ lines -> ReadMesh -> WriteMeshes (tokenised) -> ReadMesh *)
| CFile (file : list line) (impl_read1 : res rd) (impl_lines : res (list line)) (impl_read2 : res rd)
(* the same with the raw BYTES of the input text: Formats/ObjText.v finds the statements; [ftab] = the number
   tokens of the text with the float32 word Go parsed; [c] = the CFile case built from the harness tokenizer *)
| CText (text : list N) (ftab : list (list N * N)) (c : case)
(* the bytes WriteMeshes printed and the statements the harness tokenizer found in them *)
| CTok (text : list N) (ftab : list (list N * N)) (tok_lines : list line) (c : case)
(* stream 4 (round 4): an OBJ text and the .mtl files next to it -> obj.Load -> obj.Save (one group; the name is not
   kept) or obj.SaveAll (distinct names, [keep] = true) into a fresh directory -> obj.Load, groups given in the order of
   the first Load; None: the second stage is not possible (equal names cannot be keys of SaveAll's map) *)
| CLoad (file : list line) (fs : fsys) (impl_load1 : res (list mesh)) (keep : bool)
        (impl_load2 : option (res (list mesh)))
(* size ladder (2^10+1 .. 2^16+1 faces): judged harness-side by an exact Go re-implementation of file_groups / obs /
   obs_written (harness/cmd/c05/ladder.go; verdict = GoFail); the term only records the size, no obligation here.
   The bottom rung is also evaluated as ordinary CWrite / CFile cases. *)
| CLadder (faces groups : N).

(* Only what the property talks about is compared (a rewrite of the Go code that keeps it must stay quiet):
   a text by its validity, its direct meaning and its mtllib names - not line by line; a reader result by the
   observation of its groups, their well-formedness (the writer's precondition) and the library names - not
   by the numbering of the de-duplicated vertices. *)
Definition gobs_list_eqb := list_eqb gobs_eqb.
Definition rd_eqb (a b : rd) : bool :=
  gobs_list_eqb (map obs (fst a)) (map obs (fst b))
  && list_eqb Bool.eqb (map wf_mesh (fst a)) (map wf_mesh (fst b))
  && name_eqb (snd a) (snd b).
Definition lines_eqb (a b : list line) : bool :=
  Bool.eqb (valid a) (valid b) && gobs_list_eqb (file_groups a) (file_groups b)
  && name_eqb (lib_names a) (lib_names b).
Definition read := read_gen cfg_full.      (* /repo HEAD: f82d47b, 331d6c1, ca6f159 *)
Definition ms_eqb (a b : list mesh) : bool :=
  gobs_list_eqb (map obs a) (map obs b) && list_eqb Bool.eqb (map wf_mesh a) (map wf_mesh b).
Definition resaved (keep : bool) (gs : list mesh) : list mesh := if keep then gs else map unnamed gs.

Definition text_lines (text : list N) (ftab : list (list N * N)) : list tline :=
  lines_of_bytes (lookup_tok ftab) atoi itoa text.
Definition tlines_eqb (a : list tline) (b : list line) : bool := list_eqb tline_eqb a (map TL b).

(* model vs implementation *)
Definition corr_base (c : case) : bool :=
  match c with
  | CWrite mtl ms il ir =>
      (* outside the property's domain (ill-formed mesh, empty mesh in front of another one, unnamed material) only
         the error class of the writer is compared: what such a text looks like is nobody's contract; the reader
         model is still run on the text the implementation wrote *)
      (if wf_list ms then res_eqb lines_eqb (write mtl ms) il else res_eqb (fun _ _ => true) (write mtl ms) il) &&
      match il with Ok ls => res_eqb rd_eqb (read ls) ir | _ => true end
  | CFile file r1 il r2 =>
      res_eqb rd_eqb (read file) r1 &&
      match r1 with
      | Ok (gs, _) =>
          (* the writer model is deterministic on well-formed meshes only (Mesh.AttributeLength) *)
          (negb (forallb wf_mesh gs) || res_eqb lines_eqb (write None gs) il) &&
          match il with Ok ls => res_eqb rd_eqb (read ls) r2 | _ => true end
      | _ => true
      end
  | CLoad file fs r1 keep r2 =>
      res_eqb ms_eqb (load fs file) r1 &&
      match r1, r2 with
      | Ok gs1, Some r2' =>
          negb (forallb wf_mesh gs1) ||
          match save_all (resaved keep gs1) with
          | (Ok ls, fs2) => res_eqb ms_eqb (load fs2 ls) r2'
          | (Declared, _) => res_eqb ms_eqb Declared r2'
          | (Crash, _) => res_eqb ms_eqb Crash r2'
          end
      | _, _ => true
      end
  | _ => true
  end.
Definition corr_ok (c : case) : bool :=
  match c with
  | CText text ftab (CFile file r1 il r2) =>
      tlines_eqb (text_lines text ftab) file && corr_base (CFile file r1 il r2)
  | CText _ _ _ => false
  | CTok text ftab ls c' => tlines_eqb (text_lines text ftab) ls && corr_base c'
  | _ => corr_base c
  end.

(* the property itself, evaluated on what the implementation returned: the written text is judged by the
   direct line semantics (file_groups), the read-back meshes by their observation; the reader model is not used *)
Definition prop_base (c : case) : bool :=
  match c with
  | CWrite mtl ms il ir =>
      if wf_list ms then
        match il, ir with
        | Ok ls, Ok (gs, libs) =>
            valid ls
            && gobs_list_eqb (file_groups ls) (map obs_written ms)
            && gobs_list_eqb (map obs gs) (map obs_written ms)
            && name_eqb libs (match mtl with Some f => f | None => [] end)
        | _, _ => false
        end
      else true
  | CFile file r1 il r2 =>
      if valid file then
        match r1, il, r2 with
        | Ok (gs1, libs), Ok ls, Ok (gs2, _) =>
            gobs_list_eqb (map obs gs1) (file_groups file)
            && name_eqb libs (lib_names file)
            && valid ls
            && gobs_list_eqb (file_groups ls) (map obs_written gs1)
            && gobs_list_eqb (map obs gs2) (map obs_written gs1)
        | _, _, _ => false
        end
      else true
  (* Load of a valid OBJ whose libraries exist: the groups are the direct meaning of the text, a face keeps its
     material name when some library defines it (nil otherwise); saving and loading again keeps every face and the
     written spelling of every material.  Nothing is demanded when a library is missing. *)
  | CLoad file fs r1 keep r2 =>
      if valid file then
        match load_defs fs (lib_names file) with
        | Ok defs =>
            match r1 with
            | Ok gs1 =>
                gobs_list_eqb (map obs gs1) (map (gobs_resolved defs) (file_groups file))
                && match r2 with
                   | Some (Ok gs2) => gobs_list_eqb (map obs gs2) (map obs_written (resaved keep gs1))
                   | Some _ => false
                   | None => true
                   end
            | _ => false
            end
        | _ => true
        end
      else true
  | _ => true
  end.
Definition prop_ok (c : case) : bool :=
  match c with
  | CText text ftab (CFile _ r1 il r2) =>
      (* judged on the statements Coq's own text layer finds in the bytes, not on the harness tokenizer's *)
      match good_prefix (text_lines text ftab) with
      | (file, false) => prop_base (CFile file r1 il r2)
      | _ => true
      end
  | CText _ _ _ => true
  | CTok _ _ _ c' => prop_base c'
  | _ => prop_base c
  end.
