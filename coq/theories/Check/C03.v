(* C03 correspondence: cases written by harness/cmd/c03 (via harness/meshgen) are evaluated here by vm_compute. *)
From PF Require Export Mesh.Pure Mesh.Case Check.Common.
(* corr_ok : model (Mesh/Pure.v step) = implementation, see Mesh/Case.v *)
(* the property itself on the implementation's output: the per-operation contract on rows/corners
   (Mesh/Case.v contract, frame_ok, law_ok) - evaluated without running the model's step *)
Definition prop_ok : case -> bool := prop_c03.
