(* Shared by the correspondence checks: indices of the cases on which a boolean test fails. *)
From Coq Require Import List NArith.
Import ListNotations.

Fixpoint failing_from {A} (f : A -> bool) (k : N) (l : list A) : list N :=
  match l with
  | [] => []
  | x :: xs => if f x then failing_from f (N.succ k) xs else k :: failing_from f (N.succ k) xs
  end.
Definition failing {A} (f : A -> bool) (l : list A) : list N := failing_from f 0%N l.
