(* C01 correspondence: histories run by harness/cmd/c01 on the real modeling.Mesh API are evaluated here.
   A case is one branching history: the operations, the error class the implementation showed for each, and for
   every pool member its run-length encoded sequence of snapshots (the harness re-reads EVERY live member after
   EVERY operation; consecutive identical snapshots are merged, so a member that never changes has one run). *)
From PF Require Export Mesh.Heap Check.Common.
From Coq Require Import List NArith ZArith Bool Arith.
Import ListNotations.

Inductive case :=
| CHist (ops : list op) (stat : list status)
        (segs : list (list (nat * obs))).   (* member k: [(t0, snapshot from step t0 on); (t1, snapshot from t1 on); ...] *)

(* the growth policy used when the model is executed; by immutable_history the observations of the repaired model do
   not depend on it *)
Definition grow_model := grow_double.

(* what the implementation reported for member k after step t (None: not created yet) *)
Fixpoint seg_at (sg : list (nat * obs)) (t : nat) (cur : option obs) : option obs :=
  match sg with
  | [] => cur
  | (t0, o) :: r => if t0 <=? t then seg_at r t (Some o) else cur
  end.

Definition opt_obs_eqb (a b : option obs) : bool :=
  match a, b with Some x, Some y => obs_eqb x y | None, None => true | _, _ => false end.

Fixpoint corr_steps (tr : list (state * status)) (stat : list status) (segs : list (list (nat * obs))) (t : nat) : bool :=
  match tr, stat with
  | [], [] => true
  | (st, c) :: tr', c' :: stat' =>
      status_eqb c c' &&
      Nat.leb (length (pool st)) (length segs) &&
      forallb (fun k => opt_obs_eqb (observe_member st k) (seg_at (nth k segs []) t None)) (seq 0 (length segs)) &&
      corr_steps tr' stat' segs (S t)
  | _, _ => false
  end.

(* model vs implementation: same error class at every step, same observation of every member after every step *)
Definition corr_ok (c : case) : bool :=
  match c with
  | CHist ops stat segs => corr_steps (trace grow_model true init ops) stat segs 0
  end.

(* the property itself on the implementation's snapshots (direct oracle, no model involved):
   every member's snapshot sequence is constant *)
Definition prop_ok (c : case) : bool :=
  match c with
  | CHist _ _ segs => immutableb segs
  end.
