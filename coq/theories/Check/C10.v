(* C10 correspondence: cases written by harness/cmd/c10 are evaluated here by vm_compute.
   corr_ok: the model (Par/Partition.v, Par/Interleave.v, run on canonical schedules) predicts what
            the implementation did;
   prop_ok: the property itself on the implementation's observations (every index exactly once
            with its own value; parallel = sequential because both are judged against the same ideal
            observation and output), without calling the model's partition. *)
From PF Require Export Par.Partition Par.Interleave Check.Common.
From Coq Require Import List Arith NArith ZArith Bool.
From Coq Require Export Uint63.
Import ListNotations.

(* ---- the harness' deterministic test data (same formulas in harness/cmd/c10/main.go) ---- *)
Open Scope N_scope.
(* component x of element i *)
Definition dat (salt : N) (i : nat) : N := (salt + 7 * N.of_nat i) mod 1000.
(* value code of an arity-a vector whose k-th component is h k *)
Definition code (a : nat) (h : N -> N) : N :=
  h 0 + (if (2 <=? a)%nat then 65536 * h 1 else 0) + (if (3 <=? a)%nat then 4294967296 * h 2 else 0).
(* attribute data: element i = (x, x+1, x+2) truncated to the arity *)
Definition dat_code (a : nat) (salt : N) (i : nat) : N := code a (fun k => dat salt i + k).
(* the modification callback, component-wise: g i v = 3 v + 5 i + 1 *)
Definition gfun (i : nat) (v : N) : N := 3 * v + 5 * N.of_nat i + 1.
Definition out_code (a : nat) (salt : N) (i : nat) : N := code a (fun k => gfun i (dat salt i + k)).
(* on value codes (the model's V = N): decode the first component, re-encode the output *)
Definition gcode (a : nat) (i : nat) (c : N) : N := let x := c mod 65536 in code a (fun k => gfun i (x + k)).

(* primitives: index buffer idx j = (salt + 5 j) mod nverts; vertex v sits at x = (salt + 11 v) mod 997 *)
Definition idx_at (salt : N) (nverts : nat) (j : nat) : N := (salt + 5 * N.of_nat j) mod (N.of_nat nverts).
Definition topo_of (t : nat) : topology := match t with O => Triangle | 1%nat => Point | _ => LineStrip end.
Definition prim_code (t : topology) (salt : N) (nverts : nat) (i : nat) : N :=
  match t with
  | Triangle => idx_at salt nverts (3 * i) + 65536 * idx_at salt nverts (3 * i + 1)
                + 4294967296 * idx_at salt nverts (3 * i + 2)
  | Point => (salt + 11 * N.of_nat i) mod 997
  | LineStrip => idx_at salt nverts i + 65536 * idx_at salt nverts (i + 1)
  end.
Close Scope N_scope.

(* ---- observations ---- *)
(* what the recording callback saw: calls per index in [0,n), sum of the value codes per index,
   and the (sorted) indices of calls outside [0,n) *)
Record obs := { o_cnt : list N; o_val : list N; o_oob : list Z }.

(* The harness writes the (many) counters and value codes as primitive 63-bit integers: a literal of type `int`
   is one kernel node, a literal of type N costs one constructor per bit, and reading the case files dominated
   the wall time of the check.  All codes are below 2^45; they are converted to N before anything is judged. *)
Definition n_of_int (x : int) : N := Z.to_N (Uint63.to_Z x).
Record robs := { r_cnt : list int; r_val : list int; r_oob : list Z }.
Definition obs_of (r : robs) : obs :=
  {| o_cnt := map n_of_int (r_cnt r); o_val := map n_of_int (r_val r); o_oob := r_oob r |}.

Inductive case :=
(* the parallel entry points (pool size s) ...
   rest_ok: everything of the returned mesh that the entry point does not compute -- topology, index buffer, every
   other attribute (same and other arities) -- is bitwise what the input mesh holds (scans return the receiver);
   orig_kept: the input mesh still holds its original data after the call.
   The harness may have made the call in an unusual situation recorded in the case description only: several
   goroutines calling the same entry point on the same mesh at once (every caller must see the ideal observation),
   the result read back only after further calls on other meshes (a retained result must not change), meshes of
   every topology with extra attributes. *)
| CScan (arity : nat) (salt : N) (n s : nat) (par : robs) (rest_ok : bool)
| CPrims (topo : nat) (salt : N) (nidx nverts s : nat) (par : robs) (rest_ok : bool)
| CMod (arity : nat) (salt : N) (n s : nat) (par : robs) (par_out : list int) (orig_kept rest_ok : bool)
(* ... and their sequential counterparts on the same input (one case serves every pool size): parallel and
   sequential are compared by judging both against the same ideal observation / output *)
| CSeqScan (arity : nat) (salt : N) (n : nat) (seq_ : robs) (rest_ok : bool)
| CSeqPrims (topo : nat) (salt : N) (nidx nverts : nat) (seq_ : robs) (rest_ok : bool)
| CSeqMod (arity : nat) (salt : N) (n : nat) (seq_ : robs) (seq_out : list int) (orig_kept rest_ok : bool)
| CPanic (n : nat) (s : Z) (panicked : bool)          (* pool size < 1: declared panic *)
(* marching: canvas-space boxes of the fields added (in order) with the number of Float1Functions of each
   field (field k carries the attributes 0 .. nfun_k - 1; nfun is the number of attributes of the canvas),
   chunk tables read back from both canvases as
   (attribute, chunk position, number of non-zero cells) in the order attribute, x, y, z;
   canvas_eq: same (attribute, chunk) keys and bitwise equal cell arrays;
   march_eq: same panic status and same multiset of triangles (weld-cell keys) *)
| CMarch (boxes : list (nat * (vec * vec))) (nfun : nat)
         (seq_chunks par_chunks : list (nat * vec * Z)) (canvas_eq march_eq : bool)
(* large element counts (too long for per-index lists): run-length encoding (count, run length) of the
   calls per index over [0,n), number of indices whose recorded value (scan: value seen; modify: value
   seen and value returned) is not the expected one, number of calls outside [0,n), and whether the
   sequential entry point produced the very same observation / output *)
| CLarge (n s : N) (runs : list (N * N)) (bad_vals oob : N) (seq_same : bool)
(* the same entry points executed by the binary built with -race: number of case executions and
   number of data-race reports attributed to this case (summary case: to none in particular) *)
| CRace (ran reports : N).

(* ---- helpers ---- *)
Fixpoint list_eqb {A} (eqb : A -> A -> bool) (a b : list A) : bool :=
  match a, b with
  | [], [] => true
  | x :: a', y :: b' => eqb x y && list_eqb eqb a' b'
  | _, _ => false
  end.
Definition obs_eqb (a b : obs) : bool :=
  list_eqb N.eqb (o_cnt a) (o_cnt b) && list_eqb N.eqb (o_val a) (o_val b) && list_eqb Z.eqb (o_oob a) (o_oob b).

(* per-index tally of a list of call events *)
Definition tally (n : nat) (e : list (nat * N)) : obs :=
  let at_i i := filter (fun ev => fst ev =? i) e in
  {| o_cnt := map (fun i => N.of_nat (length (at_i i))) (seq 0 n);
     o_val := map (fun i => fold_left N.add (map snd (at_i i)) 0%N) (seq 0 n);
     o_oob := map (fun ev => Z.of_nat (fst ev)) (filter (fun ev => negb (fst ev <? n)) e) |}.

(* the ideal observation: every index once, with its own value *)
Definition ideal (xs : list N) : obs := {| o_cnt := map (fun _ => 1%N) xs; o_val := xs; o_oob := [] |}.

(* model executions of a scan over value codes xs with pool size s, on three schedules *)
Definition model_scan (xs : list N) (s : nat) : list (list (nat * N)) :=
  if s =? 1 then [scan_seq xs]
  else let ws := scan_workers 0%N xs s in [sched_seq ws; sched_rev ws; sched_round_robin ws].
Definition model_modify (a : nat) (xs : list N) (s : nat) : list (list N) :=
  if s =? 1 then [modify_seq (gcode a) xs]
  else let ws := modify_workers 0%N (gcode a) xs s in
       map (modify_par 0%N xs) [sched_seq ws; sched_rev ws; sched_round_robin ws].
Definition widx_of (st : @wstep N) : nat := match st with Write i _ => i end.
Definition model_modify_calls (a : nat) (xs : list N) (s : nat) : list (nat * N) :=
  if s =? 1 then scan_seq xs
  else map (fun st => (widx_of st, nth (widx_of st) xs 0%N)) (sched_rev (modify_workers 0%N (gcode a) xs s)).

Definition triple_eqb (a b : nat * vec * Z) : bool :=
  let '(a1, av, az) := a in let '(b1, bv, bz) := b in (a1 =? b1) && vec_eqb av bv && (az =? bz)%Z.

(* chunk table predicted for one field box and nfun functions *)
Definition model_chunks (box : vec * vec) (nfun : nat) : list (nat * vec * Z) :=
  flat_map (fun a => map (fun c => (a, c, job_volume c (fst box) (snd box)))
                         (chunk_sections (fst box) (snd box))) (seq 0 nfun).

Definition key_in (k : nat * vec) (l : list (nat * vec)) : bool :=
  existsb (fun k' => (fst k =? fst k') && vec_eqb (snd k) (snd k')) l.

(* the partition of Par/Partition.v on binary numbers, for counts that are too large for nat *)
Definition rangesN (n s : N) : list (N * N) :=
  let ws := (n / s)%N in
  map (fun k => let i := N.of_nat k in let a := (ws * i)%N in
                (a, (a + (if (i =? s - 1)%N then n - a else ws))%N))
      (seq 0 (N.to_nat s)).
(* the ranges follow each other from 0 to n: every index of [0,n) lies in exactly one of them *)
Fixpoint chainN (cur : N) (rs : list (N * N)) (n : N) : bool :=
  match rs with
  | [] => (cur =? n)%N
  | (a, b) :: t => (a =? cur)%N && (a <=? b)%N && chainN b t n
  end.
Definition ideal_runs (n : N) : list (N * N) := if (n =? 0)%N then [] else [(1%N, n)].
Definition runs_eqb (a b : list (N * N)) : bool :=
  list_eqb (fun x y => (fst x =? fst y)%N && (snd x =? snd y)%N) a b.

(* ---- model vs implementation ---- *)
Definition corr_ok (c : case) : bool :=
  match c with
  | CScan a salt n s par _ =>
      let xs := map (dat_code a salt) (seq 0 n) in
      forallb (fun e => obs_eqb (tally n e) (obs_of par)) (model_scan xs s)
  | CPrims t salt nidx nverts s par _ =>
      let n := prim_work (topo_of t) nidx in
      let xs := map (prim_code (topo_of t) salt nverts) (seq 0 n) in
      forallb (fun e => obs_eqb (tally n e) (obs_of par)) (model_scan xs s)
  | CMod a salt n s par par_out _ _ =>
      let xs := map (dat_code a salt) (seq 0 n) in
      forallb (fun out => list_eqb N.eqb out (map n_of_int par_out)) (model_modify a xs s)
      && obs_eqb (tally n (model_modify_calls a xs s)) (obs_of par)
  | CSeqScan a salt n sq _ =>
      let xs := map (dat_code a salt) (seq 0 n) in obs_eqb (tally n (scan_seq xs)) (obs_of sq)
  | CSeqPrims t salt nidx nverts sq _ =>
      let n := prim_work (topo_of t) nidx in
      let xs := map (prim_code (topo_of t) salt nverts) (seq 0 n) in obs_eqb (tally n (scan_seq xs)) (obs_of sq)
  | CSeqMod a salt n sq seq_out _ _ =>
      let xs := map (dat_code a salt) (seq 0 n) in
      list_eqb N.eqb (modify_seq (gcode a) xs) (map n_of_int seq_out) && obs_eqb (tally n (scan_seq xs)) (obs_of sq)
  | CPanic n s panicked =>
      Bool.eqb panicked (match par_indices n (Z.to_nat s) with None => true | Some _ => (s <? 0)%Z end)
  | CMarch boxes nfun seqc parc _ _ =>
      let keys l := map (fun t : nat * vec * Z => (fst (fst t), snd (fst t))) l in
      let model_keys := flat_map (fun b => keys (model_chunks (snd b) (fst b))) boxes in
      (* both chunk tables hold exactly the chunks the model allocates ... *)
      forallb (fun k => key_in k model_keys) (keys seqc) && forallb (fun k => key_in k (keys seqc)) model_keys
      && forallb (fun k => key_in k model_keys) (keys parc) && forallb (fun k => key_in k (keys parc)) model_keys
      (* ... and, for a single field, in the model's order with the model's number of written cells *)
      && match boxes with
         | [b] => list_eqb triple_eqb (model_chunks (snd b) (fst b)) seqc
                  && list_eqb triple_eqb (model_chunks (snd b) (fst b)) parc
         | _ => true
         end
  | CLarge n s runs bad oob _ =>
      (* pool size 1 delegates to the sequential loop; otherwise the model's ranges chain *)
      (if (s =? 1)%N then true else chainN 0%N (rangesN n s) n)
      && runs_eqb runs (ideal_runs n) && (bad =? 0)%N && (oob =? 0)%N
  | CRace _ reports => (reports =? 0)%N         (* no_model_race: the model predicts no report *)
  end.

(* ---- the property on the implementation's output (direct oracle) ---- *)
Definition prop_ok (c : case) : bool :=
  match c with
  | CScan a salt n _ o rest | CSeqScan a salt n o rest =>
      obs_eqb (obs_of o) (ideal (map (dat_code a salt) (seq 0 n))) && rest
  | CPrims t salt nidx nverts _ o rest | CSeqPrims t salt nidx nverts o rest =>
      let n := Z.to_nat (prim_count (topo_of t) nidx) in
      obs_eqb (obs_of o) (ideal (map (prim_code (topo_of t) salt nverts) (seq 0 n))) && rest
  | CMod a salt n _ o out kept rest | CSeqMod a salt n o out kept rest =>
      list_eqb N.eqb (map n_of_int out) (map (out_code a salt) (seq 0 n))
      && obs_eqb (obs_of o) (ideal (map (dat_code a salt) (seq 0 n))) && kept && rest
  | CPanic _ _ _ => true                      (* pool sizes below one are outside the property *)
  | CMarch _ _ seqc parc ceq meq => list_eqb triple_eqb seqc parc && ceq && meq
  | CLarge n _ runs bad oob same => runs_eqb runs (ideal_runs n) && (bad =? 0)%N && (oob =? 0)%N && same
  | CRace _ reports => (reports =? 0)%N
  end.
