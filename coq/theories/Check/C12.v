(* C12 correspondence: cases written by harness/cmd/c12 are evaluated here by vm_compute. *)
From Coq Require Import String Ascii.
From PF Require Export Base.Bytes Graph.Schema Graph.Instance Graph.Values Check.Common.
Open Scope N_scope.
Open Scope string_scope.

(* The node-type table of the binding: the repository's parameter types as generator/parameter/types.go
   registers them, two further Value[T] instantiations with a full default record, harness processors with
   scalar and array inputs, the repository's text / binary / image artifact nodes.  The harness prints the
   table it OBSERVES on the real factory as the [CTable] case of every run. *)
Definition v3zero := JObj [kv "x" (JInt 0); kv "y" (JInt 0); kv "z" (JInt 0)].
Definition v2zero := JObj [kv "x" (JInt 0); kv "y" (JInt 0)].
Definition half3 := JObj [kv "x" (JNum 4602678819172646912); kv "y" (JNum 4602678819172646912); kv "z" (JNum 4602678819172646912)].
Definition aabb0 := JObj [kv "center" v3zero; kv "extents" half3].
Definition pv (v : jval) : option prec := Some (mkprec "" "" (Some v) (Some v) None).

Definition the_table : table :=
 [ mkty [] 1 PValue false (pv (JInt 0));                 (* 0  parameter.Float64 *)
   mkty [] 2 PValue false (pv (JInt 0));                 (* 1  parameter.Int *)
   mkty [] 3 PValue false (pv (JStr ""));                (* 2  parameter.String *)
   mkty [] 4 PValue false (pv (JBool false));            (* 3  parameter.Bool *)
   mkty [] 5 PValue false (pv v2zero);                   (* 4  parameter.Vector2 *)
   mkty [] 6 PValue false (pv v3zero);                   (* 5  parameter.Vector3 *)
   mkty [] 7 PValue false (pv JNull);                    (* 6  parameter.Vector3Array *)
   mkty [] 8 PValue false (pv aabb0);                    (* 7  parameter.AABB *)
   mkty [] 9 PValue false (pv (JStr "#ffffff"));         (* 8  parameter.Color *)
   mkty [] 10 PFile false (Some (mkprec "" "" None None None));    (* 9  parameter.File *)
   mkty [] 11 PImage false (Some (mkprec "" "" None None None));   (* 10 parameter.Image *)
   mkty [] 12 PValue false
        (Some (mkprec "preset" "a parameter type registered with a name, description, default and CLI flag"
                      (Some (JNum 4609434218613702656)) (Some (JNum 4609434218613702656))
                      (Some ("preset", "the <preset> ""value"""))));                     (* 11 Value[float32] *)
   mkty [] 13 PValue false
        (Some (mkprec "tags" "" (Some (JArr [JStr "a"; JStr ""; JStr "ü"])) (Some (JArr [JStr "a"; JStr ""; JStr "ü"])) None));
   mkty [P "Bias" false 2; P "Value" false 1; P "Values" true 1; P "ValuesB" true 1] 1 PNone false None;   (* 13 sum *)
   mkty [P "Flag" false 4; P "Numbers" true 1; P "Parts" true 3; P "Sep" false 3] 3 PNone false None;      (* 14 join *)
   mkty [P "Blob" false 10; P "Box" false 8; P "Count" false 2; P "F32" false 12; P "Pic" false 11; P "Pts" false 7;
         P "Tags" false 13; P "Texts" true 3; P "Tint" false 9; P "V2" false 5; P "V3" false 6] 3 PNone false None;  (* 15 describe *)
   mkty [P "Blobs" true 10] 10 PNone false None;         (* 16 cat *)
   mkty [P "In" false 3] 14 PNone true None;             (* 17 basics.TextNode *)
   mkty [P "In" false 10] 14 PNone true None;            (* 18 basics.BinaryNode *)
   mkty [P "In" false 11] 14 PNone true None;            (* 19 basics.ImageNode *)
   mkty [P "VALUE" false 1; P "Vals" true 1; P "Values" true 1; P "Values2" true 1] 1 PNone false None ].   (* 20 mix: prefix-sharing, mixed-case port names *)

(* registered names of the table's types (the "type" string of a saved node), in table order *)
Definition the_names : list string :=
 [ "github.com/EliCDavis/polyform/generator/parameter.Value[float64]";
   "github.com/EliCDavis/polyform/generator/parameter.Value[int]";
   "github.com/EliCDavis/polyform/generator/parameter.Value[string]";
   "github.com/EliCDavis/polyform/generator/parameter.Value[bool]";
   "github.com/EliCDavis/polyform/generator/parameter.Value[github.com/EliCDavis/vector/vector2.Vector[float64]]";
   "github.com/EliCDavis/polyform/generator/parameter.Value[github.com/EliCDavis/vector/vector3.Vector[float64]]";
   "github.com/EliCDavis/polyform/generator/parameter.Value[[]github.com/EliCDavis/vector/vector3.Vector[float64]]";
   "github.com/EliCDavis/polyform/generator/parameter.Value[github.com/EliCDavis/polyform/math/geometry.AABB]";
   "github.com/EliCDavis/polyform/generator/parameter.Value[github.com/EliCDavis/polyform/drawing/coloring.WebColor]";
   "github.com/EliCDavis/polyform/generator/parameter.File";
   "github.com/EliCDavis/polyform/generator/parameter.Image";
   "github.com/EliCDavis/polyform/generator/parameter.Value[float32]";
   "github.com/EliCDavis/polyform/generator/parameter.Value[[]string]";
   "github.com/EliCDavis/polyform/nodes.Struct[float64,main.SumData]";
   "github.com/EliCDavis/polyform/nodes.Struct[string,main.JoinData]";
   "github.com/EliCDavis/polyform/nodes.Struct[string,main.DescribeData]";
   "github.com/EliCDavis/polyform/nodes.Struct[[]uint8,main.CatData]";
   "github.com/EliCDavis/polyform/nodes.Struct[github.com/EliCDavis/polyform/generator/artifact.Artifact,github.com/EliCDavis/polyform/generator/artifact/basics.TextNodeData]";
   "github.com/EliCDavis/polyform/nodes.Struct[github.com/EliCDavis/polyform/generator/artifact.Artifact,github.com/EliCDavis/polyform/generator/artifact/basics.BinaryNodeData]";
   "github.com/EliCDavis/polyform/nodes.Struct[github.com/EliCDavis/polyform/generator/artifact.Artifact,github.com/EliCDavis/polyform/generator/artifact/basics.ImageNodeData]";
   "github.com/EliCDavis/polyform/nodes.Struct[float64,main.MixData]" ].

(* the value kind of the table's Value[T] types (File / Image hold bytes, the rest are not parameters) *)
Definition the_vkind (k : nat) : option vkind :=
  nth k [Some KF64; Some KInt; Some KStr; Some KBool; Some KV2; Some KV3; Some KV3Arr; Some KAabb; Some KColor;
         None; None; Some KF32; Some KStrs] None.
Definition opt_all {A} (f : A -> bool) (o : option A) : bool := match o with Some x => f x | None => true end.
(* every current and default value of every Value[T] parameter is the saved form of a typed value of its kind
   (Graph/Values.v: reads back to a well-formed value that prints as this very tree) *)
Definition values_canonical (s : inst) : bool :=
  forallb (fun e => match n_par (snd e), the_vkind (n_ty (snd e)) with
                    | Some r, Some k => opt_all (canonical k) (pr_val r) && opt_all (canonical k) (pr_def r)
                    | _, _ => true
                    end) (i_nodes s).

(* the JSON text of a save, for this table.  Floating-point texts are delegated: the text comparison is made on
   schemas without them ([schema_plain]), so the instance of [show_num] is never consulted *)
Definition the_render (h : header) (sc : schema) : string :=
  render (fun _ => "<float>") base64 (fun k => nth k the_names "")
         (fun k => match kind_of the_table k with PFile | PImage => true | _ => false end) h sc.

(* ---- rendering model values as the harness's observation trees ---- *)
Definition jopt (o : option jval) : jval := match o with Some v => JArr [v] | None => JNull end.
Definition jcli (o : option (string * string)) : jval :=
  match o with Some (f, u) => JArr [JStr f; JStr u] | None => JNull end.
Definition jprec (o : option prec) : jval :=
  match o with
  | Some r => JArr [JStr (pr_name r); JStr (pr_desc r); jopt (pr_def r); jopt (pr_val r); jcli (pr_cli r)]
  | None => JNull
  end.
Fixpoint jports (ps : list port) (ins : list (list id)) : list jval :=
  match ps, ins with
  | p :: ps', l :: ins' => JArr [JStr (p_name p); JArr (map JStr l)] :: jports ps' ins'
  | _, _ => []
  end.
Definition jnode (T : table) (e : id * node) : jval :=
  JArr [JStr (fst e); JInt (Z.of_nat (n_ty (snd e))); JArr (jports (ports_of T (n_ty (snd e))) (n_in (snd e)));
        jprec (n_par (snd e));
        (* what a parameter READ (Instance.ParameterData) denotes: the current value *)
        match n_par (snd e) with Some r => jopt (pr_val r) | None => JNull end].
(* [ nodes; producers; metadata ] *)
Definition jinst (T : table) (s : inst) : jval :=
  JArr [JArr (map (jnode T) (i_nodes s));
        JArr (map (fun e => JArr [JStr (fst e); JStr (snd e); JStr "Out"]) (i_prods s));
        JObj (i_meta s)].

Definition jfield (f : sfield) : jval :=
  match f with
  | FAbsent => JNull
  | FPlain v => JArr [v]
  | FView o l => JArr [JInt (Z.of_N o); JInt (Z.of_N l)]
  end.
Definition jdata (o : option sdata) : jval :=
  match o with
  | Some d => JArr [JStr (s_name d); match s_desc d with Some x => JStr x | None => JNull end;
                    jfield (s_cur d); jfield (s_def d); jcli (s_cli d)]
  | None => JNull
  end.
Definition jsnode (sn : snode) : jval :=
  JArr [JStr (s_id sn); JInt (Z.of_nat (s_ty sn));
        JArr (map (fun d => JArr [JStr (d_name d); JStr (d_src d); JStr (d_port d)]) (s_deps sn)); jdata (s_data sn)].
(* [ nodes; producers; metadata; buffer ] *)
Definition jschema (sc : schema) : jval :=
  JArr [JArr (map jsnode (s_nodes sc));
        JArr (map (fun e => let '(n, i, p) := e in JArr [JStr n; JStr i; JStr p]) (s_prods sc));
        JObj (s_meta sc); JBytes (s_buf sc)].

Definition port_eqb (a b : port) : bool :=
  String.eqb (p_name a) (p_name b) && Bool.eqb (p_array a) (p_array b) && N.eqb (p_vt a) (p_vt b).
Definition pkind_eqb (a b : pkind) : bool :=
  match a, b with PNone, PNone | PValue, PValue | PFile, PFile | PImage, PImage => true | _, _ => false end.
Definition ty_eqb (a b : ty) : bool :=
  list_eqb port_eqb (t_ports a) (t_ports b) && N.eqb (t_out a) (t_out b) && pkind_eqb (t_kind a) (t_kind b)
  && Bool.eqb (t_artifact a) (t_artifact b) && opt_eqb prec_eqb (t_def a) (t_def b).

Fixpoint all_eqN (l : list N) : bool :=
  match l with
  | a :: ((b :: _) as r) => N.eqb a b && all_eqN r
  | _ => true
  end.

(* further edits applied after the save to the live instance and to the reloaded one alike, then both observed
   (structure, artifacts, saved tree, digest of the save); [None]: rendered identically to the live one *)
Record contobs := mkcont {
  c_ops : list op; c_oks_live : list bool; c_oks_re : list bool;
  c_live : jval; c_arts_live : jval; c_file_live : jval;
  c_re : option jval; c_arts_re : option jval; c_file_re : option jval;
  c_digs : list N;  (* every save after the continuation: live application x4 + graph level, reloaded likewise *)
  c_again : option jval   (* the live application's save made after the continuation (not its first save: saves, the
                             reads of an autosaving editor, precede the edits) loaded into a fresh application:
                             its structure; None: rendered identically to c_live *) }.

Inductive case :=
(* the factory as the harness observes it *)
| CTable (observed : table)
(* one edit history.  [modulo]: the after-reload observations were taken after undoing, through the API, the
   two known payload differences (File over-read, Image description) — everything must then hold in full *)
| CHist (modulo : bool) (ops : list op) (oks : list bool)
        (before arts_before file1 : jval) (save_digests : list N) (reload_ok : bool)
        (after arts_after file2 : option jval)      (* None: rendered identically to before / arts_before / file1 *)
        (digests2 : list N)        (* the reloaded application saved repeatedly (App.Schema() x4, graph level) *)
        (digest_plain : N)         (* the file loaded into a bare graph.Instance, saved at graph level *)
        (cont : option contobs)
        (text1 : option (header * string))   (* the first save's bytes (small files whose values avoid the delegated texts) *)
(* a shipped graph file: load -> save S1 -> load -> save S2 *)
| CFile (file1 : jval) (file2 : option jval) (arts1 : jval) (arts2 : option jval) (digest1 digest2 : N).

(* ---- dependency order of a generic file tree: every node's dependency names are in the model's order ---- *)
Definition jstr_of (v : jval) : string := match v with JStr s => s | _ => "" end.
Definition node_deps_sorted (n : jval) : bool :=
  match n with
  | JArr [_; _; JArr deps; _] =>
      let names := map (fun d => match d with JArr (nm :: _) => jstr_of nm | _ => "" end) deps in
      list_eqb String.eqb (isort dep_less names) names
  | _ => false
  end.
Definition file_deps_sorted (f : jval) : bool :=
  match f with JArr (JArr ns :: _) => forallb node_deps_sorted ns | _ => false end.

Definition orelse (o : option jval) (d : jval) : jval := match o with Some x => x | None => d end.

(* model vs implementation *)
Definition corr_ok (c : case) : bool :=
  match c with
  | CTable obs => list_eqb ty_eqb obs the_table
  | CHist modulo ops oks before _ file1 _ reload_ok after _ file2 _ _ cont text1 =>
      let '(s, moks) := run_from the_table empty ops in
      match text1 with
      | None => true
      | Some (h, t) =>   (* byte for byte: the model's schema rendered as encoding/json writes it *)
          let sc := encode the_table s in
          negb (schema_plain sc) || String.eqb (the_render h sc) t
      end &&
      match cont with
      | None => true
      | Some k =>   (* the model carries on from the state it reached (decode (encode s) = s is a theorem) *)
          let '(s2, moks2) := run_from the_table s (c_ops k) in
          list_eqb Bool.eqb moks2 (c_oks_live k) && jval_eqb (jinst the_table s2) (c_live k)
          && jval_eqb (jschema (encode the_table s2)) (c_file_live k) && values_canonical s2
      end &&
      list_eqb Bool.eqb moks oks
      && values_canonical s        (* s is compared with the observed structure next: these are the implementation's values *)
      && jval_eqb (jinst the_table s) before
      && jval_eqb (jschema (encode the_table s)) file1
      && (if modulo then jval_eqb (jinst the_table s) (orelse after before)
          else match decode the_table (encode the_table s) with
               | Some s' => reload_ok && jval_eqb (jinst the_table s') (orelse after before)
                            && jval_eqb (jschema (encode the_table s')) (orelse file2 file1)
               | None => negb reload_ok
               end)
  | CFile f1 _ _ _ _ _ => file_deps_sorted f1
  end.

(* the property itself, judged on what the implementation returned (the model is not consulted) *)
Definition prop_ok (c : case) : bool :=
  match c with
  | CTable _ => true
  | CHist _ _ _ before arts_before file1 digs reload_ok after arts_after file2 dig2 dig_app cont _ =>
      match cont with
      | None => true
      | Some k =>   (* the reloaded graph carries on exactly as the one that was saved *)
          list_eqb Bool.eqb (c_oks_live k) (c_oks_re k)
          && jval_eqb (c_live k) (orelse (c_re k) (c_live k))
          && jval_eqb (c_arts_live k) (orelse (c_arts_re k) (c_arts_live k))
          && jval_eqb (c_file_live k) (orelse (c_file_re k) (c_file_live k))
          && all_eqN (c_digs k)
          && jval_eqb (c_live k) (orelse (c_again k) (c_live k))   (* save -> edit -> save -> load: the second save is current *)
      end &&
      reload_ok
      && jval_eqb before (orelse after before)                  (* same nodes, wiring incl. array order, parameter records, producers, metadata *)
      && jval_eqb arts_before (orelse arts_after arts_before)   (* same artifact content *)
      && jval_eqb file1 (orelse file2 file1)                    (* same saved structure *)
      && all_eqN (digs ++ dig2 ++ [dig_app])   (* the live application saved repeatedly, the reloaded one saved repeatedly, the bare reloaded instance: same bytes *)
  | CFile f1 f2 a1 a2 d1 d2 =>
      jval_eqb f1 (orelse f2 f1) && jval_eqb a1 (orelse a2 a1) && N.eqb d1 d2
  end.
