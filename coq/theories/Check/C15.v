(* C15 correspondence: cases written by harness/cmd/c15 are evaluated here by vm_compute.
   Every float64 the implementation consumed or returned is passed as the exact dyadic rational it
   is ([Dy m e] / [FD m e] = m * 2^e), so all comparisons below are exact rational arithmetic. *)
From PF Require Export Base.Bytes Formats.Splat Formats.SplatExtra Formats.Spz Formats.SpzExtra Check.Common.
From Coq Require String.
Notation string := String.string.
Open Scope N_scope.

(* ---------- shared helpers ---------- *)
Fixpoint list_eqb {A} (eqb : A -> A -> bool) (a b : list A) : bool :=
  match a, b with
  | [], [] => true
  | x :: a', y :: b' => eqb x y && list_eqb eqb a' b'
  | _, _ => false
  end.
Fixpoint forall2b {A B} (f : A -> B -> bool) (a : list A) (b : list B) : bool :=
  match a, b with
  | [], [] => true
  | x :: a', y :: b' => f x y && forall2b f a' b'
  | _, _ => false
  end.
Definition bytes_eqb := list_eqb N.eqb.
Definition w3_eqb (a b : w3) : bool :=
  let '(x, y, z) := a in let '(x', y', z') := b in (x =? x') && (y =? y') && (z =? z').

Definition tol : Q := Qmake 1 1000000000000.                 (* 1e-12 *)
Definition qclose (a b : Q) : bool := Qle_bool (Qabs (a - b)) tol.
Definition qeq (a b : Q) : bool := Qeq_bool a b.

(* a float64 returned by the implementation *)
Inductive fval := FD (m e : Z) | FPInf | FNInf | FNaN.
Definition fq (f : fval) : option Q := match f with FD m e => Some (dy2q (Dy m e)) | _ => None end.
Definition f_is (test : Q -> bool) (f : fval) : bool := match fq f with Some q => test q | None => false end.
Definition f_eq (q : Q) := f_is (qeq q).
Definition f_close (q : Q) := f_is (qclose q).
Definition xv_eq (x : xval) (f : fval) : bool :=
  match x, f with
  | XQ q, FD _ _ => f_eq q f
  | XPInf, FPInf | XNInf, FNInf | XNaN, FNaN => true
  | _, _ => false
  end.

(* ---------- .splat ---------- *)
Definition dy3 := (dy * dy * dy)%type.
Definition dy4 := (dy * dy * dy * dy)%type.
(* input splat: position words, words of float32(exp(scale)), FDC, sigmoid(opacity), rotation *)
Inductive isplat := IS (pos scale : w3) (col : dy3) (alpha : dy) (rot : dy4).
(* splat returned by splat.Read: position as float32 words, FDC and rotation as returned *)
Inductive osplat := OS (pos : w3) (col : dy3) (rot : dy4).

Definition to_splat (shift : Z) (i : isplat) : splat :=
  let '(IS p s (c0, c1, c2) a (r0, r1, r2, r3)) := i in
  let sh (exact : bool) (d : dy) : Q :=
      let q := dy2q d in
      if (shift =? 0)%Z || exact then q else (q + inject_Z shift * margin q)%Q in
  let c := sh false in let r d := sh (short_dyadic d) d in
  {| sp_pos := p; sp_scale := s; sp_col := (c c0, c c1, c c2); sp_alpha := sh false a;
     sp_rot := (r r0, r r1, r r2, r r3) |}.

Definition between (lo x hi : N) : bool := (lo <=? x) && (x <=? hi).
Fixpoint between_l (lo x hi : list N) : bool :=
  match lo, x, hi with
  | [], [], [] => true
  | a :: lo', b :: x', c :: hi' => between a b c && between_l lo' x' hi'
  | _, _, _ => false
  end.

Definition osplat_corr (m : rsplat) (o : osplat) : bool :=
  let '(OS p (c0, c1, c2) (r0, r1, r2, r3)) := o in
  let '(mc0, mc1, mc2) := o_col m in
  let '(mr0, mr1, mr2, mr3) := o_rot m in
  w3_eqb (o_pos m) p
  && qclose mc0 (dy2q c0) && qclose mc1 (dy2q c1) && qclose mc2 (dy2q c2)
  && qeq mr0 (dy2q r0) && qeq mr1 (dy2q r1) && qeq mr2 (dy2q r2) && qeq mr3 (dy2q r3).

Definition read_corr (bytes : list N) (rd_ok : bool) (rd : list osplat) : bool :=
  let '(ms, ok) := Splat.read bytes in
  Bool.eqb ok rd_ok && forall2b osplat_corr ms rd.

(* direct oracle pieces *)
Definition step_col : Q := (Qmake 1 255 + Qmake 1 1099511627776)%Q.       (* 1/255 + 2^-40 float slack *)
Definition step_rot : Q := Qmake 1 128.
Definition col_within (c rc : dy) : bool :=
  Qle_bool (Qabs ((dy2q rc * SH_C0 + (1 # 2)) - clamp (col_pre (dy2q c)) 0 1)) step_col.
Definition rot_within (r rr : dy) : bool :=
  Qle_bool (Qabs (dy2q rr - clamp (dy2q r) (-1) (Qmake 127 128))) step_rot.

Definition splat_prop1 (i : isplat) (o : osplat) : bool :=
  let '(IS p _ (c0, c1, c2) _ (r0, r1, r2, r3)) := i in
  let '(OS p' (d0, d1, d2) (s0, s1, s2, s3)) := o in
  w3_eqb p p'
  && col_within c0 d0 && col_within c1 d1 && col_within c2 d2
  && rot_within r0 s0 && rot_within r1 s1 && rot_within r2 s2 && rot_within r3 s3.

(* record k of a byte string, read directly *)
Definition word_at (bytes : list N) (o : nat) : N :=
  match de_le32 (firstn 4 (skipn o bytes)) with Some w => w | None => 0 end.
(* the stored record k of the written file against the INPUT: scale words are the words of
   float32(exp scale), the opacity byte is within one step of sigmoid(opacity) *)
Definition stored_prop1 (bytes : list N) (k : nat) (i : isplat) : bool :=
  let b := (32 * k)%nat in
  let '(IS _ s _ a _) := i in
  w3_eqb s (word_at bytes (b + 12), word_at bytes (b + 16), word_at bytes (b + 20))
  && Qle_bool (Qabs (bq (nth (b + 27) bytes 0) / 255 - dy2q a)) step_col.
Fixpoint stored_prop (bytes : list N) (k : nat) (cloud : list isplat) : bool :=
  match cloud with [] => true | i :: r => stored_prop1 bytes k i && stored_prop bytes (S k) r end.
Definition raw_prop1 (bytes : list N) (k : nat) (o : osplat) : bool :=
  let b := (32 * k)%nat in
  let '(OS p (d0, d1, d2) (s0, s1, s2, s3)) := o in
  let byteq (o : nat) : Q := bq (nth o bytes 0) in
  let colb (j : nat) (d : dy) :=
      Qle_bool (Qabs ((dy2q d * SH_C0 + (1 # 2)) * 255 - byteq (b + 24 + j)%nat)) (Qmake 1 1000000000) in
  let rotb (j : nat) (d : dy) :=
      qeq (dy2q d) ((byteq (b + 28 + j)%nat - 128) / 128)%Q in
  w3_eqb p (word_at bytes b, word_at bytes (b + 4), word_at bytes (b + 8))
  && colb 0%nat d0 && colb 1%nat d1 && colb 2%nat d2
  && rotb 0%nat s0 && rotb 1%nat s1 && rotb 2%nat s2 && rotb 3%nat s3.
Fixpoint raw_prop (bytes : list N) (k : nat) (rd : list osplat) : bool :=
  match rd with [] => true | o :: rd' => raw_prop1 bytes k o && raw_prop bytes (S k) rd' end.

(* splat.Write's checks before the record loop: topology (point or not), attribute length, attributes present;
   observed: error or not, bytes written *)
Definition guard_corr (point : bool) (n : nat) (present : list string) (werr : bool) (nbytes : N) : bool :=
  match write_guard point n present with
  | WNothing => negb werr && (nbytes =? 0)
  | WError => werr && (nbytes =? 0)
  | WRecords => negb werr && (nbytes =? 32 * N.of_nat n)
  end.
(* the property's count clause on a complete cloud; nothing is demanded of the other meshes *)
Definition guard_prop (point : bool) (n : nat) (present : list string) (werr : bool) (nbytes : N) : bool :=
  if point && forallb (fun a => existsb (String.eqb a) present) required_attrs
  then negb werr && (nbytes =? 32 * N.of_nat n) else true.

(* ---------- SPZ ---------- *)
Definition f3 := (fval * fval * fval)%type.
Definition f4 := (fval * fval * fval * fval)%type.
(* what spz.Read returned: header, number of Float3 attributes on the mesh, attribute arrays
   (absent attribute = empty list), SH_0 .. SH_{k-1} in order *)
Inductive ispz := ISpz (hdr : header) (nv3 : nat) (pos : list f3) (alpha : list fval)
                       (col scale : list f3) (rot : list f4) (sh : list (list f3)).

Definition header_eqb (a b : header) : bool :=
  (h_magic a =? h_magic b) && (h_version a =? h_version b) && (h_npoints a =? h_npoints b)
  && (h_shdeg a =? h_shdeg b) && (h_fb a =? h_fb b) && (h_flags a =? h_flags b)
  && (h_reserved a =? h_reserved b).

Definition x3_eq (x : x3) (f : f3) : bool :=
  let '(a, b, c) := x in let '(a', b', c') := f in xv_eq a a' && xv_eq b b' && xv_eq c c'.
Definition q3_eq (x : Spz.q3) (f : f3) : bool :=
  let '(a, b, c) := x in let '(a', b', c') := f in f_eq a a' && f_eq b b' && f_eq c c'.
Definition q3_close (x : Spz.q3) (f : f3) : bool :=
  let '(a, b, c) := x in let '(a', b', c') := f in f_close a a' && f_close b b' && f_close c c'.
(* rotation: xyz within 1e-12; w >= 0 and w^2 within 1e-12 of max 0 (1 - |xyz|^2) *)
Definition rot_close (x : Spz.q4) (f : f4) : bool :=
  let '(a, b, c, w2) := x in let '(a', b', c', w') := f in
  f_close a a' && f_close b b' && f_close c c'
  && f_is (fun w => Qle_bool 0 w && qclose (w * w) w2) w'.

Definition fields_corr (n dim : nat) (f : fields) (i : ispz) : bool :=
  let '(ISpz _ nv3 pos alpha col scale rot sh) := i in
  forall2b x3_eq (f_pos f) pos && forall2b f_close (f_alpha f) alpha
  && forall2b q3_close (f_col f) col && forall2b q3_eq (f_scale f) scale
  && forall2b rot_close (f_rot f) rot
  (* zero points: modeling.NewPointCloud drops empty attributes, so no SH_d attribute exists *)
  && (if Nat.eqb n 0 then Nat.eqb (length sh) 0 else forall2b (forall2b q3_eq) (f_sh f) sh)
  && (Nat.eqb n 0 || Nat.eqb nv3 (3 + dim)).

Definition spz_corr (stream : list N) (impl : option ispz) : bool :=
  match decode stream, impl with
  | None, None => true
  | Some (h, f), Some i =>
      let '(ISpz h' _ _ _ _ _ _ _) := i in
      header_eqb h h' && fields_corr (N.to_nat (h_npoints h)) (sh_dim (h_shdeg h)) f i
  | _, _ => false
  end.

Definition prec_okb (h : header) (p : prec) : bool :=
  Nat.eqb (length (p_pos p)) (pos_size h) && Nat.eqb (length (p_col p)) 3
  && Nat.eqb (length (p_scale p)) 3 && Nat.eqb (length (p_rot p)) 3
  && Nat.eqb (length (p_sh p)) (3 * sh_dim (h_shdeg h)).

(* the property on the implementation's output: every array has the declared length and element i
   is the dequantised record i *)
Definition spz_prop (h : header) (recs : list prec) (impl : option ispz) : bool :=
  if validate h && (N.of_nat (length recs) =? h_npoints h) && forallb (prec_okb h) recs then
    match impl with
    | None => false
    | Some (ISpz h' nv3 pos alpha col scale rot sh) =>
        let n := length recs in
        let dim := sh_dim (h_shdeg h) in
        let ds := map (Spz.dequantise h) recs in
        header_eqb h h'
        && forall2b x3_eq (map d_pos ds) pos && forall2b f_close (map d_alpha ds) alpha
        && forall2b q3_close (map d_col ds) col && forall2b q3_eq (map d_scale ds) scale
        && forall2b rot_close (map d_rot ds) rot
        && Nat.eqb (length sh) (if Nat.eqb n 0 then 0 else dim)
        && forallb (fun '(d, shd) => forall2b (fun dsp f => q3_eq (nth d (d_sh dsp) dflt_q3) f) ds shd)
                   (combine (seq 0 (length sh)) sh)
        && (Nat.eqb n 0 || Nat.eqb nv3 (3 + dim))
    end
  else match impl with None => true | Some _ => false end.

(* spz.ReadHeader judged from the bytes alone: the four little-endian fields and the four bytes, and the
   validity rule of the format (magic "NGSP", version 1 or 2, at most 10^7 points, degree at most 3) *)
Definition le_at (l : list N) (o : nat) : N :=
  nth o l 0 + 256 * nth (o + 1) l 0 + 65536 * nth (o + 2) l 0 + 16777216 * nth (o + 3) l 0.
Definition hdr_prop (stream : list N) (hdr : option header) (ok : bool) : bool :=
  if (length stream <? 16)%nat then match hdr with None => negb ok | Some _ => false end
  else match hdr with
       | None => false
       | Some h =>
           header_eqb h {| h_magic := le_at stream 0; h_version := le_at stream 4; h_npoints := le_at stream 8;
                           h_shdeg := nth 12 stream 0; h_fb := nth 13 stream 0; h_flags := nth 14 stream 0;
                           h_reserved := nth 15 stream 0 |}
           && Bool.eqb ok ((h_magic h =? 1347635022) && ((h_version h =? 1) || (h_version h =? 2))
                           && (h_npoints h <=? 10000000) && (h_shdeg h <? 4))
       end.
Definition hdr_corr (stream : list N) (hdr : option header) (ok : bool) : bool :=
  match read_header stream, hdr with
  | None, None => negb ok
  | Some (h, v), Some h' => header_eqb h h' && Bool.eqb v ok
  | _, _ => false
  end.

(* ---------- SplatPly ---------- *)
Definition adata := (string * list (list N))%type.     (* attribute, per vertex: float32 words of its components *)

Definition row_of (data : list adata) (i : nat) : list N :=
  flat_map (fun '(a, _, _) =>
              match find (fun d => String.eqb (fst d) a) data with
              | Some (_, vs) => nth i vs []
              | None => []
              end) splatply_table.
Definition lookup (data : list adata) (a : string) : option (list (list N)) :=
  match find (fun d => String.eqb (fst d) a) data with Some (_, vs) => Some vs | None => None end.

(* ---------- large synthetic inputs ----------
   Point counts around powers of two and chunk sizes (4095 .. 65537).  A case carries only the parameters
   (n, seed, ...): the harness and this file derive the same records from them ([sbyte], [sword]), and what the
   implementation returned comes as counts and order-sensitive fingerprints (two polynomial hashes modulo 2^63
   over Coq's machine integers) of per-field integer codes.  A code is the byte / bit pattern a returned value
   dequantises from; the harness recovers it from the float (exactly for the dyadic dequantisers, to the nearest
   byte with a 1e-9 closeness test otherwise, sentinel 999 when no byte matches), so equal fingerprints mean:
   same count, same order, every field of every point the dequantised value of the expected byte. *)
From Coq Require Import Uint63.
Local Open Scope uint63_scope.
(* everything below runs on Coq's machine integers (63 bit): the values stay far below 2^63, so the
   arithmetic agrees with the harness's uint64 arithmetic *)
Definition int_of_N (n : N) : int := match n with N0 => 0 | Npos p => of_pos p end.
Definition fpt := (int * int)%type.
Definition fp0 : fpt := (0, 0).
Definition fps (h : fpt) (x : int) : fpt :=
  let '(h1, h2) := h in let v := x + 1 in (h1 * 1000003 + v, h2 * 998244353 + v).
Definition fp_out (h : fpt) : Z * Z := (to_Z (fst h), to_Z (snd h)).
Definition fp_eqb (a b : Z * Z) : bool := (fst a =? fst b)%Z && (snd a =? snd b)%Z.
Definition fp_bytes (h : fpt) (l : list N) : fpt := fold_left (fun h x => fps h (int_of_N x)) l h.
(* g 0 (g 1 ( ... )) in index order: h |-> g (n-1) (... (g 1 (g 0 h))) *)
Fixpoint fp_loop (k : nat) (i : int) (g : int -> fpt -> fpt) (h : fpt) : fpt :=
  match k with O => h | S k' => fp_loop k' (i + 1) g (g i h) end.
Definition fp_over (n : N) (g : int -> fpt -> fpt) (h : fpt) : fpt := fp_loop (N.to_nat n) 0 g h.
(* the four little-endian bytes of a 32-bit word *)
Definition fp_le32 (h : fpt) (w : int) : fpt :=
  fps (fps (fps (fps h (w land 255)) ((w >> 8) land 255)) ((w >> 16) land 255)) ((w >> 24) land 255).

(* synthetic byte of field f of point i; synthetic finite normal float32 word *)
Definition sbyte (seed i f : int) : int :=
  let v := 13 * i + 7 * f + seed in (v + (v >> 3) + (v >> 8) + 31 * f) land 255.
Definition sword (seed i k : int) : int :=
  let v := 13 * i + k + seed in
  let mant := (5 * v + (v << 9) + ((v land 127) << 16)) land 8388607 in
  let ex := 120 + ((v + (v >> 5)) land 15) in
  let sg := (v >> 2) land 1 in
  (sg << 31) + (ex << 23) + mant.

(* ---- SPZ: fields 0..8 position bytes, 9 alpha, 10..12 colour, 13..15 scale, 16..18 rotation, 19.. SH ---- *)
Definition bz_pos24 (seed i k : int) : int :=
  sbyte seed i (3 * k) + 256 * sbyte seed i (3 * k + 1) + 65536 * sbyte seed i (3 * k + 2).
(* a finite normal half pattern (exponent 1..30) from two synthetic bytes *)
Definition bz_half (seed i k : int) : int :=
  let lo := sbyte seed i (2 * k) in let hi := sbyte seed i (2 * k + 1) in
  let m := lo + 256 * (hi land 3) in
  let e := 1 + ((hi >> 2) land 15) + 14 * ((hi >> 6) land 1) in
  32768 * (hi >> 7) + 1024 * e + m.
(* fields f, f+1, ..., f+k-1 of point i *)
Fixpoint fp_fields (k : nat) (seed i f : int) (h : fpt) : fpt :=
  match k with O => h | S k' => fp_fields k' seed i (f + 1) (fps h (sbyte seed i f)) end.
Definition bz_pos_bytes (v1 : bool) (seed i : int) (h : fpt) : fpt :=
  if v1 then
    let half h k := let p := bz_half seed i k in fps (fps h (p land 255)) (p >> 8) in
    half (half (half h 0) 1) 2
  else fp_fields 9 seed i 0 h.
Definition bz_pos_codes (v1 : bool) (seed i : int) (h : fpt) : fpt :=
  let c := if v1 then bz_half seed i else bz_pos24 seed i in fps (fps (fps h (c 0)) (c 1)) (c 2).
Definition bz3 (seed f i : int) (h : fpt) : fpt := fp_fields 3 seed i f h.

Definition dimN (deg : N) : N := N.of_nat (sh_dim deg).
Definition bz_header (version deg fb n : N) : header :=
  {| h_magic := magic; h_version := version; h_npoints := n; h_shdeg := deg; h_fb := fb; h_flags := 0; h_reserved := 0 |}.
(* fingerprint of encode_ref (bz_header ..) (the n synthetic records): planar order *)
Definition bz_stream_fp (version deg fb n sd : N) : Z * Z :=
  let seed := int_of_N sd in
  let v1 := (version =? 1)%N in let dim := sh_dim deg in
  let h := fp_bytes fp0 (enc_header (bz_header version deg fb n)) in
  let h := fp_over n (bz_pos_bytes v1 seed) h in
  let h := fp_over n (fun i h => fps h (sbyte seed i 9)) h in
  let h := fp_over n (bz3 seed 10) h in
  let h := fp_over n (bz3 seed 13) h in
  let h := fp_over n (bz3 seed 16) h in
  fp_out (fp_over n (fun i => fp_fields (3 * dim) seed i 19) h).

Record bigspz := { z_hdr : header; z_nv3 : N;
  z_npos : N; z_nalpha : N; z_ncol : N; z_nscale : N; z_nrot : N; z_nsh : list N;
  z_pos_fp : Z * Z; z_alpha_fp : Z * Z; z_col_fp : Z * Z; z_scale_fp : Z * Z; z_rot_fp : Z * Z;
  z_sh_fp : Z * Z }.      (* SH codes coefficient-major: SH_0 of every point, then SH_1, ... *)

Definition listN_eqb := list_eqb N.eqb.
Fixpoint ints_from (k : nat) (a : int) : list int := match k with O => [] | S k' => a :: ints_from k' (a + 1) end.
Definition bigspz_ok (version deg fb n sd : N) (z : bigspz) : bool :=
  let seed := int_of_N sd in
  let v1 := (version =? 1)%N in let dim := sh_dim deg in
  (header_eqb (z_hdr z) (bz_header version deg fb n)
  && (z_npos z =? n) && (z_nalpha z =? n) && (z_ncol z =? n) && (z_nscale z =? n) && (z_nrot z =? n)
  && listN_eqb (z_nsh z) (repeat n dim)
  && (z_nv3 z =? 3 + N.of_nat dim))%N
  && fp_eqb (z_pos_fp z) (fp_out (fp_over n (bz_pos_codes v1 seed) fp0))
  && fp_eqb (z_alpha_fp z) (fp_out (fp_over n (fun i h => fps h (sbyte seed i 9)) fp0))
  && fp_eqb (z_col_fp z) (fp_out (fp_over n (bz3 seed 10) fp0))
  && fp_eqb (z_scale_fp z) (fp_out (fp_over n (bz3 seed 13) fp0))
  && fp_eqb (z_rot_fp z) (fp_out (fp_over n (bz3 seed 16) fp0))
  && fp_eqb (z_sh_fp z)
       (fp_out (fold_left (fun h d => fp_over n (bz3 seed (19 + 3 * d)) h) (ints_from dim 0) fp0)).

(* ---- .splat: every quantised input sits in the middle of a step (byte j + 1/2), j = 4k + 1, so that the
   property's +-1 step still determines floor(byte / 4) = k (coarse codes: the direct oracle) and the model's
   answer is exactly byte j (exact codes: the correspondence) ---- *)
Definition bs_k (seed i f : int) : int := sbyte seed i f land 63.
Definition bs_kop (seed i : int) : int := let k := bs_k seed i 27 in if k =? 63 then 31 else k.   (* opacity byte <= 249 *)
(* the eight byte fields of point i through [c] (coarse: k itself, exact: 4k+1) *)
Definition bs_ks (c : int -> int) (seed i : int) (h : fpt) : fpt :=
  let h := fps (fps (fps h (c (bs_k seed i 24))) (c (bs_k seed i 25))) (c (bs_k seed i 26)) in
  let h := fps h (c (bs_kop seed i)) in
  fps (fps (fps (fps h (c (bs_k seed i 28))) (c (bs_k seed i 29))) (c (bs_k seed i 30))) (c (bs_k seed i 31)).
Definition exactj (k : int) : int := 4 * k + 1.
Definition bs_pos (f : fpt -> int -> fpt) (seed i : int) (h : fpt) : fpt :=
  f (f (f h (sword seed i 0)) (sword seed i 1)) (sword seed i 2).
Definition stab_at (stab : list int) (j : int) : int := nth (Z.to_nat (to_Z (j land 7))) stab 0.
Definition bs_scale (f : fpt -> int -> fpt) (stab : list int) (seed i : int) (h : fpt) : fpt :=
  f (f (f h (stab_at stab (i + seed))) (stab_at stab (i + 1 + seed))) (stab_at stab (i + 2 + seed)).
Definition bs_record (stab : list int) (seed i : int) (h : fpt) : fpt :=
  bs_ks exactj seed i (bs_scale fp_le32 stab seed i (bs_pos fp_le32 seed i h)).

Record bigsplat := { s_len : N; s_file_fp : Z * Z; s_scale_fp : Z * Z;     (* written file *)
  s_rd_ok : bool; s_rd_n : N; s_pos_fp : Z * Z; s_coarse_fp : Z * Z; s_exact_fp : Z * Z }.   (* read back *)

(* ---- SplatPly: attribute ai (table order), vertex i, component c |-> float32 word ---- *)
Definition bp_arity (ai : int) : nat := if ai <? 4 then 3%nat else if ai =? 4 then 4%nat else 1%nat.
Fixpoint bp_comps (f : fpt -> int -> fpt) (k : nat) (s i c : int) (h : fpt) : fpt :=
  match k with O => h | S k' => bp_comps f k' s i (c + 1) (f h (sword s i c)) end.
Definition bp_attr (f : fpt -> int -> fpt) (seed ai i : int) (h : fpt) : fpt :=
  bp_comps f (bp_arity ai) (seed + 1009 * ai) i 0 h.
(* present attributes: the six named ones and f_rest_0 .. = table entries 0 .. nattr-1 *)
Definition bp_row (f : fpt -> int -> fpt) (seed : int) (attrs : list int) (i : int) (h : fpt) : fpt :=
  fold_left (fun h ai => bp_attr f seed ai i h) attrs h.
Definition bp_names (nattr : N) : list string := map (fun '(a, _, _) => a) (firstn (N.to_nat nattr) splatply_table).
Record bigply := { y_props : list string; y_body_len : N; y_body_fp : Z * Z;
  y_rd_n : N; y_back : list (string * (N * (Z * Z))) }.      (* attribute, (vertices, fp of its float32 words) *)
Local Close Scope uint63_scope.

(* ---------- cases ---------- *)
Inductive case :=
| CSplat (cloud : list isplat) (impl_bytes : list N) (rd_ok : bool) (rd : list osplat)
| CSplatRead (bytes : list N) (rd_ok : bool) (rd : list osplat)
| CSplatGuard (point : bool) (n : nat) (present : list string) (werr : bool) (nbytes : N)
| CSpz (h : header) (recs : list prec) (stream : list N) (impl : option ispz)
| CSpzRaw (stream : list N) (impl : option ispz)
(* spz.ReadHeader on (the first bytes of) a stream: returned header, no-error flag *)
| CSpzHdr (stream : list N) (hdr : option header) (ok : bool)
| CPly (n : nat) (data : list adata) (hdr_props : list string) (body : list N) (back : list adata)
(* large synthetic inputs (see above) *)
| CBigSpz (version deg fb n seed : N) (stream_fp : Z * Z) (impl : option bigspz)
| CBigSplat (n seed : N) (stab : list N) (impl : bigsplat)
| CBigPly (n seed nattr : N) (impl : bigply).

Definition corr_ok (c : case) : bool :=
  match c with
  | CSplat cloud ib rd_ok rd =>
      let lo := write (map (to_splat (-1)) cloud) in
      let ex := write (map (to_splat 0) cloud) in
      let hi := write (map (to_splat 1) cloud) in
      between_l lo ex hi && between_l lo ib hi && read_corr ib rd_ok rd
  | CSplatRead bytes rd_ok rd => read_corr bytes rd_ok rd
  | CSplatGuard point n present werr nbytes => guard_corr point n present werr nbytes
  | CSpz h recs stream impl => bytes_eqb (encode_ref h recs) stream && spz_corr stream impl
  | CSpzRaw stream impl => spz_corr stream impl
  | CSpzHdr stream hdr ok => hdr_corr stream hdr ok
  | CPly n data props body back =>
      list_eqb String.eqb (splatply_props (map fst data)) props
      && bytes_eqb (ply_body (map (row_of data) (seq 0 n))) body
  | CBigSpz version deg fb n seed sfp impl =>
      (* the stream handed to the implementation is [encode_ref h ps] of the synthetic records; by
         SpzProofs.decode_encode_ref / fields_of_nth the model's answer on it is field_i = dequantise (record i),
         which is what prop_ok compares the implementation with (equal codes are equal dequantised values:
         SpzProofs, the byte dequantisers are injective) *)
      fp_eqb sfp (bz_stream_fp version deg fb n seed)
  | CBigSplat n seed stab z =>
      (* the model writes exactly byte j for a mid-step input j + 1/2 (SplatProofs.qrot_mid; colour and opacity:
         half a step of margin against the float64 evaluation) and reads it back as the same byte *)
      let sd := int_of_N seed in let st := map int_of_N stab in
      fp_eqb (s_file_fp z) (fp_out (fp_over n (bs_record st sd) fp0))
      && fp_eqb (s_exact_fp z) (fp_out (fp_over n (bs_ks exactj sd) fp0))
  | CBigPly n seed nattr z =>
      list_eqb String.eqb (splatply_props (bp_names nattr)) (y_props z)
      && fp_eqb (y_body_fp z)
           (fp_out (fp_over n (bp_row fp_le32 (int_of_N seed) (ints_from (N.to_nat nattr) 0%uint63)) fp0))
  end.

Definition prop_ok (c : case) : bool :=
  match c with
  | CSplat cloud ib rd_ok rd =>
      Nat.eqb (length ib) (32 * length cloud) && rd_ok && forall2b splat_prop1 cloud rd
      && stored_prop ib 0 cloud
  | CSplatRead bytes rd_ok rd =>
      Nat.eqb (length rd) (length bytes / 32) && Bool.eqb rd_ok (Nat.eqb (length bytes mod 32) 0)
      && raw_prop bytes 0 rd
  | CSplatGuard point n present werr nbytes => guard_prop point n present werr nbytes
  | CSpz h recs _ impl => spz_prop h recs impl
  | CSpzRaw _ _ => true
  | CSpzHdr stream hdr ok => hdr_prop stream hdr ok
  | CPly n data props body back =>
      (* every attribute of the cloud comes back under its name with the same float32 words *)
      forallb (fun '(a, vs) =>
                 Nat.eqb (length vs) n &&
                 match lookup back a with
                 | Some ws => list_eqb (list_eqb N.eqb) vs ws
                 | None => Nat.eqb n 0
                 end) data
      && Nat.eqb (length body) (4 * n * length props)
  | CBigSpz version deg fb n seed _ impl =>
      match impl with Some z => bigspz_ok version deg fb n seed z | None => false end
  | CBigSplat n seed stab z =>
      let sd := int_of_N seed in let st := map int_of_N stab in
      (s_len z =? 32 * n) && s_rd_ok z && (s_rd_n z =? n)
      && fp_eqb (s_pos_fp z) (fp_out (fp_over n (bs_pos fps sd) fp0))
      && fp_eqb (s_scale_fp z) (fp_out (fp_over n (bs_scale fps st sd) fp0))
      && fp_eqb (s_coarse_fp z) (fp_out (fp_over n (bs_ks (fun k => k) sd) fp0))
  | CBigPly n seed nattr z =>
      (y_rd_n z =? n) && (y_body_len z =? 4 * n * N.of_nat (length (y_props z)))
      && forallb (fun '(ai, name) =>
                    match find (fun e => String.eqb (fst e) name) (y_back z) with
                    | Some (_, (cnt, f)) => (cnt =? n) && fp_eqb f (fp_out (fp_over n (bp_attr fps (int_of_N seed) ai) fp0))
                    | None => false
                    end) (combine (ints_from (N.to_nat nattr) 0%uint63) (bp_names nattr))
  end.
