(* C16 correspondence: cases written by harness/cmd/c16 are evaluated here by vm_compute.
   corr_ok: the model (Trees/Octree.v, Trees/Bvh.v) reproduces what the implementation returned
            (the dumped tree structure, every query result in the implementation's order).
   prop_ok: the property itself on the implementation's output: every query result equals the
            exhaustive scan over all elements (as a set / minimal distance, ties accepted); the scan
            uses the implementation's own per-element BoundingBox, IntersectsRayInRange result,
            ClosestPoint and DistanceSquared.  It never looks at a tree.                            *)
From PF Require Export Trees.Octree Trees.Bvh Check.Common.
From Coq Require Import Sorting.Mergesort.
Open Scope Z_scope.

(* an exact float64 value: num / 2^exp *)
Definition dy := (Z * N)%type.
Definition dyq (d : dy) : Q := Qmake (fst d) (Pos.shiftl 1 (snd d)).
Definition dvec := (dy * dy * dy)%type.
Definition dvq (d : dvec) : qvec := let '(x, y, z) := d in (dyq x, dyq y, dyq z).

(* a float64 vector as three bit patterns (compared for identity only) *)
Definition fpt := (N * N * N)%type.
Definition fpt_eqb (a b : fpt) : bool :=
  let '(a1, a2, a3) := a in let '(b1, b2, b3) := b in N.eqb a1 b1 && N.eqb a2 b2 && N.eqb a3 b3.
Definition fzero : fpt := (0%N, 0%N, 0%N).

Inductive query :=
| QContain (p : pt) (res : list nat)
| QWithin (p : pt) (d : Z) (res : list nat)
  (* ElementsIntersectingRay (res) and TraverseIntersectingRay with an iterator that leaves the range
     alone (trav); elhit = every element's own bounds.IntersectsRayInRange *)
| QRay (o : pt) (dir : dvec) (lo hi : dy) (elhit : list bool) (res trav : list nat)
  (* TraverseIntersectingRay with the iterator  if caps[i] < *max { *max = caps[i] };
     hit_hi / hit_lo = every element's own test on (lo,hi) and on (lo, min(hi, all caps)) *)
| QTrav (o : pt) (dir : dvec) (lo hi : dy) (caps : list dy) (hit_hi hit_lo : list bool) (res : list nat)
  (* ClosestPoint: keys = every element's ClosestPoint(p).DistanceSquared(p) * 16 * 2^kexp,
     pts = every element's ClosestPoint(p); ridx, rpt = what the tree returned *)
| QClosest (p : pt) (kexp : N) (keys : list Z) (pts : list fpt) (ridx : Z) (rpt : fpt)
  (* not a query: the mesh the element set was taken from (Mesh.OctTree / OctTreeDepth /
     OctTreeWithAttributeAndDepth): kind 0 point cloud, 1 line strip, 2 triangles; verts = the values of
     the attribute the tree was built on.  Element i must be mesh primitive i with that primitive's box. *)
| QMesh (kind : nat) (verts : list pt) (idx : list nat)
  (* not a query either: one element's own ClosestPoint(p) as Go computed it (gp: exact float values, x4)
     next to the element's corners: kind 1 segment a-b (c unused), kind 2 triangle a b c of non-zero area.
     The exact rational models seg_closest / tri_closest, about which closest_eq_brute_segments /
     closest_eq_brute_triangles are proved, must give that point up to float rounding. *)
| QElem (kind : nat) (a b c : pt) (p : pt) (gp : dy * dy * dy).

Inductive case :=
| COct (boxes : list box) (depth : option nat) (impl_tree : option tree) (qs : list query)
  (* one ray against a BVH: leaf boxes, per leaf tVal / Distance, the dumped structure, what
     BVHNode.Hit and HitList.Hit returned (Distance when hit) *)
| CBvh (lboxes : list box) (tvs : list (option dy)) (dists : list dy) (structure : bvh)
       (o : pt) (dir : dvec) (lo hi : dy) (impl lst : option dy)
       (* further nearest-hit searches over the same objects: rendering.Tree.Hit (octree over the objects'
          boxes + ElementsIntersectingRay) and, for pure triangle sets, rendering.Mesh.Hit
          (TraverseIntersectingRay with the narrowing iterator) *)
       (extra : list (option dy)).

Definition nat_list_eqb := list_eqb Nat.eqb.
Definition idxs_where (bs : list bool) : list nat :=
  map fst (filter snd (combine (seq 0 (length bs)) bs)).
Definition same_set (res expected : list nat) : bool := nat_list_eqb (NatSort.sort res) expected.
Fixpoint strictly_inc (l : list nat) : bool :=
  match l with
  | a :: ((b :: _) as r) => Nat.ltb a b && strictly_inc r
  | _ => true
  end.
Definition memb (i : nat) (l : list nat) : bool := existsb (Nat.eqb i) l.

Definition mkray (o : pt) (dir : dvec) : ray := (o, dvq dir).
Definition capit (caps : list dy) (i : nat) (r : Q * Q) : Q * Q :=
  match nth_error caps i with
  | Some c => if Qltb (dyq c) (snd r) then (fst r, dyq c) else r
  | None => r
  end.
Definition qmin (a b : Q) : Q := if Qltb b a then b else a.

(* ---------- the direct oracle ---------- *)
(* "the ray crosses the box within the range", stated independently of the sequential slab code: the
   set of parameters t with  lo < t < hi  and, on every axis, the point o + t*d strictly inside the
   (kEpsilon-inflated) slab — or, for a zero direction component, the origin inside the closed slab —
   is an open interval (max of the lower ends, min of the upper ends); the ray crosses iff it is
   non-empty. *)
Definition axis_iv (o d bl bh : Q) : option (option (Q * Q)) :=      (* None: no t at all; Some None: every t *)
  match Qcompare d 0 with
  | Eq => if Qle_bool bl o && Qle_bool o bh then Some None else None
  | Lt => Some (Some ((bh - o) / d, (bl - o) / d))
  | Gt => Some (Some ((bl - o) / d, (bh - o) / d))
  end%Q.
Definition qmax (a b : Q) : Q := if Qltb a b then b else a.
Definition narrow (r : Q * Q) (iv : option (Q * Q)) : Q * Q :=
  match iv with Some (a, b) => (qmax (fst r) a, (if Qltb b (snd r) then b else snd r)) | None => r end.
Definition ray_spec (b : box) (ry : ray) (r : Q * Q) : bool :=
  let '(o, (dx, dy, dz)) := ry in
  match axis_iv (q4 (px o)) dx (q4 (px (bmin b)) - keps) (q4 (px (bmax b)) + keps),
        axis_iv (q4 (py o)) dy (q4 (py (bmin b)) - keps) (q4 (py (bmax b)) + keps),
        axis_iv (q4 (pz o)) dz (q4 (pz (bmin b)) - keps) (q4 (pz (bmax b)) + keps) with
  | Some ix, Some iy, Some iz =>
      let r' := narrow (narrow (narrow r ix) iy) iz in Qltb (fst r') (snd r')
  | _, _, _ => false
  end%Q.

(* squared distance (model units: Go x4) allowed between Go's float64 closest point of an element and the
   exact rational model's: 1e-12, i.e. 2.5e-7 in Go units - far above float rounding on the generated
   coordinates (|x| <= ~1e3), far below any geometric difference *)
Definition elem_tol : Q := 1 # 1000000000000.

Definition qprop (boxes : list box) (q : query) : bool :=
  let n := length boxes in
  match q with
  | QContain p res => same_set res (idxs_where (map (inb p) boxes))
  | QWithin p d res => same_set res (idxs_where (map (fun b => negb (far b p d)) boxes))
  | QRay o dir lo hi elhit res trav =>
      Nat.eqb (length elhit) n && same_set res (idxs_where elhit) && same_set trav (idxs_where elhit) &&
      (* the per-element bounds test itself means "the ray crosses the box" *)
      list_eqb Bool.eqb (map (fun b => ray_spec b (mkray o dir) (dyq lo, dyq hi)) boxes) elhit
  | QTrav _ _ _ _ _ hit_hi hit_lo res =>
      Nat.eqb (length hit_hi) n && Nat.eqb (length hit_lo) n &&
      strictly_inc (NatSort.sort res) &&
      forallb (fun i => nth i hit_hi false) res &&
      forallb (fun i => memb i res) (idxs_where hit_lo)
  | QClosest _ _ keys pts ridx rpt =>
      Nat.eqb (length keys) n && Nat.eqb (length pts) n &&
      (0 <=? ridx) &&
      let i := Z.to_nat ridx in
      Nat.ltb i n && fpt_eqb rpt (nth i pts fzero) &&
      forallb (fun k => nth i keys 0 <=? k) keys
  | QMesh kind verts idx => list_eqb box_eqb (mesh_boxes kind verts idx) boxes
  | QElem kind a b c p gp =>
      let m := match kind with 1%nat => seg_closest a b p | _ => tri_closest a b c p end in
      let '(gx, gy, gz) := gp in
      Qle_bool (qdist2q m (dyq gx, dyq gy, dyq gz)) elem_tol
  end.

Definition opt_dy_eqb (a b : option dy) : bool :=
  match a, b with
  | Some x, Some y => Qeq_bool (dyq x) (dyq y)
  | None, None => true
  | _, _ => false
  end.
Definition opt_q_dy_eqb (a : option Q) (b : option dy) : bool :=
  match a, b with
  | Some x, Some y => Qeq_bool x (dyq y)
  | None, None => true
  | _, _ => false
  end.

(* nearest hit by exhaustive scan: the least Distance among the leaves whose tVal <= hi *)
Definition brute_hit (tvs : list (option dy)) (dists : list dy) (hi : dy) : option Q :=
  fold_left (fun (best : option Q) (td : option dy * dy) =>
               match fst td with
               | Some t => if Qle_bool (dyq t) (dyq hi)
                           then match best with
                                | Some b => Some (qmin b (dyq (snd td)))
                                | None => Some (dyq (snd td))
                                end
                           else best
               | None => best
               end) (combine tvs dists) None.

Definition prop_ok (c : case) : bool :=
  match c with
  | COct boxes _ _ qs => forallb (qprop boxes) qs
  | CBvh lboxes tvs dists _ _ _ lo hi impl lst extra =>
      (* BVHNode.Hit = HitList.Hit = exhaustive minimum (hit parameters are absolute: tVal = Distance,
         so the minimum is order independent) = every other nearest-hit search over the same objects *)
      opt_dy_eqb impl lst && opt_q_dy_eqb (brute_hit tvs dists hi) impl &&
      forallb (fun e => opt_dy_eqb e lst) extra
  end.

(* ---------- model vs implementation ---------- *)
Definition qcorr (boxes : list box) (t : tree) (q : query) : bool :=
  match q with
  | QContain p res => nat_list_eqb (containing t p) res
  | QWithin p d res => nat_list_eqb (within t p d) res
  | QRay o dir lo hi elhit res trav =>
      let ry := mkray o dir in
      let r := (dyq lo, dyq hi) in
      list_eqb Bool.eqb (map (fun b => slab b ry r) boxes) elhit &&
      nat_list_eqb (ray_hits t ry r) res &&
      nat_list_eqb (traverse (fun _ r => r) t ry r) trav
  | QTrav o dir lo hi caps hit_hi hit_lo res =>
      let ry := mkray o dir in
      let r := (dyq lo, dyq hi) in
      let rl := (dyq lo, fold_left (fun m c => qmin m (dyq c)) caps (dyq hi)) in
      list_eqb Bool.eqb (map (fun b => slab b ry r) boxes) hit_hi &&
      list_eqb Bool.eqb (map (fun b => slab b ry rl) boxes) hit_lo &&
      nat_list_eqb (traverse (capit caps) t ry r) res
  | QClosest p kexp keys pts ridx rpt =>
      let ks := 2 ^ Z.of_N kexp in
      (* the modelling hypothesis on the elements: ClosestPoint lies in the element's own box *)
      forallb (fun bk => boxdist2 (fst bk) p * ks <=? snd bk) (combine boxes keys) &&
      match closest fpt (fun i => nth i keys 0) (fun i => nth i pts fzero) ks p t with
      | Some (i, k, pp) =>
          (k =? nth (Z.to_nat ridx) keys (-1)) &&
          ((Z.of_nat i =? ridx) && fpt_eqb pp rpt
           || Nat.ltb 1 (length (filter (Z.eqb k) keys)))          (* tie: any minimiser *)
      | None => false
      end
  | QMesh _ _ _ => true
  | QElem _ _ _ _ _ _ => true
  end.

(* the invariant (OctreeProofs.inv) as a test on the implementation's own tree: every element in or
   below a cell has a well-formed box inside the cell's box; and the tree holds exactly the input
   elements, each once, with its own box *)
Definition wf_boxb (b : box) : bool :=
  (px (bmin b) <=? px (bmax b)) && (py (bmin b) <=? py (bmax b)) && (pz (bmin b) <=? pz (bmax b)).
Fixpoint invb (t : tree) : bool :=
  match t with
  | Node b els ch =>
      forallb (fun e => wf_boxb (e_box e) && box_subb (e_box e) b) (tree_elems t) &&
      (fix all (l : list tree) : bool := match l with [] => true | c :: r => invb c && all r end) ch
  end.
Definition elems_okb (boxes : list box) (t : tree) : bool :=
  let es := tree_elems t in
  nat_list_eqb (NatSort.sort (map e_idx es)) (seq 0 (length boxes)) &&
  forallb (fun e => box_eqb (e_box e) (nth (e_idx e) boxes zero_box)) es.
Definition set_eqb (a b : list nat) : bool := nat_list_eqb (NatSort.sort a) (NatSort.sort b).

(* The tie between the theorems and the implementation.  The query theorems assume nothing about a tree
   but the invariant, so the implementation's own (dumped) tree is checked against the invariant and
   the model's query functions are run ON THAT TREE; the answers must be the implementation's (as
   sets; the visiting order is not part of the contract, except where a narrowing iterator makes the
   answer depend on it).  Whether the tree is cell for cell the one the model's `build` produces is
   deliberately not required: a different octant rule that still satisfies the invariant is not a
   defect (the model's build is tied to the code by `build_agrees` below, reported separately). *)
Definition qcorr_set (boxes : list box) (t : tree) (q : query) : bool :=
  match q with
  | QContain p res => set_eqb (containing t p) res
  | QWithin p d res => set_eqb (within t p d) res
  | QRay o dir lo hi elhit res trav =>
      let ry := mkray o dir in
      let r := (dyq lo, dyq hi) in
      list_eqb Bool.eqb (map (fun b => slab b ry r) boxes) elhit &&
      set_eqb (ray_hits t ry r) res &&
      set_eqb (traverse (fun _ r => r) t ry r) trav
  | _ => qcorr boxes t q
  end.

(* does the implementation build the very tree the model builds?  (true on the pinned code; part of
   corr_ok only through the octant-independent checks above) *)
Definition build_agrees (c : case) : bool :=
  match c with
  | COct boxes depth (Some it) _ =>
      match new_octree depth boxes with Some t => tree_eqb t it | None => false end
  | _ => true
  end.

Definition corr_ok (c : case) : bool :=
  match c with
  | COct boxes depth impl_tree qs =>
      match new_octree depth boxes, impl_tree with
      | Some _, Some it => invb it && elems_okb boxes it && forallb (qcorr_set boxes it) qs
      | None, None => forallb (fun q => match q with QMesh _ _ _ => true | _ => false end) qs
      | _, _ => false
      end
  | CBvh lboxes tvs dists s o dir lo hi impl lst _ =>
      let n := length lboxes in
      let lbox := fun i => nth i lboxes zero_box in
      let tv := fun i => match nth i tvs None with Some t => Some (dyq t) | None => None end in
      let dist := fun i => dyq (nth i dists (0, 0%N)) in
      let ry := mkray o dir in
      (* structure: node boxes as NewBVHTree computes them, every leaf present *)
      bvh_wfb lbox s &&
      nat_list_eqb (nodup Nat.eq_dec (NatSort.sort (leaves s))) (seq 0 n) &&
      (* modelling hypothesis on the leaves: a hit lies inside the leaf's box *)
      forallb (fun i => match tv i with
                        | Some t => slab (lbox i) ry (dyq lo, t)
                        | None => true end) (seq 0 n) &&
      let '(h, rec) := bhit tv dist ry (dyq lo) s (dyq hi) None in
      opt_q_dy_eqb (if h then rec else None) impl &&
      let '(h', rec') := list_hit tv dist (seq 0 n) (dyq hi) false None in
      opt_q_dy_eqb (if h' then rec' else None) lst
  end.
